"""C01 Committed update transactions are serializable (db19/check.go, checkco.go, tran.go)"""
import dbcommon

META = {
 "engine": "tla-tran",
 "text": "TLC exhausts Tran.tla (2 transactions x 2-3 operations incl. asynchronous checker messages, free abort victim) for commit-point serializability; real concurrent executions of the db19 pipeline are validated by TraceDb.tla, which re-evaluates every observation of a committing transaction on the latest committed state plus its own earlier writes",
 "note": "trusts TLC, hook placement inside the state mutex, the snapshot identification by Meta pointer; schedules of the free-running part are whatever the Go runtime produces (plus gate-driven ones)",
 "technique": "TLA+ model checking (TLC) + trace validation of real concurrent executions",
}

def run(ctx):
    import trancommon
    trancommon.exhaustive(ctx, "C01")
    # (a) op-level interleavings of 2-3 colliding transactions driven from one goroutine
    dbcommon.run_db(ctx, "tranpairs", 60 if ctx.thorough() else 6, "C01p")
    # (b) free-running concurrent clients against the real checker/merger/persist goroutines
    dbcommon.run_db(ctx, "tran", 24 if ctx.thorough() else 2, "C01c")
    # (c) the same with exclusive schema operations (index builds on the populated table,
    #     window held open) running against the writers
    dbcommon.run_db(ctx, "admin", 12 if ctx.thorough() else 1, "C01a")
    ctx.assumptions += dbcommon.ASSUME
