"""C02 Transactions read a stable snapshot (db19/tran.go, state.go, meta)"""
import dbcommon

META = {
 "engine": "tla-tran",
 "text": "TLC exhausts Tran.tla for snapshot stability (action property) together with serializability; in real concurrent executions (commits, merges and persists running) every lookup and scan result of every read and update transaction must equal evaluation on the exact state its snapshot was taken from plus its own writes (TraceDb.tla), and that state must be one that was current between the call and the return of the begin",
 "note": "trusts TLC, hook placement inside the state mutex, the snapshot identification by Meta pointer; schedules of the free-running part are whatever the Go runtime produces (plus gate-driven ones)",
 "technique": "TLA+ model checking (TLC) + trace validation of real concurrent executions",
}

def run(ctx):
    import trancommon
    trancommon.exhaustive(ctx, "C02")
    # (a) op-level interleavings of 2-3 colliding transactions driven from one goroutine
    dbcommon.run_db(ctx, "tranpairs", 60 if ctx.thorough() else 6, "C02p")
    # (b) free-running concurrent clients against the real checker/merger/persist goroutines
    dbcommon.run_db(ctx, "tran", 24 if ctx.thorough() else 2, "C02c")
    # (c) 40 tables: table infos in deeper nodes of the persistent metadata map, long-lived readers
    dbcommon.run_db(ctx, "wide", 12 if ctx.thorough() else 1, "C02w")
    # (d) a table with multi-level btrees (leaf splits while persisting) under long-lived readers
    dbcommon.run_db(ctx, "big", 4 if ctx.thorough() else 1, "C02b")
    ctx.assumptions += dbcommon.ASSUME
