"""C03 Commit is atomic and its outcome is reported truthfully (db19/tran.go, checkco.go, meta/info.go)"""
import dbcommon

META = {
 "engine": "tla-tran",
 "text": "TLC exhausts Tran.tla for AtomicCommit/OutcomeTruthful; in real concurrent executions the logical database reconstructed by TraceDb.tla changes only at commit state updates by exactly the committing transaction's writes, Complete's answer must match, every reader must see exactly a committed prefix, and Nrows/Size/BtreeNrows/Deltas of every published state must equal the actual rows and bytes",
 "note": "trusts TLC, hook placement inside the state mutex, the snapshot identification by Meta pointer; schedules of the free-running part are whatever the Go runtime produces (plus gate-driven ones)",
 "technique": "TLA+ model checking (TLC) + trace validation of real concurrent executions",
}

def run(ctx):
    import trancommon
    trancommon.exhaustive(ctx, "C03")
    # (a) op-level interleavings of 2-3 colliding transactions driven from one goroutine
    dbcommon.run_db(ctx, "tranpairs", 60 if ctx.thorough() else 6, "C03p")
    # (b) free-running concurrent clients against the real checker/merger/persist goroutines
    dbcommon.run_db(ctx, "tran", 24 if ctx.thorough() else 2, "C03c")
    # (c) a transaction that runs into the write limit (10000), catches the error and tries to commit
    dbcommon.run_db(ctx, "limit", 2 if ctx.thorough() else 1, "C03l")
    ctx.assumptions += dbcommon.ASSUME
