"""C04 Clean shutdown and reopen preserve the database exactly (db19 close/persist/OpenDbStor, meta chains)"""
import durcommon

META = {
 "engine": "tla-durable",
 "text": "TLC exhausts Durable.tla (commits, partial merges, persists, clean close, reopen) for CleanReopenExact / NothingUncommitted; real mmap database files built by random histories of schema changes (create/ensure/alter/rename/drop/views/foreign keys), transactions and persists on the real pipeline are closed and reopened repeatedly and TraceDurable.tla requires the reopened content (schema text with both foreign key directions, views, rows through every index, counts) to equal both the content visible before closing and the last state record written",
 "note": "trusts TLC, the persist hook placement, sha1 digests of content read through the real code; the per-operation semantics of the history are checked elsewhere (C01-C08, C21)",
 "technique": "TLA+ model checking (TLC) + trace validation of real database files",
}

def run(ctx):
    durcommon.exhaustive(ctx, "C04")
    # the in-memory side of a clean close (drain merges, final persist of every modified table)
    ctx.tlc_mc("Pipeline.tla", "Pipeline_quick.cfg", timeout=300)
    ctx.tlc_mc("Pipeline.tla", "Pipeline_dev_f20.cfg", timeout=300, expect_violation="ReopenSeesAll", count=False)
    for k in range(4 if ctx.thorough() else 1):
        durcommon.run_file(ctx, "reopen", 60 if ctx.thorough() else 4, 0, "C04" + "abcd"[k:k+1] * (k > 0))
    ctx.assumptions += durcommon.ASSUME
