"""C05 Crash recovery restores the latest durable state (db19/repair.go, checkdb.go, database.go OpenDbStor, stor)"""
import durcommon

META = {
 "engine": "tla-durable",
 "text": "TLC exhausts Durable.tla (every crash point incl. a cut inside a block, tails none/zeros/garbage; open refused unless marked; repair keeps the newest complete state) and checks the transcribed repair search (exponential back-off + binary search) for every (number of states, first good index); on real files an image of the unclosed database is cut at byte offsets around every state record, every page boundary and seeded random offsets with four kinds of tail, and open / check / repair / reopen run in child processes: TraceDurable.tla requires refusal, a clear result, and after repair exactly the newest state record that lies completely inside the cut (its digest), full check passing; a crashed child is a rejected event",
 "note": "trusts TLC, the persist hook (list of durable states), child-process isolation; fault points are sampled per run (not every byte) - counts in evidence",
 "level": "model_checking",
 "technique": "TLA+ model checking (TLC) + fault enumeration on real files validated by TLC trace validation",
}

def run(ctx):
    durcommon.exhaustive(ctx, "C05")
    durcommon.run_file(ctx, "crash", 8 if ctx.thorough() else 2, 500 if ctx.thorough() else 90, "C05")
    ctx.assumptions += durcommon.ASSUME
