"""C06 Every index always agrees with its table (db19 index overlays: tran.go, meta/info.go, index/overlay.go, database.go buildIndexes)"""
import dbcommon

META = {
 "engine": "tla-pipeline",
 "text": "TLC exhausts Pipeline.tla (commit layering, merger take/compute/apply, persist compute/apply, index creation on a populated table in four separate steps, clean close) for IndexesAgree and LayersParallel; every state published by the real pipeline (hook inside the state mutex logs btree + every layer of every index) must flatten, for every index, to exactly the committed rows under the right keys (TraceDb.tla TableOK), also while indexes are created/dropped concurrently with a gate that parks the merger inside the index-build window",
 "note": "trusts TLC, hook placement inside the state mutex, the driver's byte-level key check (entry key = Ixspec.Key(row), strictly ascending) logged as keyok; universe <= 8 rows per table",
 "technique": "TLA+ model checking (TLC) + trace validation of every published state + gate-scheduled index builds",
}

def run(ctx):
    ctx.tlc_mc("Pipeline.tla", "Pipeline_quick.cfg", timeout=300)
    if ctx.thorough():
        ctx.tlc_mc("Pipeline.tla", "Pipeline_thorough.cfg", timeout=900)
    # anti-vacuity: the pre-fix behaviour (overlays sized from the build snapshot) violates LayersParallel
    ctx.tlc_mc("Pipeline.tla", "Pipeline_dev_alter.cfg", timeout=300, expect_violation="LayersParallel", count=False)
    # and persisting a table only when its FIRST index is modified (before fix c9087ac) loses deletes in a new index
    ctx.tlc_mc("Pipeline.tla", "Pipeline_dev_f20.cfg", timeout=300, expect_violation="ReopenSeesAll", count=False)
    for k in range(4 if ctx.thorough() else 1):
        dbcommon.run_db(ctx, "admin", 30 if ctx.thorough() else 2, "C06a" + "x" * k)
        dbcommon.run_db(ctx, "tranpairs", 30 if ctx.thorough() else 2, "C06p" + "x" * k)
    ctx.assumptions += dbcommon.ASSUME
