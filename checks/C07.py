"""C07 Key and unique constraints hold in every committed state (db19/tran.go dup checks, check.go)"""
import dbcommon

META = {
 "engine": "tla-tran",
 "text": "TLC exhausts Tran.tla incl. the duplicate-check read (deviation NoDupRead violates serializability); real concurrent executions with colliding inserts/updates on key(k), key(), composite key and unique indexes with empty values are validated by TraceDb.tla: AllUnique is an invariant of every reconstructed committed state and every dup/ok outcome must agree with the transaction's view",
 "note": "trusts TLC, hook placement inside the state mutex, the snapshot identification by Meta pointer; schedules of the free-running part are whatever the Go runtime produces (plus gate-driven ones)",
 "technique": "TLA+ model checking (TLC) + trace validation of real concurrent executions",
}

def run(ctx):
    import trancommon
    trancommon.exhaustive(ctx, "C07")
    # (a) op-level interleavings of 2-3 colliding transactions driven from one goroutine
    dbcommon.run_db(ctx, "tranpairs", 60 if ctx.thorough() else 6, "C07p")
    # (b) free-running concurrent clients against the real checker/merger/persist goroutines
    dbcommon.run_db(ctx, "tran", 24 if ctx.thorough() else 2, "C07c")
    ctx.assumptions += dbcommon.ASSUME
