"""C08 Foreign key rules hold in every committed state (db19/tran.go fkey*, meta fk links)"""
import dbcommon

META = {
 "engine": "tla-fkey",
 "text": "TLC exhausts Fkey.tla (all sequential histories of inserts/updates/deletes over a target and block / cascade / cascade-update sources) for FkIntegrity, uniqueness and justified refusals, using the same DbModel.tla rules the trace spec applies; real executions (op-level interleavings and free-running concurrent clients on the real pipeline) are validated by TraceDb.tla: every ok/refused outcome must be the documented one on the transaction's view, cascades must change exactly the referencing rows, FkIntegrity is an invariant of every committed state, and commit-point re-evaluation covers source-insert vs target-delete races",
 "note": "trusts TLC, hook placement, the suneidoc 'Foreign Keys' reading (delete/update of a referenced target refused unless the key cascades that kind of change); single-level cascades, no self references in the driver schema",
 "technique": "TLA+ model checking (TLC) + trace validation of real executions",
}

def run(ctx):
    ctx.tlc_mc("Fkey.tla", "Fkey_quick.cfg", timeout=600)
    if ctx.thorough():
        ctx.tlc_mc("Fkey.tla", "Fkey_thorough.cfg", timeout=2400)
    ctx.tlc_mc("Fkey.tla", "Fkey_dev_f4.cfg", timeout=600, expect_violation="FkOK", count=False)
    for k in range(4 if ctx.thorough() else 1):
        dbcommon.run_db(ctx, "fkeypairs", 60 if ctx.thorough() else 5, "C08p" + "x" * k)
        dbcommon.run_db(ctx, "fkey", 24 if ctx.thorough() else 1, "C08c" + "x" * k)
    ctx.assumptions += dbcommon.ASSUME
