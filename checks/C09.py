"""C09 Index iteration returns exactly the live keys in order (db19/index: Overlay, OverIter, SimpleIter, btree and ixbuf iterators, skip-scan)"""

import vlib

META = {
 "engine": "tla-overlay",
 "text": "TLC exhausts Overlay.tla: the OverIter algorithm transcribed from overiter.go (per-layer iterators, re-seek after modification or overlay replacement, direction change, tombstone/update tie handling in minIter/maxIter, fast path with secondMin/secondMax, read ranges) over all small layer stacks (btree + base layer + mutable layer over 2x2 / 2x3 (prefix,suffix) keys) and all short interleavings of Next/Prev/Rewind/Range/SkipScan with Insert/Update/Delete/Mutable/commit/Merge/Save, against the declarative reference (least present key greater than the current one in the content at the time of the call ...) incl. read-range coverage; the real Overlay/OverIter/SimpleIter/btree/ixbuf iterators are then driven through the public API real commits use over random layer stacks (4 concrete key families incl. zero bytes, empty fields, multi-field prefixes, long shared prefixes; btree splits 2..100) and every step result, Lookup and read range is validated by TLC against the same reference",
 "note": "trusts TLC, the driver's rank<->key tables (checked monotone at start-up) and the stub transaction; low-level Seek is validated with the contract OverIter relies on; the fast path is checked at design level by TLC and on the real code through results only",
 "technique": "TLA+ model checking (TLC) of the transcribed merge-iterator algorithm + trace validation of real iterations",
}

# Findings on the pinned commit (see known-findings / fix commits in the agent report):
#   F17 stale-iterator-after-commit: Overlay.UpdateWith changed the transaction's Overlay in place, OverIter
#       only compares Overlay pointers -> an iterator used by the transaction after it wrote and continued
#       afterwards (cursor) keeps the snapshot's layers and misses concurrently committed keys. Re-found by
#       stale.ndjson (quick, every seed tried); TLC shows it with Overlay_dev_stale.cfg; fix: UpdateWith
#       returns a new Overlay.
#
# Mutation testing (scratch worktrees of /repo at the fix commits, VERIF_REPO=<dir> VERIF_SKIP_MC=1 bin/vcheck C09 quick,
# seed 1). "tests" = go test ./db19/index/ (+ ixbuf / btree when touched) on the mutant.
#   M1  overiter.go minIter: on a tie the first (oldest) source decides            tests RED    check VIOLATION
#   M2  overiter.go fastNext: Key() < secondMin -> <= (crosses a tied/deleted key) tests RED    check VIOLATION
#   M3  overiter.go modPrev: after Seek Key() >= curKey -> > (direction change)    tests RED    check VIOLATION
#   M4  overiter.go Next at eof reads (prevKey, prevKey) not (prevKey, rng.End)    tests RED    check VIOLATION
#   M5  overiter.go maxIter: skip loop only retreats tombstone sources              tests RED    check VIOLATION
#   M6  overiter.go canFast ignores Modified() of the mutable layer                tests RED    check VIOLATION
#   M7  ixbuf.go Iterator.Next: key >= rng.End -> >                                tests RED    check VIOLATION
#   M8  ixbuf.go skipAdvanceToMatch: suffix >= skipRng.End -> >                    tests RED    check VIOLATION
#   M9  btree/iter.go Prev within: no checkRangeOrg                                tests RED    check VIOLATION
#   M10 overlay.go Lookup: a tombstone in a layer does not end the search          tests green  check VIOLATION
#   M11 overiter.go modNext: after Seek Key() <= curKey -> <                       tests RED    check VIOLATION
#   M12 overiter.go Range() does not reset skipStart                               tests green  check VIOLATION
#   M13 overiter.go SkipScan() not propagated to the existing source iterators     tests green  check VIOLATION
#   M14 ixbuf.go skipSeek does not pre-set skipGroup                               tests green  check VIOLATION
#       (missed by the first version of the driver; bursts of transaction writes and more overlay
#        switching in skip-scan mode were added for it)
#   M15 overiter.go fastPrev: Key() > secondMax -> >=                              tests RED    check VIOLATION
#   M16 btree/iter.go skip-scan Seek accepts a smaller key                         tests green  check quiet: equivalent
#       (seekAllRaw only lands below the key when no key >= exists; the fallback finds the same key)
#   M17 overlay.go WithSaved keeps the base layer                                  tests green  check exit 2: the next
#       real Save panics inside btree.MergeAndSave (not an iteration result; C16/C10 territory)
#   M18 simpleiter.go SkipScan does not reset the state to rewound                 tests green  check VIOLATION
#       (missed at first; range changes at eof and more SimpleIters were added)
#   M19 overiter.go Prev at eof reads (prevKey, prevKey)                           tests RED    check VIOLATION
# Observations that are NOT flagged (outside what OverIter relies on, see report): ixbuf skipSeek of a key
# whose suffix is beyond the suffix range can stop before the key; backward skip-scan over the degenerate
# prefix range ["", "") returns a key when the first prefix is empty.


def run(ctx):
    import os
    if os.environ.get("VERIF_SKIP_MC") == "1":   # development aid for mutation runs only
        return conformance(ctx)
    # 1. design level: the transcribed algorithm against the reference, exhaustively
    ctx.tlc_mc("MC_Overlay.tla", "Overlay_quick_layers.cfg", timeout=600)
    ctx.tlc_mc("MC_Overlay.tla", "Overlay_quick_deep.cfg", timeout=600)
    if ctx.thorough():
        ctx.tlc_mc("MC_Overlay.tla", "Overlay_layers4.cfg", timeout=2400)
        ctx.tlc_mc("MC_Overlay.tla", "Overlay_deep6.cfg", timeout=2400)
        # (Overlay_thorough.cfg: 5 steps, all initial base layers, 2 ranges + 2 skip ranges, 8.6 M states,
        #  passes; not run by default because it takes >10 min on a loaded machine)
        ctx.tlc_mc("MC_Overlay.tla", "Overlay_thorough23.cfg", timeout=2400)
        ctx.tlc_mc("MC_Overlay.tla", "Overlay_thorough_moved.cfg", timeout=2400)
    # anti-vacuity: three deviations of the algorithm must break agreement with the reference
    ctx.tlc_mc("MC_Overlay.tla", "Overlay_dev_first.cfg", timeout=300, expect_violation="Agree", count=False)
    ctx.tlc_mc("MC_Overlay.tla", "Overlay_dev_fast.cfg", timeout=300, expect_violation="Agree", count=False)
    if ctx.thorough():
        ctx.tlc_mc("MC_Overlay.tla", "Overlay_dev_reseek.cfg", timeout=300, expect_violation="Agree", count=False)
        # F17 at design level: UpdateWith in place + a commit onto a state that moved on
        ctx.tlc_mc("MC_Overlay.tla", "Overlay_dev_stale.cfg", timeout=600, expect_violation="Agree", count=False)
    conformance(ctx)


def conformance(ctx):
    # 2. conformance: real overlays and iterators
    drv = ctx.go_build("overlay")
    nscen, nops = (600, 110) if ctx.thorough() else (160, 90)
    rc, out, summ = ctx.driver(drv, [ctx.work, nscen, nops], timeout=1200)
    if rc != 0:
        raise vlib.Infra("overlay driver failed rc=%d:\n%s" % (rc, out[-3000:]))
    for i in range(1, int(summ.get("files", 0)) + 1):
        main = ctx.work + "/overlay-%d.ndjson" % i
        if i == 1:
            ctx.sample_trace_lines(main, 5)
        res = ctx.tlc_trace("TraceOverlay.tla", "TraceOverlay.cfg", main, timeout=2400)
        if not res["accepted"]:
            ctx.report_rejection(main, res)
            break
    # cursor reuse after the transaction's commit (the Overlay object is changed in place by
    # UpdateWith at the pinned commit: finding F17) is validated separately
    stale = ctx.work + "/stale.ndjson"
    res = ctx.tlc_trace("TraceOverlay.tla", "TraceOverlay.cfg", stale, timeout=900)
    if not res["accepted"]:
        ctx.report_rejection(stale, res, key="stale-iterator-after-commit")
    ctx.cov["real_iterator_steps"] = summ.get("iterator_steps", 0) + summ.get("stale_steps", 0)
    ctx.cov["real_scenarios"] = summ.get("scenarios", 0) + summ.get("stale_scenarios", 0)
    for k in ("fam_plain", "fam_nasty", "fam_multi", "fam_long", "steps_over", "steps_simple", "steps_bt",
              "steps_layer", "steps_ib", "steps_skipscan"):
        ctx.cov[k] = summ.get(k, 0)
    ctx.assumptions += [
        "keys are (prefix, suffix) rank pairs; each scenario's rank -> concrete key table is asserted strictly monotone and consistent with SplitPrefixSuffix at start-up",
        "concurrent transactions of the driver touch disjoint keys (what the checker guarantees for committed transactions)",
        "suffix/prefix values >= ixkey.Max are not used (documented limitation of skip-scan targets)",
        "TLC exhaustive bounds: 2x2 keys, <=2 layers + mutable layer, behaviours of 3 (all initial base layers) / 5 steps in quick; 4-6 steps, 2x3 keys and commits onto a moved-on state (3 layers) in thorough",
    ]
