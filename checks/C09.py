"""C09 Index iteration returns exactly the live keys in order (db19/index: Overlay, OverIter, SimpleIter, btree and ixbuf iterators, skip-scan)"""

import vlib

META = {
 "engine": "tla-overlay",
 "text": "TLC exhausts Overlay.tla: the OverIter algorithm transcribed from overiter.go (per-layer iterators, re-seek after modification or overlay replacement, direction change, tombstone/update tie handling in minIter/maxIter, fast path with secondMin/secondMax, read ranges) over all small layer stacks (btree + base layer + mutable layer over 2x2 / 2x3 (prefix,suffix) keys) and all short interleavings of Next/Prev/Rewind/Range/SkipScan with Insert/Update/Delete/Mutable/commit/Merge/Save, against the declarative reference (least present key greater than the current one in the content at the time of the call ...) incl. read-range coverage; the real Overlay/OverIter/SimpleIter/btree/ixbuf iterators are then driven through the public API real commits use over random layer stacks (4 concrete key families incl. zero bytes, empty fields, multi-field prefixes, long shared prefixes; btree splits 2..100) and every step result, Lookup and read range is validated by TLC against the same reference",
 "note": "trusts TLC, the driver's rank<->key tables (checked monotone at start-up) and the stub transaction; low-level Seek is validated with the contract OverIter relies on; the fast path is checked at design level by TLC and on the real code through results only",
 "technique": "TLA+ model checking (TLC) of the transcribed merge-iterator algorithm + trace validation of real iterations",
}

# Mutation testing (scratch worktrees of /repo, VERIF_REPO=<dir> bin/vcheck C09 quick), all compile and
# keep `go test ./db19/index/...` green; results are listed in the agent report / below:
#   M1 overiter.go minIter: on a tie the FIRST source decides (result only set when winIdx == i)   -> VIOLATION
#   M2 overiter.go fastNext: `it.Key() < oi.secondMin` -> `<=` (fast path crosses a tied/deleted key) -> VIOLATION
#   M3 overiter.go modPrev: after Seek `it.Key() >= oi.curKey` -> `>` (direction change off by one)  -> VIOLATION
#   M4 overiter.go Next at eof: Read(prevKey, oi.curKey) instead of rng.End (gap at eof not covered)  -> VIOLATION
#   M5 ixbuf.go Iterator.Prev from rewound: range check `<` -> `<=` on End                           -> see report
#   (see the agent report for the exact patches and outcomes)


def run(ctx):
    import os
    if os.environ.get("VERIF_SKIP_MC") == "1":   # development aid for mutation runs only
        return conformance(ctx)
    # 1. design level: the transcribed algorithm against the reference, exhaustively
    ctx.tlc_mc("MC_Overlay.tla", "Overlay_quick_layers.cfg", timeout=600)
    ctx.tlc_mc("MC_Overlay.tla", "Overlay_quick_deep.cfg", timeout=600)
    if ctx.thorough():
        ctx.tlc_mc("MC_Overlay.tla", "Overlay_thorough.cfg", timeout=2400)
        ctx.tlc_mc("MC_Overlay.tla", "Overlay_thorough23.cfg", timeout=2400)
        ctx.tlc_mc("MC_Overlay.tla", "Overlay_thorough_moved.cfg", timeout=2400)
    # anti-vacuity: three deviations of the algorithm must break agreement with the reference
    ctx.tlc_mc("MC_Overlay.tla", "Overlay_dev_first.cfg", timeout=300, expect_violation="Agree", count=False)
    ctx.tlc_mc("MC_Overlay.tla", "Overlay_dev_fast.cfg", timeout=300, expect_violation="Agree", count=False)
    if ctx.thorough():
        ctx.tlc_mc("MC_Overlay.tla", "Overlay_dev_reseek.cfg", timeout=300, expect_violation="Agree", count=False)
        # F17 at design level: UpdateWith in place + a commit onto a state that moved on
        ctx.tlc_mc("MC_Overlay.tla", "Overlay_dev_stale.cfg", timeout=600, expect_violation="Agree", count=False)
    conformance(ctx)


def conformance(ctx):
    # 2. conformance: real overlays and iterators
    drv = ctx.go_build("overlay")
    nscen, nops = (1500, 120) if ctx.thorough() else (160, 90)
    rc, out, summ = ctx.driver(drv, [ctx.work, nscen, nops], timeout=1200)
    if rc != 0:
        raise vlib.Infra("overlay driver failed rc=%d:\n%s" % (rc, out[-3000:]))
    for i in range(1, int(summ.get("files", 0)) + 1):
        main = ctx.work + "/overlay-%d.ndjson" % i
        if i == 1:
            ctx.sample_trace_lines(main, 5)
        res = ctx.tlc_trace("TraceOverlay.tla", "TraceOverlay.cfg", main, timeout=2400)
        if not res["accepted"]:
            ctx.report_rejection(main, res)
            break
    # cursor reuse after the transaction's commit (the Overlay object is changed in place by
    # UpdateWith at the pinned commit: finding F17) is validated separately
    stale = ctx.work + "/stale.ndjson"
    res = ctx.tlc_trace("TraceOverlay.tla", "TraceOverlay.cfg", stale, timeout=900)
    if not res["accepted"]:
        ctx.report_rejection(stale, res, key="stale-iterator-after-commit")
    ctx.cov["real_iterator_steps"] = summ.get("iterator_steps", 0) + summ.get("stale_steps", 0)
    ctx.cov["real_scenarios"] = summ.get("scenarios", 0) + summ.get("stale_scenarios", 0)
    for k in ("fam_plain", "fam_nasty", "fam_multi", "fam_long", "steps_over", "steps_simple", "steps_bt",
              "steps_layer", "steps_ib", "steps_skipscan"):
        ctx.cov[k] = summ.get(k, 0)
    ctx.assumptions += [
        "keys are (prefix, suffix) rank pairs; each scenario's rank -> concrete key table is asserted strictly monotone and consistent with SplitPrefixSuffix at start-up",
        "concurrent transactions of the driver touch disjoint keys (what the checker guarantees for committed transactions)",
        "suffix/prefix values >= ixkey.Max are not used (documented limitation of skip-scan targets)",
        "TLC exhaustive bounds: 2x2 keys, <=2 layers + mutable layer, behaviours of 4 (all initial base layers) / 6 steps in quick; 5 steps and 2x3 keys in thorough",
    ]
