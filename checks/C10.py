"""C10 Stored btrees behave as ordered maps (db19/index/btree)

Node sizes are OBSERVED: after every successful bulk build (Builder) and MergeAndSave the driver walks
the stored nodes of the new version in the stor bytes and logs a Nodes event (largest node, largest
fan-out, keys found, every node above the limit with a description); TraceOrdMap!TrNodes requires
maxsz <= 8192, maxfan <= split and the key count of the model. Bulk builds over long-key universes
(lbuild: runs of keys sharing 20..300 byte prefixes that the next run shortens, adjacent near-4096-byte
keys, 40..200 byte ragged keys, 100 x ~75 byte keys at the Builder's fast-path limit, edge inserts
that shorten a leaf's prefix) reach the byte limit of a leaf before the count limit.

Known findings are matched by SHAPE AND OPERATION, never by a panic text alone (classify()):
  node-too-large-near-max-keys  only a node stored by MergeAndSave whose bytes sit in >= 2 keys/separators
                                of >= 1000 bytes (fits without them), or a leaf that wastes a prefix its
                                keys share (fits with it) - what the count-based split leaves behind; a
                                'too large (write)' panic only when such a node was seen before in the
                                scenario or is seen when the batch is re-applied entry by entry
  builder-leaf-header-4-over    only a Builder leaf of exactly 100 keys, no wasted prefix, <= 8196 bytes
  Every other node above 8192 bytes - in particular ANY other oversized node after a bulk build - is a
  VIOLATION. A known finding no longer ends the validation of its scenario (validate()).

Mutation testing (scratch worktree, VERIF_REPO, quick tier, seed 1; "tests" = go test ./db19/index/btree/...
with the mutant):
  caught by this check, package tests green:
    revert-f13             upper clamp of rangeFrac removed (= the original defect F13)  VIOLATION at a Frac event
    search-prefix-le       leafNode.search: `key <= prefix` => before all entries        VIOLATION at a State event (Lookup of the
                           (a key equal to the node's shared prefix is not found)        key that equals the leaf prefix returns 0)
    check-callback-prefix  Check(fn(key, off)) passes the suffix without the leaf prefix  VIOLATION at a ChkKeys event
    builder-count-dup      Builder.Add counts a refused duplicate                        VIOLATION at a State event (Check() panics)
    builder-size-stale-prefix (seeded/C10-builder-size-stale-prefix-r2) leafBuilder.tryAdd VIOLATION at the Nodes event of a bulk
                           sizes the leaf with the prefix BEFORE adding the key           build (lbuild/nearmax: leaves of 8199 / 8320
                                                                                          bytes; lbuild/groups: 15735 / 22650 bytes)
    tryadd-size            leafBuilder.tryAdd allows 200 bytes more                       VIOLATION at the Nodes event of a bulk
                           (round 1: hidden behind the known finding, matched by text)    build (leaf of 8307 bytes)
    fieldslimit-plus-50    Builder fast-path limit 50 bytes higher                        VIOLATION at the Nodes event of a bulk
                                                                                          build (100-key leaves of 8246 / 8215 bytes)
    merge-split-size-slack shouldSplit: size > maxNodeSize+64                             VIOLATION at a Merge event: 'leafNode too
                           (round 1: would have been hidden by the text match)            large (write)' and NO oversized node is stored
                                                                                          when the batch is re-applied entry by entry
  not caught:
    droppos        pos fix-up after tree.delete in dropLeaf removed    equivalent: pos is recomputed by descendToLeaf before use
    builder-sep    separator one byte longer than necessary            equivalent: still a valid separator
  caught by this check but killed by the package's own tests already:
    merge-split-ignores-size (shouldSplit without the size test: VIOLATION like merge-split-size-slack;
    TestMergeInsertLargeKeys1 fails), treebuilder-size-check-relaxed (Builder.addTree: newSize > maxNodeSize+4096:
    VIOLATION at a Build event of lbuild/nearmax, 'treeNode too large (finishTo)'; TestBuilderLargeKeys2 fails)
  killed by the package's own tests already: sep-short (separator one byte short), contains-le (key == limit stays in
    the left leaf), count-drift (update counted), prev-end, prefix-cap (256), rightedge, limit-inherit,
    insert-prefix-path, next-rewound-range, seek-range, range-norange, single-key-prefix, leaf-delete-2to1,
    gte-short-bound, builder-dup-prev, inplace-update (update without path copy), frac-no-lower-clamp,
    leaf-split-lopsided (leafNode.splitTo at nkeys-1; TestLeafNode_split; not caught by this check)
"""

META = {
 "engine": "tla-ordmap",
 "text": "TLC exhausts OrdMap.tla (every bulk-built tree over 4-5 keys, every valid change batch, two consecutive batches, every cursor walk with every range) for count bookkeeping, ordered duplicate-free iteration both ways, sequential batch application = declarative meaning, Next/Prev/Seek meaning, and BTreeNodes.tla (merge.go's path-copying merge with limits, splits, empty-node removal and root popping transcribed over an append-only store: every valid batch sequence over 4-6 keys, split factors 2-3, both separator extremes) for content = MergeBatch, node ordering/separator/size invariants, exact count and an untouched old version; the REAL btree (Builder incl. refused duplicates, MergeAndSave through real ixbufs, Lookup of the whole key universe, forward/backward iteration, ranged iterators with Seek, skip-scan iterators over composite keys, Check() incl. callback, old versions after path copying, header Write/Read round trip, RangeFrac; the size and fan-out of every stored node after each bulk build and merge, read from the stor bytes) is driven with seeded random and boundary-biased batches over nasty keys and every call is replayed through the same operators by TLC trace validation",
 "note": "trusts TLC/CommunityModules Json, the driver's rank->key table (asserted strictly monotone) and offset-id table, the driver's reader of the stored node layout; small-scope: exhaustive part 4-5 keys, conformance part up to ~2100 keys, split factors 2..200; RangeFrac only checked for 0<=frac<=1 and finiteness (it is an estimate)",
 "technique": "TLA+ model checking (TLC) + trace validation of logged calls on the real btree",
}

import json, os
import ixutil
import vlib


MAX_NODE = 8192          # btree.maxNodeSize
KEY_SPLIT = "node-too-large-near-max-keys"
KEY_HDR = "builder-leaf-header-4-over"
EXCUSED = "excused Nodes event (known finding %s): "


def _split_shape(nd):
    """one oversized node [size, leaf, entries, k1, k2, nlong, rest, lost, off] (driver: scen.walkNodes)
    has the shape the count-based split of MergeAndSave leaves behind (known-findings.txt):
    (a) its bytes sit in a few long keys / separators: at least two of >= 1000 bytes and the node
        fits without them, or
    (b) a leaf that kept its parent's (lost) prefix: it fits once the prefix that all its keys, or
        all but one edge key, share is not wasted"""
    size, leaf, _cnt, _k1, _k2, nlong, rest, lost = nd[:8]
    return (nlong >= 2 and rest <= MAX_NODE) or (leaf == 1 and lost > 0 and size - lost <= MAX_NODE)


def _hdr_shape(nd, split):
    """Builder fast path (fieldsLen <= maxNodeSize - 7*splitCount skips the size computation and
    forgets the 4 byte node header): a count-full leaf of 100 keys without a shared prefix, at
    most 4 bytes too large"""
    size, leaf, cnt, _k1, _k2, _nlong, _rest, lost = nd[:8]
    return leaf == 1 and split == 100 and cnt == 100 and size <= MAX_NODE + 4 and lost == 0


def _excused(before):
    """{stor offset: key} of the oversized nodes excused earlier in the scenario (validate() leaves a
    Note in place of every excused event)"""
    offs = {}
    for b in before:
        if b.get("e") == "Note":
            for key in (KEY_SPLIT, KEY_HDR):
                pre = EXCUSED % key
                if str(b.get("what", "")).startswith(pre):
                    try:
                        for o in json.loads(b["what"][len(pre):]):
                            offs[o] = key
                    except Exception:
                        pass
    return offs


def _offsets(ev):
    return [nd[8] for nd in ev.get("big", []) + ev.get("dbig", [])]


def classify(ev, before=()):
    """key of a known finding for a rejected event (None = not a known pattern).
    before = the events of the same scenario in front of it (as dicts)"""
    if ev.get("e") == "Frac" and ev.get("ok") == 1 and ev.get("fin") == 1 and ev.get("ppm", 0) > 1000000:
        return "rangefrac-gt-1"          # F13
    if ev.get("e") == "Nodes" and ev.get("ok") == 1 and ev.get("maxfan", 0) <= ev.get("split", 0):
        big = ev.get("big", [])
        if not big or len(big) != ev.get("nover"):
            return None
        # EVERY node above the limit must either be a node that was excused when it was first seen
        # (same stor offset: the version still contains it), or have been produced by the registered
        # operation in the registered shape; nothing else excuses a node above the limit
        old, keys = _excused(before), []
        for nd in big:
            if nd[8] in old:
                keys.append(old[nd[8]])
            elif ev.get("op") == "merge" and _split_shape(nd):
                keys.insert(0, KEY_SPLIT)
            elif ev.get("op") == "build" and _hdr_shape(nd, ev.get("split")):
                keys.insert(0, KEY_HDR)
            else:
                return None
        return keys[0]
    if ev.get("e") == "Merge" and ev.get("ok") == 0 and "too large (write)" in ev.get("msg", ""):
        # write() refuses to path-copy a node that was stored oversized in a registered shape:
        # either by a split during the same call - the driver then applied the batch again entry by
        # entry and its node walk saw the node after entry dstep (scen.diagnose) - or by an earlier
        # operation of THIS scenario (observed by the node walk then, excused above). A 'too large'
        # panic with no such node is not excused.
        dbig = ev.get("dbig", [])
        if ev.get("dstep", 0) >= 1 and dbig and len(dbig) == ev.get("dnover") and all(_split_shape(nd) for nd in dbig):
            return KEY_SPLIT
        old = _excused(before)
        if old:
            return sorted(old.values())[-1]
    return None


def validate(ctx, trace, timeout=900, max_known=80):
    """like ixutil.validate, but a known finding does not end the validation of its scenario: the
    excused line is replaced by a Note (which the trace spec skips) together with the later Nodes
    events of the scenario that show the same registered shape (every later version of the tree
    still contains the node), and the scenario is validated again from its start. Lookups,
    iteration, Check() and later merges of a tree that contains an excused node are still checked."""
    cur, rounds = trace, 0
    while True:
        res = ctx.tlc_trace("TraceOrdMap.tla", "TraceOrdMap.cfg", cur, timeout=timeout, extra_env=ixutil.TRACE_ENV)
        if res["accepted"]:
            return True
        line = res.get("line", 0)
        lines = open(cur).read().splitlines()
        seg = next(((s, e) for s, e in ixutil._segments(lines) if s < line <= e), None)
        ev = ixutil.event_at(cur, line)
        before = []
        if seg:
            for l in lines[seg[0]:line - 1]:
                try:
                    before.append(json.loads(l))
                except Exception:
                    pass
        key = classify(ev, before)
        what = "%s; event %s" % (res.get("reason", ""), json.dumps(ev)[:300])
        if ctx.report_rejection(cur, res, key=key, what=what):
            return False            # VIOLATION printed
        rounds += 1
        if rounds > max_known or not seg:
            raise vlib.Infra("more than %d known-finding rejections (or no scenario for line %d); giving up" % (max_known, line))
        s, e = seg

        def note(ev1, i):
            return {"e": "Note", "what": (EXCUSED % key) + json.dumps(_offsets(ev1)), "n": i + 1}
        out = lines[s:e]
        before.append(note(ev, line - 1))
        out[line - 1 - s] = json.dumps(before[-1], separators=(",", ":"))
        if ev.get("e") == "Nodes":
            for i in range(line, e):
                try:
                    ev1 = json.loads(lines[i])
                except Exception:
                    continue
                if ev1.get("e") == "Nodes" and ev1.get("nover", 0) > 0 and classify(ev1, before) == key:
                    ev1 = note(ev1, i)
                    out[i - s] = json.dumps(ev1, separators=(",", ":"))
                before.append(ev1)
        nseg = sum(1 for s2, e2 in ixutil._segments(lines) if e2 <= s)
        ctx.cov["events_validated"] += s
        ctx.cov["traces_validated_against_impl"] += nseg
        ctx.cov["known_finding_events_excused"] = ctx.cov.get("known_finding_events_excused", 0) + 1
        cur = os.path.join(ctx.work, "%s.rest%d.ndjson" % (os.path.basename(trace), rounds))
        with open(cur, "w") as f:
            f.write("\n".join(out + lines[e:]) + "\n")


def run(ctx):
    if ctx.replay:
        validate(ctx, ctx.replay)
        return
    # 1. design level
    r = ctx.tlc_mc("OrdMap.tla", "OrdMap_quick.cfg", timeout=900, coverage=True)
    if r.get("never_enabled"):
        raise vlib.Infra("vacuous: actions never enabled in OrdMap_quick: %s" % r["never_enabled"])
    if ctx.thorough():
        ctx.tlc_mc("OrdMap.tla", "OrdMap_thorough.cfg", timeout=3000)
    ctx.tlc_mc("OrdMap.tla", "OrdMap_dev_count.cfg", timeout=600, expect_violation="CountOK", count=False)
    # node level: merge.go's path / limit / split / drop-empty algorithm transcribed (BTreeNodes.tla):
    # every valid batch sequence over 5 keys with split factor 2 (two tree levels are reached), both
    # separator extremes; the result must be MergeBatch of OrdMapOps, nodes must satisfy Check()'s
    # invariants, the old version must be untouched
    r = ctx.tlc_mc("BTreeNodes.tla", "BTreeNodes_quick.cfg", timeout=900, coverage=True)
    if r.get("never_enabled"):
        raise vlib.Infra("vacuous: actions never enabled in BTreeNodes_quick: %s" % r["never_enabled"])
    if ctx.thorough():
        ctx.tlc_mc("BTreeNodes.tla", "BTreeNodes_sepmin.cfg", timeout=900)
        ctx.tlc_mc("BTreeNodes.tla", "BTreeNodes_three.cfg", timeout=3000)
        ctx.tlc_mc("BTreeNodes.tla", "BTreeNodes_thorough.cfg", timeout=3000)
        ctx.tlc_mc("BTreeNodes.tla", "BTreeNodes_thorough3.cfg", timeout=3000)
    # anti-vacuity: the two classic path bugs must break the model (key == limit kept in the left
    # leaf; right-most child not inheriting its ancestor's limit)
    ctx.tlc_mc("BTreeNodes.tla", "BTreeNodes_dev_le.cfg", timeout=600, expect_violation="ModifyAssertsOK", count=False)
    if ctx.thorough():
        ctx.tlc_mc("BTreeNodes.tla", "BTreeNodes_dev_inherit.cfg", timeout=600, expect_violation="ModifyAssertsOK", count=False)
    # 2. conformance
    drv = ctx.go_build("btree")
    trace = ctx.work + "/btree.ndjson"
    #        nsmall nmedium nbig nlong nenum nlbuild
    args = [60, 25, 6, 20, 16, 72] if ctx.thorough() else [12, 4, 1, 3, 1, 12]
    rc, out, summ = ctx.driver(drv, [trace] + args, timeout=900)
    if rc != 0:
        raise vlib.Infra("btree driver rc=%d: %s" % (rc, out[-2000:]))
    ctx.sample_trace_lines(trace, 4)
    for k in ("merges", "changes", "states", "lookups", "iterops", "fracs", "scenarios", "panics", "fracs_out_of_range",
              "nodewalks", "nodes_seen", "max_node_size", "trees_with_oversized_node_build", "trees_with_oversized_node_merge"):
        ctx.cov["real_" + k] = summ.get(k, 0)
    ok = validate(ctx, trace, timeout=1800)
    # 3. anti-vacuity: one corrupted field must be rejected at its line
    if ok and not ctx.violations:
        ixutil.corrupt_and_expect_rejection(
            ctx, "TraceOrdMap.tla", "TraceOrdMap.cfg", trace,
            pick=lambda ev: ev.get("e") == "State" and 2 <= len(ev.get("fwdo", [])) and len(ev.get("look", [])) <= 40,
            mutate=lambda ev: ev["fwdo"].__setitem__(1, ev["fwdo"][1] + 1))
        # ... and a node walk that reports one node of 8193 bytes (nothing else changed)
        ixutil.corrupt_and_expect_rejection(
            ctx, "TraceOrdMap.tla", "TraceOrdMap.cfg", trace,
            pick=lambda ev: ev.get("e") == "Nodes" and ev.get("nover") == 0 and ev.get("n", 0) >= 2 and ev.get("nk", 0) <= 200,
            mutate=lambda ev: ev.__setitem__("maxsz", MAX_NODE + 1))
    ctx.assumptions += [
        "rank -> key table strictly monotone (asserted by the driver at scenario start); offsets logged as ids of a bijective id -> 40 bit offset table",
        "batches are generated valid (add only absent keys, update/delete only present keys); an invalid batch would stop validation as a harness error, not as a violation",
        "RangeFrac is an estimate: only 0 <= frac <= 1 and finiteness are required",
        "node sizes are read by the driver from the stor bytes with its own reader of the documented node layout (count, 7 byte entries, 2 byte end offset; root offset and levels from btree.Write); the number of keys it finds in the leaves must equal the model's count",
        "tree height is kept below the iterator's 8 levels (scenario ends at 7 levels; only reachable with split factors 2-3)",
        "TLC exhaustive bounds: see tlc_runs",
    ]
