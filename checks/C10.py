"""C10 Stored btrees behave as ordered maps (db19/index/btree)

Mutation testing (scratch worktree /tmp/ixs-mut, VERIF_REPO, quick tier, seed 1; "tests" = go test
./db19/index/btree/... with the mutant):
  caught by this check, package tests green:
    revert-f13             upper clamp of rangeFrac removed (= the original defect F13)  VIOLATION at a Frac event
    search-prefix-le       leafNode.search: `key <= prefix` => before all entries        VIOLATION at a State event (Lookup of the
                           (a key equal to the node's shared prefix is not found)        key that equals the leaf prefix returns 0)
    check-callback-prefix  Check(fn(key, off)) passes the suffix without the leaf prefix  VIOLATION at a ChkKeys event
    builder-count-dup      Builder.Add counts a refused duplicate                        VIOLATION at a State event (Check() panics)
  not caught:
    droppos        pos fix-up after tree.delete in dropLeaf removed    equivalent: pos is recomputed by descendToLeaf before use
    builder-sep    separator one byte longer than necessary            equivalent: still a valid separator
    tryadd-size    leafBuilder.tryAdd allows 200 bytes more            only shows as 'leafNode too large (write)', which is the
                                                                       registered known finding (node-too-large-near-max-keys)
  killed by the package's own tests already: sep-short (separator one byte short), contains-le (key == limit stays in
    the left leaf), count-drift (update counted), prev-end, prefix-cap (256), rightedge, limit-inherit,
    insert-prefix-path, next-rewound-range, seek-range, range-norange, single-key-prefix, leaf-delete-2to1,
    gte-short-bound, builder-dup-prev, inplace-update (update without path copy), frac-no-lower-clamp
"""

META = {
 "engine": "tla-ordmap",
 "text": "TLC exhausts OrdMap.tla (every bulk-built tree over 4-5 keys, every valid change batch, two consecutive batches, every cursor walk with every range) for count bookkeeping, ordered duplicate-free iteration both ways, sequential batch application = declarative meaning, Next/Prev/Seek meaning, and BTreeNodes.tla (merge.go's path-copying merge with limits, splits, empty-node removal and root popping transcribed over an append-only store: every valid batch sequence over 4-6 keys, split factors 2-3, both separator extremes) for content = MergeBatch, node ordering/separator/size invariants, exact count and an untouched old version; the REAL btree (Builder incl. refused duplicates, MergeAndSave through real ixbufs, Lookup of the whole key universe, forward/backward iteration, ranged iterators with Seek, skip-scan iterators over composite keys, Check() incl. callback, old versions after path copying, header Write/Read round trip, RangeFrac) is driven with seeded random and boundary-biased batches over nasty keys and every call is replayed through the same operators by TLC trace validation",
 "note": "trusts TLC/CommunityModules Json, the driver's rank->key table (asserted strictly monotone) and offset-id table; small-scope: exhaustive part 4-5 keys, conformance part up to ~2100 keys, split factors 2..200; RangeFrac only checked for 0<=frac<=1 and finiteness (it is an estimate)",
 "technique": "TLA+ model checking (TLC) + trace validation of logged calls on the real btree",
}

import ixutil
import vlib


def classify(ev):
    """key of a known finding for a rejected event (None = not a known pattern)"""
    if ev.get("e") == "Frac" and ev.get("ok") == 1 and ev.get("fin") == 1 and ev.get("ppm", 0) > 1000000:
        return "rangefrac-gt-1"          # F13
    if ev.get("ok") == 0 and "too large (write)" in ev.get("msg", ""):
        return "node-too-large-near-max-keys"   # F16: near-4096-byte keys, see report
    return None


def run(ctx):
    if ctx.replay:
        ixutil.validate(ctx, "TraceOrdMap.tla", "TraceOrdMap.cfg", ctx.replay, classify)
        return
    # 1. design level
    r = ctx.tlc_mc("OrdMap.tla", "OrdMap_quick.cfg", timeout=900, coverage=True)
    if r.get("never_enabled"):
        raise vlib.Infra("vacuous: actions never enabled in OrdMap_quick: %s" % r["never_enabled"])
    if ctx.thorough():
        ctx.tlc_mc("OrdMap.tla", "OrdMap_thorough.cfg", timeout=3000)
    ctx.tlc_mc("OrdMap.tla", "OrdMap_dev_count.cfg", timeout=600, expect_violation="CountOK", count=False)
    # node level: merge.go's path / limit / split / drop-empty algorithm transcribed (BTreeNodes.tla):
    # every valid batch sequence over 5 keys with split factor 2 (two tree levels are reached), both
    # separator extremes; the result must be MergeBatch of OrdMapOps, nodes must satisfy Check()'s
    # invariants, the old version must be untouched
    r = ctx.tlc_mc("BTreeNodes.tla", "BTreeNodes_quick.cfg", timeout=900, coverage=True)
    if r.get("never_enabled"):
        raise vlib.Infra("vacuous: actions never enabled in BTreeNodes_quick: %s" % r["never_enabled"])
    if ctx.thorough():
        ctx.tlc_mc("BTreeNodes.tla", "BTreeNodes_sepmin.cfg", timeout=900)
        ctx.tlc_mc("BTreeNodes.tla", "BTreeNodes_three.cfg", timeout=3000)
        ctx.tlc_mc("BTreeNodes.tla", "BTreeNodes_thorough.cfg", timeout=3000)
        ctx.tlc_mc("BTreeNodes.tla", "BTreeNodes_thorough3.cfg", timeout=3000)
    # anti-vacuity: the two classic path bugs must break the model (key == limit kept in the left
    # leaf; right-most child not inheriting its ancestor's limit)
    ctx.tlc_mc("BTreeNodes.tla", "BTreeNodes_dev_le.cfg", timeout=600, expect_violation="ModifyAssertsOK", count=False)
    if ctx.thorough():
        ctx.tlc_mc("BTreeNodes.tla", "BTreeNodes_dev_inherit.cfg", timeout=600, expect_violation="ModifyAssertsOK", count=False)
    # 2. conformance
    drv = ctx.go_build("btree")
    trace = ctx.work + "/btree.ndjson"
    #        nsmall nmedium nbig nlong nenum
    args = [60, 25, 6, 20, 16] if ctx.thorough() else [12, 4, 1, 3, 1]
    rc, out, summ = ctx.driver(drv, [trace] + args, timeout=900)
    if rc != 0:
        raise vlib.Infra("btree driver rc=%d: %s" % (rc, out[-2000:]))
    ctx.sample_trace_lines(trace, 4)
    for k in ("merges", "changes", "states", "lookups", "iterops", "fracs", "scenarios", "panics", "fracs_out_of_range"):
        ctx.cov["real_" + k] = summ.get(k, 0)
    ok = ixutil.validate(ctx, "TraceOrdMap.tla", "TraceOrdMap.cfg", trace, classify, timeout=1800)
    # 3. anti-vacuity: one corrupted field must be rejected at its line
    if ok and not ctx.violations:
        ixutil.corrupt_and_expect_rejection(
            ctx, "TraceOrdMap.tla", "TraceOrdMap.cfg", trace,
            pick=lambda ev: ev.get("e") == "State" and 2 <= len(ev.get("fwdo", [])) and len(ev.get("look", [])) <= 40,
            mutate=lambda ev: ev["fwdo"].__setitem__(1, ev["fwdo"][1] + 1))
    ctx.assumptions += [
        "rank -> key table strictly monotone (asserted by the driver at scenario start); offsets logged as ids of a bijective id -> 40 bit offset table",
        "batches are generated valid (add only absent keys, update/delete only present keys); an invalid batch would stop validation as a harness error, not as a violation",
        "RangeFrac is an estimate: only 0 <= frac <= 1 and finiteness are required",
        "tree height is kept below the iterator's 8 levels (scenario ends at 7 levels; only reachable with split factors 2-3)",
        "TLC exhaustive bounds: see tlc_runs",
    ]
