"""C11 Index buffer merging is equivalent to applying changes in order (db19/index/ixbuf)

Mutation testing (scratch worktree /tmp/ixs-mut, VERIF_REPO, quick tier, seed 1; "tests" = go test
./db19/index/ixbuf/... with the mutant):
  caught by this check, package tests green:
    rangeact-ge        RangeActivity fast path `end > lastKey` -> `>=`            VIOLATION at a RangeAct event
    combine-oldoff     Combine(update,update) returns the NEW offset as oldoff   VIOLATION at a Fill event (olds)
    upddel-keeps-old   Combine(update,delete) keeps the old offset in the delete VIOLATION at a Content event
  killed by the package's own tests already (so not usable as evidence for this check; all of them are
  also rejected by the trace spec when the tests are ignored -- not re-run for the record):
    passthru-prev (pass-through although the chunk updates the previous output slot), passthru-ge
    (pass-through with lastkey == other first key), tie-order (`key2 <= key`), size-acct (m.size not
    advanced for passed chunks), combine-adddel (add+delete keeps a tombstone), combine-deladd
    (delete+add -> add), merge-keep-zero (combined-away slot kept)
"""

META = {
 "engine": "tla-ixbuf",
 "text": "TLC exhausts IxBuf.tla (all valid add/update/delete sequences of up to 5 changes per key over up to 4 buffers, and 2 keys x 2-4 changes x 3 buffers): the merge of the buffers through the code's Combine table equals sequential application to the absent/present state, is itself valid for the base state, never reaches an invalid combination and does not depend on bracketing (up to the offset carried by a delete, a TLC finding); the REAL ixbuf (Insert/Update/Delete incl. returned old offsets, Merge of 2-6 buffers with sizes around the chunk goals and pass-through layouts, merges of merge results, Iter, Len, Check, Lookup, RangeActivity, RangeApproxDelta, ranged and skip-scan iterators) is replayed by TLC trace validation: outputs equal the model's ordered duplicate-free entry list, inputs are compared again after every merge",
 "note": "trusts TLC/CommunityModules Json, the driver's rank->key table (asserted strictly monotone) and offset-id table; change sequences are generated valid (invalid combinations panic by design); ixbuf.Check() reports a false duplicate for the empty key (its previous-key variable starts as \"\"): tolerated exactly for buffers containing the empty key, not part of C11",
 "technique": "TLA+ model checking (TLC) + trace validation of logged calls on the real ixbuf",
}

import ixutil
import vlib


def classify(ev):
    return None


def run(ctx):
    if ctx.replay:
        ixutil.validate(ctx, "TraceIxBuf.tla", "TraceIxBuf.cfg", ctx.replay, classify)
        return
    r = ctx.tlc_mc("IxBuf.tla", "IxBuf_quick.cfg", timeout=900, coverage=True)
    if r.get("never_enabled"):
        raise vlib.Infra("vacuous: actions never enabled in IxBuf_quick: %s" % r["never_enabled"])
    ctx.tlc_mc("IxBuf.tla", "IxBuf_quick2.cfg", timeout=900)
    if ctx.thorough():
        ctx.tlc_mc("IxBuf.tla", "IxBuf_thorough.cfg", timeout=3000)
    ctx.tlc_mc("IxBuf.tla", "IxBuf_dev_deladd.cfg", timeout=600, expect_violation="MergeIsSequential", count=False)
    drv = ctx.go_build("ixbuf")
    trace = ctx.work + "/ixbuf.ndjson"
    #        nsmall nsized nbig
    args = [150, 80, 10] if ctx.thorough() else [24, 10, 1]
    rc, out, summ = ctx.driver(drv, [trace] + args, timeout=900)
    if rc != 0:
        raise vlib.Infra("ixbuf driver rc=%d: %s" % (rc, out[-2000:]))
    ctx.sample_trace_lines(trace, 4)
    for k in ("merges", "inserts", "contents", "entries_compared", "lookups", "iterops", "rangeacts", "scenarios", "panics", "check_panics"):
        ctx.cov["real_" + k] = summ.get(k, 0)
    ok = ixutil.validate(ctx, "TraceIxBuf.tla", "TraceIxBuf.cfg", trace, classify, timeout=1800)
    if ok and not ctx.violations:
        # anti-vacuity: flip the tag of one entry of a merge output
        def mut(ev):
            ev["ops"][0] = "upd" if ev["ops"][0] != "upd" else "add"
        ixutil.corrupt_and_expect_rejection(
            ctx, "TraceIxBuf.tla", "TraceIxBuf.cfg", trace,
            pick=lambda ev: ev.get("e") == "Content" and 1 <= len(ev.get("ks", [])) <= 40, mutate=mut)
    ctx.assumptions += [
        "rank -> key table strictly monotone (asserted by the driver); offsets logged as ids of a bijective id -> 40 bit offset table, tag bits as op",
        "only valid change sequences are generated (add when absent, update/delete when present, across buffers in merge order); an invalid one would stop validation as a harness error",
        "merged buffers are treated as immutable afterwards, as in db19 (results may share chunks with inputs)",
        "TLC exhaustive bounds: see tlc_runs",
    ]
