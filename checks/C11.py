"""C11 Index buffer merging is equivalent to applying changes in order (db19/index/ixbuf)

Mutation testing (scratch worktree /tmp/ixs-mut, VERIF_REPO, quick tier, seed 1; "tests" = go test
./db19/index/ixbuf/... with the mutant):
  caught by this check, package tests green:
    rangeact-ge        RangeActivity fast path `end > lastKey` -> `>=`            VIOLATION at a RangeAct event
    combine-oldoff     Combine(update,update) returns the NEW offset as oldoff   VIOLATION at a Fill event (olds)
    upddel-keeps-old   Combine(update,delete) keeps the old offset in the delete VIOLATION at a Content event
  round 2 ("input buffers left unchanged"; scratch worktrees /tmp/wt-seedtest-c11b, /tmp/wt-c11b-mut, quick
  tier; all three keep go test ./db19/index/... green -- the package tests only Check() a merge input again):
    adopt-passed-chunk (seeded/C11-adopt-passed-chunk-r2) outputChunk adopts a small passed-through chunk
                       as m.buf when the buffer is empty (`else if len(m.buf) == 0 { m.buf = c }`):
                       flushbuf's buf[:0] + outputSlot then write into the INPUT chunk's array. MISSED by the
                       first version of this check (no generated merge had a large / small / large run of
                       passed chunks followed by slot output, inputs were only re-read right after their
                       own merge). Now VIOLATION at a Recheck event (the input lost keys / got foreign
                       keys) in 6-12 of the 30 chain + shaped scenarios of each of the seeds 1-6;
                       IxBufStore.tla DevAdoptChunk is the same deviation in the model
    combine-into-passed-chunk  passthru: when the chunk's first key equals the last buffered key, Combine
                       the buffered slot into in[i][0] (the input's slot), drop it from buf and pass the
                       chunk through                                     VIOLATION at a Recheck event (seed 1)
    adopt-when-cap-small  outputChunk: `else if len(m.buf) == 0 && cap(m.buf) < len(c) { m.buf = c }` (only
                       when the merge started with 1-8 slots and nothing grew the buffer since)
                       VIOLATION at a Recheck event (seed 1). The first driver of round 2 changed an
                       input in only 2 of 8 seeds; with the "uniform" shaped scenarios (tiny first chunk,
                       alternating large / small, quiet start) in 9 of 10 seeds (1-10) at quick size and
                       in 5-6 scenarios of every thorough run (seeds 1-3): a quick run can miss it
    killed by the package tests (a.Check() after Merge): pop-slot-by-shift (copy(in[i], in[i][1:])),
    pop-chunk-by-shift (copy(m.in[i], m.in[i][1:]))
  killed by the package's own tests already (so not usable as evidence for this check; all of them are
  also rejected by the trace spec when the tests are ignored -- not re-run for the record):
    passthru-prev (pass-through although the chunk updates the previous output slot), passthru-ge
    (pass-through with lastkey == other first key), tie-order (`key2 <= key`), size-acct (m.size not
    advanced for passed chunks), combine-adddel (add+delete keeps a tombstone), combine-deladd
    (delete+add -> add), merge-keep-zero (combined-away slot kept)
"""

META = {
 "engine": "tla-ixbuf",
 "text": "TLC exhausts IxBuf.tla (all valid add/update/delete sequences of up to 5 changes per key over up to 4 buffers, and 2 keys x 2-4 changes x 3 buffers): the merge of the buffers through the code's Combine table equals sequential application to the absent/present state, is itself valid for the base state, never reaches an invalid combination and does not depend on bracketing (up to the offset carried by a delete, a TLC finding); the REAL ixbuf (Insert/Update/Delete incl. returned old offsets, Merge of 2-6 buffers with sizes around the chunk goals and pass-through layouts, merges of merge results, Iter, Len, Check, Lookup, RangeActivity, RangeApproxDelta, ranged and skip-scan iterators) is replayed by TLC trace validation: outputs equal the model's ordered duplicate-free entry list. Input buffers left unchanged: TLC exhausts IxBufStore.tla (the code's chunk level merge -- pass-through, flush, in-place combine, Go append/reslice aliasing -- on a heap of shared backing arrays, every key-to-buffer assignment and chunking of 4 keys x 2 buffers, thorough 6 x 2 and 3 x 3 with chained merges): every owner of an earlier layer list still sees the content it saw, the chunk merge equals the abstract merge; in the real code every buffer that was an argument or result of a Merge stays alive and is read again completely (Iter, Len, Check, Lookup of every key) after that merge and after every later one (chains of merges over merge results as in db19, inputs with chosen chunk sizes large/small/large and interleaved single slots, totals on both sides of the goal 24/48/96 boundaries) and must be identical to the content logged before",
 "note": "trusts TLC/CommunityModules Json, the driver's rank->key table (asserted strictly monotone) and offset-id table; change sequences are generated valid (invalid combinations panic by design); ixbuf.Check() reports a false duplicate for the empty key (its previous-key variable starts as \"\"): tolerated exactly for buffers containing the empty key, not part of C11",
 "technique": "TLA+ model checking (TLC) + trace validation of logged calls on the real ixbuf",
}

import ixutil
import vlib


def classify(ev):
    return None


def run(ctx):
    if ctx.replay:
        ixutil.validate(ctx, "TraceIxBuf.tla", "TraceIxBuf.cfg", ctx.replay, classify)
        return
    r = ctx.tlc_mc("IxBuf.tla", "IxBuf_quick.cfg", timeout=900, coverage=True)
    if r.get("never_enabled"):
        raise vlib.Infra("vacuous: actions never enabled in IxBuf_quick: %s" % r["never_enabled"])
    ctx.tlc_mc("IxBuf.tla", "IxBuf_quick2.cfg", timeout=900)
    if ctx.thorough():
        ctx.tlc_mc("IxBuf.tla", "IxBuf_thorough.cfg", timeout=3000)
    ctx.tlc_mc("IxBuf.tla", "IxBuf_dev_deladd.cfg", timeout=600, expect_violation="MergeIsSequential", count=False)
    # storage level: the code's chunk merge on shared backing arrays, owners of the inputs keep seeing the same
    ctx.tlc_mc("IxBufStore.tla", "IxBufStore_quick.cfg", timeout=900)
    if ctx.thorough():
        ctx.tlc_mc("IxBufStore.tla", "IxBufStore_thorough.cfg", timeout=3000)
        ctx.tlc_mc("IxBufStore.tla", "IxBufStore_thorough2.cfg", timeout=3000)
    ctx.tlc_mc("IxBufStore.tla", "IxBufStore_dev_adopt.cfg", timeout=600, expect_violation="InputsUnchanged", count=False)
    drv = ctx.go_build("ixbuf")
    trace = ctx.work + "/ixbuf.ndjson"
    #        nsmall nsized nbig nchain nshaped
    args = [150, 80, 10, 80, 160] if ctx.thorough() else [24, 10, 1, 10, 20]
    rc, out, summ = ctx.driver(drv, [trace] + args, timeout=900)
    if rc != 0:
        raise vlib.Infra("ixbuf driver rc=%d: %s" % (rc, out[-2000:]))
    ctx.sample_trace_lines(trace, 4)
    for k in ("merges", "inserts", "contents", "entries_compared", "lookups", "iterops", "rangeacts", "rechecks", "recheck_lookups",
              "scenarios", "panics", "check_panics"):
        ctx.cov["real_" + k] = summ.get(k, 0)
    ok = ixutil.validate(ctx, "TraceIxBuf.tla", "TraceIxBuf.cfg", trace, classify, timeout=1800)
    if ok and not ctx.violations:
        # anti-vacuity: flip the tag of one entry of a merge output
        def mut(ev):
            ev["ops"][0] = "upd" if ev["ops"][0] != "upd" else "add"
        ixutil.corrupt_and_expect_rejection(
            ctx, "TraceIxBuf.tla", "TraceIxBuf.cfg", trace,
            pick=lambda ev: ev.get("e") == "Content" and 1 <= len(ev.get("ks", [])) <= 40, mutate=mut)

        # ... and an input that lost a key after a merge (Lookup finds nothing) must be rejected at the Recheck
        def mut2(ev):
            i = next(i for i, o in enumerate(ev["lkops"]) if o != "none")
            ev["lkops"][i], ev["lkoffs"][i] = "none", 0
        ixutil.corrupt_and_expect_rejection(
            ctx, "TraceIxBuf.tla", "TraceIxBuf.cfg", trace,
            pick=lambda ev: ev.get("e") == "Recheck" and 1 <= len(ev.get("ks", [])) <= 40 and ev.get("lkops"), mutate=mut2)
    ctx.assumptions += [
        "rank -> key table strictly monotone (asserted by the driver); offsets logged as ids of a bijective id -> 40 bit offset table, tag bits as op",
        "only valid change sequences are generated (add when absent, update/delete when present, across buffers in merge order); an invalid one would stop validation as a harness error",
        "merged buffers are treated as immutable afterwards, as in db19 (results may share chunks with inputs); the chunk structure of the real buffers is not observable through the API: it is steered by fill order, add+delete thinning and merge chains, not asserted",
        "IxBufStore.tla models Go slices as views into arrays with capacity = length for input chunks and clones (spare capacity only makes writes invisible)",
        "TLC exhaustive bounds: see tlc_runs",
    ]
