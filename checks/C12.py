"""C12 Composite index keys preserve value order and are unambiguous (db19/index/ixkey, db19 rangeEnd)"""

META = {
 "engine": "tla-ixkey",
 "text": "TLC exhausts IxKey.tla over all pairs of 2- and 3-field tuples of short byte strings over {0,1,2,255}: byte order of keys = field order, injectivity, Decode/Decode1 inverse, HasPrefix = leading fields match, prefix/suffix split and join, TruncFunc = key of the leading fields, rangeEnd selects exactly the tuples with the given leading fields (also with the single-field and Fields2 rules); the real Spec.Key, Spec.Compare, Encoder, Decode, HasPrefix, SplitPrefixSuffix, JoinPrefixSuffix, TruncFunc and db19.rangeEnd are then run on the same tuples and on seeded random byte tuples (1-5 fields, _lower! fields, Fields2, permuted record layouts) and every result is validated byte for byte by TLC against the specification",
 "note": "trusts TLC, the driver's record construction (RecordBuilder.AddRaw) and the verif accessor VerifRangeEnd; fields beginning with 8 or more 0xff bytes (>= ixkey.Max) are outside the claim, as documented in ixkey.go",
 "technique": "TLA+ model checking (TLC) of the encoding design + trace validation of the real functions' results",
}

# Finding on the pinned commit:
#   F16 truncfunc-untrimmed: ixkey.TruncFunc cuts the key before the n-th separator without trimming trailing
#       empty fields (and passes unique-index keys with Fields2 through unchanged when the field counts are equal),
#       so db19 CheckOtherIndex (full check) looks up "x\0\0" instead of "x" for a foreign key row (x, "") and
#       reports a valid database as corrupt ("foreign key not found"). Reproduced end to end; re-found by
#       trunc.ndjson on every seed; TLC shows it with IxKey_dev_trunc.cfg; fix: trim like Spec.Key.
#
# Mutation testing (scratch worktrees at the fix commits, VERIF_REPO=<dir> VERIF_SKIP_MC=1 bin/vcheck C12 quick, seed 1);
# "tests" = go test ./db19/index/ixkey/ (M1: go test -short ./db19/)
#   M1 db19/tran.go rangeEnd: the second byte of a separator is scanned again (miscounts)   tests RED    check VIOLATION
#   M2 ixkey.go HasPrefix: only one zero byte required after the prefix                     tests green  check VIOLATION
#   M3 ixkey.go Spec.Key: a last field "\x00" counts as empty when trimming                 tests RED    check VIOLATION
#   M4 ixkey.go SplitPrefixSuffix: separator's second byte scanned again                    tests RED    check VIOLATION
#   M5 ixkey.go Spec.Compare: Fields2 compared even when the primary fields are not empty   tests green  check VIOLATION
#   M6 ixkey.go Decode1: only the first escaped zero of a field is unescaped                tests green  check VIOLATION
#   M7 ixkey.go Encoder.String: a key that is a single escaped zero is trimmed away         tests green  check VIOLATION
#   M8 ixkey.go JoinPrefixSuffix: separators counted as zero bytes / 2                      tests green  check VIOLATION


def run(ctx):
    import os
    if os.environ.get("VERIF_SKIP_MC") == "1":   # development aid for mutation runs only
        return conformance(ctx)
    # 1. design level: exhaustive small scope
    ctx.tlc_mc("MC_IxKey.tla", "IxKey_quick2.cfg", timeout=300)
    ctx.tlc_mc("MC_IxKey.tla", "IxKey_quick3.cfg", timeout=300)
    if ctx.thorough():
        ctx.tlc_mc("MC_IxKey.tla", "IxKey_thorough2.cfg", timeout=1500)
        ctx.tlc_mc("MC_IxKey.tla", "IxKey_thorough3.cfg", timeout=1500)
        ctx.tlc_mc("MC_IxKey.tla", "IxKey_thorough_len3.cfg", timeout=1500)
    # anti-vacuity: swapped separator/escape bytes break order and injectivity; TruncFunc
    # without trimming (the pinned commit's behaviour) is not the key of the leading fields
    ctx.tlc_mc("MC_IxKey.tla", "IxKey_dev_swap.cfg", timeout=300, expect_violation="OrderPreserved", count=False)
    ctx.tlc_mc("MC_IxKey.tla", "IxKey_dev_trunc.cfg", timeout=300, expect_violation="TruncIsKeyOfLeading", count=False)
    conformance(ctx)


def conformance(ctx):
    # 2. conformance: the real functions on the same scope + random tuples
    drv = ctx.go_build("ixkey")
    nrandom = 20000 if ctx.thorough() else 600
    rc, out, summ = ctx.driver(drv, [ctx.work, nrandom], timeout=900)
    if rc != 0:
        raise __import__("vlib").Infra("ixkey driver failed rc=%d:\n%s" % (rc, out[-3000:]))
    main = ctx.work + "/ixkey.ndjson"
    ctx.sample_trace_lines(main, 4)
    res = ctx.tlc_trace("TraceIxKey.tla", "TraceIxKey.cfg", main, timeout=1500, ntraces=1)
    if not res["accepted"]:
        ctx.report_rejection(main, res)
    # TruncFunc is validated separately so that a rejection there (finding F16: no trimming
    # of trailing empty fields at the pinned commit) does not hide the rest
    p = ctx.work + "/trunc.ndjson"
    res = ctx.tlc_trace("TraceIxKey.tla", "TraceIxKey.cfg", p, timeout=900, ntraces=1)
    if not res["accepted"]:
        ctx.report_rejection(p, res, key="truncfunc-untrimmed")
    for k in ("Key", "Cmp", "Enc", "Dec", "HasPrefix", "Split", "Join", "Trunc", "RangeEnd", "InRange"):
        ctx.cov["real_calls_" + k] = summ.get(k, 0)
    ctx.assumptions += [
        "records built with RecordBuilder.AddRaw; Spec.Fields permuted and mixed with filler fields",
        "TLC exhaustive bounds: all pairs of 2-field tuples over {0,1,255} (length<=2) and 3-field tuples over {0,1,2,255} (length<=1) in quick; {0,1,2,255} length<=2 and 3 fields / length 3 over {0,1} in thorough",
        "fields >= ixkey.Max (8 x 0xff) excluded (documented limitation of the encoding)",
    ]
