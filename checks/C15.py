"""C15 Metadata tables behave as persistent maps and survive persist cycles
(util/hamt: Hamt, Chain, WriteChain, ReadChain; db19/meta: Meta.Put/Drop/RenameTable/Write)"""
# Mutation testing (scratch worktrees at the three fix: commits, VERIF_REPO=<dir> bin/vcheck C15 quick, seed 1;
# every mutant listed compiles and keeps `go test ./util/hamt/ ./db19/meta/...` green):
#  caught (VIOLATION):
#   M3  hamt.Write: lastMod filter `>=` -> `>` (both loops)              rejected: Write read-back misses entries
#   M4  WriteChain: oldest = Ages[no-1] instead of Ages[no-merge]        rejected: Write, ReadChain panics (checksum)
#   M5  Hamt.read: older chunks overwrite newer items                    rejected: Write, ReadChain panics (checksum)
#   M12 hamt.Write: tombstones included in the chunk checksum            rejected: Write, ReadChain panics (checksum)
#   M20 pullUp without path copy (shared child mutated)                  rejected: Obs of a frozen version
#   M21 without: path copy only at the root                              rejected: Obs of a frozen version
#   M22 Mutable does not start a new generation                          rejected: Obs of a frozen version
#   M7  meta.Drop: physical delete whenever `created` is set             rejected: DbObs/ReadState/open after persist
#   M8  meta.Put: lastMod not set (views)                                rejected: ReadState (checksum) / view lost
#   M17 meta.RenameTable: no tombstone for the old name                  rejected: DbObs (old table still listed)
#   M9  meta.Apply: lastMod not set after merge/persist of an info       rejected: ReadState/open (checksum), needed the
#                                                                         "transaction straddles a persist" step
#  not a violation by design:
#   M6  WriteChain: prevOff = newest chunk instead of last kept chunk    read-back still correct -> reported as DRIFT
#                                                                         (exit 2: model and code differ), no VIOLATION
#  mutants that the package's own tests already kill (not counted): pullUp dropping a node with two values,
#   node.dup sharing the vals slice, ReadChain ages off by one, flatten keeping tombstones

import os
import re

META = {
 "engine": "tla-metachain",
 "text": "TLC exhausts MetaChain.tla (put / tombstone / delete / persist with nmerge and the lastMod filter / reopen; "
         "2-3 keys, maxChain 2-3 as a spec constant, 5 (quick) to 9 writes, 1-2 reopens) for: reading the chain back yields exactly "
         "the live entries as of the last persist, the in-memory chain equals the file chain, the chain is bounded, the "
         "lastMod filter is sound; and HamtTrie.tla (Mutable / with / without / pullUp / Freeze on a shared node heap, "
         "up to 3 versions alive, 4-5 keys colliding on every level down to overflow nodes) for: every version is "
         "exactly its map through Get and All, frozen versions never change, nodes writable in place are private. "
         "Random and scripted executions of the REAL hamt.Hamt/Chain (driver-chosen colliding hashes, main line + side "
         "branches of versions, clock > 100, chains of maxChain chunks) are then validated by TLC: Get/All of every "
         "retained version after every action against the model map, ReadChain(WriteChain(h)) = live entries of h, "
         "reopen = entries as of the last write; and the same persist cycles through a real database (create / alter / "
         "rename / drop tables and views, inserts incl. transactions that straddle a persist, Persist, ReadState, "
         "close + reopen): tables, infos (row counts) and views of the live state, the file and the reopened database",
 "note": "trusts TLC, the driver's test item type (its Write/read encoding) at the hamt level, heap stor instead of "
         "mmap files; conformance of the chain structure (chunk contents, offs, ages, clock) with MetaChain!WriteChain "
         "is checked on every write but a difference is reported as exit 2 (model drift), not as a violation",
 "technique": "TLA+ model checking (TLC) + trace validation of recorded executions of the real code",
}


def run(ctx):
    if os.environ.get("VERIF_C15_SKIP_MC") != "1":     # (knob for mutation testing of the driver only)
        model_check(ctx)
    conformance(ctx)


def model_check(ctx):
    # 1. design level: exhaustive TLC on MetaChain.tla (quick: one config; the rest is thorough)
    ctx.tlc_mc("MC_MetaChain.tla", "MetaChain_quick.cfg", timeout=300, workers=8)
    if ctx.thorough():
        ctx.tlc_mc("MC_MetaChain.tla", "MetaChain_thorough2.cfg", timeout=600)
        ctx.tlc_mc("MC_MetaChain.tla", "MetaChain_quick2.cfg", timeout=600)
        ctx.tlc_mc("MC_MetaChain.tla", "MetaChain_thorough.cfg", timeout=1500)
        ctx.tlc_mc("MC_MetaChain.tla", "MetaChain_thorough3.cfg", timeout=1500)
        ctx.tlc_mc("MC_MetaChain.tla", "MetaChain_thorough3c.cfg", timeout=1500)
    # anti-vacuity: with the F7 behaviour (emptied flatten keeps the old chain) the model must fail
    ctx.tlc_mc("MC_MetaChain.tla", "MetaChain_dev_f7.cfg", timeout=300, workers=2,
               expect_violation="ReopenSeesPersisted", count=False)
    # an entry put with an older clock than the chain's (Meta.LayeredOnto before fix 62705c7)
    ctx.tlc_mc("MC_MetaChain.tla", "MetaChain_dev_stale.cfg", timeout=300, workers=2,
               expect_violation="ReopenSeesPersisted", count=False)
    # the hash-trie level: with / without / pullUp with generation based path copying on a
    # shared heap of nodes, several versions alive, keys colliding on every level
    ctx.tlc_mc("MC_HamtTrie.tla", "HamtTrie_quick.cfg", timeout=300, workers=8)
    if ctx.thorough():
        ctx.tlc_mc("MC_HamtTrie.tla", "HamtTrie_thorough.cfg", timeout=1500)
        ctx.tlc_mc("MC_HamtTrie.tla", "HamtTrie_thorough3.cfg", timeout=1500)
        # anti-vacuity: a path copy left out must break a frozen version in the model
        ctx.tlc_mc("MC_HamtTrie.tla", "HamtTrie_dev_pullup.cfg", timeout=300, expect_violation="GetOK", count=False)
        ctx.tlc_mc("MC_HamtTrie.tla", "HamtTrie_dev_without.cfg", timeout=300, expect_violation="GetOK", count=False)
        ctx.tlc_mc("MC_HamtTrie.tla", "HamtTrie_dev_mutable.cfg", timeout=300, expect_violation="OwnNodesPrivate", count=False)


def conformance(ctx):
    # 2. conformance: the real hamt / chain / meta code, validated by TraceMetaChain
    if ctx.replay:
        trace, summ = ctx.replay, None          # re-validate a kept replay file
    else:
        drv = ctx.go_build("metachain")
        trace = ctx.work + "/metachain.ndjson"
        nh, ndb = (150, 400) if ctx.thorough() else (14, 40)
        rc, out, summ = ctx.driver(drv, [trace, nh, ndb], timeout=1500)
        if rc != 0 or not summ:
            raise ctx_infra("metachain driver failed (rc=%s):\n%s" % (rc, out[-2000:]))
        ctx.sample_trace_lines(trace, 8)
    res = ctx.tlc_trace("TraceMetaChain.tla", "TraceMetaChain.cfg", trace, timeout=1200)
    tlcout = res.get("out", "")
    if not res["accepted"]:
        # (the trace spec consumes every line; this means something unexpected)
        ctx.report_rejection(trace, res)
        return
    m = re.search(r'"BADLINES",\s*(\d+),\s*<<([^>]*)>>', tlcout)
    if not m:
        raise ctx_infra("trace validation printed no BADLINES summary:\n" + tlcout[-1500:])
    nbad = int(m.group(1))
    bad = [int(x) for x in re.findall(r"\d+", m.group(2))]
    if nbad:
        # a recorded line of the REAL code that the specification does not allow
        ctx.cov["events_validated"] -= res["events"]
        ctx.cov["traces_validated_against_impl"] = 0
        lines = open(trace).read().splitlines()
        for b in bad[:12]:
            ctx.log("rejected line %d: %s" % (b, lines[b - 1][:300]))
        if nbad > 1:
            ctx.log("%d scenarios rejected in total (lines %s%s)" % (nbad, bad[:40], " ..." if nbad > 40 else ""))
        ctx.report_rejection(trace, {"line": bad[0], "reason": "no spec action explains trace line %d" % bad[0]})
        return
    # vacuity guard (only when nothing was rejected: scenarios end early after a rejection):
    # the driver must really have exercised the code
    if summ and (summ.get("writes", 0) < 20 * nh or summ.get("dbops", 0) < 8 * ndb
                 or summ.get("maxchain", 0) < 7 or summ.get("deletes", 0) < 5 * nh):
        raise ctx_infra("metachain driver did too little: %s" % summ)
    d = re.search(r'"DRIFT",\s*(\d+)', tlcout)
    if d and int(d.group(1)) != 0:
        line = int(d.group(1))
        raise ctx_infra("chain structure differs from MetaChain!WriteChain/ReadChain at trace line %d "
                        "(the property held on every line; the exhaustively checked model is not the "
                        "algorithm the code runs -- update spec/MetaChain.tla): %s"
                        % (line, open(trace).read().splitlines()[line - 1][:400]))
    for k in ("writes", "puts", "deletes", "maxclock", "maxchain", "dbops", "scenarios"):
        if summ:
            ctx.cov["real_" + k] = summ.get(k, 0)
    ctx.assumptions += [
        "the driver's item type (7 byte encoding, additive checksum) stands in for meta.Schema / meta.Info at the hamt level; "
        "the meta level runs the real items through a database on a heap stor",
        "physical Delete on the main line only for keys no chunk of the current chain mentions (the discipline "
        "db19/meta implements with `created`); side branches delete freely",
        "versions are derived (Mutable) only from frozen versions, as db19/meta does",
        "TLC exhaustive bounds: see tlc_runs; maxChain is 7 in the code, reached by the driver (clock > 127, reopen cycles)",
    ]


def ctx_infra(msg):
    import vlib
    return vlib.Infra(msg)
