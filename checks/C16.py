"""C16 Background merge and persist never lose or duplicate committed changes (db19/concur.go, state.go, meta/info.go, index/overlay.go)"""
import dbcommon

META = {
 "engine": "tla-pipeline",
 "text": "TLC exhausts Pipeline.tla (commit layering, merger take/compute/apply, persist compute/apply, index creation on a populated table in four separate steps, table load on the running database, clean close) for IndexesAgree (no loss, no duplication), StatsExact and LayersParallel in every intermediate state; every state published by the real pipeline (hook inside the state mutex logs btree + every layer of every index) must flatten, for every index, to exactly the committed rows under the right keys and have exact statistics (TraceDb.tla TableOK), and each update must be a legal commit / merge / persist step of the previous physical state (StepOK), under free-running concurrent clients with a 3-5 ms persist interval",
 "note": "trusts TLC, hook placement inside the state mutex, the driver's byte-level key check (entry key = Ixspec.Key(row), strictly ascending) logged as keyok; universe <= 8 rows per table",
 "technique": "TLA+ model checking (TLC) + trace validation of every published state (commit / merge / persist steps)",
}

def run(ctx):
    ctx.tlc_mc("Pipeline.tla", "Pipeline_quick.cfg", timeout=300)
    if ctx.thorough():
        ctx.tlc_mc("Pipeline.tla", "Pipeline_thorough.cfg", timeout=900)
    # anti-vacuity: the pre-fix behaviour (overlays sized from the build snapshot) violates LayersParallel
    ctx.tlc_mc("Pipeline.tla", "Pipeline_dev_alter.cfg", timeout=300, expect_violation="LayersParallel", count=False)
    # and persisting a table only when its FIRST index is modified (before fix c9087ac) loses deletes in a new index
    ctx.tlc_mc("Pipeline.tla", "Pipeline_dev_f20.cfg", timeout=300, expect_violation="ReopenSeesAll", count=False)
    # table load on the running database done by the caller instead of the merger (before fix 90a29de)
    ctx.tlc_mc("Pipeline.tla", "Pipeline_dev_load.cfg", timeout=300, expect_violation="QueueFits", count=False)
    ctx.tlc_mc("Pipeline.tla", "Pipeline_dev_load6.cfg", timeout=300, expect_violation="IndexesAgree", count=False)
    for k in range(3 if ctx.thorough() else 1):
        dbcommon.run_db(ctx, "admin", 20 if ctx.thorough() else 1, "C16a" + "x" * k)
    dbcommon.run_db(ctx, "tran", 30 if ctx.thorough() else 2, "C16c")
    dbcommon.run_db(ctx, "tranpairs", 30 if ctx.thorough() else 2, "C16p")
    # nothing committed may be lost by persist: what was visible before a clean close is what a
    # reopen shows (real files, transactions spanning persists, index builds over unpersisted rows)
    import durcommon
    for k in range(3 if ctx.thorough() else 1):
        durcommon.run_file(ctx, "reopen", 20 if ctx.thorough() else 4, 0, "C16r" + "x" * k,
                           extra_env={"VERIF_SPAN_OFTEN": "1"})  # many transactions spanning persists
    ctx.assumptions += dbcommon.ASSUME
