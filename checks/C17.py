"""C17 Checker message queue preserves per-transaction order (util/queue/priority_queue.go)"""

META = {
 "engine": "tla-pqueue",
 "text": "TLC exhausts PQueue.tla (2-3 producers x 2 messages, all priorities/transaction assignments, capacity 2-3) for per-transaction FIFO, exactly-once, the priority rule and delivery (liveness under weak fairness); every Put/Get of the real PriorityQueue under concurrent producers is then validated against the declarative rule by TLC trace validation",
 "note": "trusts TLC, the placement of the PQPut/PQGet hooks inside the queue's critical section, one consumer as in checkco.go; small-scope bounds in evidence",
 "technique": "TLA+ model checking (TLC) + trace validation of hook events from the real queue",
}

def run(ctx):
    # 1. design level: exhaustive TLC on PQueue.tla (safety + liveness under fairness)
    ctx.tlc_mc("MC_PQueue.tla", "PQueue_quick.cfg", timeout=300)
    ctx.tlc_mc("MC_PQueue.tla", "PQueue_safety3.cfg", timeout=600)
    if ctx.thorough():
        ctx.tlc_mc("MC_PQueue.tla", "PQueue_thorough.cfg", timeout=1500)
    # anti-vacuity: the code's scan with '>=' instead of '>' must violate the rule in the model
    ctx.tlc_mc("MC_PQueue.tla", "PQueue_dev_ge.cfg", timeout=300, expect_violation="PriorityRule", count=False)
    # 2. conformance: real PriorityQueue, hook events under pq.lock, validated by TracePQueue
    drv = ctx.go_build("pqueue")
    trace = ctx.work + "/pq.ndjson"
    nscen = 1500 if ctx.thorough() else 300
    rc, out, summ = ctx.driver(drv, [trace, nscen], timeout=900)
    ctx.sample_trace_lines(trace, 6)
    res = ctx.tlc_trace("TracePQueue.tla", "TracePQueue.cfg", trace, timeout=900)
    if not res["accepted"]:
        ctx.report_rejection(trace, res)
    ctx.cov["messages_through_real_queue"] = summ.get("messages", 0)
    ctx.assumptions += [
        "hook events PQPut/PQGet are emitted inside the critical section of Put/Get (pq.lock held)",
        "one consumer, as in db19/checkco.go",
        "TLC exhaustive bounds: see tlc_runs (2-3 producers x 2-3 messages, capacity 2-3)",
    ]
