"""C17 Checker message queue preserves per-transaction order (util/queue/priority_queue.go)"""

META = {
 "engine": "tla-pqueue",
 "text": "TLC exhausts PQueue.tla (2-3 producers x 2 messages, all priorities/transaction assignments, capacity 2-3) for per-transaction FIFO, exactly-once, the priority rule and delivery (liveness under weak fairness); every Put/Get of the real PriorityQueue under concurrent producers is then validated against the declarative rule by TLC trace validation; end to end, the messages sent for each transaction by the real transaction code (db19/checkco.go senders) must be dispatched by the real checker goroutine in the order sent, exactly once (TraceCkOrder.tla), under concurrent clients with a slowed checker (full queue)",
 "note": "trusts TLC, the placement of the PQPut/PQGet hooks inside the queue's critical section, one consumer as in checkco.go; small-scope bounds in evidence",
 "technique": "TLA+ model checking (TLC) + trace validation of hook events from the real queue",
}

import vlib

def run(ctx):
    # 1. design level: exhaustive TLC on PQueue.tla (safety + liveness under fairness)
    ctx.tlc_mc("MC_PQueue.tla", "PQueue_quick.cfg", timeout=300)
    ctx.tlc_mc("MC_PQueue.tla", "PQueue_safety3.cfg", timeout=600)
    if ctx.thorough():
        ctx.tlc_mc("MC_PQueue.tla", "PQueue_thorough.cfg", timeout=1500)
    # anti-vacuity: the code's scan with '>=' instead of '>' must violate the rule in the model
    ctx.tlc_mc("MC_PQueue.tla", "PQueue_dev_ge.cfg", timeout=300, expect_violation="PriorityRule", count=False)
    # 2. conformance: real PriorityQueue, hook events under pq.lock, validated by TracePQueue
    drv = ctx.go_build("pqueue")
    trace = ctx.work + "/pq.ndjson"
    nscen = 1500 if ctx.thorough() else 300
    rc, out, summ = ctx.driver(drv, [trace, nscen], timeout=900)
    ctx.sample_trace_lines(trace, 6)
    res = ctx.tlc_trace("TracePQueue.tla", "TracePQueue.cfg", trace, timeout=900)
    if not res["accepted"]:
        ctx.report_rejection(trace, res)
    ctx.cov["messages_through_real_queue"] = summ.get("messages", 0)
    # 3. end to end (db19/checkco.go): the messages sent for a transaction by the real
    #    transaction code (CheckCo.Read/Output/Delete/Update/ReadCount/Commit/Abort, event logged
    #    by the sending goroutine) are dispatched by the real checker goroutine in that order,
    #    with concurrent clients and the checker slowed down so that the 8-slot queue is full
    import os
    drv2 = ctx.go_build("dbtran")
    t2 = ctx.work + "/ckorder.ndjson"
    rc, out, summ2 = ctx.driver(drv2, ["tran", t2, 12 if ctx.thorough() else 2], timeout=1500,
                                env={"VERIF_CKORDER": "1", "VERIF_CKSLOW": "1", "VERIF_FLUSH": "0",
                                     "VERIF_SEED": str(ctx.seed * 1000 + 17)}, name="dbtran:ckorder")
    ck = t2 + ".ck"
    if not os.path.exists(ck) or os.path.getsize(ck) == 0:
        raise vlib.Infra("no checker order trace: " + out[-1500:])
    ctx.sample_trace_lines(ck, 4, kind="real trace excerpt (checker message order)")
    res = ctx.tlc_trace("TraceCkOrder.tla", "TraceCkOrder.cfg", ck, timeout=900)
    if not res["accepted"]:
        ctx.report_rejection(ck, res)
    ctx.cov["transactions_checked_end_to_end"] = summ2.get("transactions", 0)
    ctx.assumptions += [
        "hook events PQPut/PQGet are emitted inside the critical section of Put/Get (pq.lock held)",
        "CkSend is emitted by the sending goroutine before the message is handed to the queue, CkRecv by the checker goroutine after Get",
        "one consumer, as in db19/checkco.go",
        "TLC exhaustive bounds: see tlc_runs (2-3 producers x 2-3 messages, capacity 2-3)",
    ]
