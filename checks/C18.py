"""C18 Concurrent storage allocations never overlap (db19/stor/stor.go Alloc/extend)

Mutation testing of this check (scratch worktree on top of the hook commit, VERIF_REPO=<dir>,
quick tier, VERIF_SEED=1,2,3; every mutant compiles and passes `go test -short ./db19/stor/`):
  M1 extend: allocChunk.Add(1) moved before size.Store(...)             VIOLATION 3/3 (gated: overlap)
  M2 Alloc: `endChunk == allocChunk || (no straddle && chunk mapped)`, i.e. the
     "another thread bumped us into the next chunk" test dropped        VIOLATION 3/3 (gated: overlap)
  M3 extend without the "another thread beat us to it" return           VIOLATION 3/3 (gated: overlap / beyond size)
  M5 size.Add(n) replaced by Load()+n; Store()  (not atomic)            VIOLATION 3/3 (free-running stress: overlap)
  M6 extend: lock released right after Lock() (no mutual exclusion)     VIOLATION 3/3 (gated: returned slice is no
                                                                        longer the storage at its offset, Done.bad)
  rejected as mutants because the repository's own TestAlloc fails: straddle-only test without the
  chunk-mapped condition; size.Store(start of the OLD chunk).
Deviations of the model (Dev = reorder / nocheck / nobeat) are shown to violate Disjoint by TLC.
VERIF_SKIP_MC=1 skips the spec-only TLC runs (developer shortcut for mutation loops only).
"""
import json, os, re

META = {
 "engine": "tla-stor",
 "text": "TLC exhausts Stor.tla (PlusCal, one label per atomic operation of Alloc/extend; 3 allocators x 1 allocation and 2 x 2 in quick, 3 x 1 / 2 x 2 with chunk 4 and 2 x 3 with chunk 2 in thorough, 3 x 2 by simulation) for disjointness, no chunk straddling, within size, and termination (returns or panics); TLC-generated interleavings with a chunk crossing are executed step by step on the real Stor with goroutines parked at verif gates between all atomic operations, plus seeded random walks over the gates and a free-running stress; every returned (offset, slice) is validated by TLC trace validation, and the gated runs are additionally checked step by step against the model",
 "note": "trusts TLC, the placement of the stor.* gates immediately before each atomic operation, sequential consistency of Go atomics (the model interleaves atomic operations), heap stor instead of mmap; bounds in evidence",
 "technique": "TLA+/PlusCal model checking (TLC) + schedule-guided execution of the real code through gates + TLC trace validation",
}

DEVS = [("Stor_dev_reorder.cfg", "Disjoint"), ("Stor_dev_nocheck.cfg", "Disjoint"),
        ("Stor_dev_nobeat.cfg", "Disjoint")]


def gen_schedules(ctx, cfg, num, path, workers=4):
    """TLC simulation of MC_StorSim prints every finished behaviour with a chunk crossing"""
    ex = ctx.cov["exhaustive"]
    ctx.tlc_mc("MC_StorSim.tla", cfg, workers=workers, timeout=600, simulate="num=%d" % num,
               extra_args=["-depth", "400", "-seed", str(ctx.seed)], count=False,
               label="schedule generation (not a verification run)")
    ctx.cov["exhaustive"] = ex      # generation run, no claim attached
    n = 0
    with open(path, "a") as f:
        for m in re.finditer(r'^\s*"(\[\[[0-9,\[\]]*\]\])" >>\s*$', ctx._last_out, flags=re.M):
            try:
                json.loads(m.group(1))
            except Exception:
                continue
            f.write(m.group(1) + "\n")
            n += 1
    return n


def replay(ctx):
    """--replay <trace>: re-execute the recorded gated schedules against the current tree and
    validate that execution; a free-running trace can only be re-validated as recorded"""
    from vlib import Infra
    stored = ctx.replay
    res0 = ctx.tlc_trace("TraceStor.tla", "TraceStor.cfg", stored, timeout=1200)
    ctx.log("stored trace: %s" % ("accepted" if res0["accepted"] else "rejected at line %s" % res0.get("line")))
    if '"mode":"gated"' not in open(stored).read():
        if not res0["accepted"]:
            ctx.report_rejection(stored, res0)
        return
    drv = ctx.go_build("stor")
    again = os.path.join(ctx.work, "stor-replayed.ndjson")
    rc, out, summ = ctx.driver(drv, ["replay", again, stored], timeout=900)
    if rc != 0 or not summ.get("gates_seen"):
        raise Infra("stor replay failed rc=%d (no gates?)\n%s" % (rc, out[-2000:]))
    res = ctx.tlc_trace("TraceStor.tla", "TraceStor.cfg", again, timeout=1200)
    if not res["accepted"]:
        ctx.report_rejection(again, res)


def run(ctx):
    from vlib import Infra
    if ctx.replay:
        return replay(ctx)
    th = ctx.thorough()
    # 1. design level: exhaustive TLC
    # (VERIF_SKIP_MC=1: developer shortcut for mutation loops, skips the spec-only runs)
    skip_mc = os.environ.get("VERIF_SKIP_MC") == "1"
    if not skip_mc:
        ctx.tlc_mc("MC_Stor.tla", "Stor_q31.cfg", timeout=900)
        ctx.tlc_mc("MC_Stor.tla", "Stor_q22.cfg", timeout=900)
        ctx.tlc_mc("MC_Stor.tla", "Stor_live.cfg", timeout=900)      # + liveness: everybody finishes
    if th:
        ctx.tlc_mc("MC_Stor.tla", "Stor_t22.cfg", timeout=1800)
        ctx.tlc_mc("MC_Stor.tla", "Stor_t31.cfg", timeout=1800)
        ctx.tlc_mc("MC_Stor.tla", "Stor_t23.cfg", timeout=2400)
        # 3 x 2 is too large to exhaust: random simulation under a timeout (exhaustive: false)
        ctx.tlc_mc("MC_Stor.tla", "Stor_t32sim.cfg", timeout=150, simulate="num=100000000",
                   extra_args=["-depth", "400", "-seed", str(ctx.seed)], count=False,
                   label="3 allocators x 2 allocations: simulation only, cut by timeout")
    # anti-vacuity: each deviation must produce overlapping ranges in the model
    # (quick: one of them, chosen by the seed; thorough: all)
    for i, (cfg, inv) in enumerate(DEVS):
        if (th or i == ctx.seed % len(DEVS)) and not skip_mc:
            ctx.tlc_mc("MC_Stor.tla", cfg, workers=4, timeout=600, expect_violation=inv, count=False)
    if th:
        # the loud failure is reachable (2 allocators x 2 allocations suffice)
        ctx.tlc_mc("MC_Stor.tla", "Stor_reach_retries.cfg", workers=4, timeout=600,
                   expect_violation="NoRetryPanic", count=False)

    # 2. schedules from TLC (3 x 2 behaviours contain the 3 x 1 and 2 x 2 interleavings)
    sched = os.path.join(ctx.work, "schedules.txt")
    open(sched, "w").close()
    nsched = gen_schedules(ctx, "StorSim_32.cfg", 150 if th else 60, sched)
    if th:
        nsched += gen_schedules(ctx, "StorSim_22.cfg", 100, sched)
        nsched += gen_schedules(ctx, "StorSim_31.cfg", 100, sched)
    if nsched == 0:
        raise Infra("no schedules generated")
    ctx.cov["tlc_schedules"] = nsched

    # 3. real code
    drv = ctx.go_build("stor")
    gated = os.path.join(ctx.work, "stor-gated.ndjson")
    rc, out, summ = ctx.driver(drv, ["gated", gated, sched, 1000 if th else 200, 4, 3, 2], timeout=900)
    if rc != 0:
        raise Infra("stor driver failed rc=%d\n%s" % (rc, out[-3000:]))
    if not summ.get("gates_seen"):
        raise Infra("no stor.* gate was reached: db19/stor/stor.go has no verif gates in this tree "
                    "(hook commit 'verif: gates between the atomic operations of Stor.Alloc/extend' missing?)")
    gated8 = os.path.join(ctx.work, "stor-gated8.ndjson")
    rc, out, summ8 = ctx.driver(drv, ["gated", gated8, "-", 600 if th else 150, 8, 4, 3], timeout=900)
    if rc != 0:
        raise Infra("stor driver failed rc=%d\n%s" % (rc, out[-3000:]))
    free = os.path.join(ctx.work, "stor-free.ndjson")
    rc, out, summf = ctx.driver(drv, ["free", free, 30 if th else 6], timeout=900)
    if rc != 0:
        raise Infra("stor driver failed rc=%d\n%s" % (rc, out[-3000:]))
    ctx.sample_trace_lines(gated, 8)
    ctx.sample_trace_lines(free, 3)
    # one file = one TLC start: scenarios are separated by Reset lines
    allf = os.path.join(ctx.work, "stor-all.ndjson")
    with open(allf, "w") as f:
        for i, tf in enumerate((gated, gated8, free)):
            if i:
                f.write('{"e":"Reset"}\n')
            f.write(open(tf).read())

    # 4. verdict: property-level trace validation of everything the real code returned
    res = ctx.tlc_trace("TraceStor.tla", "TraceStor.cfg", allf, timeout=1800)
    if not res["accepted"]:
        ctx.report_rejection(allf, res)
        return
    # 5. model conformance of the gated runs (not a verdict about the property)
    ev, tr = ctx.cov["events_validated"], ctx.cov["traces_validated_against_impl"]
    for tf in ((allf, gated8) if th else (allf,)):
        res = ctx.tlc_trace("TraceStor.tla", "TraceStorConform.cfg", tf, timeout=1800)
        if not res["accepted"]:
            raise Infra("MODEL-DIVERGENCE: the gated execution of stor.go is not a behaviour of Stor.tla "
                        "(%s line %s: %s); the returned ranges satisfied the property, but the exhaustive "
                        "results no longer transfer to this code" % (os.path.basename(tf), res.get("line"),
                                                                     res.get("out", "")[-600:]))
    ctx.cov["events_validated"], ctx.cov["traces_validated_against_impl"] = ev, tr   # same traces, not counted twice
    ctx.cov["gated_scenarios_conforming_to_model_step_by_step"] = summ.get("scenarios", 0) + (summ8.get("scenarios", 0) if th else 0)
    # 6. anti-vacuity of the trace spec: a hand-made overlap must be rejected at that line
    lines = open(gated).read().splitlines()
    idx = [i for i, x in enumerate(lines[:3000]) if '"e":"Alloc"' in x]
    seg_end = next((i for i, x in enumerate(lines) if '"e":"Reset"' in x), len(lines))
    idx = [i for i in idx if i < seg_end]
    if len(idx) >= 2:
        a, b = json.loads(lines[idx[0]]), json.loads(lines[idx[1]])
        b["off"] = a["off"] + a["len"] - 1
        cor = lines[:seg_end]
        cor[idx[1]] = json.dumps(b, separators=(",", ":"))
        cf = os.path.join(ctx.work, "stor-corrupt.ndjson")
        with open(cf, "w") as f:
            f.write("\n".join(cor) + "\n")
        ev, tr = ctx.cov["events_validated"], ctx.cov["traces_validated_against_impl"]
        res = ctx.tlc_trace("TraceStor.tla", "TraceStor.cfg", cf, timeout=600)
        ctx.cov["events_validated"], ctx.cov["traces_validated_against_impl"] = ev, tr
        if res["accepted"] or res.get("line") != idx[1] + 1:
            raise Infra("self-test: corrupted trace (overlap at line %d) not rejected there: %s" % (idx[1] + 1, res))
        ctx.cov["corrupted_trace_rejected_at_line"] = idx[1] + 1
    ctx.cov["gated_scenarios"] = summ.get("scenarios", 0) + summ8.get("scenarios", 0)
    ctx.cov["tlc_schedules_followed_exactly"] = summ.get("followed_exactly", 0)
    ctx.cov["gate_steps_executed"] = summ.get("steps", 0) + summ8.get("steps", 0)
    ctx.cov["chunk_crossings_gated"] = summ.get("chunk_crossings", 0) + summ8.get("chunk_crossings", 0)
    ctx.cov["loud_failures_observed"] = summ.get("fails", 0) + summ8.get("fails", 0) + summf.get("fails", 0)
    ctx.cov["free_running_allocs"] = summf.get("allocs", 0)
    ctx.assumptions += [
        "gates stor.<label> sit immediately before the atomic operation the label names; between two gates exactly one goroutine runs",
        "Go atomics are sequentially consistent, so interleavings of atomic operations are all behaviours",
        "deferred s.lock.Unlock() merged with the preceding operation (release = left mover)",
        "heap stor (impl.Get = make) instead of mmap; Close/closedSize not modelled",
        "TLC bounds: see tlc_runs; 3 allocators x 2 allocations only by simulation (thorough)",
        "a panic of Alloc (e.g. 'too many retries', reachable with 2 allocators, see Stor_reach_retries.cfg) is the allowed 'fails loudly' outcome",
    ]
