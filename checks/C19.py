"""C19 Historical reads show the state as of the requested time (db19/state.go StateAsof/PrevState/NextState, tran.go Asof)"""
import durcommon

META = {
 "engine": "tla-durable",
 "text": "TLC exhausts Durable.tla for AsofMonotone / StepsInOrder over all files; on real files with dozens of persisted states read transactions are moved to times at / between / before all states and to the future and stepped +-1; TraceDurable.tla requires the state selected by Durable.tla's AsofIdx / NextIdx / PrevIdx (offset, time and content digest)",
 "note": "trusts TLC, the persist hook; stepping from the position 'before the first state' is left open (the code has no position for it), as the property only fixes what that time shows",
 "technique": "TLA+ model checking (TLC) + trace validation of real database files",
}

def run(ctx):
    durcommon.exhaustive(ctx, "C19")
    for k in range(4 if ctx.thorough() else 1):
        durcommon.run_file(ctx, "asof", 50 if ctx.thorough() else 4, 0, "C19" + "x" * k)
    ctx.assumptions += durcommon.ASSUME
