"""C20 Dump, load and compact preserve the logical database (db19/tools)"""
import durcommon

META = {
 "engine": "tla-durable",
 "text": "Validation only at design level (the content is an identity): real files built by random histories (renamed/dropped/added columns, records up to 70 KB, foreign keys, views) go through tools.DumpDatabase + LoadDatabase and tools.Compact; TraceDurable.tla requires the resulting database to have the same content digest (dump schema text, views, rows by live column through every index, counts) and to pass the full check; a single table goes through DumpTable + LoadTable into a fresh database (same table), and a dump edited to contain a duplicate key must be refused by load. Durable.tla is model-checked as the surrounding file model",
 "note": "trusts TLC, sha1 digests of content read through the real code",
 "technique": "trace validation of real dump/load/compact runs against the TLA+ file model",
}

def run(ctx):
    durcommon.exhaustive(ctx, "C20")
    durcommon.run_file(ctx, "dump", 40 if ctx.thorough() else 4, 0, "C20")
    ctx.assumptions += durcommon.ASSUME
