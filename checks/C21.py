"""C21 Schema changes keep metadata consistent (db19/meta/meta.go, db19/database.go admin ops, dbms/query/admin.go)"""
# Mutation results (quick tier conformance part, seed 1, VERIF_REPO=/tmp/wt-c21-mut = main + the three
# fix: commits so that the only rejection is the mutant's; every mutant compiles; `go test ./db19/meta/...`
# stays green except where noted; all in db19/meta/meta.go):
#   M1 renameFkey: `fk.Columns = ix.Columns` -> `_ = fk` (FkToHere in the target not renamed)
#        VIOLATION at `alter tb rename a to z, b to a` (FkToHere columns stale)
#   M2 renameFkey: `refIdx.Fk.Columns = ix.Columns` -> `_ = refIdx` (Fk.Columns of referencing tables not renamed)
#        VIOLATION at `alter ta rename a to z` (also caught by the repository's TestValidateForeignKeyAfterRename)
#   M3 AlterDrop: `updateFkeysIIndex(mu, &ts.Schema)` -> `_ = updateFkeysIIndex` (IIndex stale after an earlier index went)
#        VIOLATION at `alter tb drop index(b)`
#   M4 createFkeys: `target.Indexes[tsi].Fk.IIndex = j` -> `_ = tsi` (self reference IIndex forgotten)
#        VIOLATION at `create tc (a,b,c) key(a) key(c) in tc(a)` (valid create refused by validate)
#   M5 RenameTable: `m.createFkeys(mu, &tsNew.Schema, &tsNew.Schema)` -> `_ = tsNew` (links not re-created under the new name)
#        VIOLATION at `rename tb to tc`
#   M6 dropColumn: `slc.Replace1(ts.Columns, ucol, "-")` -> `slc.Without(ts.Columns, ucol)` (fields shift)
#        VIOLATION at `alter ta drop (b) index(b)` (index scans return other values)
#   M7 AlterRename: `ix.BestKey = replace(ix.BestKey, from, to)` -> `_ = ix.BestKey`
#        VIOLATION at `alter ta rename a to z` (BestKey names a column that no longer exists)
#   M8 Ensure: `m.createFkeys(mu, &ts.Schema, ac)` -> `_ = ac` (ensure adds an fk index without the FkToHere entry)
#        VIOLATION at `ensure tb (b) index unique(c) in tb(b) index(a)` (FkToHere entry missing)
#   M9 updateOtherFk: `ix.Fk.IIndex = iindex` -> `ix.Fk.IIndex = i` (wrong IIndex written to referencing tables)
#        VIOLATION at `alter ta drop index(b)`
# M1..M9 were re-run after the quick tier was trimmed (25 random walks, 15 % probe sample, link probes always).
# Seeded change seeded/C21-dropfkeys-aliases-live (dropFkeys filters FkToHere in place, visible only when a
# request is refused after dropFkeys ran): VIOLATION at `rename tb to tz` of the 'chain' base schemas.
# Hand corruption of a good trace (anti-vacuity): FkToHere.iidx + 1 -> rejected at that line; one scanned row
# value + 1 -> rejected at that line; ok of a failed rename flipped -> rejected at that line; one successful
# alter create dropped from the trace -> rejected at the following line.
#
# Defects this check found / re-found on the unchanged tree (each has a fix: commit in /tmp/wt-c21):
#   F9   alter drop of a self-referencing index leaves a stale FkToHere (dropFkeys skips fk.Table == drop.Table)
#   F16  updateOtherFkToHere gives every FkToHere entry of the altered table the IIndex of the last index
#   F17  create refuses "self reference followed by a foreign key to another table" (createFkeys writes
#        Fk.IIndex into a superseded copy; validate: 'foreign key IIndex mismatch')
# Rejections are classified by re-validating the rejected scenario against Schema.tla with the
# matching deviation constant switched on (TraceSchema_asis_*.cfg): if the deviating model explains
# the whole scenario the rejection is exactly that defect and is reported under its key
# (known-findings.txt can list `finding: property=C21 key=F9-alterdrop-selfref-stale-fktohere ...`).

import json, os

META = {
 "engine": "tla-schema",
 "text": "TLC exhausts Schema.tla (create, ensure, alter create/drop/rename, rename table, view, drop with the code's preconditions; foreign-key link bookkeeping transcribed from meta.go) over all request sequences of length <=2 (quick) / <=4 (thorough) from the empty database and <=2 / <=3 from databases with cross, mutual and self references, for: every table has a key, index columns exist, foreign keys point to existing keys, stored Fk/FkToHere/IIndex equal the derived links, BestKey is a key, rows keep the table's shape. The real query.DoAdmin is then driven with systematic neighbourhoods of base schemas and seeded random request sequences (valid and invalid) on heap databases holding rows; after every request the outcome class, GetRoSchema of every table (both fk directions), a scan of every index and the re-parse of every Schema text into a fresh database are validated by TLC against the same specification",
 "note": "trusts TLC, the driver's projection of GetRoSchema / index scans (harness/cmd/schema), the driver-side comparison of the re-parsed schema (logged as resame); requests whose validity depends on stored rows or that the documentation leaves open are accepted with either outcome; BestKey choice is not prescribed; small-scope bounds in evidence",
 "technique": "TLA+ model checking (TLC) + trace validation of real admin request sequences",
}

KEYS = [  # (trace cfg with the deviation on, key)
    ("TraceSchema_asis_f9.cfg", "F9-alterdrop-selfref-stale-fktohere"),
    ("TraceSchema_asis_f16.cfg", "F16-alterdrop-fktohere-iindex-overwritten"),
    ("TraceSchema_asis_f17.cfg", "F17-create-selfref-then-other-fk-refused"),
    ("TraceSchema_asis_all.cfg", "F9+F16-combined"),
]


def scenario_of(lines, ln):
    """(start, end) line indexes (0-based, end exclusive) of the scenario containing 1-based line ln"""
    start = 0
    for i in range(min(ln, len(lines)) - 1, -1, -1):
        if '"e":"Reset"' in lines[i]:
            start = i + 1
            break
    end = len(lines)
    for i in range(max(ln - 1, 0), len(lines)):
        if '"e":"Reset"' in lines[i]:
            end = i
            break
    return start, end


def classify(ctx, lines, ln, n):
    """which known deviation (if any) explains the scenario up to the rejected line"""
    start, _ = scenario_of(lines, ln)
    pre = os.path.join(ctx.work, "rej%d-prefix.ndjson" % n)
    with open(pre, "w") as f:
        f.write("\n".join(lines[start:ln]) + "\n")
    try:
        op = json.loads(lines[ln - 1])["req"]["op"]
    except Exception:
        op = ""
    # F17 concerns create / ensure only, F9 and F16 alter drop (and what follows it)
    cand = [k for k in KEYS if (k[1].startswith("F17") if op in ("Create", "Ensure") else not k[1].startswith("F17"))]
    def explains(cfg):
        r = ctx.tlc_trace("TraceSchema.tla", cfg, pre, timeout=300, ntraces=0)
        if r["accepted"]:
            ctx.cov["events_validated"] -= r["events"]   # classification runs are not evidence
        return r["accepted"]
    # all deviations together first: if even that model does not explain the scenario
    # (the usual case once the defects are repaired) no single one does
    if op not in ("Create", "Ensure") and not explains(KEYS[-1][0]):
        return None
    for cfg, key in cand[:-1] if op not in ("Create", "Ensure") else cand:
        if explains(cfg):
            return key
    return None if op in ("Create", "Ensure") else KEYS[-1][1]


def validate(ctx, trace, budget_s=240):
    """validate a trace; on rejection classify, report and go on behind the rejected scenario"""
    import time
    t0 = time.time()
    lines = open(trace).read().splitlines()
    offset, n, cur = 0, 0, trace
    reported = {}
    while True:
        res = ctx.tlc_trace("TraceSchema.tla", "TraceSchema.cfg", cur, timeout=900)
        if res["accepted"]:
            break
        n += 1
        ln = offset + res["line"]
        key = classify(ctx, lines, ln, n)
        start, end = scenario_of(lines, ln)
        req = ""
        try:
            req = json.loads(lines[ln - 1]).get("txt", "")
        except Exception:
            pass
        ctx.log("rejected scenario lines %d-%d at line %d (%s): %s" % (start + 1, end, ln, req, key or "UNEXPLAINED"))
        k = key or "unexplained"
        if k not in reported or key is None:
            reported[k] = reported.get(k, 0) + 1
            # one replay file per key: <id>-<tier>-seed<n>.<key>-ndjson (vlib names it by extension)
            seg = os.path.join(ctx.work, "rej%d.%s-ndjson" % (n, k))
            with open(seg, "w") as f:
                f.write("\n".join(lines[start:end]) + "\n")
            r2 = dict(res)
            r2["line"] = ln - start
            ctx.report_rejection(seg, r2, key=key,
                                 what="%s; %s" % (res.get("reason", ""), key or "not explained by a known deviation"))
        else:
            reported[k] += 1
        ctx.cov.setdefault("rejected_scenarios", []).append({"line": ln, "request": req, "key": key})
        if key is None:
            # not one of the classified defects: a plain violation, nothing more to learn
            if end < len(lines):
                ctx.log("stopping at the first unexplained rejection; %d lines not validated" % (len(lines) - end))
            break
        if end >= len(lines) or n >= 40 or time.time() - t0 > budget_s:
            if end < len(lines):
                ctx.log("stopping after %d rejected scenarios; %d lines not validated" % (n, len(lines) - end))
            break
        # continue with the scenarios behind the rejected one
        offset = end + 1
        cur = os.path.join(ctx.work, "rest%d.ndjson" % n)
        with open(cur, "w") as f:
            f.write("\n".join(lines[offset:]) + "\n")
    if reported:
        ctx.log("rejections by key: %s" % reported)
    return n


def run(ctx):
    if ctx.replay:
        validate(ctx, ctx.replay)
        return
    conformance(ctx) if os.environ.get("VERIF_C21_SKIP_MC") == "1" else (design(ctx), conformance(ctx))


def design(ctx):
    # 1. design level: exhaustive TLC on Schema.tla
    w = 8
    if ctx.thorough():
        ctx.tlc_mc("MC_Schema.tla", "Schema_thorough.cfg", workers=16, timeout=3000)
        ctx.tlc_mc("MC_Schema.tla", "Schema_thorough_rich.cfg", workers=16, timeout=3000)
    else:
        ctx.tlc_mc("MC_Schema.tla", "Schema_quick.cfg", workers=w, timeout=900)
    # anti-vacuity: the deviations of the code must violate the link invariant in the model
    # (quick: F9 only, every JVM start costs seconds)
    ctx.tlc_mc("MC_Schema.tla", "Schema_dev_f9.cfg", workers=2, timeout=600, expect_violation="InvLinks", count=False)
    if ctx.thorough():
        ctx.tlc_mc("MC_Schema.tla", "Schema_dev_iidx.cfg", workers=2, timeout=600, expect_violation="InvLinks", count=False)


def conformance(ctx):
    # 2. conformance: real DoAdmin on heap databases with rows, validated by TraceSchema
    drv = ctx.go_build("schema")
    trace = os.path.join(ctx.work, "schema.ndjson")
    if ctx.thorough():
        args = [trace, 600, 100, "pairs"]
    else:
        args = [trace, 25, 15]
    rc, out, summ = ctx.driver(drv, args, timeout=1500)
    if rc != 0 or not summ:
        import vlib
        raise vlib.Infra("schema driver failed rc=%s:\n%s" % (rc, out[-3000:]))
    ctx.sample_trace_lines(trace, 2)
    nrej = validate(ctx, trace, budget_s=900 if ctx.thorough() else 150)
    if summ.get("crashes", 0) and nrej == 0:
        # the code under test killed the driver's child process (e.g. FATAL in the merger
        # goroutine) although every recorded step conforms: not expressible as a rejected
        # trace line, so not a verdict
        import vlib
        raise vlib.Infra("code under test crashed the driver (%s) but the recorded trace conforms"
                         % summ.get("crash_msgs"))
    ctx.cov["driver_child_crashes"] = summ.get("crashes", 0)
    for k in ("scenarios", "requests", "ok", "error", "inserts"):
        ctx.cov["real_" + k] = summ.get(k, 0)
    ctx.assumptions += [
        "the driver's projection (harness/cmd/schema: project, scan, reparse) reports GetRoSchema, index scans and the re-parsed schema faithfully; deleted columns ('-') are not part of the projection",
        "requests that build indexes over stored rows (key / unique / foreign key) and requests the documentation leaves open (ensure of an existing but different index, rename of a table with self references or referenced by others, spurious 'rename causes duplicate index', dropping a key together with the index it makes unique) are accepted with either outcome",
        "index order and live column order are compared as the code documents them (Schema text); BestKey may be any key of the table",
        "TLC exhaustive bounds: see tlc_runs (2 tables, 3-4 columns, requests of the universe in MC_Schema.tla)",
    ]
