"""C22 Query results do not depend on optimization or strategy (dbms/query)

Mutation testing (scratch worktree of /repo at the fixed tree, VERIF_REPO=<dir>, quick tier, seed 1;
"green" = `go test -short ./dbms/query/` still passes with the mutant):
  proj-lj-split          project.go Transform, LeftJoin case: split when the project merely overlaps the
                         join columns (`!set.Disjoint(p.columns, q.by)`)                  green  -> VIOLATION
  proj-extend-dep        project.go transformExtend: drops an extend column another extend expression uses
                                                                                        green  -> VIOLATION
  orderedn-skip          best.go orderedn: skips index columns fixed to SEVERAL values (index (a,b) taken as
                         ordered by b under `a in (1,2)`)                                 green  -> VIOLATION
  unfix-F10              projectnone.go hasRow with a nil thread (DESIGN F10)             green  -> VIOLATION
  unfix-project-whole    project.go reduces a summarize to a whole-row min/max            green  -> VIOLATION
  unfix-where-summarize  where.go moves conditions on summarize outputs below it          green  -> VIOLATION
  lj-unmatched           join.go LeftJoin.Get drops unmatched rows of 1:n joins           tests red, VIOLATION
  compatible-fixed-empty (seeded/C22-compatible-fixed-empty, independently written) compatible.go
                         newCompatible: a column only source2 has, fixed to a set containing "",
                         makes union/minus/intersect "disjoint"                           green  -> VIOLATION
                         (reached by Gen.makeDiff: set operations between sources with different column
                         sets, the extra column fixed by where/extend to "" or a set with "", either side)
  explode-spans-shared-prefix-r2 (seeded/C22-explode-spans-shared-prefix-r2, independently written, round 2)
                         where3.go explodeIndexSpans: the prefixes extended with the alternatives of the
                         4th (6th-8th) index column share one backing array         green  -> VIOLATION
                         (missed before: no table had more than three columns, so no index had four.
                         Reached by the "wide" profile = VERIF_CORNER=wide: a five column table t5 whose
                         rows agree on leading columns, and Gen.spanWhere: wheres that constrain the columns
                         of a composite index - present in every configuration - one by one to a point /
                         several points / all but a point / a range, also below join, semijoin, intersect,
                         sort; spec: Relational.tla Explode/IndexReads + MC law LawIndexSpans, deviation
                         DevSharedPrefix = Relational_dev_sharedprefix.cfg must violate it)
  (lj2join, gt-range, covered-multi, union-disjoint-loose, minus-copyfixed-both, ...: the package's own
   tests are already red for them; gt-range is equivalent - where re-filters the rows of its index range)
On the tree without the fix commits the check reports F10 and the other defects listed as `fixed:` in
known-findings.txt (seed 1: F10 first).
Thorough tier, tree without the fix commits 170e46c / 0b7a3e2 (worktree /tmp/wt-c22b): seed 1 reports the union
merge that checks a group/order requirement against each source's fixed (`((t extend a = false) union (t extend
a = true)) summarize d, a, count` in cursor mode: groups returned several times), seed 3 reports
ProjectNone.knowExactNrows (`((t minus t) extend x = "a") project x summarize count` gives 1).
"""
import relcommon

META = {
 "engine": "tla-relational",
 "text": "TLC evaluates the relational denotation (Relational.tla Denote: table, where, project/remove, rename, extend, summarize, join/leftjoin/semijoin, times, union, intersect, minus, sort, views) of ASTs produced by the harness's own generator; the REAL query layer runs the rendered text on a heap database under many configurations (tables recreated with different key/index sets and layer states, Setup/Setup1/SetupKey/SetupIdx and Optimize+SetApproach with none/order/group/unique requirements, read/update/cursor mode, forwards and backwards, randomBest/ticostAdj/joinRev knobs); every distinct outcome must equal the denotation, each row once. The denotation itself is model-checked against algebraic laws over every tiny database.",
 "note": "trusts TLC + CommunityModules Json, the harness generator/renderer (AST -> text), the rank table for strings; values limited to \"\", booleans, small integers/rationals and 6 strings; tables <= 6 rows (t5 of the wide profile <= 14); queries <= 14 nodes; expressions avoid the documented \"\"-versus-number ordering exception",
 "technique": "TLA+ denotational oracle evaluated by TLC (trace validation) + exhaustive TLC check of the oracle's algebraic laws",
}

def classify(ev, opened=None):
    """key of a rejected Query event for known-findings matching (as narrow as the finding)"""
    if ev.get("e") != "Query":
        return None
    conf = ev.get("conf", "")
    err = ev.get("err") or ""
    # a Lookup without selection values reaches a non-singleton source below a summarize /
    # intersect whose other source is a key() table: panic, never a wrong result
    if " key()" in conf and ("Sels.Get can't find" in err or "selOrg not full" in err):
        return "emptykey-empty-lookup"
    k = relcommon.semijoin_rev_key(err, ev.get("plan"))
    if k:
        return k

    def has_whole(n):
        return relcommon.ast_has(n, lambda x, top: x.get("op") == "summarize" and x.get("whole"))

    def where_over_whole(n, top):
        # a where with a whole-row min/max summarize somewhere in its source
        return n.get("op") == "where" and has_whole(n.get("src"))
    if not err and relcommon.ast_has(ev.get("ast", {}), where_over_whole):
        return "wholerow-where"
    return None


def run(ctx):
    # LawIndexSpans: reading a composite index once per exploded prefix = the where, each row once;
    # the deviation (prefixes sharing storage) must violate it
    relcommon.exhaustive(ctx, devs=[("Relational_dev_sharedprefix.cfg", "LawIndexSpans")])
    if relcommon.replayed(ctx, classify, None):
        return
    drv = ctx.go_build("relational")
    ok = True
    profiles = [("core", "", 300 if ctx.thorough() else 40, 40),
                ("emptykey", "emptykey", 60 if ctx.thorough() else 8, 30),
                ("wholerow", "wholerow", 60 if ctx.thorough() else 8, 30),
                ("wide", "wide", 80 if ctx.thorough() else 10, 24)]
    for name, corner, nscen, nq in profiles:
        trace = ctx.work + "/c22-%s.ndjson" % name
        rc, out, summ = ctx.driver(drv, ["c22", trace, nscen, nq], timeout=1200,
                                   env={"VERIF_CORNER": corner}, name="relational-c22-" + name)
        if rc != 0:
            raise __import__("vlib").Infra("driver failed rc=%s\n%s" % (rc, out[-3000:]))
        if name == "core":
            ctx.sample_trace_lines(trace, 3)
        ctx.cov["queries_" + name] = summ.get("queries", 0)
        ctx.cov["executions_" + name] = summ.get("executions", 0)
        if not relcommon.validate(ctx, trace, classify):
            ok = False
            break
    ctx.assumptions += [
        "the AST the oracle sees and the text gSuneido parses come from the same generator node (renderer trusted)",
        "profiles: core = tables with non-empty keys, whole-row min/max only as the whole query; "
        "emptykey = singleton tables declared key(); wholerow = whole-row min/max below other operators; "
        "wide = an additional five column table t5 (6-14 rows) with keys/indexes of four and five columns, "
        "two thirds of the queries are wheres constraining the columns of one composite index",
        "union/intersect/minus between sources with different columns: a missing column counts as \"\" "
        "(Compatible.equal); intersect has the common columns, minus the columns of its first source",
        "verif accessors dbms/query/verif_knobs.go set the existing test knobs randomBest/ticostAdj/joinRev",
    ]
