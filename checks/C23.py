"""C23 Query access operations honour their contracts (dbms/query)

Mutation testing (scratch worktree, VERIF_REPO=<dir>, quick tier, seed 1; green = package tests pass):
  orderedn-skip            best.go orderedn: an index whose leading column is fixed to several values is
                           taken as giving the order of the next column (`t where a in (1,2) sort b`
                           read through index (a,b) without a temp index)                 green -> VIOLATION
  summarize-select-noclear summarize.go Select(nil) does not clear the residual selection   green -> VIOLATION
  extend-conflict-sticky   extend.go Select: a conflict with fixed values is never reset    green -> VIOLATION
  union-select-clear       (seeded/C23-union-select-clear, independently written) union.go Select(nil) no
                           longer restores the per-source getters a conflicting Select set to `nothing`:
                           after Select(value for a column one source lacks) + Select(nil) the rows of
                           that source are gone                                           green -> VIOLATION
                           (reached by Gen.diffSetOp: union/intersect/minus of sources with different
                           columns as the whole query, read in index order without a temp index, Select
                           with values for ALL columns, clears followed by full scans both ways; Lookups
                           are also followed by full scans)
  lookup-nofilter          where.go Lookup returns the source row without applying the where
  rewind-clears-select     where.go Rewind resets the index selection of the last Select
  ti-rewind-clears-select  tempindex.go Rewind clears the selection
  project-overclaims-key   project.go projectKeys keeps keys that only overlap the projection
                           (these four: package tests already red; all four -> VIOLATION)
  (lj-keys-1n, join-keys-swapped, lj-fixed-noempty, union-fixed-src1, sort-reverse-next-only,
   ti-less-firstcol: package tests red, not run)
"""
import relcommon

META = {
 "engine": "tla-relational",
 "text": "Random Rewind/Get(Next|Prev)/Select/Lookup sequences on the REAL optimised query (requirement none/order/group/unique/sort, all setup paths and optimizer knobs) are replayed by TLC through the cursor machine of Relational.tla over the denoted result: forward and backward reads are the same rows in opposite orders and stick at the end, the required order/grouping holds (stored-value order), Select restricts to exactly the matching rows and survives Rewind, Lookup returns the matching row or nothing, reported Keys() are unique on the denotation and reported Fixed() values hold in every row. The cursor machine is also explored exhaustively.",
 "note": "trusts TLC, the generator/renderer, the prophecy event Seq (checked: must be the selected set in a legal order and agree with every later Get incl. the scan it was taken from); Select gets exactly the requirement columns, Lookup gets requirement columns plus optional extra columns (result judged after comparing all values, as the package's own lookup() does); position after Lookup is not part of the property (driver rewinds)",
 "technique": "TLA+ cursor machine + denotational oracle, TLC trace validation of logged call sequences",
}


def classify(ev, opened=None):
    opened = opened or {}
    plan = ev.get("plan") or opened.get("plan")
    return relcommon.semijoin_rev_key(ev.get("err"), plan)


def run(ctx):
    relcommon.exhaustive(ctx, cursor=True)
    if relcommon.replayed(ctx, classify, ('"e":"Reset"', '"e":"Open"')):
        return
    drv = ctx.go_build("relational")
    trace = ctx.work + "/c23.ndjson"
    nscen = 250 if ctx.thorough() else 40
    rc, out, summ = ctx.driver(drv, ["c23", trace, nscen, 12], timeout=1200, name="relational-c23")
    if rc != 0:
        raise __import__("vlib").Infra("driver failed rc=%s\n%s" % (rc, out[-3000:]))
    ctx.sample_trace_lines(trace, 4)
    for k in ("opens", "gets", "selects", "lookups", "use_none", "use_order", "use_group", "use_unique", "use_sort"):
        ctx.cov[k] = summ.get(k, 0)
    relcommon.validate(ctx, trace, classify, drop_stops=('"e":"Reset"', '"e":"Open"'))
    ctx.assumptions += [
        "call sequences respect the Require contract of require.go (ReqNone: Get; ReqOrder/ReqGroup: Get+Select; ReqUnique: Get+Lookup)",
        "order = order of the stored (packed) encoding, which indexes use",
    ]
