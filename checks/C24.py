"""C24 Query update statements change exactly the selected rows (dbms/query/action.go)

Mutation testing (scratch worktree, VERIF_REPO=<dir>, quick tier, seed 1; green = package tests pass):
  update-seq-eval           action.go update: later set expressions see the values already assigned
                            (`set b = a * 2, c = b`)                                      green -> VIOLATION
  update-count-changed-only action.go update: rows whose record does not change are not counted
                                                                                         green -> VIOLATION
  insertq-by-position       action.go insert query: source columns taken by position, not by name
                                                                                         green -> VIOLATION
  update-own-writes         action.go update iterates its query while writing (the original defect,
                            fixed by `fix: update and insert-query statements read all their rows ...`)
                                                                                         -> VIOLATION
  unfix-update-project      action.go update builds the record with the project's header (the defect reported
                            by the C24 seed author: `update t project k, a set a = 9` blanks b)  green -> VIOLATION
                            (reached by update/delete through `t [where] project <key + some columns>`)
  insert-query-streams-nonupdateable-r2 (seeded/C24-insert-query-streams-nonupdateable-r2, independently
                            written, round 2) action.go insert query buffers its source rows only when
                            qr.Updateable() is the target table; a source reading the target through
                            minus/union/join/... is streamed and sees its own output       green -> VIOLATION
                            (missed before: sources reading the target were made "same columns" by makeSame,
                            which hardly ever yields NEW key values, so re-reading inserted rows ended in the
                            same duplicate-key error as the correct code. Reached by Gen.selfInsert: the target
                            directly or below minus/union/intersect/join/leftjoin/semijoin/project/summarize,
                            a key column shifted by a constant or replaced by a constant; spec: Relational.tla
                            ScanInsert + MC law LawInsertQuery, deviation DevStreamInsert =
                            Relational_dev_streaminsert.cfg must violate it)
  delete-skips-first        action.go delete skips the first row              tests red  -> VIOLATION
  delete-stops-at-dup       action.go delete: break instead of continue on a repeated record offset
                            green, NOT caught: equivalent here (a query never returns the same record
                            twice in a row in these runs)
"""
import relcommon

META = {
 "engine": "tla-relational",
 "text": "insert record / insert query / update ... set / delete statements run through the REAL DoAction, each in its own update transaction on a heap database with random key/index sets; the returned count and all tables read back afterwards are compared by TLC with the statement's meaning on the denotation of its query (Relational.tla): new table = function of old table and selected rows, count = number of selected rows, duplicate keys must fail and leave everything unchanged (an error is also accepted when an update's new key collides with the old key of another selected row, since rows are updated one at a time).",
 "note": "trusts TLC, the generator/renderer, reading tables back through a plain table query; statements are update/delete on `table where ...`, insert of records and of generated queries (sometimes reading the target table itself, directly or through non-updateable operators, with shifted key values: Gen.selfInsert)",
 "technique": "TLA+ denotational oracle, TLC trace validation of before/after tables",
}


def classify(ev, opened=None):
    if ev.get("e") == "Action" and ev.get("kind") in ("update", "insertq") and \
            "too many writes" in ev.get("err", ""):
        return "statement-reads-own-writes"
    return None


def run(ctx):
    # LawInsertQuery: an insert query scanning its own target inserts one row per OLD row;
    # the deviation (writing while the source is still being read) must violate it
    relcommon.exhaustive(ctx, devs=[("Relational_dev_streaminsert.cfg", "LawInsertQuery")])
    if relcommon.replayed(ctx, classify, ('"e":"Reset"',)):
        return
    drv = ctx.go_build("relational")
    trace = ctx.work + "/c24.ndjson"
    nscen = 600 if ctx.thorough() else 100
    rc, out, summ = ctx.driver(drv, ["c24", trace, nscen, 12], timeout=1200, name="relational-c24")
    if rc != 0:
        raise __import__("vlib").Infra("driver failed rc=%s\n%s" % (rc, out[-3000:]))
    ctx.sample_trace_lines(trace, 3)
    for k in ("actions", "succeeded", "failed", "insert", "insertq", "update", "delete"):
        ctx.cov[k] = summ.get(k, 0)
    relcommon.validate(ctx, trace, classify, drop_stops=('"e":"Reset"',))
    ctx.assumptions += ["each statement in its own transaction; no foreign keys, triggers or rules"]
