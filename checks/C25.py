"""C25 Query expressions evaluate like language expressions (compile/ast/expr.go, dbms/query/where.go)

Findings on the unchanged tree (FAMILIES below are the fallback keys, matched on the rejected expression):
  new  t where b < "" or b <= 3 selects nothing (an empty index span makes the whole or a conflict)
       (independently repaired in /repo by c4fc97c)          key qexpr-or-with-empty-alternative-selects-nothing
  new  t extend z = 2 / d fails with ASSERT FAILED: should not reach here (consequence of the folder
       putting the divide first, fixed by the C30 folder fix)                key qexpr-const-div-field-reciprocal (was an ASSERT before the 1 / x fix)
  new  is / isnt / in on stored encodings of equal objects whose named members were inserted in different
       orders is false (no small fix: packing order)   key qexpr-object-equality-named-order-on-stored-encoding
  new  < <= > >= with object operands on stored encodings compare bytes, not list members
       (no small fix)                                              key qexpr-object-order-on-stored-encoding
  C30  (thorough) 0 / d is 0 for every d, also where n / d with n = 0 fails with can't convert to number
       (d = true, "a", a date, an object): foldMul's zero shortcut drops the divisor; the language's
       compiled `0 / d` is folded the same way, so query and language agree with each other and
       differ from the unfolded division only - the recorded folder defect F15, not a new one
                                          key qexpr-fold-absorbing-shortcut (= C30 fold-absorbing-shortcut)
  C30  (thorough, seed 4) 1.5 / d is .9999999999999999 for d = 1.5: the recorded reciprocal finding; the
       shape test now uses the language's own decimal arithmetic (dn_div / dn_mul below) instead of
       correctly rounded 16-digit decimals, which called (1 / 1.5) * 1.5 equal to 1
                                   key qexpr-const-div-field-reciprocal (= C30 fold-const-div-var-reciprocal)
  new  t extend z = 1 / a fails the same way (Unary.Eval has no case for the folder's 1 / x node); fix: commit
  new  (thorough) t extend xd = d where xd or true returns every row although d is not a boolean
       (replaceExpr drops the operands before a short-circuit constant); fix: commit      key qexpr-transform-shortcut

Mutation testing (scratch worktree on top of the fix commits, quick tier, seed 1, the two object families
assumed recorded; "tests" = go test -short ./compile/ast/ ./dbms/query/ (./core/) with the mutant):
  Q2  expr.go   InRange.EvalRaw: upper bound always inclusive                    tests green   VIOLATION
  Q8  where2.go orSpan keeps empty spans (the or-selects-nothing defect)         tests green   VIOLATION
  V3  ops.go    OpInRange: upper bound always inclusive                          tests green   VIOLATION
  V9  expr.go   raw Number? misses negative numbers                              tests green   VIOLATION (after type tests on every column)
  V10 expr.go   raw Date? never true for dates                                   tests green   VIOLATION
  Q1 raw <= as <, Q3 raw in looks at first member only, Q5 raw String? misses "", Q6 value <= as <,
  Q7 raw and returns after first operand, R1/R2 index span of >= / <= excludes the bound, T1 Number? span
  misses positive numbers, T2 String? span misses "", I1 in-span drops last member, O1 merged or-spans
  intersected (after adding same-column alternatives): all VIOLATION, but the packages' own tests fail with them
  Q4 where2.go index span of > includes the bound: not reported - equivalent (the where filter
     re-evaluates the expression on every row of the range)
"""

import json, os, re

META = {
 "engine": "tla-values-eval",
 "text": "TLC exhausts Values.tla's reference evaluator over every operator x operand combination (incl. the law that the stored-encoding order CmpRaw differs from the value order only where an empty string meets a boolean or number); then generated where/extend expressions (comparisons of every operator with constants of every type, ranges, in, and/or/not combinations, ?:, type tests, arithmetic inside comparisons) are evaluated over generated rows on every path of the real code - ast Expr.Eval on values, Eval on packed fields after CanEvalRaw, the compiled function in the interpreter, and real `t where x` / `t extend z = x` queries on an indexed table in a heap database through parse, optimize and execute - and TLC validates each against Eval (language paths exactly, engine paths up to the documented empty-string exception, modelled as the named relaxation EvalSet)",
 "note": "trusts TLC, the harness' rendering of expression trees as source (the compiled function must itself equal Eval), 10 rows per run; where a row's evaluation would raise, the engine may or may not reach it (a failing query is accepted iff some row can fail or the expression is statically rejected)",
 "technique": "TLA+ model checking (TLC) of the reference evaluator + trace validation of real expression evaluation and real queries",
}

# the same folder defects are recorded under C30; a query expression that shows one of them is
# attributed to that record (no separate C25 entry needed)
ALIAS = {
    "qexpr-fold-absorbing-shortcut": ("C30", "fold-absorbing-shortcut"),
    "qexpr-fold-bits-32bit-allones": ("C30", "fold-bits-32bit-allones"),
    "qexpr-const-div-field-reciprocal": ("C30", "fold-const-div-var-reciprocal"),
}

FAMILIES = {
    "qexpr-fold-absorbing-shortcut": "field * 0, 0 / field, field & 0, field and false, field or true are folded to the constant although the field's value is not valid for the operator (C30 fold-absorbing-shortcut)",
    "qexpr-fold-bits-32bit-allones": "& / | with a constant that does not fit 32 bits unsigned (C30 fold-bits-32bit-allones)",
    "qexpr-object-order-on-stored-encoding": "order comparison (< <= > >=) with an object operand: stored encodings are compared bytewise, the language compares list members (named members ignored)",
    "qexpr-object-equality-named-order-on-stored-encoding": "is / isnt / in on stored encodings of objects with several named members depends on their insertion order",
    "qexpr-const-div-field-reciprocal": "constant / field is evaluated as (1 / field) * constant (same folder defect as C30 fold-const-div-var-reciprocal): 255 / c gives 84.99999999999999 for c = 3",
    "qexpr-or-with-empty-alternative-selects-nothing": "where x < \"\" or <other condition on x> selects nothing",
    "qexpr-transform-shortcut": "where over extend/rename: <operand> or true / <operand> and false is replaced by the constant although the operand is still evaluated (and type checked) in the plain where",
}


# the language's 16-digit decimal arithmetic (util/dnum New / Div / Mul: the quotient is
# truncated to 17 digits and rounded half up digit by digit, the product is built from 9 + 7
# digit halves without the low x low term), as (sign, coefficient of 16 digits, exponent);
# cross-checked against the real package on 4000 operand pairs.  Used only to tell whether an
# expression has the shape of the recorded reciprocal finding.
def dn_new(sign, coef, exp):
    if sign == 0 or coef == 0:
        return (0, 0, 0)
    atmax = False
    while coef > 10 ** 16 - 1:
        coef = (coef + 5) // 10
        exp += 1
        atmax = True
    while not atmax and coef * 10 <= 10 ** 16 - 1:
        coef *= 10
        exp -= 1
    return (sign, coef, exp)


def dn_from(d):
    s, digits, e = d.as_tuple()
    return dn_new(-1 if s else 1, int("".join(map(str, digits))), e + 16)


def dn_div(x, y):
    return dn_new(x[0] * y[0], x[1] * 10 ** 16 // y[1], x[2] - y[2])


def dn_mul(x, y):
    e7 = 10 ** 7
    xhi, xlo, yhi, ylo = x[1] // e7, x[1] % e7, y[1] // e7, y[1] % e7
    c = xhi * yhi
    if xlo or ylo:
        c += (xlo * yhi + ylo * xhi) // e7
    return dn_new(x[0] * y[0], c, x[2] + y[2] - 2)


def classify(ev, rows):
    """recorded findings whose exact expression shape occurs in the rejected expression:
    judged on the values the operands take on the rows of the table"""
    from valuesutil import nodes, evalx, eq, num
    from decimal import Decimal, localcontext
    fams = set()

    def leafval(r):
        def f(i):
            c = ev["col"][i - 1]
            return ev["cv"][i - 1] if c == 0 else r[c - 1]
        return f

    def is_const(x):
        return all(n["op"] != "x" or ev["col"][n["i"] - 1] == 0 for n in nodes(x))

    def named_order_differs(a, b):
        return a["t"] == "obj" and b["t"] == "obj" and len(a["n"]) >= 2 and eq(a, b) and \
            json.dumps(a["n"], sort_keys=True) != json.dumps(b["n"], sort_keys=True)
    for x in nodes(ev["x"]):
        op = x["op"]
        if op == "x":
            continue
        for r in rows:
            vals = [evalx(a, leafval(r)) for a in x["a"]]
            if any(v is None for v in vals):
                continue
            # both operands of an order comparison are objects
            if op in ("lt", "lte", "gt", "gte") and vals[0]["t"] == "obj" and vals[1]["t"] == "obj":
                fams.add("qexpr-object-order-on-stored-encoding")
            # equal objects whose named members are stored in different orders
            if op in ("is", "isnt", "in") and any(named_order_differs(vals[0], v) for v in vals[1:]):
                fams.add("qexpr-object-equality-named-order-on-stored-encoding")
            # constant / field, where (1 / field) * constant is rounded differently from
            # constant / field (in the language's own decimal arithmetic, see dn_div / dn_mul:
            # 1.5 / 1.5 = (1 / 1.5) * 1.5 = .6666666666666666 * 1.5 = .9999999999999999)
            if op == "div" and is_const(x["a"][0]) and not is_const(x["a"][1]):
                n, d = num(vals[0]), num(vals[1])
                if n is not None and d is not None and n.is_finite() and d.is_finite() and d != 0 and n != 0:
                    N, D = dn_from(n), dn_from(d)
                    if dn_mul(dn_div(dn_from(Decimal(1)), D), N) != dn_div(N, D):
                        fams.add("qexpr-const-div-field-reciprocal")
            # 0 / field: a division is a member (1 / field) of the multiplication chain, so the
            # folder's zero shortcut (foldMul) replaces the whole quotient by 0 and the divisor is
            # never converted to a number - the same shortcut as field * 0 (C30 classifies 0 / x
            # the same way).  Only where the divisor's value is not valid for the division:
            # 0 / 0, 0 / false, 0 / "" are 0 in the language as well.
            if op == "div" and is_const(x["a"][0]) and not is_const(x["a"][1]) and num(vals[0]) == 0:
                o = vals[1]
                if num(o) is None and not (o["t"] == "bool" and not o["b"]) and o != {"t": "str", "c": []}:
                    fams.add("qexpr-fold-absorbing-shortcut")
            # the folder's absorbing shortcuts (C30 fold-absorbing-shortcut) seen through a query
            # expression: field * 0, field & 0, field | 0xffffffff, field and false, field or true
            # where the field's value is not valid for the operator
            if op in ("mul", "bitand", "bitor", "and", "or") and any(is_const(a) for a in x["a"]) and not all(is_const(a) for a in x["a"]):
                for k in (0, 1):
                    c, o = vals[k], vals[1 - k]
                    # (& and | also skip the other operand at run time when the FIELD holds the
                    # absorbing value: ast Nary.Eval)
                    if not is_const(x["a"][k]) and op not in ("bitand", "bitor"):
                        continue
                    absorbing = (op in ("and", "or") and c["t"] == "bool" and c["b"] == (op == "or")) or \
                        (op in ("mul", "bitand") and num(c) == 0) or (op == "bitor" and num(c) == 4294967295)
                    dn = num(o)
                    invalid = (o["t"] != "bool") if op in ("and", "or") else \
                        (dn is None and not (o["t"] == "bool" and not o["b"]) and o != {"t": "str", "c": []}) or \
                        (op != "mul" and dn is not None and (not dn.is_finite() or dn != dn.to_integral_value()))
                    if absorbing and invalid:
                        fams.add("qexpr-fold-absorbing-shortcut")
                    if op in ("bitand", "bitor") and num(c) is not None and num(c).is_finite() and \
                            num(c) == num(c).to_integral_value() and (num(c) < 0 or num(c) > 4294967295):
                        fams.add("qexpr-fold-bits-32bit-allones")
            # <operand> or true / <operand> and false with a non-boolean operand before the constant
            if op in ("and", "or") and is_const(x["a"][1]) and vals[1]["t"] == "bool" and vals[1]["b"] == (op == "or") \
                    and vals[0]["t"] != "bool":
                fams.add("qexpr-transform-shortcut")
        # field < "" (or "" > field) next to another alternative on the same field
        if op == "or":
            cols = [ev["col"][n["i"] - 1] for n in nodes(x) if n["op"] == "x" and ev["col"][n["i"] - 1] != 0]
            emp = any(n["op"] in ("lt", "gt") and any(a["op"] == "x" and ev["col"][a["i"] - 1] == 0 and
                                                      ev["cv"][a["i"] - 1] == {"t": "str", "c": []} for a in n["a"])
                      for n in nodes(x))
            if emp and len(cols) != len(set(cols)):
                fams.add("qexpr-or-with-empty-alternative-selects-nothing")
    return fams


def bad_lines(path):
    """line numbers the survey run wrote (JSON array, TLA+ JsonSerialize)"""
    try:
        v = json.load(open(path))
    except Exception:
        return None
    return sorted(set(int(n) for n in v))


def run(ctx):
    from vlib import Infra
    ctx.tlc_mc("MC_Eval.tla", "Eval_quick.cfg", workers=4, timeout=1200)
    if ctx.thorough():
        ctx.tlc_mc("MC_Eval.tla", "Eval_thorough.cfg", workers=8, timeout=3000)
    ctx.tlc_mc("MC_Eval.tla", "Eval_dev.cfg", workers=4, timeout=1200, expect_violation="LtGte", count=False)

    drv = ctx.go_build("qexpr")
    trace = os.path.join(ctx.work, "qexpr.ndjson")
    rc, out, summ = ctx.driver(drv, [trace], timeout=1800)
    if rc != 0:
        raise Infra("qexpr driver failed rc=%s\n%s" % (rc, out[-2000:]))
    ctx.sample_trace_lines(trace, 2)
    for k in ("expressions", "rows", "canraw", "where.v", "where.x", "extend.v", "extend.x"):
        ctx.cov["qexpr." + k] = summ.get(k, 0)
    ctx.cov["row_evaluations_per_path"] = summ.get("expressions", 0) * summ.get("rows", 0)

    res = ctx.tlc_trace("TraceQExpr.tla", "TraceQExpr.cfg", trace, timeout=3000)
    lines = open(trace).read().splitlines()
    rows = json.loads(lines[0])["rows"]
    if not res["accepted"]:
        saved = {k: ctx.cov.get(k) for k in ("events_validated", "traces_validated_against_impl", "trace_validation_states")}
        badout = os.path.join(ctx.work, "bad-lines.json")
        sv = ctx.tlc_trace("TraceQExpr.tla", "TraceQExpr.cfg", trace, timeout=3000, extra_env={"VERIF_SURVEY": "1", "VERIF_BADOUT": badout})
        for k, v in saved.items():
            if v is not None:
                ctx.cov[k] = v
        bad = bad_lines(badout)
        if bad is None or not sv["accepted"]:
            raise Infra("survey run did not produce the list of rejected lines: %s" % (sv.get("out", "")[-1500:],))
        if res["line"] not in bad:
            raise Infra("survey run disagrees with the strict run: line %d rejected but not listed in %s" % (res["line"], bad[:20]))
        unknown, known = [], {}
        # testing aid (mutation runs): treat these families as recorded findings
        assume = set(filter(None, os.environ.get("VERIF_ASSUME_KNOWN", "").split(",")))
        for ln in bad:
            ev = json.loads(lines[ln - 1])
            rows = json.loads(lines[max(i for i in range(ln) if lines[i].startswith('{"e":"Rows"'))])["rows"]
            fams = classify(ev, rows)
            def recorded(f):
                if ctx.is_known(f) is not None or f in assume:
                    return True
                return f in ALIAS and any((pid, k) == ALIAS[f] for pid, k, _ in ctx.known_entries())
            kf = [f for f in fams if recorded(f)]
            if kf:
                # a recorded finding is present in the expression: not reported again (families
                # that are present but not recorded, e.g. because they are repaired, do not count)
                for f in kf:
                    known.setdefault(f, []).append(ev["src"])
            else:
                unknown.append((ln, ev, fams))
        for f, srcs in known.items():
            if ctx.is_known(f) is not None:
                ctx.report_rejection(trace, res, key=f)
            elif f in ALIAS:
                msg = "KNOWN-FINDING: property=%s key=%s (recorded as property=%s key=%s) %s" % ((ctx.id, f) + ALIAS[f] + (FAMILIES[f],))
                if msg not in ctx.known:
                    ctx.known.append(msg)
                    print(msg, flush=True)
            ctx.log("known finding %s: %d rejected expressions, e.g. %s" % (f, len(srcs), srcs[:3]))
        ctx.cov["rejected_expressions"] = len(bad)
        if not unknown:
            # every other line was explained by the specification in the survey run
            ctx.cov["events_validated"] += len(lines) - len(bad)
            ctx.cov["traces_validated_against_impl"] += 1
        if unknown:
            rep = os.path.join(ctx.work, "qexpr-rejected.ndjson")
            with open(rep, "w") as f:
                last = None
                for ln, ev, fams in unknown:
                    rl = max(i for i in range(ln) if lines[i].startswith('{"e":"Rows"'))   # the rows of its scenario
                    if rl != last:
                        f.write(('{"e":"Reset"}\n' if last is not None else "") + lines[rl] + "\n")
                        last = rl
                    f.write(lines[ln - 1] + "\n")
            ln, ev, fams = unknown[0]

            def rs(r):
                return r["k"] + ":" + (r["c"] or json.dumps(r["v"], separators=(",", ":"))[:40])
            what = "%d query expressions evaluate differently from the language, first: %s  where=%s keys=%s extend=%s fn=%s val=%s raw=%s zs=%s %s (candidate families: %s)" % (
                len(unknown), ev["src"], rs(ev["where"]), ev["keys"], rs(ev["extend"]),
                [rs(r) for r in ev["fn"]], [rs(r) for r in ev["val"]], [rs(r) for r in ev["raw"]], [rs(r) for r in ev["zs"]],
                ev["msg"], sorted(fams) or "none")
            ctx.report_rejection(rep, {"line": 2}, what=what[:1500])
            return

    # anti-vacuity of the binding: drop one returned key of a where query, must be rejected there
    n = next(i for i, l in enumerate(lines) if '"e":"QExpr"' in l and len(json.loads(l)["keys"]) > 0)
    ev = json.loads(lines[n])
    ev["keys"] = ev["keys"][1:]
    bad = os.path.join(ctx.work, "qexpr-corrupt.ndjson")
    with open(bad, "w") as f:
        rl = max(i for i in range(n) if lines[i].startswith('{"e":"Rows"'))
        f.write(lines[rl] + "\n" + json.dumps(ev, separators=(",", ":")) + "\n")
    saved = {k: ctx.cov.get(k) for k in ("trace_validation_states",)}
    resc = ctx.tlc_trace("TraceQExpr.tla", "TraceQExpr.cfg", bad, timeout=1200)
    if resc["accepted"] or resc.get("line") != 2:
        raise Infra("anti-vacuity: corrupted where result was not rejected at line 2: %s" % (resc,))
    ctx.cov["corrupted_trace_rejected_at_line"] = resc["line"]
    ctx.assumptions += [
        "documented exception modelled as Values!CmpRaw / EvalSet: on stored encodings the empty string sorts before booleans and numbers; each order comparison may independently be evaluated on values or encodings",
        "language paths (compiled function, ast Eval on values) must equal Eval exactly; engine paths (raw, where, extend) must be in EvalSet",
        "a query that fails is accepted iff the expression can fail on some row or is statically rejected (Values!LitDiag)",
        "arithmetic domain of the oracle as in C30; outside it the two language paths must agree with each other",
    ]
