"""C28 Value comparison is a consistent total order (core/value.go, ops.go, su*.go, deepequal.go)

Findings re-found / found on the unchanged tree (each with a fix: commit in /tmp/wt-values and a
named relaxation in TraceValues.tla should it be recorded instead of repaired):
  F14  SuDnum.Hash equals the integer hash only within int16          key hash-int-dnum-beyond-int16
  new  integers >= 10^16 against decimals: Compare/Equal go through a rounding conversion
       (Equal asymmetric, Compare not transitive; Dnum.ToInt64 rejects 9223372036854775000)
                                                                       key int-beyond-16-digits-vs-decimal
  new  SuObject.Hash depends on the insertion order of named members   key object-hash-named-order

Mutation testing (scratch worktree on top of the fix commits, quick tier, seed 1; "tests" =
go test -short ./core/ ./util/dnum/ with the mutant):
  M1 sudnum.go      SuDnum.Hash integer hash only within MaxSuInt (the F14 defect)      tests green   VIOLATION
  M2 suconcat.go    SuConcat.Compare operands swapped                                   tests green   VIOLATION
  M6 suobject.go    SuObject.Hash chains named members in iteration order               tests green   VIOLATION
  M7 suint64.go     SuInt64.Compare via rounded Dnum (the 17-digit defect)              tests green   VIOLATION
  M8 value.go       Order(): SuExcept no longer ranked as a string                      tests green   VIOLATION
  M3 sutimestamp.go CompareSuTimestamp ignores the extra byte                           core tests fail, VIOLATION
  M4 suobject.go    deepCompare: shorter list greater                                   core tests fail, VIOLATION
  M5 sustr.go       SuStr.Equal(SuConcat) compares lengths only                         core tests fail, VIOLATION
  M9 sutimestamp.go SuTimestamp.Equal(SuDate) true for the same date                    core tests fail, VIOLATION

Round 2 (seeded/C28-lazy-record-hash2-r2, missed at first): lazily materialised representations.
The universe had no record that is still backed by its database row (core.SuRecordFromRow: query /
cursor / trigger results) and every instance was hashed once, so a hash that depends on how much of
a value has been materialised could not show.  Added:
  spec/ValuesLazy.tla (+ mc/MC_ValuesLazy.tla, ValuesLazy_quick.cfg, ValuesLazy_dev_partial.cfg):
       lazy record = row + members cached so far + userow; symbolic Hash / Hash2 as suobject.go
       computes them; TLC exhausts all interleavings of field reads, unpack, hash, store under the
       compound key Object(rec, "a") and look-up: the value never changes, Hash2 is the one of the
       equal in-memory value in every state, the member is found by the same and by an equal key.
       Deviation Partial = TRUE (Hash2 looks at the materialised part only) violates Hash2OK.
  driver: representations SuRecordFromRow (one stored record, reversed columns, joined rows, one
       field already read) of every abstract object that can be a row, nested as 1st / 2nd / 3rd
       list member, named value and named key of containers (each container gets its OWN brand new
       lazy members; values are packed from separate copies so that building the universe reads
       nothing), all in the all-pairs matrix (hash taken before anything else touches the instance);
       plus "lazy episodes" (LzNew / Lz events): brand new copies of every lazy instance (records,
       sequences, containers of them) go through scripted and random sequences of read-only steps -
       get / has a field, display, hash, eq, cmp, put as a member key, look up by equal / other
       keys and by the very same key.
  TraceValues.tla: TrLzNew / TrLz replay the steps on the ValuesLazy model (LazyGet / LazyUnpack /
       LazyHash2; invariant LzAbsStable) and require every hash to be the hash of the equal shared
       instance, eq / cmp to agree with Eq / Cmp, the member to be found exactly by equal keys and
       always by the same key.  Anti-vacuity: a flipped hash bit / look0 answer is rejected at its line.
  Quick-tier sampling: row-backed records and containers holding a lazy value are always part of
       the universe; "SuConcat.shared" (a concatenation whose shared buffer was extended by a
       sibling - hidden state of the same kind) joined the representations kept at 45 % per value:
       at the former 8 % the detection of seeded/C28-concat-hash-whole-buffer depended on the seed.
  Mutants (scratch worktree, quick, seed 1):
  M10 surecord.go   Hash2 without unpacking (the seeded change)                          tests green   VIOLATION (Row: equal values, different hashes)
  M11 surecord.go   Hash2 without unpacking only once a field has been cached            tests green   VIOLATION (episode get, hash)
"""

import json, os, re

META = {
 "engine": "tla-values",
 "text": "TLC exhausts Values.tla's reference order Cmp and equality Eq on a generated universe (68 / ~160 abstract values: every pair and triple) for totality, antisymmetry, transitivity, the type ranks boolean<number<string<date<object and Eq => Cmp = 0; TLC also exhausts ValuesLazy.tla (a record still backed by its database row: all interleavings of field reads, unpacking, hashing, storing and looking up a member under a key containing it keep the value and the hash); then every abstract value of a larger universe is instantiated in every representation constructible in core (SuInt/SuInt64/SuDnum, SuStr/SuConcat/SuExcept, SuDate/SuTimestamp, SuObject/SuRecord/SuSequence/row-backed lazy SuRecord, unpacked, copied, read-only, concurrent, nested) and for ALL ordered pairs the real Compare, OpLt..OpGte, Equal/OpIs, Hash and SuObject/SuRecord member lookup are validated by TLC against Cmp/Eq (TraceValues.tla); brand new copies of every lazily materialised instance are additionally taken through sequences of read-only steps (field reads, display, hash, compare, store/look up as a member key) and every answer must be the one of the value, whatever has been materialised",
 "note": "trusts TLC, the harness' naming of a concrete value's abstract value (aval: decimal string -> sign/exponent/digits, bytes, date parts, member lists), and that 3 x 21 bits are the whole 64-bit hash; transitivity of the real Compare follows from agreement with the verified reference order on the instantiated values only",
 "technique": "TLA+ model checking (TLC) of the reference order + trace validation of all-pairs observations of the real code",
}

RELAX = {  # known-finding key -> (environment variable of the named relaxation in TraceValues.tla, register index)
    "hash-int-dnum-beyond-int16": ("VERIF_RELAX_HASH_INT_DNUM", 0),
    "int-beyond-16-digits-vs-decimal": ("VERIF_RELAX_INT17", 1),
    "object-hash-named-order": ("VERIF_RELAX_OBJ_HASH_ORDER", 2),
}


def relax_used(res):
    m = re.search(r'"RELAX-USED",\s*(\d+),\s*(\d+),\s*(\d+)', res.get("out", ""))
    return [int(x) for x in m.groups()] if m else [0, 0, 0]


def describe(ev_a, ev_b, pair):
    return "%s %s  vs  %s %s: %s" % (ev_a.get("gotype"), json.dumps(ev_a.get("a"))[:160], ev_b.get("gotype"),
                                     json.dumps(ev_b.get("a"))[:160], json.dumps(pair))


def run(ctx):
    from vlib import Infra
    # 1. design level: the reference order is a total preorder consistent with equality
    ctx.tlc_mc("MC_Values.tla", "Values_quick.cfg", workers=2, timeout=1200)
    if ctx.thorough():
        ctx.tlc_mc("MC_Values.tla", "Values_thorough.cfg", workers=2, timeout=3000)
    # anti-vacuity: a reference order that is not antisymmetric is caught by the same invariants
    ctx.tlc_mc("MC_Values.tla", "Values_dev_asym.cfg", workers=2, timeout=1200, expect_violation="AntiSym", count=False)
    # lazily materialised records (ValuesLazy.tla): every interleaving of field reads / unpack /
    # hash / store-and-look-up keeps the value and gives the hash of the equal in-memory value;
    # the deviation "Hash2 looks at the materialised part only" is caught
    ctx.tlc_mc("MC_ValuesLazy.tla", "ValuesLazy_quick.cfg", workers=2, timeout=1200)
    ctx.tlc_mc("MC_ValuesLazy.tla", "ValuesLazy_dev_partial.cfg", workers=1, timeout=1200, expect_violation="Hash2OK", count=False)

    # 2. conformance: all pairs of all representations, real code
    drv = ctx.go_build("values")
    trace = os.path.join(ctx.work, "values.ndjson")
    rc, out, summ = ctx.driver(drv, [trace], timeout=1200)
    if rc != 0:
        raise Infra("values driver failed rc=%s\n%s" % (rc, out[-2000:]))
    ctx.sample_trace_lines(trace, 3)
    ctx.cov["instances"] = summ.get("instances", 0)
    ctx.cov["pairs_observed"] = summ.get("pairs", 0)
    ctx.cov["exceptions_during_compare"] = summ.get("exceptions", 0)
    ctx.cov["lazy_instances"] = summ.get("lazy_instances", 0)
    ctx.cov["lazy_episodes"] = summ.get("lazy_episodes", 0)
    ctx.cov["lazy_steps_observed"] = summ.get("lazy_steps", 0)

    env = {}
    res = ctx.tlc_trace("TraceValues.tla", "TraceValues.cfg", trace, timeout=3000, extra_env=env)
    if not res["accepted"]:
        known = [k for k in RELAX if ctx.is_known(k) is not None]
        if known:
            # recorded findings are modelled exactly by named relaxations; anything they do
            # not excuse is still a violation
            env = {RELAX[k][0]: "1" for k in known}
            res2 = ctx.tlc_trace("TraceValues.tla", "TraceValues.cfg", trace, timeout=3000, extra_env=env)
            if res2["accepted"]:
                used = relax_used(res2)
                for k in known:
                    if used[RELAX[k][1]] > 0:
                        ctx.report_rejection(trace, res, key=k)
                ctx.cov["relaxations_used"] = dict(zip([k for k in RELAX], used))
                res = res2
            else:
                res = res2
    if not res["accepted"]:
        # pin-point the offending pair: expand the rejected Row into Pair events
        lines = open(trace).read().splitlines()
        ln = res.get("line", 0)
        bad = json.loads(lines[ln - 1]) if 0 < ln <= len(lines) else {}
        if bad.get("e") == "Row":
            pin = os.path.join(ctx.work, "values-pair.ndjson")
            ctx.driver(drv, [pin, "-row", bad["a"]], timeout=600)
            res3 = ctx.tlc_trace("TraceValues.tla", "TraceValues.cfg", pin, timeout=1200, extra_env=env)
            if not res3["accepted"]:
                pl = open(pin).read().splitlines()
                pair = json.loads(pl[res3["line"] - 1])
                what = "real Compare/Equal/Hash/member lookup disagrees with the reference order: " + \
                       describe(json.loads(pl[pair["a"] - 1]), json.loads(pl[pair["b"] - 1]), pair)
                ctx.report_rejection(pin, res3, what=what)
                return
        if bad.get("e") == "Lz":
            of = json.loads(lines[bad["of"] - 1])
            ep = ln
            while ep > 0 and not lines[ep - 1].startswith('{"e":"LzNew"'):
                ep -= 1
            what = "a brand new copy of %s %s %s answers differently from its value after the read-only steps %s: %s" % (
                of.get("gotype"), of.get("rep"), json.dumps(of.get("a"))[:160],
                [json.loads(x)["op"] for x in lines[ep:ln - 1]], json.dumps(bad)[:200])
            ctx.report_rejection(trace, res, what=what)
            return
        ctx.report_rejection(trace, res)
        return

    # 3. anti-vacuity of the binding: corrupt one recorded answer, must be rejected at that line
    # (a small prefix of the scenario is enough: the first K instances and the first Row cut to K)
    lines = open(trace).read().splitlines()
    nval = sum(1 for l in lines if l.startswith('{"e":"Val"'))
    nval_all = nval
    K = min(40, nval)
    row = json.loads(lines[nval])
    for f in ("cmp", "ops", "eq", "is", "found", "rfound", "has"):
        row[f] = row[f][:K]
    row["cmp"][K // 2] = 1 - abs(row["cmp"][K // 2])  # flip one recorded sign
    bad = os.path.join(ctx.work, "values-corrupt.ndjson")
    with open(bad, "w") as f:
        f.write("\n".join(lines[:K]) + "\n" + json.dumps(row, separators=(",", ":")) + "\n")
    nval = K
    resc = ctx.tlc_trace("TraceValues.tla", "TraceValues.cfg", bad, timeout=1200, extra_env=env)
    if resc["accepted"] or resc.get("line") != nval + 1:
        raise Infra("anti-vacuity: corrupted Row was not rejected at line %d: %s" % (nval + 1, resc))
    ctx.cov["corrupted_trace_rejected_at_line"] = resc["line"]
    # same for the lazy episodes: one recorded hash changed / one lookup answer flipped
    lzl = [i for i, x in enumerate(lines) if x.startswith('{"e":"Lz",') and '"op":"hash"' in x]
    lkl = [i for i, x in enumerate(lines) if x.startswith('{"e":"Lz",') and '"op":"look0"' in x]
    if not lzl or not lkl:
        raise Infra("no lazy episodes recorded")
    for tag, i in (("hash", lzl[len(lzl) // 2]), ("look0", lkl[len(lkl) // 2])):
        ev = json.loads(lines[i])
        if tag == "hash":
            ev["h"][2] ^= 1
        else:
            ev["r"] = 1 - ev["r"]
        # the Val events, then the episode up to the corrupted step (Rows / Maps are not needed)
        first = max(j for j, x in enumerate(lines[:i]) if x.startswith('{"e":"LzNew"'))
        badl = os.path.join(ctx.work, "values-corrupt-%s.ndjson" % tag)
        with open(badl, "w") as f:
            f.write("\n".join(lines[:nval_all] + lines[first:i] + [json.dumps(ev, separators=(",", ":"))]) + "\n")
        want = nval_all + (i - first) + 1
        resl = ctx.tlc_trace("TraceValues.tla", "TraceValues.cfg", badl, timeout=1200, extra_env=env)
        if resl["accepted"] or resl.get("line") != want:
            raise Infra("anti-vacuity: corrupted lazy step (%s) was not rejected at line %d: %s" % (tag, want, resl))
        ctx.cov["corrupted_lazy_%s_rejected_at_line" % tag] = resl["line"]
    ctx.assumptions += [
        "abstract value of a concrete instance is named by the harness from its construction recipe (harness/aval)",
        "Hash compared as three 21-bit chunks of the real 64-bit hash",
        "TLC exhaustive universe: see tlc_runs; conformance universe: instances / pairs_observed in coverage",
        "objects: Compare looks at list members only (as documented in suobject.go), so Equal <=> Compare = 0 is required for scalars, Equal => Compare = 0 for objects",
    ]
