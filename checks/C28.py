"""C28 Value comparison is a consistent total order (core/value.go, ops.go, su*.go, deepequal.go)

Findings re-found / found on the unchanged tree (each with a fix: commit in /tmp/wt-values and a
named relaxation in TraceValues.tla should it be recorded instead of repaired):
  F14  SuDnum.Hash equals the integer hash only within int16          key hash-int-dnum-beyond-int16
  new  integers >= 10^16 against decimals: Compare/Equal go through a rounding conversion
       (Equal asymmetric, Compare not transitive; Dnum.ToInt64 rejects 9223372036854775000)
                                                                       key int-beyond-16-digits-vs-decimal
  new  SuObject.Hash depends on the insertion order of named members   key object-hash-named-order

Mutation testing (scratch worktree on top of the fix commits, quick tier, seed 1; "tests" =
go test -short ./core/ ./util/dnum/ with the mutant):
  M1 sudnum.go      SuDnum.Hash integer hash only within MaxSuInt (the F14 defect)      tests green   VIOLATION
  M2 suconcat.go    SuConcat.Compare operands swapped                                   tests green   VIOLATION
  M6 suobject.go    SuObject.Hash chains named members in iteration order               tests green   VIOLATION
  M7 suint64.go     SuInt64.Compare via rounded Dnum (the 17-digit defect)              tests green   VIOLATION
  M8 value.go       Order(): SuExcept no longer ranked as a string                      tests green   VIOLATION
  M3 sutimestamp.go CompareSuTimestamp ignores the extra byte                           core tests fail, VIOLATION
  M4 suobject.go    deepCompare: shorter list greater                                   core tests fail, VIOLATION
  M5 sustr.go       SuStr.Equal(SuConcat) compares lengths only                         core tests fail, VIOLATION
  M9 sutimestamp.go SuTimestamp.Equal(SuDate) true for the same date                    core tests fail, VIOLATION
"""

import json, os, re

META = {
 "engine": "tla-values",
 "text": "TLC exhausts Values.tla's reference order Cmp and equality Eq on a generated universe (68 / ~160 abstract values: every pair and triple) for totality, antisymmetry, transitivity, the type ranks boolean<number<string<date<object and Eq => Cmp = 0; then every abstract value of a larger universe is instantiated in every representation constructible in core (SuInt/SuInt64/SuDnum, SuStr/SuConcat/SuExcept, SuDate/SuTimestamp, SuObject/SuRecord/SuSequence, unpacked, copied, read-only, concurrent, nested) and for ALL ordered pairs the real Compare, OpLt..OpGte, Equal/OpIs, Hash and SuObject/SuRecord member lookup are validated by TLC against Cmp/Eq (TraceValues.tla)",
 "note": "trusts TLC, the harness' naming of a concrete value's abstract value (aval: decimal string -> sign/exponent/digits, bytes, date parts, member lists), and that 3 x 21 bits are the whole 64-bit hash; transitivity of the real Compare follows from agreement with the verified reference order on the instantiated values only",
 "technique": "TLA+ model checking (TLC) of the reference order + trace validation of all-pairs observations of the real code",
}

RELAX = {  # known-finding key -> (environment variable of the named relaxation in TraceValues.tla, register index)
    "hash-int-dnum-beyond-int16": ("VERIF_RELAX_HASH_INT_DNUM", 0),
    "int-beyond-16-digits-vs-decimal": ("VERIF_RELAX_INT17", 1),
    "object-hash-named-order": ("VERIF_RELAX_OBJ_HASH_ORDER", 2),
}


def relax_used(res):
    m = re.search(r'"RELAX-USED",\s*(\d+),\s*(\d+),\s*(\d+)', res.get("out", ""))
    return [int(x) for x in m.groups()] if m else [0, 0, 0]


def describe(ev_a, ev_b, pair):
    return "%s %s  vs  %s %s: %s" % (ev_a.get("gotype"), json.dumps(ev_a.get("a"))[:160], ev_b.get("gotype"),
                                     json.dumps(ev_b.get("a"))[:160], json.dumps(pair))


def run(ctx):
    from vlib import Infra
    # 1. design level: the reference order is a total preorder consistent with equality
    ctx.tlc_mc("MC_Values.tla", "Values_quick.cfg", workers=2, timeout=1200)
    if ctx.thorough():
        ctx.tlc_mc("MC_Values.tla", "Values_thorough.cfg", workers=2, timeout=3000)
    # anti-vacuity: a reference order that is not antisymmetric is caught by the same invariants
    ctx.tlc_mc("MC_Values.tla", "Values_dev_asym.cfg", workers=2, timeout=1200, expect_violation="AntiSym", count=False)

    # 2. conformance: all pairs of all representations, real code
    drv = ctx.go_build("values")
    trace = os.path.join(ctx.work, "values.ndjson")
    rc, out, summ = ctx.driver(drv, [trace], timeout=1200)
    if rc != 0:
        raise Infra("values driver failed rc=%s\n%s" % (rc, out[-2000:]))
    ctx.sample_trace_lines(trace, 3)
    ctx.cov["instances"] = summ.get("instances", 0)
    ctx.cov["pairs_observed"] = summ.get("pairs", 0)
    ctx.cov["exceptions_during_compare"] = summ.get("exceptions", 0)

    env = {}
    res = ctx.tlc_trace("TraceValues.tla", "TraceValues.cfg", trace, timeout=3000, extra_env=env)
    if not res["accepted"]:
        known = [k for k in RELAX if ctx.is_known(k) is not None]
        if known:
            # recorded findings are modelled exactly by named relaxations; anything they do
            # not excuse is still a violation
            env = {RELAX[k][0]: "1" for k in known}
            res2 = ctx.tlc_trace("TraceValues.tla", "TraceValues.cfg", trace, timeout=3000, extra_env=env)
            if res2["accepted"]:
                used = relax_used(res2)
                for k in known:
                    if used[RELAX[k][1]] > 0:
                        ctx.report_rejection(trace, res, key=k)
                ctx.cov["relaxations_used"] = dict(zip([k for k in RELAX], used))
                res = res2
            else:
                res = res2
    if not res["accepted"]:
        # pin-point the offending pair: expand the rejected Row into Pair events
        lines = open(trace).read().splitlines()
        ln = res.get("line", 0)
        bad = json.loads(lines[ln - 1]) if 0 < ln <= len(lines) else {}
        if bad.get("e") == "Row":
            pin = os.path.join(ctx.work, "values-pair.ndjson")
            ctx.driver(drv, [pin, "-row", bad["a"]], timeout=600)
            res3 = ctx.tlc_trace("TraceValues.tla", "TraceValues.cfg", pin, timeout=1200, extra_env=env)
            if not res3["accepted"]:
                pl = open(pin).read().splitlines()
                pair = json.loads(pl[res3["line"] - 1])
                what = "real Compare/Equal/Hash/member lookup disagrees with the reference order: " + \
                       describe(json.loads(pl[pair["a"] - 1]), json.loads(pl[pair["b"] - 1]), pair)
                ctx.report_rejection(pin, res3, what=what)
                return
        ctx.report_rejection(trace, res)
        return

    # 3. anti-vacuity of the binding: corrupt one recorded answer, must be rejected at that line
    # (a small prefix of the scenario is enough: the first K instances and the first Row cut to K)
    lines = open(trace).read().splitlines()
    nval = sum(1 for l in lines if l.startswith('{"e":"Val"'))
    K = min(40, nval)
    row = json.loads(lines[nval])
    for f in ("cmp", "ops", "eq", "is", "found", "rfound", "has"):
        row[f] = row[f][:K]
    row["cmp"][K // 2] = 1 - abs(row["cmp"][K // 2])  # flip one recorded sign
    bad = os.path.join(ctx.work, "values-corrupt.ndjson")
    with open(bad, "w") as f:
        f.write("\n".join(lines[:K]) + "\n" + json.dumps(row, separators=(",", ":")) + "\n")
    nval = K
    resc = ctx.tlc_trace("TraceValues.tla", "TraceValues.cfg", bad, timeout=1200, extra_env=env)
    if resc["accepted"] or resc.get("line") != nval + 1:
        raise Infra("anti-vacuity: corrupted Row was not rejected at line %d: %s" % (nval + 1, resc))
    ctx.cov["corrupted_trace_rejected_at_line"] = resc["line"]
    ctx.assumptions += [
        "abstract value of a concrete instance is named by the harness from its construction recipe (harness/aval)",
        "Hash compared as three 21-bit chunks of the real 64-bit hash",
        "TLC exhaustive universe: see tlc_runs; conformance universe: instances / pairs_observed in coverage",
        "objects: Compare looks at list members only (as documented in suobject.go), so Equal <=> Compare = 0 is required for scalars, Equal => Compare = 0 for objects",
    ]
