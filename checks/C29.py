"""C29 Closures and blocks follow the documented scoping model
(compile/ast/blocks.go, compile/codegen.go, core/interp.go, core/frame.go, core/suclosure.go)

Mutation testing (scratch worktree, VERIF_REPO=<wt> bin/vcheck C29 quick). Caught = the quick tier
printed VIOLATION. The repository's own closure tests (core, compile/ast) are strong: mutants
marked (T) already fail `go test ./compile/... ./core/`; the others keep those tests green.
  K10 interp.go op.Closure: block-return parent not propagated (a block created inside a block
      returns only to that block)                                                          -> caught
  K15 frame.go moveLocalsToShared: a captured block parameter is stored in its shared cell only
      on the first call of the block                                                       -> caught
  K23 interp.go: a try in a frame between the block and its function catches the block return -> caught
  K24 interp.go invokeClosure: locals of a closure block are not cleared on entry            -> caught
  K1  (T) blocks.go: captured block parameter gets no shared slot (sharing decision wrong for a
      block parameter)                                                                     -> caught
  K2  (T) interp.go: captured block parameters not copied to the shared cell on closure entry -> caught
  K3  (T) blocks.go: sharing search looks at the immediate parent only                        -> caught
  K4  (T) interp.go: every closure call works on a private copy of the shared cells           -> caught
  K5  (T) blocks.go: a block parameter does not hide the outer variable                       -> caught
  K6  (T) interp.go op.Closure: copy-on-capture of the shared cells                           -> caught
  K12 (T) blocks.go: nested block with return compiled as a plain function                    -> caught
  K18 (T) blocks.go: a name already shared by the parent gets a second shared slot            -> caught
"""
import json, os, random, re

SKIP_MC = os.environ.get("VERIF_SKIP_MC") == "1"

META = {
 "engine": "tla-closure",
 "text": "Closure.tla is a reference interpreter (environment of cells) for a small block language (assignments, block literals with optional possibly shadowing parameter, calls, blocks stored and called later or after the function returned, recursion through a block, return inside a block, throw/try-catch, if) with the documented scoping model: a name denotes the storage of the nearest enclosing scope that uses it, shared storage exists once per invocation of the outermost function, unshared block variables are private per call. TLC enumerates four program families exhaustively (every program an initial state), checks that the slot assignment of compile/ast/blocks.go (transcribed) implements the model and that blocks compilable as plain functions touch no shared cell, and prints the programs; these and seeded random programs are rendered to Suneido source, compiled and run by the real interpreter, and every result (value, exception class, results of calling returned blocks after the function exited) is compared with the reference interpreter by TLC trace validation",
 "note": "trusts TLC; values are small integers and blocks; exception classes not texts; programs the compiler refuses statically (read before the only assignment, nested try) are counted and skipped; runs cut by the harness fuel limit, recursion beyond the reference bound and 'return' in a block whose function has exited are not compared",
 "technique": "TLA+ reference interpreter + exhaustive program enumeration (TLC) + trace validation of the real compiler/interpreter",
}


def programs(out):
    res, seen = [], set()
    for m in re.finditer(r'<<\s*"PROGRAM",\s*"((?:[^"\\]|\\.)*)"\s*>>', out, re.S):
        s = m.group(1).replace("\n", "").replace('\\"', '"').replace("\\\\", "\\")
        if s in seen:
            continue
        seen.add(s)
        json.loads(s)
        res.append(s)
    return res


def run(ctx):
    from vlib import Infra
    # 1. exhaustive enumeration + static checks + reference evaluation of every program;
    #    the same run prints the programs for the driver
    cfg = "Closure_thorough.cfg" if ctx.thorough() else "Closure_quick.cfg"
    ctx.tlc_mc("MC_Closure.tla", "Closure_quick.cfg", timeout=1200)
    progs = programs(ctx._last_out)
    if ctx.thorough():
        ctx.tlc_mc("MC_Closure.tla", "Closure_thorough.cfg", timeout=3000)
        progs += programs(ctx._last_out)
    if not SKIP_MC:
        ctx.tlc_mc("MC_Closure.tla", "Closure_dev_noparamshare.cfg", timeout=600,
                   expect_violation="violated", count=False)
    if len(progs) < 1000:
        raise Infra("enumeration produced only %d programs" % len(progs))
    ctx.cov["tlc_enumerated_programs"] = len(progs)
    # quick: a seed dependent sample of the enumerated programs (reference evaluation in TLC is
    # the slow part of trace validation); thorough: all of them
    rnd = random.Random(ctx.seed)
    nsample = len(progs) if ctx.thorough() else 700
    sample = progs if nsample >= len(progs) else rnd.sample(progs, nsample)
    pfile = ctx.work + "/programs.json"
    with open(pfile, "w") as f:
        f.write("\n".join(sample) + "\n")
    # 2. real compiler + interpreter
    drv = ctx.go_build("closure")
    trace = ctx.work + "/closure.ndjson"
    nrandom = 6000 if ctx.thorough() else 500
    rc, out, summ = ctx.driver(drv, [trace, pfile, nrandom], timeout=900)
    if rc != 0:
        raise Infra("closure driver rc=%d\n%s" % (rc, out[-3000:]))
    nprog, refused = summ.get("programs", 0), summ.get("refused", 0)
    if nprog == 0 or refused > 0.15 * nprog:
        raise Infra("too many programs refused by the compiler's static checks: %d of %d" % (refused, nprog))
    ctx.sample_trace_lines(trace, 2)
    res = ctx.tlc_trace("TraceClosure.tla", "TraceClosure.cfg", trace, timeout=3000, ntraces=nprog - refused)
    if not res["accepted"]:
        ctx.report_rejection(trace, res)
    ctx.cov["programs_executed"] = nprog - refused
    ctx.cov["programs_refused_by_compiler_static_checks"] = refused
    ctx.assumptions += [
        "language: const/inc/dec/copy assignments, block literals (0/1 parameter), calls with 0/1 argument, return, throw, try/catch, if, return Object(...); names x y z t u f g h p q",
        "every block body starts with a call of the harness builtin VhTick() (fuel); it does not reference any variable",
        "quick validates a seed dependent sample of the enumerated programs, thorough all of them",
        "programs refused by the compiler's static checks are skipped (count in evidence)",
    ]
