"""C30 Constant folding and propagation preserve program meaning (compile/ast/folder.go, propfold.go)

Findings re-found / found on the unchanged tree (fix: commits in /tmp/wt-values; fallback keys =
FAMILIES below, matched on the rejected expression):
  F15  absorbing-element shortcuts skip operand validation (0 or true -> true, 0 & .5 -> 0) - and, new,
       drop operands with side effects: f() and false, f() * 0 never call f      key fold-absorbing-shortcut
  new  -1 & -1 folds to 4294967295, -1 | 0xffffffff to 4294967295 (32-bit identity)   key fold-bits-32bit-allones
  new  constant / variable is compiled as (1 / variable) * constant: 255 / x = 84.99999999999999 for x = 3
                                                                                   key fold-const-div-var-reciprocal
  new  (thorough) x * 10 / 3 folds to x * 3.333333333333333 = 9.999999999999999 for x = 3 (run time: 10);
       fix: combine the constants only if their quotient is exact          key fold-inexact-constant-quotient
  new  (thorough) x - 1e20 - .5 folds the constants first and gives 0 instead of -.5 for x = 1e20;
       no fix proposed (inherent to re-associating 16-digit decimals)   key fold-reassociation-absorbs-small-term

Mutation testing (scratch worktree on top of the fix commits, quick tier, seed 1; "tests" =
go test -short ./compile/ ./compile/ast/ with the mutant):
  N2  folder.go   foldCat displays dates/objects instead of failing               tests green   VIOLATION
  N4  folder.go   foldIn answers true when no member matches (3+ members)         tests green   VIOLATION
  N11 folder.go   not (a < b) rewritten to a > b                                  tests green   VIOLATION (after adding negated comparisons)
  N13 folder.go   ^ folded with identity 1                                        tests green   VIOLATION
  N21 folder.go   foldIn ignores the first member                                 tests green   VIOLATION
  N22 folder.go   or-to-in conversion drops a true first alternative              tests green   VIOLATION
  finality (which locals PropFold may treat as single-assignment; forms mod-* / in-* of cmd/fold), on main:
  S1  function.go   second variable of `for m, v in ob` not disqualified (seeded/C30-forin-second-var-final)
                                                                                  tests green   VIOLATION (mod-/in-forin2-second)
  F1  function.go   first variable of for-in not disqualified                     tests green   VIOLATION (mod-/in-forin1, -forin2-first)
  F2  function.go   catch variable not disqualified                               tests green   VIOLATION (mod-/in-catch)
  F8  function.go   targets of a multiple assignment a, b = f() not disqualified  tests green   VIOLATION (mod-multiassign)
  F9  expression.go implicit block parameter `it` not disqualified                tests green   VIOLATION (in-itparam)
  F3 block parameters, F4 postfix ++/--, F6 += etc., F7 locals assigned inside a block not disqualified:
      all VIOLATION, but the package's own tests fail with them
  N5  propfold.go operands after a false `and` operand replaced by true           tests green   not reported: equivalent (the
                  folder then short-circuits on the false operand anyway)
  N1 fold <= as <, N3 ?: false takes the true branch, N6 if false takes then, N8 shortcut restored,
  N9 c / x reciprocal restored, N10 reversed < becomes >=, N16 range lower bound always inclusive,
  N20 Number? true for dates: all VIOLATION, but the package's own tests fail with them
  N7  unary minus no longer rejected on "" literal: not reported - only removes a static diagnostic
      (run-time meaning unchanged), package tests fail
"""

import json, os, re

META = {
 "engine": "tla-values-eval",
 "text": "TLC exhausts Values.tla's reference evaluator Eval over every operator x every operand combination of a universe with all types (11k / 60k states) for totality and the algebraic laws of the language (comparison consistency, commutativity, short-circuit, ?:, in, concatenation, static-diagnostic rule); then thousands of generated expressions are compiled with the real compiler in folded (literals), unfolded (parameters / non-final locals), partially folded, propagated (single-assignment locals, SSA temporaries, if statements) and side-effect-logging forms and run in the real interpreter; TLC validates that every form yields Eval's value or exception class, that compile-time errors occur only for erroneous constant operands (static checks), and that folding never changes which non-constant operands are evaluated",
 "note": "trusts TLC, the harness' rendering of an expression tree as Suneido source (cross-checked: the all-parameter form must itself equal Eval) and its mapping of error messages to three classes (type / arith / static); outside the arithmetic domain of Eval (more than 9 digits, inexact division, negative bit operands, regex match) the forms are only required to agree with each other, numbers up to rounding",
 "technique": "TLA+ model checking (TLC) of the reference evaluator + trace validation of compiled-and-executed programs",
}

# fallback for findings that are recorded instead of repaired: coarse families, matched on
# the expression that was rejected (see classify)
FAMILIES = {
    "fold-absorbing-shortcut": "absorbing-element shortcut (x and false, x or true, x * 0, x & 0, x | 0xffffffff) drops operands that are still evaluated / type checked at run time",
    "fold-bits-32bit-allones": "& and | are folded with a 32-bit all-ones identity (e.g. -1 & -1 folds to 4294967295)",
    "fold-const-div-var-reciprocal": "constant / variable is compiled as (1 / variable) * constant (255 / 3 gives 84.99999999999999)",
    "fold-inexact-constant-quotient": "the constants of a * / chain are divided at compile time: x * 10 / 3 becomes x * 3.333333333333333 (9.999999999999999 instead of 10 for x = 3)",
    "fold-reassociation-absorbs-small-term": "constants of a + / - chain are combined first: x - 1e20 - .5 becomes x + (-1e20 - .5) = x - 1e20, so for x = 1e20 the result is 0 instead of -.5 (16-digit decimal arithmetic is not associative)",
}


def classify(ev):
    """recorded findings whose exact expression shape occurs in the rejected expression"""
    from valuesutil import nodes, evalx, num, chain, inexact_product
    from decimal import Decimal, localcontext
    env = ev["env"]

    def val(x):
        return evalx(x, lambda i: env[i - 1])

    def isint(d):
        return d is not None and d.is_finite() and d == d.to_integral_value()
    fams = set()
    for x in nodes(ev["x"]):
        op = x["op"]
        if op == "x":
            continue
        vals = [val(a) for a in x["a"]]
        nums = [num(v) for v in vals]
        # an operand that is (or folds to) the absorbing constant of the operator
        if op in ("and", "or") and any(v is not None and v["t"] == "bool" and v["b"] == (op == "or") for v in vals):
            fams.add("fold-absorbing-shortcut")
        if op in ("mul", "bitand") and any(d is not None and d == 0 for d in nums):
            fams.add("fold-absorbing-shortcut")
        if op == "bitor" and any(d is not None and d == 4294967295 for d in nums):
            fams.add("fold-absorbing-shortcut")
        # & | with an integer operand that does not fit 32 bits unsigned
        if op in ("bitand", "bitor") and any(isint(d) and (d < 0 or d > 4294967295) for d in nums):
            fams.add("fold-bits-32bit-allones")
        if op in ("mul", "div"):
            ch = [(role, num(val(o))) for role, o in chain(x, ("mul", "div"))]
            muls = [d for role, d in ch if role == "mul" and d is not None and d.is_finite()]
            divs = [d for role, d in ch if role == "div" and d is not None and d.is_finite() and d != 0]
            if any(d == 0 for d in muls):      # 0 * x, 0 / x
                fams.add("fold-absorbing-shortcut")
            with localcontext() as c:
                c.prec = 16
                # constant / x evaluated as (1 / x) * constant
                # (the constant is the folded product / quotient of any of the other constants)
                from itertools import combinations
                for k, d in enumerate(divs):
                    rest = [("m", m) for m in muls] + [("d", o) for j, o in enumerate(divs) if j != k]
                    for r in range(1, len(rest) + 1):
                        for sub in combinations(rest, r):
                            if not any(t == "m" for t, _ in sub):
                                continue
                            cst = Decimal(1)
                            for t, v in sub:
                                cst = cst * v if t == "m" else cst / v
                            if (Decimal(1) / d) * cst != cst / d:
                                fams.add("fold-const-div-var-reciprocal")
            # x * m / d with the constants divided first
            if any(inexact_product(m, d) for m in muls for d in divs):
                fams.add("fold-inexact-constant-quotient")
        if op in ("add", "sub"):
            ds = [num(val(o)) for role, o in chain(x, ("add", "sub"))]
            ds = [d for d in ds if d is not None and d.is_finite() and d != 0]
            if len(ds) >= 2 and max(d.adjusted() for d in ds) - min(d.adjusted() for d in ds) >= 16:
                fams.add("fold-reassociation-absorbs-small-term")
    return fams


def bad_lines(path):
    """line numbers the survey run wrote (JSON array, TLA+ JsonSerialize)"""
    try:
        v = json.load(open(path))
    except Exception:
        return None
    return sorted(set(int(n) for n in v))


def run(ctx):
    from vlib import Infra
    # 1. design level: the reference evaluator
    ctx.tlc_mc("MC_Eval.tla", "Eval_quick.cfg", workers=4, timeout=1200)
    if ctx.thorough():
        ctx.tlc_mc("MC_Eval.tla", "Eval_thorough.cfg", workers=8, timeout=3000)
    ctx.tlc_mc("MC_Eval.tla", "Eval_dev.cfg", workers=4, timeout=1200, expect_violation="LtGte", count=False)

    # 2. conformance: compile + run every form of every generated expression
    drv = ctx.go_build("fold")
    trace = os.path.join(ctx.work, "fold.ndjson")
    rc, out, summ = ctx.driver(drv, [trace], timeout=1800)
    if rc != 0:
        raise Infra("fold driver failed rc=%s\n%s" % (rc, out[-2000:]))
    if summ.get("unclassified", 0):
        raise Infra("fold driver met results it cannot name (new message class?):\n%s" % out[-3000:])
    ctx.sample_trace_lines(trace, 2)
    for k in ("expressions", "lit.v", "lit.ce", "par.v", "par.x", "mix.v", "mix.x", "mix.ce", "extra.v", "se.v"):
        ctx.cov["fold." + k] = summ.get(k, 0)

    res = ctx.tlc_trace("TraceFold.tla", "TraceFold.cfg", trace, timeout=3000)
    lines = open(trace).read().splitlines()
    if not res["accepted"]:
        # list every rejected expression (survey mode), then decide each one
        saved = {k: ctx.cov.get(k) for k in ("events_validated", "traces_validated_against_impl", "trace_validation_states")}
        badout = os.path.join(ctx.work, "bad-lines.json")
        sv = ctx.tlc_trace("TraceFold.tla", "TraceFold.cfg", trace, timeout=3000, extra_env={"VERIF_SURVEY": "1", "VERIF_BADOUT": badout})
        for k, v in saved.items():
            if v is not None:
                ctx.cov[k] = v
        bad = bad_lines(badout)
        if bad is None or not sv["accepted"]:
            raise Infra("survey run did not produce the list of rejected lines: %s" % (sv.get("out", "")[-1500:],))
        if res["line"] not in bad:
            raise Infra("survey run disagrees with the strict run: line %d rejected but not listed in %s" % (res["line"], bad[:20]))
        unknown, known = [], {}
        # testing aid (mutation runs): treat these families as recorded findings
        assume = set(filter(None, os.environ.get("VERIF_ASSUME_KNOWN", "").split(",")))
        for ln in bad:
            ev = json.loads(lines[ln - 1])
            fams = classify(ev)
            kf = [f for f in fams if ctx.is_known(f) is not None or f in assume]
            if kf:
                # a recorded finding is present in the expression: not reported again (families
                # that are present but not recorded, e.g. because they are repaired, do not count)
                for f in kf:
                    known.setdefault(f, []).append(ev["src"])
            else:
                unknown.append((ln, ev, fams))
        for f, srcs in known.items():
            if ctx.is_known(f) is not None:
                ctx.report_rejection(trace, res, key=f)
            ctx.log("known finding %s: %d rejected expressions, e.g. %s" % (f, len(srcs), srcs[:3]))
        ctx.cov["rejected_expressions"] = len(bad)
        if not unknown:
            # every other line was explained by the specification in the survey run
            ctx.cov["events_validated"] += len(lines) - len(bad)
            ctx.cov["traces_validated_against_impl"] += 1
        if unknown:
            rep = os.path.join(ctx.work, "fold-rejected.ndjson")
            with open(rep, "w") as f:
                for ln, ev, fams in unknown:
                    f.write(lines[ln - 1] + "\n")
            ln, ev, fams = unknown[0]
            forms = {k: ev[k]["k"] + ":" + (ev[k]["c"] or json.dumps(ev[k]["v"])[:60]) for k in ("lit", "par", "prop", "nf")}
            def rs(r):
                return r["k"] + ":" + (r["c"] or json.dumps(r["v"], separators=(",", ":"))[:60])
            # forms whose outcome differs from the all-parameter (run-time) form, over all rejected expressions
            dev = {}
            for _, e2, _ in unknown:
                for name, r in [("lit", e2["lit"]), ("prop", e2["prop"]), ("nf", e2["nf"])] + \
                        [("mix", m["r"]) for m in e2["mix"]] + [(m["form"], m["r"]) for m in e2["extra"]] + [("se", m["r"]) for m in e2["se"]]:
                    if r["k"] != "ce" and rs(r) != rs(e2["par"]):
                        dev[name] = dev.get(name, 0) + 1
                    elif r["k"] == "ce" and name[:4] in ("mod-", "in-f", "in-b", "in-c", "in-i") and e2["par"]["k"] == "v":
                        dev[name + ":compile-error"] = dev.get(name + ":compile-error", 0) + 1
            what = "%d generated expressions change meaning when folded / propagated (forms deviating from the run-time form: %s), first: %s  %s mix=%s extra=%s se=%s (recorded-finding shapes present: %s)" % (
                len(unknown), dev or "none: par itself differs from Eval", ev["src"], forms,
                [rs(m["r"]) for m in ev["mix"]], [m["form"] + "=" + rs(m["r"]) for m in ev["extra"]],
                [(rs(m["r"]), m["ev"]) for m in ev["se"]], sorted(fams) or "none")
            ctx.report_rejection(rep, {"line": 1}, what=what)
            return

    # 3. anti-vacuity of the binding: change one recorded result, must be rejected at that line
    n = next(i for i, l in enumerate(lines) if '"par":{"k":"v"' in l and '"lit":{"k":"v"' in l)
    ev = json.loads(lines[n])
    ev["par"]["v"] = {"t": "str", "c": [122, 122]}
    bad = os.path.join(ctx.work, "fold-corrupt.ndjson")
    with open(bad, "w") as f:
        f.write(json.dumps(ev, separators=(",", ":")) + "\n")
    resc = ctx.tlc_trace("TraceFold.tla", "TraceFold.cfg", bad, timeout=1200)
    if resc["accepted"] or resc.get("line") != 1:
        raise Infra("anti-vacuity: corrupted result was not rejected at line 1: %s" % (resc,))
    ctx.cov["corrupted_trace_rejected_at_line"] = resc["line"]
    ctx.assumptions += [
        "expression trees are rendered to Suneido source by the harness (precedences of compile/expression.go); the all-parameter form is itself validated against Eval, so a rendering error shows up as a rejection, not as a silent pass",
        "exception messages are mapped to classes type / arith / static by substring; unknown messages abort the run (exit 2)",
        "arithmetic domain of the oracle: numbers with <= 9 significant digits, terminating divisions, non-negative bit operands; outside: forms must agree (numbers up to rounding: NumClose)",
        "compile-time diagnostics on erroneous constant operands (Values!LitDiag) are static checks, not folding",
    ]
