"""C30 Constant folding and propagation preserve program meaning (compile/ast/folder.go, propfold.go)

Findings re-found / found on the unchanged tree (fix: commits in /tmp/wt-values; fallback keys =
FAMILIES below, matched on the rejected expression):
  F15  absorbing-element shortcuts skip operand validation (0 or true -> true, 0 & .5 -> 0) - and, new,
       drop operands with side effects: f() and false, f() * 0 never call f      key fold-absorbing-shortcut
  new  -1 & -1 folds to 4294967295, -1 | 0xffffffff to 4294967295 (32-bit identity)   key fold-bits-32bit-allones
  new  constant / variable is compiled as (1 / variable) * constant: 255 / x = 84.99999999999999 for x = 3
                                                                                   key fold-const-div-var-reciprocal
  new  (thorough) x * 10 / 3 folds to x * 3.333333333333333 = 9.999999999999999 for x = 3 (run time: 10);
       fix: combine the constants only if their quotient is exact          key fold-inexact-constant-quotient
  new  (thorough) x - 1e20 - .5 folds the constants first and gives 0 instead of -.5 for x = 1e20;
       no fix proposed (inherent to re-associating 16-digit decimals)   key fold-reassociation-absorbs-small-term
  new  (thorough) a + (b - c) is flattened to a + b - c by the folder, also without constants: 0 for
       (.001, 1e20, 1e20), while .001 + (1e20 - 1e20) folds to .001; fold_test expects the flattening
                                                                         key fold-nested-sum-flattened
  new  (thorough) a / b / c runs as a / (b * c): a zero divisor loses the sign of the other divisor
       (-inf), constants folded first keep it: -1 / -2.5 / c = .4 / c = +inf   key fold-zero-divisor-loses-sign
  new  (thorough) core.OpMul wraps at 64 bits (4294967295 * 4294967295 = -8589934591): x / 10 * 4294967295
       (folded: x * 429496729.5) differs from a / b * c = (a * c) / b; fix: 97f2d14 in /tmp/wt-c30b
                                                                         key int-mul-overflow-wraps

Attribution of rejected expressions to these keys (classify): the driver writes, next to the trace,
<trace>.sub with the run-time result of every subexpression (real interpreter), and the arithmetic
witnesses ((1 / d) * c differs from c / d, a quotient of constants is inexact, ...) are computed
with an exact port of util/dnum + the integer fast paths of core/ops.go (cross-checked against the
real code).  Before, operand values were re-computed in Python with 60-digit / round-half-even
decimals and without % << >> =~ unary +: 1.5 / 1.5 (dnum.Div truncates 1 / 1.5), 255 << 255 & 1.5,
2 * (100000 % 1), .5 and 1.5 <= +1 were rejected but not attributed (false VIOLATION, thorough).

Mutation testing (scratch worktree on top of the fix commits, quick tier, seed 1; "tests" =
go test -short ./compile/ ./compile/ast/ with the mutant):
  N2  folder.go   foldCat displays dates/objects instead of failing               tests green   VIOLATION
  N4  folder.go   foldIn answers true when no member matches (3+ members)         tests green   VIOLATION
  N11 folder.go   not (a < b) rewritten to a > b                                  tests green   VIOLATION (after adding negated comparisons)
  N13 folder.go   ^ folded with identity 1                                        tests green   VIOLATION
  N21 folder.go   foldIn ignores the first member                                 tests green   VIOLATION
  N22 folder.go   or-to-in conversion drops a true first alternative              tests green   VIOLATION
  finality (which locals PropFold may treat as single-assignment; forms mod-* / in-* of cmd/fold), on main:
  S1  function.go   second variable of `for m, v in ob` not disqualified (seeded/C30-forin-second-var-final)
                                                                                  tests green   VIOLATION (mod-/in-forin2-second)
  F1  function.go   first variable of for-in not disqualified                     tests green   VIOLATION (mod-/in-forin1, -forin2-first)
  F2  function.go   catch variable not disqualified                               tests green   VIOLATION (mod-/in-catch)
  F8  function.go   targets of a multiple assignment a, b = f() not disqualified  tests green   VIOLATION (mod-multiassign)
  F9  expression.go implicit block parameter `it` not disqualified                tests green   VIOLATION (in-itparam)
  F3 block parameters, F4 postfix ++/--, F6 += etc., F7 locals assigned inside a block not disqualified:
      all VIOLATION, but the package's own tests fail with them
  N5  propfold.go operands after a false `and` operand replaced by true           tests green   not reported: equivalent (the
                  folder then short-circuits on the false operand anyway)
  N1 fold <= as <, N3 ?: false takes the true branch, N6 if false takes then, N8 shortcut restored,
  N9 c / x reciprocal restored, N10 reversed < becomes >=, N16 range lower bound always inclusive,
  N20 Number? true for dates: all VIOLATION, but the package's own tests fail with them
  N7  unary minus no longer rejected on "" literal: not reported - only removes a static diagnostic
      (run-time meaning unchanged), package tests fail
"""

import json, os, re

META = {
 "engine": "tla-values-eval",
 "text": "TLC exhausts Values.tla's reference evaluator Eval over every operator x every operand combination of a universe with all types (11k / 60k states) for totality and the algebraic laws of the language (comparison consistency, commutativity, short-circuit, ?:, in, concatenation, static-diagnostic rule); then thousands of generated expressions are compiled with the real compiler in folded (literals), unfolded (parameters / non-final locals), partially folded, propagated (single-assignment locals, SSA temporaries, if statements) and side-effect-logging forms and run in the real interpreter; TLC validates that every form yields Eval's value or exception class, that compile-time errors occur only for erroneous constant operands (static checks), and that folding never changes which non-constant operands are evaluated",
 "note": "trusts TLC, the harness' rendering of an expression tree as Suneido source (cross-checked: the all-parameter form must itself equal Eval) and its mapping of error messages to three classes (type / arith / static); outside the arithmetic domain of Eval (more than 9 digits, inexact division, negative bit operands, regex match) the forms are only required to agree with each other, numbers up to rounding",
 "technique": "TLA+ model checking (TLC) of the reference evaluator + trace validation of compiled-and-executed programs",
}

# fallback for findings that are recorded instead of repaired: coarse families, matched on
# the expression that was rejected (see classify)
FAMILIES = {
    "fold-absorbing-shortcut": "absorbing-element shortcut (x and false, x or true, x * 0, x & 0, x | 0xffffffff) drops operands that are still evaluated / type checked at run time",
    "fold-bits-32bit-allones": "& and | are folded with a 32-bit all-ones identity (e.g. -1 & -1 folds to 4294967295)",
    "fold-const-div-var-reciprocal": "constant / variable is compiled as (1 / variable) * constant (255 / 3 gives 84.99999999999999, 1.5 / 1.5 gives .9999999999999999: dnum.Div truncates 1 / 1.5 to .6666666666666666)",
    "fold-inexact-constant-quotient": "the constants of a * / chain are divided at compile time: x * 10 / 3 becomes x * 3.333333333333333 (9.999999999999999 instead of 10 for x = 3)",
    "fold-reassociation-absorbs-small-term": "constants of a + / - chain are combined first: x - 1e20 - .5 becomes x + (-1e20 - .5) = x - 1e20, so for x = 1e20 the result is 0 instead of -.5 (16-digit decimal arithmetic is not associative)",
    "fold-nested-sum-flattened": "a + (b - c) is flattened to the n-ary a + b - c by the folder (commutative / nestedNary) even when nothing is constant: .001 + (x - 1e20) gives 0 for x = 1e20, while the constant form .001 + (1e20 - 1e20) folds the parenthesis first and gives .001",
    "fold-zero-divisor-loses-sign": "a / b / c is compiled as a / (b * c); with a zero divisor the product is 0 and the sign of the other divisor is lost: a / b / c gives -inf for a = -1, b = -2.5, c = 0, but with the constants folded first (-1 / -2.5 / c = .4 / c) +inf",
    "int-mul-overflow-wraps": "core.OpMul multiplies integers without an overflow check (4294967295 * 4294967295 = -8589934591); folding changes which operands are multiplied as integers: x / 10 * 4294967295 folds to x * 429496729.5 = 1.844674406511962e18 for x = 4294967295, the same operations on variables give -858993459.1",
}


# ---------------------------------------------------------------------------------------
# exact port of util/dnum (New, Mul, Div, Add) and of the integer fast paths of core/ops.go
# (OpAdd, OpMul, OpDiv: int64, wrapping).  Used ONLY to attribute an already rejected
# expression to a recorded finding (does (1 / d) * c differ from c / d in the real
# arithmetic?), never for a verdict.  Cross-checked against the real code on 200k random
# operand pairs (+ - * /, integers up to 1e18, 1..16 digit decimals, exponents -30..30).
from fractions import Fraction

COEF_MAX = 10 ** 16 - 1
EXP_MIN, EXP_MAX = -128, 127
I64 = 1 << 63


def dn_new(sign, coef, exp):
    """dnum.New: (sign, coef, exp) with value sign * coef * 10^(exp-16), coef maximised to 16 digits"""
    if sign == 0 or coef == 0 or exp < EXP_MIN:
        return (0, 0, 0)
    if sign in (2, -2):
        return (sign, 1, 0)
    atmax = False
    while coef > COEF_MAX:
        coef = (coef + 5) // 10
        exp += 1
        atmax = True
    if not atmax:
        p = 16 - len(str(coef))
        coef *= 10 ** p
        exp -= p
    if exp > EXP_MAX:
        return (2 if sign > 0 else -2, 1, 0)
    return (sign, coef, exp)


def dn_inf(sign):
    return (2, 1, 0) if sign > 0 else (-2, 1, 0) if sign < 0 else (0, 0, 0)


def dn_isinf(x):
    return x[0] in (2, -2)


def dn_from_int(n):
    return dn_new(1 if n > 0 else -1, abs(n), 16) if n else (0, 0, 0)


def dn_mul(x, y):
    sign = x[0] * y[0]
    if sign == 0:
        return (0, 0, 0)
    if dn_isinf(x) or dn_isinf(y):
        return dn_inf(sign)
    e7 = 10 ** 7
    xhi, xlo = divmod(x[1], e7)
    yhi, ylo = divmod(y[1], e7)
    c = xhi * yhi
    if xlo or ylo:
        c += (xlo * yhi + ylo * xhi) // e7
    return dn_new(sign, c, x[2] + y[2] - 2)


def dn_div(x, y):
    sign = x[0] * y[0]
    if x[0] == 0:
        return x
    if y[0] == 0:
        return dn_inf(x[0])
    if dn_isinf(x):
        if dn_isinf(y):
            return dn_from_int(-1 if sign < 0 else 1)
        return dn_inf(sign)
    if dn_isinf(y):
        return (0, 0, 0)
    return dn_new(sign, x[1] * 10 ** 16 // y[1], x[2] - y[2])


def dn_add(x, y):
    if x[0] == 0:
        return y
    if y[0] == 0:
        return x
    if dn_isinf(x):
        return (0, 0, 0) if y[0] == -x[0] else x
    if dn_isinf(y):
        return y
    if x[2] < y[2]:
        x, y = y, x
    if x[2] == y[2]:
        yc = y[1]
    else:
        e = x[2] - y[2]
        if e > len(str(y[1])) - 1:
            return x
        yc = (y[1] + (5 * 10 ** (e - 1) if e else 0)) // 10 ** e
    if x[0] == y[0]:
        return dn_new(x[0], x[1] + yc, x[2])
    if x[1] < yc:
        return dn_new(-x[0], yc - x[1], x[2])
    return dn_new(x[0], x[1] - yc, x[2])


def dn_neg(x):
    return (-x[0], x[1], x[2])


# run-time numbers: ("i", n) = SuInt / SuInt64 (integer fast paths of core/ops.go, wrapping
# at 64 bits), ("d", dnum)
def wrap64(n):
    return (n + I64) % (1 << 64) - I64


def to_dn(x):
    return dn_from_int(x[1]) if x[0] == "i" else x[1]


def op_mul(x, y):
    if x[0] == "i" and y[0] == "i":
        return ("i", wrap64(x[1] * y[1]))
    return ("d", dn_mul(to_dn(x), to_dn(y)))


def op_div(x, y):
    if x[0] == "i" and y[0] == "i" and y[1] != 0:
        q = abs(x[1]) // abs(y[1])
        if abs(x[1]) % abs(y[1]) == 0:
            return ("i", wrap64(q if (x[1] < 0) == (y[1] < 0) else -q))
    return ("d", dn_div(to_dn(x), to_dn(y)))


def op_add(x, y):
    if x[0] == "i" and y[0] == "i":
        return ("i", wrap64(x[1] + y[1]))
    return ("d", dn_add(to_dn(x), to_dn(y)))


def op_neg(x):
    return ("i", wrap64(-x[1])) if x[0] == "i" else ("d", dn_neg(x[1]))


def nval(x):
    """exact value of a run-time number (Fraction, or 'inf' / '-inf')"""
    if x[0] == "i":
        return Fraction(x[1])
    s, c, e = x[1]
    if s in (2, -2):
        return "inf" if s > 0 else "-inf"
    return Fraction(0) if s == 0 else s * Fraction(c) * Fraction(10) ** (e - 16)


def same(x, y):
    return nval(x) == nval(y)


def from_abs(v, isint):
    """run-time number of an abstract value (Values.tla form); false and "" convert to 0
    (core.ToDnum); None for everything else"""
    if v["t"] == "bool" and not v["b"] or v["t"] == "str" and not v["c"]:
        return ("d", (0, 0, 0))
    if v["t"] != "num":
        return None
    if v["ns"] == 0:
        return ("i", 0) if isint else ("d", (0, 0, 0))
    if v["ns"] in (2, -2):
        return ("d", dn_inf(v["ns"]))
    digits = int("".join(map(str, v["nd"])))
    if isint:
        return ("i", v["ns"] * digits * 10 ** (v["nx"] - len(v["nd"])))
    return ("d", dn_new(v["ns"], digits, v["nx"] + 16 - len(v["nd"])))


def muldiv(ops, const, variant="actual"):
    """what the compiled code computes for a * / chain (compile/ast/folder.go foldMul, then
    compile/codegen.go muldivExpr), ops = [(role, number)], const[i] = operand i is a constant.
    variant "norecip": a chain that starts with a divisor starts with a factor instead of
    1 / divisor; "exactq": the constants are only divided at compile time if the quotient
    is exact (the repairs of fold-const-div-var-reciprocal / fold-inexact-constant-quotient)"""
    ONE = ("i", 1)

    def one(v):
        return same(v, ONE)
    mul, div, rest = ONE, ONE, []
    for (role, v), c in zip(ops, const):
        if not c:
            rest.append((role, v))
        elif role == "div":
            div = op_mul(div, v)
        else:
            if nval(v) == 0:
                return v
            mul = op_mul(mul, v)
    if not one(div) and (not one(mul) or not rest):
        if variant == "exactq" and rest and not exact_quotient(mul, div):
            rest += [("mul", mul), ("div", div)]
            mul = div = ONE
        else:
            mul, div = op_div(mul, div), ONE
    if one(div):
        if not one(mul) or not rest:
            rest.append(("mul", mul))
    else:
        rest.append(("div", div))
    if variant == "norecip" and rest[0][0] == "div":
        for i, (r, v) in enumerate(rest):
            if r == "mul":
                rest.insert(0, rest.pop(i))
                break
    acc = op_div(ONE, rest[0][1]) if rest[0][0] == "div" else rest[0][1]
    divs = [v for r, v in rest[1:] if r == "div"]
    for r, v in rest[1:]:
        if r == "mul":
            acc = op_mul(acc, v)
    if divs:
        d = divs[0]
        for v in divs[1:]:
            d = op_mul(d, v)
        acc = op_div(acc, d)
    return acc


def exact_quotient(m, d):
    a, b = nval(m), nval(d)
    if isinstance(a, str) or isinstance(b, str) or b == 0:
        return True
    return nval(op_div(m, d)) == a / b


def classify(ev, sub):
    """recorded findings whose exact expression shape occurs in the rejected expression.
    sub = the driver's side record for this event: the run-time result of every subexpression
    (pre-order, evaluated by the real interpreter)"""
    from valuesutil import nodes, chain
    from itertools import combinations, product, permutations
    ns = list(nodes(ev["x"]))
    if sub is None or sub["src"] != ev["src"] or len(sub["sub"]) != len(ns):
        raise ValueError("side record does not belong to %s" % ev["src"])
    ent = {id(n): e for n, e in zip(ns, sub["sub"])}

    def val(x):          # abstract value, None if the subexpression fails at run time
        e = ent[id(x)]
        return e["v"] if e["k"] == "v" else None

    def rn(x):           # run-time number (false and "" count as 0 as in core.ToDnum)
        e = ent[id(x)]
        return from_abs(e["v"], e["int"]) if e["k"] == "v" else None

    def num(x):          # exact value of a NUMBER operand (Fraction / "inf" / "-inf"), else None
        v = val(x)
        return nval(rn(x)) if v is not None and v["t"] == "num" else None

    def fin(d):
        return d is not None and not isinstance(d, str)

    def isint(d):
        return fin(d) and d.denominator == 1
    ONE = ("i", 1)
    fams = set()
    for x in ns:
        op = x["op"]
        if op == "x":
            continue
        vals = [val(a) for a in x["a"]]
        nums = [num(a) for a in x["a"]]
        # an operand that is (or folds to) the absorbing constant of the operator
        if op in ("and", "or") and any(v is not None and v["t"] == "bool" and v["b"] == (op == "or") for v in vals):
            fams.add("fold-absorbing-shortcut")
        if op in ("mul", "bitand") and any(fin(d) and d == 0 for d in nums):
            fams.add("fold-absorbing-shortcut")
        if op == "bitor" and any(fin(d) and d == 4294967295 for d in nums):
            fams.add("fold-absorbing-shortcut")
        # & | with an integer operand that does not fit 32 bits unsigned
        if op in ("bitand", "bitor") and any(isint(d) and (d < 0 or d > 4294967295) for d in nums):
            fams.add("fold-bits-32bit-allones")
        if op in ("mul", "div"):
            ch = chain(x, ("mul", "div"))
            if any(fin(num(o)) and num(o) == 0 for role, o in ch if role == "mul"):      # 0 * x, 0 / x
                fams.add("fold-absorbing-shortcut")
            ops = [(role, rn(o)) for role, o in ch]
            known = [(role, v) for role, v in ops if v is not None]
            muls = [v for role, v in known if role == "mul" and fin(nval(v))]
            divs = [v for role, v in known if role == "div" and fin(nval(v)) and nval(v) != 0]
            # constant / x evaluated as (1 / x) * constant
            # (the constant is the folded product / quotient of any of the other constants)
            for k, d in enumerate(divs):
                rest = [("m", m) for m in muls] + [("d", o) for j, o in enumerate(divs) if j != k]
                for r in range(1, min(len(rest), 4) + 1):
                    for sb in combinations(rest, r):
                        if not any(t == "m" for t, _ in sb):
                            continue
                        cst = ONE
                        for t, v in sb:
                            cst = op_mul(cst, v) if t == "m" else op_div(cst, v)
                        if not same(op_mul(op_div(ONE, d), cst), op_div(cst, d)):
                            fams.add("fold-const-div-var-reciprocal")
            # x * m / d with the constants divided first
            for rm in range(1, min(len(muls), 3) + 1):
                for ms in combinations(muls, rm):
                    pm = ONE
                    for v in ms:
                        pm = op_mul(pm, v)
                    if same(pm, ONE):
                        continue
                    for rd in range(1, min(len(divs), 3) + 1):
                        for dsub in combinations(divs, rd):
                            pd = ONE
                            for v in dsub:
                                pd = op_mul(pd, v)
                            if not exact_quotient(pm, pd):
                                fams.add("fold-inexact-constant-quotient")
            # a / b / c is computed as a / (b * c): a zero divisor makes the product 0 and the
            # signs of the other divisors are lost (+inf), unless folding has combined them
            # with the dividend first (-inf)
            dv = [nval(v) for role, v in known if role == "div"]
            zerodiv = any(fin(d) and d == 0 for d in dv)
            if zerodiv and any(d == "-inf" or fin(d) and d < 0 for d in dv):
                fams.add("fold-zero-divisor-loses-sign")
            # integer * integer beyond 64 bits wraps at run time (core.OpMul); folding changes
            # which operands are multiplied as integers
            overflow = False
            for grp in ("mul", "div"):
                ints = [v[1] for role, v in known if role == grp and v[0] == "i"]
                for r in range(2, min(len(ints), 4) + 1):
                    for sb in combinations(ints, r):
                        p = 1
                        for n in sb:
                            p *= n
                        if not -I64 <= p < I64:
                            overflow = True
            if overflow:
                fams.add("int-mul-overflow-wraps")
            # reciprocal / inexact quotient again, on the complete chain as compiled, for every
            # choice of constant operands (only where the two shapes above cannot be the reason
            # and all operands are finite numbers)
            if len(known) == len(ops) and 2 <= len(ops) <= 6 and not zerodiv and not overflow \
                    and all(fin(nval(v)) for role, v in ops):
                for const in product((False, True), repeat=len(ops)):
                    act = muldiv(ops, const)
                    if not same(act, muldiv(ops, const, "norecip")):
                        fams.add("fold-const-div-var-reciprocal")
                    if not same(act, muldiv(ops, const, "exactq")):
                        fams.add("fold-inexact-constant-quotient")
        if op in ("add", "sub"):
            ds = [num(o) for role, o in chain(x, ("add", "sub"))]
            if spread(ds) >= 16:
                fams.add("fold-reassociation-absorbs-small-term")
        if op == "add" and x["a"][1]["op"] in ("add", "sub"):
            # a + (b - c): the parenthesised sum is flattened into the enclosing one
            # (folder.go commutative / nestedNary), also when nothing is constant
            terms = [("add", x["a"][0])] + chain(x["a"][1], ("add", "sub"))
            tv = [rn(o) for role, o in terms]
            if all(v is not None for v in tv):
                tv = [op_neg(v) if role == "sub" else v for (role, o), v in zip(terms, tv)]
                structured = op_add(tv[0], rn(x["a"][1])) if rn(x["a"][1]) is not None else None
                sums = set()
                for pm in permutations(tv) if len(tv) <= 5 else [tv]:
                    acc = pm[0]
                    for v in pm[1:]:
                        acc = op_add(acc, v)
                    sums.add(nval(acc))
                if structured is not None and (sums != {nval(structured)}):
                    fams.add("fold-nested-sum-flattened")
    return fams


def spread(ds):
    """difference of the decimal exponents of the largest and the smallest non-zero finite term"""
    import math
    ex = []
    for d in ds:
        if d is None or isinstance(d, str) or d == 0:
            continue
        a = abs(d)
        e = len(str(a.numerator)) - len(str(a.denominator))      # within 1 of floor(log10(a))
        if a < Fraction(10) ** e:
            e -= 1
        ex.append(e)
    return max(ex) - min(ex) if len(ex) >= 2 else 0


def bad_lines(path):
    """line numbers the survey run wrote (JSON array, TLA+ JsonSerialize)"""
    try:
        v = json.load(open(path))
    except Exception:
        return None
    return sorted(set(int(n) for n in v))


def run(ctx):
    from vlib import Infra
    # 1. design level: the reference evaluator
    ctx.tlc_mc("MC_Eval.tla", "Eval_quick.cfg", workers=4, timeout=1200)
    if ctx.thorough():
        ctx.tlc_mc("MC_Eval.tla", "Eval_thorough.cfg", workers=8, timeout=3000)
    ctx.tlc_mc("MC_Eval.tla", "Eval_dev.cfg", workers=4, timeout=1200, expect_violation="LtGte", count=False)

    # 2. conformance: compile + run every form of every generated expression
    drv = ctx.go_build("fold")
    trace = os.path.join(ctx.work, "fold.ndjson")
    rc, out, summ = ctx.driver(drv, [trace], timeout=1800)
    if rc != 0:
        raise Infra("fold driver failed rc=%s\n%s" % (rc, out[-2000:]))
    if summ.get("unclassified", 0):
        raise Infra("fold driver met results it cannot name (new message class?):\n%s" % out[-3000:])
    ctx.sample_trace_lines(trace, 2)
    for k in ("expressions", "lit.v", "lit.ce", "par.v", "par.x", "mix.v", "mix.x", "mix.ce", "extra.v", "se.v"):
        ctx.cov["fold." + k] = summ.get(k, 0)

    res = ctx.tlc_trace("TraceFold.tla", "TraceFold.cfg", trace, timeout=3000)
    lines = open(trace).read().splitlines()
    if not res["accepted"]:
        # list every rejected expression (survey mode), then decide each one
        saved = {k: ctx.cov.get(k) for k in ("events_validated", "traces_validated_against_impl", "trace_validation_states")}
        badout = os.path.join(ctx.work, "bad-lines.json")
        sv = ctx.tlc_trace("TraceFold.tla", "TraceFold.cfg", trace, timeout=3000, extra_env={"VERIF_SURVEY": "1", "VERIF_BADOUT": badout})
        for k, v in saved.items():
            if v is not None:
                ctx.cov[k] = v
        bad = bad_lines(badout)
        if bad is None or not sv["accepted"]:
            raise Infra("survey run did not produce the list of rejected lines: %s" % (sv.get("out", "")[-1500:],))
        if res["line"] not in bad:
            raise Infra("survey run disagrees with the strict run: line %d rejected but not listed in %s" % (res["line"], bad[:20]))
        unknown, known = [], {}
        # testing aid (mutation runs): treat these families as recorded findings
        assume = set(filter(None, os.environ.get("VERIF_ASSUME_KNOWN", "").split(",")))
        # side file of the driver: run-time results of the subexpressions, same line numbers
        try:
            subs = open(trace + ".sub").read().splitlines()
        except OSError as e:
            raise Infra("side file of the fold driver is missing: %s" % e)
        if len(subs) != len(lines):
            raise Infra("side file of the fold driver has %d lines, the trace %d" % (len(subs), len(lines)))
        for ln in bad:
            ev = json.loads(lines[ln - 1])
            try:
                fams = classify(ev, json.loads(subs[ln - 1]))
            except ValueError as e:
                raise Infra("line %d: %s" % (ln, e))
            kf = [f for f in fams if ctx.is_known(f) is not None or f in assume]
            if kf:
                # a recorded finding is present in the expression: not reported again (families
                # that are present but not recorded, e.g. because they are repaired, do not count)
                for f in kf:
                    known.setdefault(f, []).append(ev["src"])
            else:
                unknown.append((ln, ev, fams))
        for f, srcs in known.items():
            if ctx.is_known(f) is not None:
                ctx.report_rejection(trace, res, key=f)
            ctx.log("known finding %s: %d rejected expressions, e.g. %s" % (f, len(srcs), srcs[:3]))
        ctx.cov["rejected_expressions"] = len(bad)
        if not unknown:
            # every other line was explained by the specification in the survey run
            ctx.cov["events_validated"] += len(lines) - len(bad)
            ctx.cov["traces_validated_against_impl"] += 1
        if unknown:
            rep = os.path.join(ctx.work, "fold-rejected.ndjson")
            with open(rep, "w") as f:
                for ln, ev, fams in unknown:
                    f.write(lines[ln - 1] + "\n")
            ln, ev, fams = unknown[0]
            forms = {k: ev[k]["k"] + ":" + (ev[k]["c"] or json.dumps(ev[k]["v"])[:60]) for k in ("lit", "par", "prop", "nf")}
            def rs(r):
                return r["k"] + ":" + (r["c"] or json.dumps(r["v"], separators=(",", ":"))[:60])
            # forms whose outcome differs from the all-parameter (run-time) form, over all rejected expressions
            dev = {}
            for _, e2, _ in unknown:
                for name, r in [("lit", e2["lit"]), ("prop", e2["prop"]), ("nf", e2["nf"])] + \
                        [("mix", m["r"]) for m in e2["mix"]] + [(m["form"], m["r"]) for m in e2["extra"]] + [("se", m["r"]) for m in e2["se"]]:
                    if r["k"] != "ce" and rs(r) != rs(e2["par"]):
                        dev[name] = dev.get(name, 0) + 1
                    elif r["k"] == "ce" and name[:4] in ("mod-", "in-f", "in-b", "in-c", "in-i") and e2["par"]["k"] == "v":
                        dev[name + ":compile-error"] = dev.get(name + ":compile-error", 0) + 1
            what = "%d generated expressions change meaning when folded / propagated (forms deviating from the run-time form: %s), first: %s  %s mix=%s extra=%s se=%s (recorded-finding shapes present: %s)" % (
                len(unknown), dev or "none: par itself differs from Eval", ev["src"], forms,
                [rs(m["r"]) for m in ev["mix"]], [m["form"] + "=" + rs(m["r"]) for m in ev["extra"]],
                [(rs(m["r"]), m["ev"]) for m in ev["se"]], sorted(fams) or "none")
            ctx.report_rejection(rep, {"line": 1}, what=what)
            return

    # 3. anti-vacuity of the binding: change one recorded result, must be rejected at that line
    n = next(i for i, l in enumerate(lines) if '"par":{"k":"v"' in l and '"lit":{"k":"v"' in l)
    ev = json.loads(lines[n])
    ev["par"]["v"] = {"t": "str", "c": [122, 122]}
    bad = os.path.join(ctx.work, "fold-corrupt.ndjson")
    with open(bad, "w") as f:
        f.write(json.dumps(ev, separators=(",", ":")) + "\n")
    resc = ctx.tlc_trace("TraceFold.tla", "TraceFold.cfg", bad, timeout=1200)
    if resc["accepted"] or resc.get("line") != 1:
        raise Infra("anti-vacuity: corrupted result was not rejected at line 1: %s" % (resc,))
    ctx.cov["corrupted_trace_rejected_at_line"] = resc["line"]
    ctx.assumptions += [
        "expression trees are rendered to Suneido source by the harness (precedences of compile/expression.go); the all-parameter form is itself validated against Eval, so a rendering error shows up as a rejection, not as a silent pass",
        "exception messages are mapped to classes type / arith / static by substring; unknown messages abort the run (exit 2)",
        "arithmetic domain of the oracle: numbers with <= 9 significant digits, terminating divisions, non-negative bit operands; outside: forms must agree (numbers up to rounding: NumClose)",
        "compile-time diagnostics on erroneous constant operands (Values!LitDiag) are static checks, not folding",
    ]
