"""C33 Date arithmetic follows the Gregorian calendar (core/sudate.go, builtin/date.go)"""

META = {
 "engine": "tla-calendar",
 "text": "TLC exhausts Calendar.tla (proleptic Gregorian calendar in mixed radix: leap rule, days in month, day number and its inverse, normalisation of overflowed fields by carries/borrows, day and millisecond differences, lexicographic = chronological order, literal format) on a boundary grid (years 1700 1899 1900 2000 2023 2024 2999 3000 x all months x days 1 28 29 30 31 x times of day at both ends x offsets of every unit incl. negative: months -25..25, days -800..800, hours/minutes/seconds/milliseconds across second/minute/hour/day/year boundaries, combined offsets) for internal consistency (Plus then MinusDays/MinusMs gives the offset back, month overflow runs into the next month, day numbers and dates are inverse, the code's Julian day formula and String format agree with the specification); the real core.SuDate (Plus, MinusDays, MinusMs, Compare, String, DateFromLiteral) and the Suneido level through the compiler (date literals, date.Plus(years: ...), MinusDays, MinusSeconds, <, is, >, Display, Date(string)) are then run on the same grid and on seeded random dates and offsets (also 64-bit second/millisecond offsets, also under local time zones with daylight saving) and every result is validated field by field by TLC against the specification",
 "note": "trusts TLC and the driver's splitting of 64-bit millisecond counts into days + remainder; the main run uses TZ=UTC; under other zones millisecond differences are not claimed (documented daylight saving caveat of MinusSeconds); results outside 1700..3000 are outside the claim; Format/ParseDate of human readable dates and WeekDay are not covered",
 "technique": "TLA+ model checking (TLC) of the calendar model + trace validation of the real functions' results",
}

# Findings on the pinned commit (both re-found by every quick run on the unchanged tree):
#   plus-ms-int64-overflow: NormalizeDate multiplies the millisecond sum by 1e6 (nanoseconds) in int64:
#       Date.Begin().Plus(milliseconds: 10000000000000) (317 years, result in range) returns #14320502.181206290
#       instead of #20161120.174640; every offset beyond +-9223372036854 ms is wrong (bigms.ndjson).
#       fix 305b9f6 in /tmp/wt-calendar (carry whole seconds before the multiplication).
#   local-tz-midnight-gap: valid() asks Go's time package in the LOCAL zone whether y-m-d exists; in zones whose
#       daylight saving starts at midnight (America/Sao_Paulo until 2018, America/Havana, Asia/Beirut, ...) or that
#       skipped a day (Pacific/Apia 2011-12-30) that day is refused: TZ=America/Sao_Paulo: #20171015 is a
#       "bad date literal", #20171014.Plus(days: 1) throws "bad date", Date('2017-10-15') is false (tz.ndjson).
#       fix 4b16a57 in /tmp/wt-calendar (validate in UTC, as NormalizeDate already does).
#
# Mutation testing (scratch worktree at 4b16a57 = pinned tree + the two fixes, so that the findings above do not
# mask anything; VERIF_REPO=<dir> VERIF_SKIP_MC=1 bin/vcheck C33 quick, seed 1); "tests" = go test ./core/
# (./builtin/ for M8, M9) with the cert overlay.  All rejected in main.ndjson (most also in bigms/tz):
#   M1  julianDayNumber without the century terms (- y/100 + y/400)                        tests green  check VIOLATION
#   M2  Plus: day clamped to the end of the target month when only years/months are added  tests green  check VIOLATION
#   M3  NormalizeDate: negative ms remainder made positive without the borrow (-1000 ms = 0) tests RED  check VIOLATION
#   M4  MinusMs: same-date shortcut compares only the day field (d.Day() == other.Day())   tests green  check VIOLATION
#   M5  SuDate.String: seconds and ms dropped whenever the seconds are 0 (12:34:00.500)    tests green  check VIOLATION
#   M6  valid(): 29 February accepted in every year divisible by 4 (1700, 1900, 2100 ...)  tests green  check VIOLATION
#   M7  Compare: milliseconds ignored (time >> 10)                                         tests RED    check VIOLATION
#   M8  date_MinusSeconds: whole seconds only (ms / 1000)                                  tests green  check VIOLATION
#   M9  date_Plus: minutes and seconds arguments swapped                                   tests green  check VIOLATION
#   M10 julianDayNumber: a = (13 - month) / 12 (February counted in the new year)          tests RED    check VIOLATION
#   M11 MinusDays as UnixMilli()/86400000 difference (time of day leaks in before 1970)    tests green  check VIOLATION
# Anti-vacuity by hand: 10 single-field corruptions of a good trace (r.day, md, mr, cmp, ok, literal text, parse
# result, parse of an impossible day accepted, Diff.md) are each rejected at exactly the corrupted line.

ZONES = ["America/Sao_Paulo", "Pacific/Apia", "America/Havana", "Asia/Beirut", "Asia/Tehran", "Africa/Cairo",
         "America/New_York", "Europe/London", "Australia/Lord_Howe"]
DEVS = [("Calendar_dev_clamp.cfg", "MonthOverflow"), ("Calendar_dev_trunc.cfg", "ResultWellFormed"),
        ("Calendar_dev_julian.cfg", "JulianAgrees")]


def validate(ctx, path, key=None):
    res = ctx.tlc_trace("TraceCalendar.tla", "TraceCalendar.cfg", path, timeout=1800)
    if not res["accepted"]:
        ctx.report_rejection(path, res, key=key)
    return res["accepted"]


def replay(ctx, drv):
    """re-execute the inputs of a stored trace with the real code (per time zone) and validate again"""
    import json
    from vlib import Infra
    byzone = {}
    for line in open(ctx.replay):
        line = line.strip()
        if not line:
            continue
        try:
            zn = json.loads(line).get("zn", "")
        except Exception:
            raise Infra("replay file is not ndjson: " + ctx.replay)
        byzone.setdefault(zn, []).append(line)
    for i, (zn, lines) in enumerate(sorted(byzone.items())):
        src = "%s/replay-in-%d.ndjson" % (ctx.work, i)
        out = "%s/replay-%d.ndjson" % (ctx.work, i)
        with open(src, "w") as f:
            f.write("\n".join(lines) + "\n")
        rc, o, summ = ctx.driver(drv, ["replay", src, out], timeout=600, env={"TZ": zn or "UTC"})
        if rc != 0:
            raise Infra("calendar replay failed rc=%d:\n%s" % (rc, o[-3000:]))
        validate(ctx, out)


def run(ctx):
    import os
    from vlib import Infra
    th = ctx.thorough()
    drv = ctx.go_build("calendar")
    if ctx.replay:
        return replay(ctx, drv)
    # 1. design level: the calendar model is a calendar (exhaustive on the boundary grid)
    if os.environ.get("VERIF_SKIP_MC") != "1":      # development aid for mutation runs only
        ctx.tlc_mc("MC_Calendar.tla", "Calendar_quick.cfg", timeout=900)
        if th:
            ctx.tlc_mc("MC_Calendar.tla", "Calendar_thorough.cfg", timeout=2400)
        # anti-vacuity: plausible wrong calendars violate the consistency properties
        for i, (cfg, inv) in enumerate(DEVS):
            if th or i == ctx.seed % len(DEVS):
                ctx.tlc_mc("MC_Calendar.tla", cfg, timeout=600, expect_violation=inv, count=False)
    # 2. conformance: the real code on the grid + seeded random dates/offsets (TZ=UTC)
    scale = 12 if th else 1
    rc, out, summ = ctx.driver(drv, ["run", ctx.work, scale], timeout=900, env={"TZ": "UTC"})
    if rc != 0:
        raise Infra("calendar driver failed rc=%d:\n%s" % (rc, out[-3000:]))
    main = ctx.work + "/main.ndjson"
    ctx.sample_trace_lines(main, 4)
    validate(ctx, main)
    # millisecond offsets beyond 9.2e12 (int64 nanoseconds): validated separately so that a
    # rejection there (finding plus-ms-int64-overflow) does not hide the rest
    # (own file extensions give the three traces distinct replay paths under replays/)
    big = ctx.work + "/bigms.bigms_ndjson"
    os.rename(ctx.work + "/bigms.ndjson", big)
    validate(ctx, big, key="plus-ms-int64-overflow")
    for k in ("Valid", "Plus", "Diff", "Lit", "Parse"):
        ctx.cov["real_calls_" + k] = summ.get(k, 0)
    # 3. the same under local time zones with daylight saving at midnight / a skipped day
    # ("SuDate does not take into account time zones or daylight savings")
    zones = [z for z in ZONES if os.path.exists("/usr/share/zoneinfo/" + z)]
    if not zones:
        ctx.assumptions.append("no zoneinfo database: time zone independence not exercised")
    else:
        if not th:
            zones = zones[:1] + [zones[1 + ctx.seed % (len(zones) - 1)]] if len(zones) > 1 else zones
        tzfile = ctx.work + "/tz.tz_ndjson"
        with open(tzfile, "w") as f:
            for i, z in enumerate(zones):
                part = "%s/tz-%d.ndjson" % (ctx.work, i)
                rc, out, summ = ctx.driver(drv, ["tz", part], timeout=600, env={"TZ": z})
                if rc != 0:
                    raise Infra("calendar tz driver failed (TZ=%s) rc=%d:\n%s" % (z, rc, out[-3000:]))
                if i > 0:
                    f.write('{"e":"Reset"}\n')
                f.write(open(part).read())
        validate(ctx, tzfile, key="local-tz-midnight-gap")
        ctx.cov["time_zones"] = zones
    ctx.assumptions += [
        "main run with TZ=UTC; other zones: Plus/MinusDays/Compare/literals only (MinusSeconds across daylight saving changes is documented as unreliable)",
        "64-bit second/millisecond offsets and differences are split into days + remainder by the driver (TLC integers are 32-bit)",
        "results outside 1700-01-01..3000-01-01 are outside the claim (the code raises 'bad date' or returns a date before 1700)",
        "TLC exhaustive bounds: boundary grid of MC_Calendar.tla (8 years x 12 months x 5 days x 3-6 times of day x 420-3500 offsets)",
    ]
