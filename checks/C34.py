"""C34 Timestamps are unique and increasing (db19/timestamp.go, core/thread.go Thread.Timestamp)

Mutation testing of this check (scratch worktree on top of the hook commits, VERIF_REPO=<dir>,
quick tier, VERIF_SEED=1,2(,3); every mutant compiles and passes `go test -short ./core/ ./db19/`):
  T1 server: timestamp.AddMs(TsInitialBatch - 1) (batch size mismatch)    VIOLATION 2/2 (duplicate ms)
  T2 client: tsLimit = 300 in the extra half (uint8 wraps to 0)           VIOLATION 2/2 (caller's 257th value = its 1st)
  T3 ticker: `t.Compare(timestamp) != 0` (moves the timestamp backwards)  VIOLATION 2/2 (duplicates after the tick)
  T4 tsExpire: tsCount = 0 (expired batch used again)                     VIOLATION 2/2
  T5 client: `tsLast.Millisecond() <= TsThreshold` (threshold mismatch)   VIOLATION 3/3 (needs the boundary probes:
                                                                          1/2 without them)
  T6 client: `tsCount <= tsLimit` (one value too many per batch)          VIOLATION 2/2
Deviations of the model (Dev = srvbatch / wrap / tickback / reuse) are shown to violate Distinct by TLC.
VERIF_SKIP_MC=1 skips the spec-only TLC runs (developer shortcut for mutation loops only).
"""
import json, os

META = {
 "engine": "tla-timestamp",
 "text": "TLC exhausts Timestamp.tla (server timestamp with batch/threshold rule and forward-only ticker, 2 clients with (last,count,limit) batch state incl. extra byte and expiry, direct server callers, ticks anywhere, start values around the threshold and the second boundary) for global distinctness and per-caller monotonicity plus the reservation invariants; the real db19.Timestamp with the real ticker is then called concurrently with the real Thread.Timestamp (threads sharing the process client state, and several logical clients multiplexed with a verif accessor); every returned value is validated by TLC trace validation for distinctness over the server's lifetime and per-caller increase (also by the real Compare), and the server/ticker/client hook events are replayed against the model",
 "note": "trusts TLC, the hook placement under tsLock (server, ticker) and the client tsLock, integer-millisecond time (calendar normalisation of SuDate.AddMs across seconds is exercised but days/DST are not), in-process DbmsLocal instead of the wire protocol; one server lifetime = one driver process",
 "technique": "TLA+ model checking (TLC) + concurrent execution of the real code with the real ticker + TLC trace validation",
}

DEVS = ["Timestamp_dev_srvbatch.cfg", "Timestamp_dev_wrap.cfg", "Timestamp_dev_tickback.cfg",
        "Timestamp_dev_reuse.cfg"]


def apalache_extra(ctx):
    """OPTIONAL: inductive invariant of the protocol for unbounded time / operations with Apalache
    (spec/apalache/TimestampInd.tla). Nothing depends on it: any problem is only recorded."""
    import shutil, subprocess, time
    src = os.path.join(os.path.dirname(os.path.dirname(os.path.abspath(__file__))), "spec", "apalache", "TimestampInd.tla")
    if not shutil.which("apalache-mc") or not os.path.exists(src):
        ctx.cov["apalache"] = "not available"
        return
    d = os.path.join(ctx.work, "apalache")
    os.makedirs(d, exist_ok=True)
    shutil.copy(src, d)
    out = []
    for name, args in (("initiation Init => IndInv", ["--init=Init", "--inv=IndInv", "--length=0"]),
                       ("consecution IndInv /\\ Next => IndInv'", ["--init=IndInit", "--inv=IndInv", "--length=1"]),
                       ("IndInv => Distinct /\\ Increasing", ["--init=IndInit", "--inv=Safe", "--length=0"])):
        t = time.time()
        try:
            r = subprocess.run(["apalache-mc", "check"] + args + ["--out-dir=" + os.path.join(d, "out"), "TimestampInd.tla"],
                               cwd=d, capture_output=True, text=True, timeout=900)
            ok = "The outcome is: NoError" in r.stdout
            out.append({"step": name, "ok": ok, "wall_s": round(time.time() - t, 1)})
            ctx.log("apalache %s: %s" % (name, "NoError" if ok else "NOT PROVED (ignored)"))
        except Exception as ex:
            out.append({"step": name, "ok": False, "error": repr(ex)[:200]})
    ctx.cov["apalache_inductive_invariant_optional"] = out


def run(ctx):
    from vlib import Infra
    if ctx.replay:      # a recorded server lifetime can only be re-validated, not re-executed
        res = ctx.tlc_trace("TraceTimestamp.tla", "TraceTimestamp.cfg", ctx.replay, timeout=1800)
        if not res["accepted"]:
            ctx.report_rejection(ctx.replay, res)
        return
    th = ctx.thorough()
    skip_mc = os.environ.get("VERIF_SKIP_MC") == "1"   # developer shortcut for mutation loops
    # 1. design level: exhaustive TLC
    if not skip_mc:
        ctx.tlc_mc("MC_Timestamp.tla", "Timestamp_quick.cfg", timeout=900)
        if th:
            ctx.tlc_mc("MC_Timestamp.tla", "Timestamp_thorough.cfg", timeout=2400)
            ctx.tlc_mc("MC_Timestamp.tla", "Timestamp_thorough4.cfg", timeout=2400)
        # anti-vacuity: each deviation must hand out a duplicate in the model
        for i, cfg in enumerate(DEVS):
            if th or i == ctx.seed % len(DEVS):
                ctx.tlc_mc("MC_Timestamp.tla", cfg, workers=4, timeout=600, expect_violation="Distinct", count=False)

    # 2. real code: one driver process = one server lifetime
    drv = ctx.go_build("timestamp")
    traces, summs = [], []
    runs = [12.5, 6.5] if th else [2.4]
    for i, secs in enumerate(runs):
        tf = os.path.join(ctx.work, "ts%d.ndjson" % i)
        rc, out, summ = ctx.driver(drv, [tf, secs], timeout=300, env={"VERIF_SEED": str(ctx.seed + 1000 * i)})
        if rc != 0:
            raise Infra("timestamp driver failed rc=%d\n%s" % (rc, out[-3000:]))
        if not summ.get("hooks"):
            raise Infra("no TsServer hook event seen: db19/timestamp.go has no verif hooks in this tree")
        traces.append(tf)
        summs.append(summ)
    ctx.sample_trace_lines(traces[0], 6)
    allf = os.path.join(ctx.work, "ts-all.ndjson")
    with open(allf, "w") as f:
        for i, tf in enumerate(traces):
            if i:
                f.write('{"e":"Reset"}\n')
            f.write(open(tf).read())
    with open(allf) as f:
        gots = [l for l in f if '"e":"Got"' in l][:3]
    ctx.sample({"kind": "returned values (sorted part of the trace)", "lines": [g.strip() for g in gots]})

    # 3. verdict: property-level validation of every value the real code handed out
    res = ctx.tlc_trace("TraceTimestamp.tla", "TraceTimestamp.cfg", allf, timeout=1800, ntraces=len(traces))
    if not res["accepted"]:
        ctx.report_rejection(allf, res)
        return
    # 4. model conformance of the hook events (not a verdict about the property)
    ev, tr = ctx.cov["events_validated"], ctx.cov["traces_validated_against_impl"]
    res = ctx.tlc_trace("TraceTimestamp.tla", "TraceTimestampConform.cfg", allf, timeout=1800, ntraces=len(traces))
    ctx.cov["events_validated"], ctx.cov["traces_validated_against_impl"] = ev, tr
    if not res["accepted"]:
        raise Infra("MODEL-DIVERGENCE: the server/ticker/client hook events are not a behaviour of Timestamp.tla "
                    "(line %s: %s); the returned values satisfied the property, but the exhaustive results no "
                    "longer transfer to this code" % (res.get("line"), res.get("out", "")[-600:]))
    # 5. anti-vacuity of the trace spec: a duplicated value must be rejected at that line
    lines = open(traces[0]).read().splitlines()
    gi = [i for i, x in enumerate(lines) if '"e":"Got"' in x]
    if len(gi) > 10:
        keep = lines[:gi[0]][:200] + lines[gi[0]:gi[0] + 8]
        if keep[0].find('"Start"') < 0:
            keep = [lines[0]] + keep
        base = len(keep) - 8
        a = json.loads(keep[base + 4])
        b = json.loads(keep[base + 5])
        b["ms"], b["x"] = a["ms"], a["x"]
        keep[base + 5] = json.dumps(b, separators=(",", ":"))
        keep.append(json.dumps({"e": "Done", "n": 8, "callers": 1}, separators=(",", ":")))
        cf = os.path.join(ctx.work, "ts-corrupt.ndjson")
        with open(cf, "w") as f:
            f.write("\n".join(keep) + "\n")
        ev, tr = ctx.cov["events_validated"], ctx.cov["traces_validated_against_impl"]
        res = ctx.tlc_trace("TraceTimestamp.tla", "TraceTimestamp.cfg", cf, timeout=600)
        ctx.cov["events_validated"], ctx.cov["traces_validated_against_impl"] = ev, tr
        if res["accepted"] or res.get("line") != base + 6:
            raise Infra("self-test: corrupted trace (duplicate value at line %d) not rejected there: %s" % (base + 6, res))
        ctx.cov["corrupted_trace_rejected_at_line"] = base + 6
    if th and not skip_mc:
        apalache_extra(ctx)
    for k in ("values", "callers", "with_extra", "server_calls", "client_calls", "ticks", "effective_ticks"):
        ctx.cov["ts_" + k] = sum(s.get(k, 0) for s in summs)
    ctx.assumptions += [
        "hook events TsServer/TsTick are emitted under the server's tsLock, TsClient under the client's tsLock",
        "a caller = one thread / one direct server caller / one logical client; logical clients are multiplexed over the process's single client state with core.VerifTsSwap (verif tag only)",
        "one server lifetime per driver process (%s s of wall time with the real 1 s ticker and the real tsExpire)" % runs,
        "time is linear in milliseconds (SuDate fields mapped to a day count); no clock steps or DST changes during the run",
        "TLC bounds: 2 clients + 1-2 direct callers, <= 6-11 timestamps per behaviour, extra byte limit shrunk to 3-4, start values {0,495..505,995..999}",
    ]
