"""C35 Record rules always reflect current field values (core/surecord.go)

Mutation testing (scratch worktree, VERIF_REPO=<wt> bin/vcheck C35 quick; every mutant listed as
caught compiles, keeps `go test ./core/` green and made the quick tier print VIOLATION):
  M1  surecord.go getIfPresent: addDependent only when the member is present (dependency not
      recorded for a rule that reads a missing member, e.g. through GetDefault -> GetIfPresent) -> caught (line 14)
  M2a surecord.go slice(): the copy gets no invalid set (invalid: nil)                         -> caught
  M2b surecord.go slice(): the copy gets no dependents                                          -> caught
  M3  surecord.go invalidate(): no recursive invalidateDependents (missed transitive
      invalidation)                                                                             -> caught
  M4  surecord.go callObservers: queued invalidations dropped (only the changed member notified) -> caught
  M5  surecord.go put(): the same-value early return happens before the invalid flag is cleared -> caught
  S1  (seeded/C35-copy-shares-dependents, written independently) surecord.go copyDeps: shallow
      maps.Clone, record and copy share the backing arrays of the dependents slices; with >= 3
      rules already reading a field, original and copy each learning a different further
      dependent overwrite each other's slot -> stale rule value / missing notification.
      Reached by the fanout scenarios of the driver (extra rule fields g, h, k reading a;
      copy; both records go on evaluating different rules); bin/seedtest -> VIOLATION       -> caught
  S2  (seeded/C35-delete-drops-stored-deps-r2, written independently, round 2) surecord.go
      delete(): ensureDeps moved after `r.row = nil`: a record made from a database row whose
      first dependents-touching operation is Delete/Erase loses the dependencies stored in the
      <field>_deps columns -> stale stored rule value, observers not notified.
      MISSED by the previous version (every record was NewSuRecord()/Record(): no row, no
      stored dependencies, ensureDeps always built an empty map).  Now: Record.tla has the
      action Reload (ToRecord + SuRecordFromRow; state `lazy`/`sdeps` = dependents not yet
      built from the row, EnsureDeps where the code calls ensureDeps; deviation "latedeps" =
      this defect, Record_dev_latedeps.cfg violates GetReflectsCurrent; Record_quick3.cfg is
      the exhaustive run with Reload), the driver has the operation Reload (real ToRecord with a
      header that has _deps columns + real SuRecordFromRow), in TLC-generated behaviours, in
      the random walks and in the dbrow scenarios (save, reload, FIRST operation on the loaded
      record varies over delete/erase/set/get/invalidate/copy/reload, then the sources of the
      stored rule values are changed and every rule field is read);
      bin/seedtest -> VIOLATION (Get of a rule field returns the stale stored value)       -> caught
  M7  surecord.go copyDeps(): no ensureDeps (Copy of a record made from a database row whose
      dependents were not loaded yet gets an empty dependents map); compiles, only checked with
      the conformance part (VERIF_SKIP_MC=1, seed 4): rejected at a Get of a rule field of the
      copy that returns the stale stored value                                             -> caught
  (M2  copy sharing the invalid map with the original is also caught, but the repository's own
       TestSuRecord_Concurrency already fails on it - concurrent map write - so it is not counted)
"""
import json, os, re

# development aid for mutation loops only: skip the spec-only TLC runs
SKIP_MC = os.environ.get("VERIF_SKIP_MC") == "1"

META = {
 "engine": "tla-record",
 "text": "TLC exhausts Record.tla (rule chain c=a+b, d=c*2, conditional e, in the conformance part also g,h,k = a+1,2,3; set/get/delete/invalidate/copy/observe and save-as-database-row + load-from-row with lazily loaded stored dependencies on 1-2 records, values 0..2) for 'Get returns the rule value computed from current field values', cache freshness and notification of every invalidation; TLC-generated operation sequences and seeded random walks are executed on the real SuRecord (Go API and compiled Suneido code, rules as Rule_* globals; database rows through the real ToRecord / SuRecordFromRow with <field>_deps columns) and every Get result and observer notification is validated by TLC trace validation against the same spec",
 "note": "trusts TLC; rules are three fixed pure functions; observer notifications compared as sets (order/repetition free); small-scope bounds in evidence",
 "technique": "TLA+ model checking (TLC) + model-based test generation + trace validation of the real SuRecord",
}


def behaviours(out):
    """extract the JSON behaviours printed by GenPrint in simulation mode"""
    res, seen = [], set()
    for m in re.finditer(r'<<\s*"BEHAVIOUR",\s*"((?:[^"\\]|\\.)*)"\s*>>', out, re.S):
        s = m.group(1).replace("\n", "")
        s = s.replace('\\"', '"').replace("\\\\", "\\")
        # the constraint is evaluated for every candidate successor of the last state:
        # keep one behaviour per simulated path (same first 39 operations)
        ops = json.loads(s)
        key = json.dumps(ops[:-1])
        if key in seen:
            continue
        seen.add(key)
        res.append(s)
    return res


def run(ctx):
    # 1. design level: exhaustive TLC
    if not SKIP_MC:
        ctx.tlc_mc("MC_Record.tla", "Record_quick.cfg", timeout=600)
        ctx.tlc_mc("MC_Record.tla", "Record_quick2.cfg", timeout=600)
        # records saved to / made from database rows (Reload): lazily loaded stored dependencies
        ctx.tlc_mc("MC_Record.tla", "Record_quick3.cfg", timeout=600)
        if ctx.thorough():
            ctx.tlc_mc("MC_Record.tla", "Record_thorough.cfg", timeout=2400)
            ctx.tlc_mc("MC_Record.tla", "Record_thorough2.cfg", timeout=1800)
            ctx.tlc_mc("MC_Record.tla", "Record_thorough3.cfg", timeout=1800)
        # anti-vacuity: each deviation of the mechanism violates the property in the model
        # (quick: one of the two single-record ones, chosen by the seed; thorough: all three)
        # (copyshare needs two records and depth 5: thorough only)
        # (latedeps = Delete drops the row before the stored dependencies were loaded: always)
        devs = ("notransitive", "nodep", "copyshare", "latedeps")
        for dev in (devs if ctx.thorough() else devs[ctx.seed % 2:ctx.seed % 2 + 1] + devs[3:]):
            ctx.tlc_mc("MC_Record.tla", "Record_dev_%s.cfg" % dev, timeout=600,
                       expect_violation="violated", count=False)
    # 2. generation: TLC simulation produces operation sequences (2 records, 2 observers)
    from vlib import Infra
    nb = 120 if ctx.thorough() else 20
    ctx.tlc_mc("MC_Record.tla", "Record_gen.cfg", timeout=600, simulate="num=%d" % nb,
               extra_args=["-depth", "41", "-seed", str(ctx.seed)], count=False, workers=1)
    bs = behaviours(ctx._last_out)[:nb]
    if len(bs) < nb // 2:
        raise Infra("generation produced only %d behaviours" % len(bs))
    ctx.cov["exhaustive"] = True   # the simulation run only generates inputs
    bfile = ctx.work + "/behaviours.json"
    with open(bfile, "w") as f:
        f.write("\n".join(bs) + "\n")
    ctx.cov["tlc_generated_behaviours"] = len(bs)
    # 3. conformance: real SuRecord
    drv = ctx.go_build("record")
    trace = ctx.work + "/record.ndjson"
    nwalks = 2500 if ctx.thorough() else 300
    rc, out, summ = ctx.driver(drv, [trace, bfile, nwalks, 40], timeout=600)
    if rc != 0:
        raise Infra("record driver rc=%d\n%s" % (rc, out[-3000:]))
    ctx.sample_trace_lines(trace, 6)
    res = ctx.tlc_trace("TraceRecord.tla", "TraceRecord.cfg", trace, timeout=1200)
    if not res["accepted"]:
        ctx.report_rejection(trace, res)
    ctx.cov["operations_on_real_records"] = summ.get("ops", 0)
    ctx.assumptions += [
        "rules are the pure functions c=a+b, d=c*2, e=(a is 0)?d:b (e reads b through GetDefault/GetIfPresent), g=a+1, h=a+2, k=a+3 (g,h,k only in the conformance part: up to 5 rules depend on one field); rules are found as Rule_* globals or attached with AttachRule",
        "observer notifications are compared as sets: every newly invalidated field must be notified to every observer; order and repetition are free",
        "a member that was explicitly Set is a current field value until it is invalidated (then its rule recomputes it), as in the code",
        "Reload = SuRecord.ToRecord with a header of all fields plus a _deps column per rule field, then SuRecordFromRow of that row (no database file, table '' = not updateable); a stored rule value is a valid cached rule value with the dependencies of its _deps column, a stored '' is a missing member",
        "TLC exhaustive bounds: see tlc_runs",
    ]
