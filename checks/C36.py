"""C36 Container operations match list and map semantics (core/suobject.go, core/surecord.go, builtin/object.go)

Mutation testing (scratch worktree, VERIF_REPO=<wt> bin/vcheck C36 quick). Caught = the quick tier
printed VIOLATION. Mutants marked (T) are also detected by the repository's own core tests, so
only the others count as realistic survivors of the existing tests:
  M3  suobject.go Sort: slices.SortFunc / sort.Slice instead of the stable variants
      (only visible on lists longer than 12: bigSort scenarios)                            -> caught
  M4  suobject.go Unique: no startMutate (read-only not rejected, copy-on-write skipped)    -> caught
  M6  suobject.go erase: read-only check skipped for Erase only                             -> caught
  M7  builtin/object.go Add(at:): inserts one position too far                              -> caught
  M8  suobject.go Insert: no migrate after inserting inside the list                        -> caught
  M10 ops.go prepTo: end index -1 of a slice not counted from the end                       -> caught
  M1  (T) erase loses the member after the erased one                                       -> caught
  M2  (T) set(key = size) appends without migrating the following named integer keys        -> caught
  M5  (T) migrate stops after one member                                                    -> caught
"""
import json, os, re

# development aid for mutation loops only: skip the spec-only TLC runs
SKIP_MC = os.environ.get("VERIF_SKIP_MC") == "1"

META = {
 "engine": "tla-container",
 "text": "TLC exhausts Container.tla (list + named map with migration of integer keys, add/insert/put/delete/erase/sort/unique/slices/read-only/copy; keys around the list size and a string key; tagged values that compare equal but are distinguishable) for map semantics of put/erase/add, list semantics of insert/delete, size accounting, key disjointness, stable sorting by value comparison, read-only rejection and independence of copies; TLC-generated operation sequences and seeded random walks are executed on real SuObject and SuRecord values through the Go API and through compiled Suneido code, and result + complete (list, named, readonly) state of every object after every operation is validated by TLC trace validation",
 "note": "trusts TLC; values are small numbers and one-element objects with a tag; named-member orders compared as sets; Unique! is specified as the code documents it (drops members equal to their predecessor); error texts not compared, only the class 'rejected because read-only'",
 "technique": "TLA+ model checking (TLC) + model-based test generation + trace validation of the real containers",
}


def behaviours(out):
    """extract the JSON behaviours printed by GenPrint in simulation mode, one per simulated path"""
    res, seen = [], set()
    for m in re.finditer(r'<<\s*"BEHAVIOUR",\s*"((?:[^"\\]|\\.)*)"\s*>>', out, re.S):
        s = m.group(1).replace("\n", "")
        s = s.replace('\\"', '"').replace("\\\\", "\\")
        ops = json.loads(s)
        key = json.dumps(ops[:-1])
        if key in seen:
            continue
        seen.add(key)
        res.append(s)
    return res


def run(ctx):
    from vlib import Infra
    if not SKIP_MC:
        ctx.tlc_mc("MC_Container.tla", "Container_quick.cfg", timeout=900)
        ctx.tlc_mc("MC_Container.tla", "Container_quick2.cfg", timeout=900)
        if ctx.thorough():
            ctx.tlc_mc("MC_Container.tla", "Container_thorough.cfg", timeout=3000)
            ctx.tlc_mc("MC_Container.tla", "Container_thorough2.cfg", timeout=3000)
        # which of the properties reports the deviation first depends on the search order
        devs = (("migrate1", "KeysDisjoint"), ("unstable", "SortIsStable"), ("roleak", "ReadOnlyRejects"))
        for dev, prop in (devs if ctx.thorough() else devs[ctx.seed % 3:ctx.seed % 3 + 1]):
            ctx.tlc_mc("MC_Container.tla", "Container_dev_%s.cfg" % dev, timeout=600,
                       expect_violation="violated", count=False)
    nb = 120 if ctx.thorough() else 30
    ctx.tlc_mc("MC_Container.tla", "Container_gen.cfg", timeout=900, simulate="num=%d" % nb,
               extra_args=["-depth", "41", "-seed", str(ctx.seed)], count=False, workers=1)
    bs = behaviours(ctx._last_out)[:nb]
    if len(bs) < nb // 2:
        raise Infra("generation produced only %d behaviours" % len(bs))
    ctx.cov["exhaustive"] = True   # the simulation run only generates inputs
    bfile = ctx.work + "/behaviours.json"
    with open(bfile, "w") as f:
        f.write("\n".join(bs) + "\n")
    ctx.cov["tlc_generated_behaviours"] = len(bs)
    drv = ctx.go_build("container")
    trace = ctx.work + "/container.ndjson"
    nwalks = 3000 if ctx.thorough() else 400
    rc, out, summ = ctx.driver(drv, [trace, bfile, nwalks, 40], timeout=600)
    if rc != 0:
        raise Infra("container driver rc=%d\n%s" % (rc, out[-3000:]))
    ctx.sample_trace_lines(trace, 6)
    res = ctx.tlc_trace("TraceContainer.tla", "TraceContainer.cfg", trace, timeout=1800)
    if not res["accepted"]:
        ctx.report_rejection(trace, res)
    ctx.cov["operations_on_real_containers"] = summ.get("ops", 0)
    ctx.assumptions += [
        "four kinds of scenario: SuObject / SuRecord x Go API / compiled Suneido code (Kind event)",
        "values: numbers 0..2 and objects #(v, t: tag); keys -2..6, 'a', 'b'",
        "Find may report any named key whose value is equal when no list member is equal; Members() lists the list keys in order and the named keys in any order",
        "TLC exhaustive bounds: see tlc_runs",
    ]
