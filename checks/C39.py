"""C39 Ordered sets, range sets and sort lists behave as their abstract types
(util/ranges, util/ordset, util/sortlist, util/bloom, util/roaring, util/shmap, util/cache, util/lrucache)

Mutation testing (scratch worktree /tmp/ixs-mut, VERIF_REPO, quick tier, seed 1; "tests" = go test of
the mutated package):
  caught by this check, package tests green:
    ordset-revert-df105d1  `i < leaf.size &&` dropped again in ordset leaf.insert   VIOLATION (OEmpty/OHas after Insert(""))
    cache-no-used          cache.Get ignores the used flag (zero key 0 "cached")     VIOLATION at CGet k=0
    lru-no-del             lrucache.Put does not unmap the evicted key               VIOLATION at LGetPut (stale value)
    sortlist-merge-skip    merge skipped when leftLast < middle of the right run     VIOLATION at SLBuild (missed at first;
                           caught after adding the "skew" scenario: every other block from a low key band)
    seeded/C39-sortlist-full-last-block  Builder.Sort takes the last block's length from IndexFunc without the
                           `>= 0` guard (a full last block is not re-sorted)                 VIOLATION at SLBuild mode=resorted
                           (independently written seed; missed at first: re-sorts only ran on sizes 2 and 100..3000;
                           caught after adding re-sorts of exactly 4096 / 8192 (and 4095 / 4097) items in both
                           flavours NewUnsorted+Finish+Sort and NewSorting(other order)+Finish+Sort, each read
                           twice through Builder.Iter; check with bin/seedtest seeded/C39-sortlist-full-last-block)
  killed by the package's own tests already: ranges-overlap-touch (`to > from`), ranges-contains-lt,
    ranges-inc (inc-- dropped), ranges-contains-nosize, ordset-any-lt (`< to`), ordset-any-nextleaf,
    ordset-contains-nosize, shmap-del-notomb (never tombstone), roaring-has-bitmap (bit 65535)
"""

META = {
 "engine": "tla-ranges",
 "text": "TLC exhausts Ranges.tla (every sequence of up to 4-5 inserts of every interval over 4-5 points: the range set as the code keeps it -- sorted sequence, binary search, coalescing -- equals the declarative set of disjoint intervals, Contains = covered by something inserted, returned increments add up to the number of intervals, re-insert reports Existed; ordered set: AnyInRange as coded = exists key in [from,to]); the REAL packages are driven with seeded random and boundary-biased sequences (nasty keys incl. the empty string, touching/nested/overlapping ranges, > 128 entries so that the in-memory btrees split, bulk fills until Insert reports full) and every call is replayed by TLC trace validation against the abstract types: ranges (Insert result and Contains), ordset (Insert/Contains/AnyInRange/Empty), sortlist (sorted permutation of the input for 0..3 blocks incl. exactly full last blocks, re-sort with Builder.Sort after Finish, Builder.Iter, forward/backward passes, Seek/Next/Prev/Rewind cursor), bloom (no false negatives), roaring (exact membership incl. array->bitmap conversion), shmap (Put/Get/Has/Del/GetInit/Copy/Clear/Size/Iter with colliding hashes), cache and lrucache (returns f(key); hit only for a key stored before; no eviction before the requested capacity)",
 "note": "trusts TLC/CommunityModules Json and the driver's rank->key table (asserted strictly monotone); 'Full'/'false' from Insert is accepted (state unchanged) only once at least one node's worth (128) of entries exists -- the exact capacity depends on split history and is not specified; sortlist items are pairwise distinct integers (key in the high bits)",
 "technique": "TLA+ model checking (TLC) + trace validation of logged calls on the real packages",
}

import ixutil
import vlib


def classify(ev):
    return None


def run(ctx):
    if ctx.replay:
        ixutil.validate(ctx, "TraceRanges.tla", "TraceRanges.cfg", ctx.replay, classify)
        return
    r = ctx.tlc_mc("Ranges.tla", "Ranges_quick.cfg", timeout=900, coverage=True)
    if r.get("never_enabled"):
        raise vlib.Infra("vacuous: actions never enabled in Ranges_quick: %s" % r["never_enabled"])
    if ctx.thorough():
        ctx.tlc_mc("Ranges.tla", "Ranges_thorough.cfg", timeout=3000)
    ctx.tlc_mc("Ranges.tla", "Ranges_dev_touch.cfg", timeout=600, expect_violation="SeqIsSet", count=False)
    ctx.tlc_mc("Ranges.tla", "Ranges_dev_anylt.cfg", timeout=600, expect_violation="AnyInRangeOK", count=False)
    drv = ctx.go_build("utilsets")
    trace = ctx.work + "/utilsets.ndjson"
    rc, out, summ = ctx.driver(drv, [trace, 4 if ctx.thorough() else 1], timeout=900)
    if rc != 0:
        raise vlib.Infra("utilsets driver rc=%d: %s" % (rc, out[-2000:]))
    ctx.sample_trace_lines(trace, 3)
    for k, v in summ.items():
        if k != "events":
            ctx.cov["real_" + k] = v
    ok = ixutil.validate(ctx, "TraceRanges.tla", "TraceRanges.cfg", trace, classify, timeout=2400)
    if ok and not ctx.violations:
        ixutil.corrupt_and_expect_rejection(
            ctx, "TraceRanges.tla", "TraceRanges.cfg", trace,
            pick=lambda ev: ev.get("e") == "RHas" and ev.get("x", 0) > 2,
            mutate=lambda ev: ev.__setitem__("res", 1 - ev["res"]))
    ctx.assumptions += [
        "rank -> key tables strictly monotone (asserted by the driver at scenario start)",
        "Insert reporting full is accepted only with >= 128 entries present and must leave the content unchanged; the exact capacity (depends on the split history) is not specified",
        "lrucache: no eviction is required to be absent beyond the requested capacity (the real capacity is the next supported size)",
        "TLC exhaustive bounds: see tlc_runs",
    ]
