"""C40 Client-server access behaves like local access (dbms/mux, dbmsclient.go, dbmsserver.go)

Findings on gsuneido@90de1df (+ verif hook commit only), each repaired by a `fix:` commit:
  new  a mux message of 0 bytes => assert panic in the reader goroutine (process exit)
  new  ReadCount/WriteCount are always 0 through the client-server protocol ("TODO")

Mutation testing (scratch worktree on top of the fix commits, selftest/mutations/c40_c41_mutants.py,
`VERIF_SKIP_MC=1 VERIF_REPO=<dir> bin/vcheck C40 quick`, seed 1; "tests" = go test ./dbms/ ./dbms/mux/):
  M1  flush loses the final flag when the buffer is exactly full   tests ok    VIOLATION (Stall)
      (restricted to messages starting with byte 1, otherwise TestMux hangs too)
  M2  reader keys its partial buffers by sessionId & 3             tests FAIL  VIOLATION
  M3  worker sets WriteBuf.id only for its first task              tests FAIL  VIOLATION
  M4  conn.write takes the lock only for buffered writes           tests FAIL  VIOLATION
  M5  a big Write does not flush the buffered bytes first          tests ok    VIOLATION
  M6  size limit test i+size >= maxSize                            tests ok    VIOLATION (ConnLost)
  M7  cmdGetOne maps '-' (QueryLast) to Next                       tests ok    VIOLATION
  M8  cmdUpdate returns the old record offset                      tests ok    VIOLATION
  M9  client drops the low bit of the row offset                   tests ok    VIOLATION
  M10 Write1 drops the byte when the buffer is exactly full        tests ok    VIOLATION
  M11 worker sets WriteBuf.conn only for its first task            tests ok    VIOLATION (two connections
      (response goes to another connection)                                    share the worker pool)
  S1  seeded/C40-no-resetwrite-on-error: request() recover handler  tests ok    VIOLATION
      no longer calls ResetWrite (error after output has started is             (bin/seedtest; Asof on an update
      read as success by the client)                                            transaction: local err, remote ok 0)
      covered by csdiff ops that fail AFTER the handler has begun its reply: Asof on an update
      transaction, Run/Exec results that cannot be packed (function, class, builtin) or exceed
      the 1 MB limit
(VERIF_SKIP_MC=1 skips only the exhaustive TLC runs of the unchanged models.)
"""
import json, os

META = {
 "engine": "tla-mux",
 "text": "TLC exhausts Mux.tla (3 sessions x 2 messages x <=3 frames, every frame order, every cutting of the byte stream into reads) for complete in-order per-session delivery; the REAL mux client/server connections are run over an in-memory pipe that re-cuts reads/writes and records every frame, with concurrent sessions and messages of 0 B..1 MB around the buffer boundaries, and the trace is validated by TLC against the model-checked reassembly operator; database operations are executed through DbmsLocal and through the real DbmsClient<->server command table (TLS over the pipe) on identically prepared databases and both traces must be accepted by the same TLA+ table model, step results and final databases must be equal",
 "note": "trusts TLC, the pipe's frame tap (frames are recorded before their bytes become readable), polynomial checksums for content (collision probability ~1e-9 per message), VerifServeConn (= newServerConn on a pipe)",
 "technique": "TLA+ model checking (TLC) + trace validation of the real mux/DbmsClient/server",
}


def _crash(trace, rc, out):
    with open(trace, "a") as f:
        f.write(json.dumps({"e": "Crash", "rc": rc, "msg": out[-400:].replace("\n", " | ")[:400]}) + "\n")

# TLC evaluates the trace actions recursively (continuation passing); with the default 1 MB
# thread stack the JVM sporadically overflows on these specs ("Java StackOverflowError")
BIGSTACK = {"JAVA_TOOL_OPTIONS": "-Xss256m"}


def run(ctx):
    import vlib
    skip_mc = os.environ.get("VERIF_SKIP_MC") == "1"   # mutation-testing runs only: the model does not change
    # 1. design level
    if not skip_mc:
        ctx.tlc_mc("MC_Mux.tla", "Mux_quick.cfg", timeout=900)
    if ctx.thorough():
        ctx.tlc_mc("MC_Mux.tla", "Mux_thorough.cfg", timeout=3000)
    devs = [("Mux_dev_splitwrite.cfg", "InOrderDelivery"), ("Mux_dev_losefinal.cfg", "AllDeliveredAtEnd")]
    if ctx.thorough():
        devs.append(("Mux_dev_shortread.cfg", "ReaderInSync"))
    for cfg, inv in ([] if skip_mc else devs):
        ctx.tlc_mc("MC_Mux.tla", cfg, timeout=600, expect_violation=inv, count=False)
    # 2a. conformance of the real mux
    drv = ctx.go_build("mux")
    trace = ctx.work + "/mux.ndjson"
    nscen = 60 if ctx.thorough() else 12
    infra = None
    try:
        rc, out, summ = ctx.driver(drv, [trace, nscen], timeout=1500, env={"VERIF_FLUSH": "1"})
    except vlib.Infra as ex:
        # the driver gave up (harness error): what it recorded until then is still a
        # real execution; only if that prefix is accepted is this an infrastructure error
        infra, rc, out, summ = ex, 0, "", {}
    nlines = sum(1 for _ in open(trace)) if os.path.exists(trace) else 0
    if rc == 2 and nlines > 0:
        _crash(trace, rc, out)      # Go panic in the code under test (e.g. the mux reader)
    elif rc != 0:
        raise vlib.Infra("mux driver rc=%d\n%s" % (rc, out[-3000:]))
    if nlines == 0:
        raise infra or vlib.Infra("mux driver recorded nothing")
    ctx.sample_trace_lines(trace, 6)
    res = ctx.tlc_trace("TraceMux.tla", "TraceMux.cfg", trace, timeout=1500, extra_env=BIGSTACK)
    if not res["accepted"]:
        ctx.report_rejection(trace, res)
        return
    if infra:
        raise infra
    if summ.get("messages", 0) < 10 * nscen:
        raise vlib.Infra("mux driver produced too little: %s" % summ)
    # 2b. differential by specification: DbmsLocal vs DbmsClient <-> real server
    if not skip_mc:
        ctx.tlc_mc("MC_TableModel.tla", "TableModel_thorough.cfg" if ctx.thorough() else "TableModel_quick.cfg", timeout=1500)
    drv2 = ctx.go_build("csdiff")
    trace2 = ctx.work + "/csdiff.ndjson"
    nscen2, steps2 = (60, 250) if ctx.thorough() else (12, 200)
    infra = None
    try:
        rc, out, summ2 = ctx.driver(drv2, [trace2, nscen2, steps2], timeout=1500, env={"VERIF_FLUSH": "1"})
    except vlib.Infra as ex:
        infra, rc, out, summ2 = ex, 0, "", {}
    nlines = sum(1 for _ in open(trace2)) if os.path.exists(trace2) else 0
    if rc == 2 and nlines > 0:
        _crash(trace2, rc, out)
    elif rc != 0:
        raise vlib.Infra("csdiff driver rc=%d\n%s" % (rc, out[-3000:]))
    if nlines == 0:
        raise infra or vlib.Infra("csdiff driver recorded nothing")
    ctx.sample_trace_lines(trace2, 4)
    res = ctx.tlc_trace("TraceCS.tla", "TraceCS.cfg", trace2, timeout=1500, extra_env=BIGSTACK)
    if not res["accepted"]:
        ctx.report_rejection(trace2, res)
        return
    if infra:
        raise infra
    if summ2.get("ops", 0) < 40 * nscen2 or summ2.get("pairs", 0) < 10 * nscen2:
        raise vlib.Infra("csdiff driver produced too little: %s" % summ2)
    ctx.cov["modelled_ops_local_and_remote"] = summ2.get("ops", 0)
    ctx.cov["paired_ops_local_vs_remote"] = summ2.get("pairs", 0)
    ctx.cov["messages_through_real_mux"] = summ.get("messages", 0)
    ctx.cov["bytes_through_real_mux"] = summ.get("bytes", 0)
    ctx.assumptions += [
        "frame events are recorded by the pipe inside Write (under the mux write lock) before the bytes become readable",
        "message content is compared through length + two polynomial checksums (mod 32749, 32719)",
        "TLC exhaustive bounds: 3 sessions x 2 messages x <=3 frames x <=2 units, reads of 1..2 cells, 2-cell headers",
        "differential part: one update transaction at a time on the modelled table (no commit conflicts); transactions are not used after they ended; error TEXTS are not compared, only result classes and values; Strategy/Size/Cursors/Kill/Token/Nonce/Auth results are not compared (estimates, random, or documented as connection specific)",
        "two heap databases in one process, prepared identically; the server side (worker threads, Run/Exec) uses the remote one",
    ]
