"""C41 Unauthenticated clients cannot access data or gain access (dbms/dbmsserver.go,
dbmsunauth.go, auth.go)

Findings re-found by this check on gsuneido@90de1df (+ verif hook commit only), each
repaired by a `fix:` commit in the worktree (see report / known-findings):
  F2   Token/Kill/Connections/Cursors bypass DbmsUnauth (Token -> Auth(token) => authorised)
  new  Auth("nosuchuser\0" + sha1(nonce)) => authorised (missing user => empty password hash)
  new  Transaction/Check with a boolean byte other than 0/1 => core.Fatal (server exit), before
       any authorisation test
  new  a 9 byte frame (size 0, final) => assert panic in the mux reader goroutine (server exit)
  new  Log(""), ReadCount(0), WriteCount(0) answered with success while unauthorised

Mutation testing (scratch worktree on top of the fix commits, selftest/mutations/c40_c41_mutants.py,
`VERIF_SKIP_MC=1 VERIF_REPO=<dir> bin/vcheck C41 quick`, seed 1; "tests" = go test ./dbms/ ./dbms/mux/):
  N1  DbmsUnauth.Info returns the real Info                      tests ok    VIOLATION
  N2  serverSession.auth does not clear the nonce                tests ok    VIOLATION
  N3  AuthToken does not delete the token                        tests FAIL  VIOLATION
  N4  cmdNonce keeps an existing nonce (same nonce twice)        tests ok    VIOLATION
  N5  expireTokens never deletes old tokens                      tests ok    VIOLATION
  N6  cmdKill calls kill() directly again                        tests ok    VIOLATION
  N7  cmdToken calls Token() directly again                      tests ok    VIOLATION
  N8  GetBool calls Fatal on the server again                    tests ok    VIOLATION (cls "fatal")
  N9  mux reader asserts on an empty message again               tests ok    VIOLATION (Crash event)
  N10 AuthUser accepts an empty password hash again              tests ok    VIOLATION
  N11 cmdAuth removes the wrapper also for Auth("")              tests ok    VIOLATION
  N12 expireNonces never clears an old nonce                     tests FAIL  VIOLATION
(VERIF_SKIP_MC=1 skips only the exhaustive TLC runs of the unchanged model.)
"""
import json, os

META = {
 "engine": "tla-session",
 "text": "TLC exhausts Session.tla (2 connections, one knowing a password, every request sequence of length <=5 over the whole command table, token/nonce expiry) for AuthorizedOnlyByCredential, single use of nonces and tokens and 'an unauthorised connection changes nothing'; the REAL server (newServerConn: hello, TLS, DbmsUnauth wrapper, mux, command table) is then driven over an in-memory pipe by protocol-level clients sending every command code with well-formed, hostile and malformed arguments while unauthorised, interleaved with the real DbmsClient authenticating and working; every request/response with database digest and the other connections' session lists is validated by TLC against the same Request/Connect/Expire actions",
 "note": "trusts TLC, the verif entry point VerifServeConn (= newServerConn on a pipe), the driver's description of each credential (which nonce/password it was computed from) and its database/session digests; auth rate limiter switched off (VerifNoAuthLimit); expiry driven by VerifExpire, not by the timer",
 "technique": "TLA+ model checking (TLC) + trace validation of the real server's responses to generated requests",
}

# TLC evaluates the trace actions recursively (continuation passing); with the default 1 MB
# thread stack the JVM sporadically overflows on these specs ("Java StackOverflowError")
BIGSTACK = {"JAVA_TOOL_OPTIONS": "-Xss256m"}


def run(ctx):
    skip_mc = os.environ.get("VERIF_SKIP_MC") == "1"   # mutation-testing runs only: the model does not change
    # 1. design level: exhaustive TLC on Session.tla
    if not skip_mc:
        ctx.tlc_mc("MC_Session.tla", "Session_quick.cfg", timeout=900)
    if ctx.thorough():
        ctx.tlc_mc("MC_Session.tla", "Session_thorough.cfg", timeout=3000)
    # anti-vacuity: the deviations found in the code at 90de1df violate the invariant in the model
    if not skip_mc:
        ctx.tlc_mc("MC_Session.tla", "Session_dev_f2.cfg", timeout=600,
                   expect_violation="AuthorizedOnlyByCredential", count=False)
        ctx.tlc_mc("MC_Session.tla", "Session_dev_anyhash.cfg", timeout=600,
                   expect_violation="AuthorizedOnlyByCredential", count=False)
    if ctx.thorough():
        ctx.tlc_mc("MC_Session.tla", "Session_dev_f2_effect.cfg", timeout=600,
                   expect_violation="UnauthNoEffect", count=False)
    # 2. conformance: real server command table over the pipe
    drv = ctx.go_build("session")
    trace = ctx.work + "/session.ndjson"
    nscen, steps = (40, 300) if ctx.thorough() else (8, 220)
    import vlib
    infra = None
    try:
        rc, out, summ = ctx.driver(drv, [trace, nscen, steps], timeout=1500, env={"VERIF_FLUSH": "1"})
    except vlib.Infra as ex:
        # the driver gave up (harness error): what it recorded until then is still a real
        # execution; only if that prefix is accepted is this an infrastructure error
        infra, rc, out, summ = ex, 0, "", {}
    nlines = sum(1 for _ in open(trace)) if os.path.exists(trace) else 0
    if nlines == 0:
        raise infra or vlib.Infra("session driver recorded nothing")
    if rc != 0:
        # the process hosting the REAL server died (Go panic in a server goroutine,
        # exit status 2): record what the runner observed after the last request
        if rc == 2 and nlines > 0:
            with open(trace, "a") as f:
                f.write(json.dumps({"e": "Crash", "rc": rc, "msg": out[-400:].replace("\n", " | ")[:400]}) + "\n")
        else:
            import vlib
            raise vlib.Infra("session driver rc=%d\n%s" % (rc, out[-3000:]))
    ctx.sample_trace_lines(trace, 6)
    res = ctx.tlc_trace("TraceSession.tla", "TraceSession.cfg", trace, timeout=1500, extra_env=BIGSTACK)
    if not res["accepted"]:
        ctx.report_rejection(trace, res)
        return
    if infra:
        raise infra
    if summ.get("requests", 0) < 50 * nscen or summ.get("codes_unauth", 0) < 41:
        import vlib
        raise vlib.Infra("session driver produced too little: %s" % summ)
    ctx.cov["requests_to_real_server"] = summ.get("requests", 0)
    ctx.cov["command_codes_covered"] = summ.get("codes_covered", 0)
    ctx.cov["command_codes_sent_while_unauthorised"] = summ.get("codes_unauth", 0)
    ctx.cov["requests_while_unauthorised"] = summ.get("unauth_requests", 0)
    ctx.assumptions += [
        "credential descriptors (which nonce / which password hash a hash was computed from, which token) are the driver's own bookkeeping",
        "requests are issued one at a time (responses awaited), so database and session-list digests taken after each request are attributed to it",
        "one database and one dbms per process as in the real server; auth rate limit disabled; expiry rounds triggered explicitly",
        "TLC exhaustive bounds: 2 connections x 5 requests (thorough: 3 x 6) over the 41-entry command table",
    ]
