"""C42 Transaction blocks commit exactly when the block completes (builtin/transaction.go, core/sutran.go)

Mutation testing (scratch worktree, VERIF_REPO=<wt> bin/vcheck C42 quick; every mutant compiles and
keeps `go test ./builtin/ ./core/` green):
  T1 transaction.go: commit although the block threw (rollback branch disabled)            -> caught
  T2 transaction.go: `return` from the enclosing function (BlockReturn) rolls back         -> caught
  T3 transaction.go: exception swallowed after the rollback (only BlockReturn re-raised)   -> caught
  T4 transaction.go: `break` (block:break) treated like normal completion -> commit        -> caught
  T5 transaction.go: Ended() check dropped: an explicitly rolled back / completed
     transaction is completed again when the block ends                                   -> caught
  T6 sutran.go: Rollback after Complete silently ignored instead of throwing: NOT a violation of
     the property (no effect on the database, nothing propagates wrongly); the spec accepts
     both behaviours, so this mutant is deliberately not reported
"""
import os

SKIP_MC = os.environ.get("VERIF_SKIP_MC") == "1"

META = {
 "engine": "tla-tranblock",
 "text": "TLC exhausts TranBlock.tla (bodies of up to 3-4 inserts/deletes/explicit Complete/Rollback followed by end, return, return from a nested block, throw, throw in a callee, break or continue; several programs in a row) for the commit rule, all-or-nothing, propagation of the exception and no effect before completion; every such body (2380 programs: all step sequences up to length 3 x 7 terminators x closure/non-closure block x two call forms, plus seeded random longer bodies) is rendered to Suneido source, compiled and executed by the real interpreter against a heap database, and the steps executed, the propagated exception class, the function result and the table contents afterwards are validated by TLC trace validation",
 "note": "trusts TLC; the table is read back with a plain read transaction; exception classes: user throw / block:break / block:continue / other (use of an ended transaction), texts are not compared",
 "technique": "TLA+ model checking (TLC) + exhaustive program generation + trace validation of the real interpreter and database",
}


def run(ctx):
    from vlib import Infra
    if not SKIP_MC:
        ctx.tlc_mc("MC_TranBlock.tla", "TranBlock_quick.cfg", timeout=600)
        if ctx.thorough():
            ctx.tlc_mc("MC_TranBlock.tla", "TranBlock_thorough.cfg", timeout=1800)
        for dev in ("commitOnThrow", "rollbackOnReturn"):
            ctx.tlc_mc("MC_TranBlock.tla", "TranBlock_dev_%s.cfg" % dev, timeout=600,
                       expect_violation="violated", count=False)
    drv = ctx.go_build("tranblock")
    trace = ctx.work + "/tranblock.ndjson"
    nrandom = 3000 if ctx.thorough() else 300
    rc, out, summ = ctx.driver(drv, [trace, nrandom], timeout=900)
    if rc != 0:
        raise Infra("tranblock driver rc=%d\n%s" % (rc, out[-3000:]))
    ctx.sample_trace_lines(trace, 5)
    res = ctx.tlc_trace("TraceTranBlock.tla", "TraceTranBlock.cfg", trace, timeout=1200)
    if not res["accepted"]:
        ctx.report_rejection(trace, res)
    ctx.cov["programs_executed"] = summ.get("programs", 0)
    ctx.assumptions += [
        "block bodies: steps from {insert, delete, t.Complete(), t.Rollback()} + terminator from {end, return, return in nested block, throw, throw in callee, break, continue}; all bodies with <= 3 steps exhaustively, order shuffled by the seed",
        "a step on an explicitly ended transaction has no effect (the code throws; a silent no-op would be accepted too); writes are chosen so that they do not fail themselves (no duplicate keys)",
        "single threaded: no commit conflicts",
    ]
