"""C44 Triggers see every row change of their table (db19/triggers.go, tran.go)"""
import dbcommon

META = {
 "engine": "tla-fkey",
 "text": "The trigger rules are part of TraceDb.tla over DbModel.tla change sets (exhaustively model-checked for the cascade semantics by Fkey.tla): every insert / update to a different value / delete, including rows changed by cascades, must produce exactly one call with the old and new row inside the changing operation, none while the table's trigger is disabled (nested disable/enable counts), none for no-op updates; a transaction whose trigger threw must never commit. Validated on op-level interleavings (single goroutine, disable/enable exercised) and on free-running concurrent clients with real Trigger_<table> globals",
 "note": "trusts TLC, hook placement, Trigger_<table> defined through core.Global.TestDef as a Go builtin that logs; exhaustive TLC part covers the change-set semantics (Fkey.tla), the trigger clauses themselves are checked by trace validation only",
 "technique": "TLA+ model checking (TLC) of the change semantics + trace validation of trigger calls in real executions",
}

def run(ctx):
    ctx.tlc_mc("Fkey.tla", "Fkey_quick.cfg", timeout=600)
    if ctx.thorough():
        ctx.tlc_mc("Fkey.tla", "Fkey_thorough.cfg", timeout=2400)
    for k in range(4 if ctx.thorough() else 1):
        dbcommon.run_db(ctx, "trigpairs", 60 if ctx.thorough() else 5, "C44p" + "x" * k)
        dbcommon.run_db(ctx, "trig", 24 if ctx.thorough() else 1, "C44c" + "x" * k)
    ctx.assumptions += dbcommon.ASSUME
