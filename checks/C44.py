"""C44 Triggers see every row change of their table (db19/triggers.go, tran.go)"""
import dbcommon
from vlib import Infra

META = {
 "engine": "tla-fkey",
 "text": "The trigger rules are part of TraceDb.tla over DbModel.tla change sets (exhaustively model-checked for the cascade semantics by Fkey.tla): every insert / update to a different value / delete, including rows changed by cascades, must produce exactly one call with the old and new row inside the changing operation, none while the table's trigger is disabled (nested disable/enable counts), none for no-op updates; a transaction whose trigger threw must never commit. Validated on op-level interleavings (single goroutine, disable/enable exercised) and on free-running concurrent clients with real Trigger_<table> globals",
 "note": "trusts TLC, hook placement, Trigger_<table> defined through core.Global.TestDef as a Go builtin that logs; exhaustive TLC part covers the change-set semantics (Fkey.tla), the trigger clauses themselves are checked by trace validation only",
 "technique": "TLA+ model checking (TLC) of the change semantics + trace validation of trigger calls in real executions",
}

def run(ctx):
    ctx.tlc_mc("Fkey.tla", "Fkey_quick.cfg", timeout=600)
    if ctx.thorough():
        ctx.tlc_mc("Fkey.tla", "Fkey_thorough.cfg", timeout=2400)
    for k in range(4 if ctx.thorough() else 1):
        dbcommon.run_db(ctx, "trigpairs", 60 if ctx.thorough() else 5, "C44p" + "x" * k)
        dbcommon.run_db(ctx, "trig", 24 if ctx.thorough() else 1, "C44c" + "x" * k)
    ctx.assumptions += dbcommon.ASSUME
    run_triglib(ctx)


def run_triglib(ctx):
    """library-defined triggers: the lookup of Trigger_<table> through the global name table,
    its 'no definition' cache and the library loader (Use / Unuse / Unload)"""
    # design level: the caching scheme of core/globals.go (values / noDef / cleared) against the
    # documented promises (TrigLibRules.tla), exhaustively
    ctx.tlc_mc("MC_TrigLib.tla", "TrigLib_quick.cfg", timeout=600)
    if ctx.thorough():
        ctx.tlc_mc("MC_TrigLib.tla", "TrigLib_quick2.cfg", timeout=900)
        ctx.tlc_mc("MC_TrigLib.tla", "TrigLib_quick3.cfg", timeout=900)
        ctx.tlc_mc("MC_TrigLib.tla", "TrigLib_thorough.cfg", timeout=2400)
    # anti-vacuity: SetNoDef that leaves g.cleared alone (the next UnloadAll returns early)
    # must break the promise in the model; thorough: the other deviations as well
    devs = ["setnodef"]
    if ctx.thorough():
        devs += ["setname", "unloadname", "unloadall", "usenounload", "firstlib"]
    for d in devs:
        ctx.tlc_mc("MC_TrigLib.tla", "TrigLib_dev_%s.cfg" % d, timeout=300, expect_violation="Promised", count=False)
    # conformance: real db19 / core.Global / dbms library lookup, triggers in library records
    drv = ctx.go_build("triglib")
    for k in range(4 if ctx.thorough() else 1):
        trace = "%s/triglib-%d.ndjson" % (ctx.work, k)
        nscen = 600 if ctx.thorough() else 250
        rc, out, summ = ctx.driver(drv, [trace, nscen], timeout=900,
                                   env={"VERIF_SEED": str(ctx.seed * 1000 + k)}, name="triglib")
        if rc != 0:
            raise Infra("triglib driver failed rc=%d:\n%s" % (rc, out[-3000:]))
        if summ.get("errors", 0):
            raise Infra("triglib: %d actions raised an exception (last: %s)" % (summ["errors"], summ.get("last_error")))
        ctx.sample_trace_lines(trace, 6, kind="real trace excerpt (triglib)")
        res = ctx.tlc_trace("TraceTrigLib.tla", "TraceTrigLib.cfg", trace, timeout=900)
        if not res["accepted"]:
            ctx.report_rejection(trace, res)
            return
        ctx.cov["library_trigger_row_changes"] = ctx.cov.get("library_trigger_row_changes", 0) + summ.get("rowchanges", 0)
        ctx.cov["library_trigger_calls"] = ctx.cov.get("library_trigger_calls", 0) + summ.get("trigger_calls", 0)
    ctx.assumptions += [
        "triglib: core.Libload is a copy of libload in gsuneido.go (package main) without library overrides and tags",
        "triglib: one session (thread); 3 data tables, libraries stdlib/applib/extlib; definitions identify themselves (library, record version) through a Go builtin",
        "TrigLib TLC bounds: see tlc_runs (1-2 tables, 2-3 libraries, 1-2 versions per record, disable depth <= 2)",
    ]
