"""C44 Triggers see every row change of their table (db19/triggers.go, tran.go)"""
# Steps:
#  1. Fkey.tla (exhaustive) + harness/cmd/dbtran profiles trigpairs / trig validated by TraceDb.tla:
#     trigger calls for every insert / update / delete incl. cascades, throwing triggers, nested
#     disable / enable; the triggers there are Go builtins defined directly as Trigger_<table>.
#  2. run_triglib: triggers DEFINED IN LIBRARY RECORDS, found through core.Global.FindName, its
#     "no definition" cache (noDef / cleared) and the library loader. TrigLib.tla = the caching scheme
#     as coded, checked exhaustively against the documented promises of TrigLibRules.tla (most
#     recently used library wins; a cached definition may stay until Use / Unuse / Unload(name) /
#     Unload()); harness/cmd/triglib = real heap database, local dbms, library tables, real
#     Use / Unuse / Unload builtins, row changes from Suneido code; TraceTrigLib.tla replays the log
#     through the same rules and rejects any row change whose trigger calls they do not allow.
#
# Mutation testing of step 2 (scratch worktree, VERIF_REPO; every mutant compiles, `go test -short`
# of the touched package green; each rejected by TraceTrigLib within the first 1000 of ~9000 events,
# driver seeds 1000 and 2000, 150 scenarios):
#   seeded/C44-nodef-cache-survives-unload-r2  core/globals.go SetNoDef leaves g.cleared alone  VIOLATION (seeds 1-4)
#   M1 core/globals.go unload(name): noDef entry not deleted                                   VIOLATION
#   M2 core/globals.go UnloadAll: noDef not cleared                                            VIOLATION
#   M3 core/globals.go SetName leaves g.cleared alone (next UnloadAll returns early)           VIOLATION
#   M4 builtin/library.go Use: no UnloadAll after a successful Use                             VIOLATION
#   M5 dbms/dbmslocal.go LibGet: libraries visited in reverse order (first used wins)          VIOLATION
#   M6 builtin/library.go Unuse: no UnloadAll                                                  VIOLATION
#   M7 db19/triggers.go enabled: disabled[table] <= 1                                          VIOLATION
# (step 1 does not see the seeded change and M1-M6: its triggers never go through the library lookup.)
# The TLA+ deviations Dev = setnodefkeepscleared / setnamekeepscleared / unloadkeepsnodef /
# unloadallkeepsnodef / usenounload / firstlibwins are the model counterparts (expect_violation runs).
import dbcommon
from vlib import Infra

META = {
 "engine": "tla-fkey",
 "text": "The trigger rules are part of TraceDb.tla over DbModel.tla change sets (exhaustively model-checked for the cascade semantics by Fkey.tla): every insert / update to a different value / delete, including rows changed by cascades, must produce exactly one call with the old and new row inside the changing operation, none while the table's trigger is disabled (nested disable/enable counts), none for no-op updates; a transaction whose trigger threw must never commit. Validated on op-level interleavings (single goroutine, disable/enable exercised) and on free-running concurrent clients with real Trigger_<table> globals. Library-defined triggers: TLC exhausts TrigLib.tla (global name table cache values / noDef / cleared, Use / Unuse / Unload, library record edits) against the documented lookup promises, and real executions with triggers stored in library records (heap database, local dbms, real Use / Unuse / Unload builtins) are validated by TraceTrigLib.tla: every row change calls exactly the definition of the most recently used library that defines Trigger_<table> (a definition cached before a record edit may stay until the next Use / Unuse / Unload), exactly once, inside the changing transaction, none when disabled or undefined",
 "note": "trusts TLC, hook placement, Trigger_<table> defined through core.Global.TestDef as a Go builtin that logs; exhaustive TLC part covers the change-set semantics (Fkey.tla), the trigger clauses themselves are checked by trace validation only; library step: libload of gsuneido.go (package main) is copied into the driver without overrides / tags, one session",
 "technique": "TLA+ model checking (TLC) of the change semantics + trace validation of trigger calls in real executions",
}

TRIGLIB_EVENTS = {"Reset", "AddRec", "UpdRec", "DelRec", "Unload", "UnloadAll", "Use", "Unuse",
                  "LoadOther", "Disable", "Enable", "Row"}


def replay(ctx):
    """re-validate a kept replay file (a triglib trace or a dbtran trace)"""
    import json
    kinds = set()
    for line in open(ctx.replay):
        if line.strip():
            kinds.add(json.loads(line).get("e"))
    if kinds <= TRIGLIB_EVENTS:
        res = ctx.tlc_trace("TraceTrigLib.tla", "TraceTrigLib.cfg", ctx.replay, timeout=900)
    else:
        res = ctx.tlc_trace("TraceDb.tla", "TraceDb.cfg", ctx.replay, timeout=3000)
    if not res["accepted"]:
        ctx.report_rejection(ctx.replay, res)


def run(ctx):
    if ctx.replay:
        return replay(ctx)
    ctx.tlc_mc("Fkey.tla", "Fkey_quick.cfg", timeout=600)
    if ctx.thorough():
        ctx.tlc_mc("Fkey.tla", "Fkey_thorough.cfg", timeout=2400)
    for k in range(4 if ctx.thorough() else 1):
        dbcommon.run_db(ctx, "trigpairs", 60 if ctx.thorough() else 5, "C44p" + "x" * k)
        dbcommon.run_db(ctx, "trig", 24 if ctx.thorough() else 1, "C44c" + "x" * k)
    ctx.assumptions += dbcommon.ASSUME
    run_triglib(ctx)


def run_triglib(ctx):
    """library-defined triggers: the lookup of Trigger_<table> through the global name table,
    its 'no definition' cache and the library loader (Use / Unuse / Unload)"""
    # design level: the caching scheme of core/globals.go (values / noDef / cleared) against the
    # documented promises (TrigLibRules.tla), exhaustively
    ctx.tlc_mc("MC_TrigLib.tla", "TrigLib_quick.cfg", timeout=600)
    if ctx.thorough():
        ctx.tlc_mc("MC_TrigLib.tla", "TrigLib_quick2.cfg", timeout=900)
        ctx.tlc_mc("MC_TrigLib.tla", "TrigLib_quick3.cfg", timeout=900)
        ctx.tlc_mc("MC_TrigLib.tla", "TrigLib_thorough.cfg", timeout=1200)
        ctx.tlc_mc("MC_TrigLib.tla", "TrigLib_thorough2.cfg", timeout=1200)
        # (TrigLib_big.cfg = 2 tables x 2 libraries x 2 versions x disable depth 1: 12.6 M states, 5 min
        #  with 12 workers, checked by hand when the spec was written; too slow for the thorough budget)
    # anti-vacuity: SetNoDef that leaves g.cleared alone (the next UnloadAll returns early)
    # must break the promise in the model; thorough: the other deviations as well
    devs = ["setnodef"]
    if ctx.thorough():
        devs += ["setname", "unloadname", "unloadall", "usenounload", "firstlib"]
    for d in devs:
        ctx.tlc_mc("MC_TrigLib.tla", "TrigLib_dev_%s.cfg" % d, timeout=300, expect_violation="Promised", count=False)
    # conformance: real db19 / core.Global / dbms library lookup, triggers in library records
    drv = ctx.go_build("triglib")
    for k in range(4 if ctx.thorough() else 1):
        trace = "%s/triglib-%d.ndjson" % (ctx.work, k)
        nscen = 600 if ctx.thorough() else 150
        rc, out, summ = ctx.driver(drv, [trace, nscen], timeout=900,
                                   env={"VERIF_SEED": str(ctx.seed * 1000 + k)}, name="triglib")
        if rc != 0:
            raise Infra("triglib driver failed rc=%d:\n%s" % (rc, out[-3000:]))
        if summ.get("errors", 0):
            raise Infra("triglib: %d actions raised an exception (last: %s)" % (summ["errors"], summ.get("last_error")))
        ctx.sample_trace_lines(trace, 6, kind="real trace excerpt (triglib)")
        res = ctx.tlc_trace("TraceTrigLib.tla", "TraceTrigLib.cfg", trace, timeout=900)
        if not res["accepted"]:
            ctx.report_rejection(trace, res)
            return
        ctx.cov["library_trigger_row_changes"] = ctx.cov.get("library_trigger_row_changes", 0) + summ.get("rowchanges", 0)
        ctx.cov["library_trigger_calls"] = ctx.cov.get("library_trigger_calls", 0) + summ.get("trigger_calls", 0)
    ctx.assumptions += [
        "triglib: core.Libload is a copy of libload in gsuneido.go (package main) without library overrides and tags",
        "triglib: one session (thread); 3 data tables, libraries stdlib/applib/extlib; definitions identify themselves (library, record version) through a Go builtin",
        "TrigLib TLC bounds: see tlc_runs (1-2 tables, 2-3 libraries, 1-2 versions per record, disable depth <= 2)",
    ]
