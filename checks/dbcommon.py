"""Shared part of the database-level checks (C01 C02 C03 C06 C07 C08 C16 C44):
run harness/cmd/dbtran (REAL db19 pipeline, concurrent clients) and validate the
recorded trace with TraceDb.tla."""
import os, json
from vlib import Infra


def trim_partial(path):
    """a driver killed by the code under test may leave a partial last line"""
    data = open(path, "rb").read()
    if data and not data.endswith(b"\n"):
        data = data[: data.rfind(b"\n") + 1]
        open(path, "wb").write(data)
    return data.count(b"\n")


def run_db(ctx, profile, nscen, tag, env=None, cfg="TraceDb.cfg", tries=2, timeout=3000, key_fn=None):
    """returns number of rejected traces"""
    drv = ctx.go_build("dbtran")
    rejected = 0
    for attempt in range(tries):
        trace = os.path.join(ctx.work, "%s-%s-%d.ndjson" % (tag, profile, attempt))
        e = {"VERIF_FLUSH": "1", "VERIF_SEED": str(ctx.seed * 1000 + attempt * 7 + sum(map(ord, tag)))}
        if env:
            e.update(env)
        try:
            rc, out, summ = ctx.driver(drv, [profile, trace, nscen], timeout=timeout, env=e, name="dbtran:" + profile)
        except Infra as ex:
            raise
        died = rc != 0
        n = trim_partial(trace) if os.path.exists(trace) else 0
        if n == 0:
            raise Infra("driver produced no trace: " + out[-2000:])
        ctx.sample_trace_lines(trace, 4, kind="real trace excerpt (%s)" % profile)
        res = ctx.tlc_trace("TraceDb.tla", cfg, trace, timeout=timeout)
        if not res["accepted"]:
            key = key_fn(trace, res) if key_fn else None
            if ctx.report_rejection(trace, res, key=key):
                rejected += 1
            return rejected
        if not died:
            ctx.cov["transactions"] = ctx.cov.get("transactions", 0) + summ.get("transactions", 0)
            ctx.cov["commits"] = ctx.cov.get("commits", 0) + summ.get("commits", 0)
            ctx.cov["state_updates_validated"] = ctx.cov.get("state_updates_validated", 0) + summ.get("state_updates", 0)
            return rejected
        # the code under test killed the process (log.Fatal / panic in a background goroutine)
        # and the recorded prefix is still a behaviour the spec allows: retry with another seed;
        # if it keeps dying without a rejected trace this is reported as an infrastructure error
        ctx.log("driver died (rc=%d) with an accepted prefix; retrying: %s" % (rc, out[-300:].replace("\n", " | ")))
    raise Infra("driver keeps dying (code under test aborts the process) but every recorded prefix is accepted:\n" + out[-3000:])


ASSUME = [
    "hook events Commit/StateU are emitted inside the database state mutex (file order = update order)",
    "a transaction's snapshot is identified by the Meta pointer it holds (registered by the state hook)",
    "universe: <= 4 tables, <= 8 rows each, values 0..6; physical projection logged for every published state",
]
