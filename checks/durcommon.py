"""Shared part of the durability checks C04 C05 C19 C20: run harness/cmd/dbfile (REAL mmap
database files, real pipeline, child processes for damaged files) and validate the recorded
trace with TraceDurable.tla."""
import os, shutil
from vlib import Infra

DEV = {"C05": ("Durable_dev_f11.cfg", "SearchCorrect")}

def exhaustive(ctx, pid):
    ctx.tlc_mc("Durable.tla", "Durable_quick.cfg", timeout=600)
    if ctx.thorough():
        ctx.tlc_mc("Durable.tla", "Durable_thorough.cfg", timeout=2400)
    if pid in DEV:
        cfg, inv = DEV[pid]
        ctx.tlc_mc("Durable.tla", cfg, timeout=300, expect_violation=inv, count=False)
    if pid == "C05":
        ctx.tlc_mc("Durable.tla", "Durable_dev_lo.cfg", timeout=300, expect_violation="SearchCorrect", count=False)

def run_file(ctx, mode, nscen, ntrials, tag, timeout=3000, extra_env=None):
    drv = ctx.go_build("dbfile")
    scratch = os.path.join(ctx.work, "files-" + tag)
    os.makedirs(scratch, exist_ok=True)
    trace = os.path.join(ctx.work, tag + ".ndjson")
    env = {"VERIF_FLUSH": "1", "VERIF_SEED": str(ctx.seed * 1000 + sum(map(ord, tag)))}
    if extra_env:
        env.update(extra_env)
    rc, out, summ = ctx.driver(drv, [mode, scratch, trace, nscen, ntrials], timeout=timeout, env=env, name="dbfile:" + mode)
    shutil.rmtree(scratch, ignore_errors=True)
    if not os.path.exists(trace) or os.path.getsize(trace) == 0:
        raise Infra("dbfile produced no trace: " + out[-2000:])
    data = open(trace, "rb").read()
    if not data.endswith(b"\n"):
        open(trace, "wb").write(data[: data.rfind(b"\n") + 1])
    ctx.sample_trace_lines(trace, 4, kind="real trace excerpt (dbfile %s)" % mode)
    res = ctx.tlc_trace("TraceDurable.tla", "TraceDurable.cfg", trace, timeout=timeout)
    if not res["accepted"]:
        ctx.report_rejection(trace, res)
        return 1
    if rc != 0:
        raise Infra("dbfile died (rc=%d) but the recorded prefix is accepted:\n%s" % (rc, out[-3000:]))
    for k in ("persists", "closes", "asofs", "trials", "child_deaths", "dumploads", "compacts"):
        if k in summ:
            ctx.cov[k] = ctx.cov.get(k, 0) + summ[k]
    return 0

ASSUME = [
    "durable states are logged by the hook inside the persist state update (offset, time read back from the record, digest of the stored btrees + schema + views)",
    "digests are computed by reading through the real iterators / btrees; equal digest = equal schema text (both fk directions), views, rows through every index, row and size counts",
]
