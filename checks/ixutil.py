"""helpers shared by the index-structure checks C10 / C11 / C39"""
import json, os
import vlib

# deep recursion of the sequential operators (MergeBatch, folds) on batches of ~1000 entries
TRACE_ENV = {"JAVA_TOOL_OPTIONS": "-Xss512m"}


def _segments(lines):
    """[(start, end)] of scenario segments; a segment starts at a Reset line (or at 0)"""
    starts = [0] + [i for i, l in enumerate(lines) if '"e":"Reset"' in l and i > 0]
    return [(s, e) for s, e in zip(starts, starts[1:] + [len(lines)])]


def drop_segment(path, line, out):
    """write trace `path` without the scenario that contains 1-based `line`"""
    lines = open(path).read().splitlines()
    keep = []
    for s, e in _segments(lines):
        if not (s < line <= e) and not (line == 0 and s == 0):
            keep += lines[s:e]
    with open(out, "w") as f:
        f.write("\n".join(keep) + ("\n" if keep else ""))
    return len(keep)


def event_at(path, line):
    try:
        with open(path) as f:
            for i, l in enumerate(f, 1):
                if i == line:
                    return json.loads(l)
    except Exception:
        pass
    return {}


def validate(ctx, module, cfg, trace, classify=None, timeout=900, max_known=40):
    """validate a recorded trace; a rejected scenario that matches a registered known finding
    (classify(event) -> key) is reported once and skipped: validation continues with the
    scenarios after it (scenarios are independent, everything before the rejected line was
    accepted). Returns True when everything (else) was accepted."""
    cur, rounds = trace, 0
    while True:
        res = ctx.tlc_trace(module, cfg, cur, timeout=timeout, extra_env=TRACE_ENV)
        if res["accepted"]:
            return True
        line = res.get("line", 0)
        ev = event_at(cur, line)
        key = classify(ev) if classify else None
        what = "%s; event %s" % (res.get("reason", ""), json.dumps(ev)[:300])
        if ctx.report_rejection(cur, res, key=key, what=what):
            return False            # VIOLATION printed
        rounds += 1
        if rounds > max_known:
            raise vlib.Infra("more than %d scenarios rejected as known findings; giving up" % max_known)
        lines = open(cur).read().splitlines()
        rest, before, nseg = [], 0, 0
        for s, e in _segments(lines):
            if e < line:
                before, nseg = e, nseg + 1          # accepted scenarios
            elif s >= line:
                rest += lines[s:e]                  # still to be validated
        ctx.cov["events_validated"] += before
        ctx.cov["traces_validated_against_impl"] += nseg
        ctx.cov["scenarios_cut_by_known_findings"] = ctx.cov.get("scenarios_cut_by_known_findings", 0) + 1
        if not rest:
            return True
        cur = os.path.join(ctx.work, "%s.rest%d.ndjson" % (os.path.basename(trace), rounds))
        with open(cur, "w") as f:
            f.write("\n".join(rest) + "\n")


def corrupt_and_expect_rejection(ctx, module, cfg, trace, pick, mutate, timeout=600):
    """anti-vacuity: change one field of one event of a good trace; the validator must reject
    exactly that line. pick(ev) selects the event, mutate(ev) changes it in place."""
    lines = open(trace).read().splitlines()
    # only use the first scenario that contains a suitable event, to keep it fast
    target = None
    for s, e in _segments(lines):
        for i in range(s, e):
            try:
                ev = json.loads(lines[i])
            except Exception:
                continue
            if pick(ev):
                target = (s, e, i, ev)
                break
        if target:
            break
    if not target:
        raise vlib.Infra("anti-vacuity: no event to corrupt in %s" % trace)
    s, e, i, ev = target
    mutate(ev)
    seg = lines[s:e]
    seg[i - s] = json.dumps(ev, separators=(",", ":"))
    if seg and '"e":"Reset"' in seg[0]:
        seg, off = seg[1:], 1
    else:
        off = 0
    out = os.path.join(ctx.work, "corrupt-%s-%d.ndjson" % (os.path.basename(trace), i))
    with open(out, "w") as f:
        f.write("\n".join(seg) + "\n")
    before = dict(ctx.cov)
    res = ctx.tlc_trace(module, cfg, out, timeout=timeout, extra_env=TRACE_ENV)
    want = i - s - off + 1
    if res["accepted"] or res.get("line") != want:
        raise vlib.Infra("anti-vacuity failed: corrupted line %d of %s, validator said %s" %
                         (want, out, {k: res.get(k) for k in ("accepted", "line", "reason")}))
    ctx.log("anti-vacuity: corrupted %s event rejected at its line (%d)" % (ev.get("e"), want))
    ctx.cov.setdefault("corrupted_traces_rejected", 0)
    ctx.cov["corrupted_traces_rejected"] += 1
