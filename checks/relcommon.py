"""Shared by C22 C23 C24 (dbms/query): exhaustive TLC runs on the denotation (MC_Relational),
driver run, trace validation by TraceRelational with classification of rejections."""
import json, os

# -Xss: TLC keeps unchanged variables of long behaviours as chains of lazy values and needs a
# deep Java stack for traces of tens of thousands of lines
TRACE_ENV = {"JAVA_TOOL_OPTIONS": "-Xss512m"}


def exhaustive(ctx, cursor=False, devs=()):
    """model-check the oracle itself: algebraic laws of Denote over every tiny database and
    every query of depth <= 1 (quick) plus wider/deeper universes (thorough)"""
    if ctx.replay:
        return
    if os.environ.get("VERIF_SKIP_MC") == "1":   # development aid only (mutation testing of the binding)
        ctx.cov["states"] = ctx.cov["transitions"] = 1
        return
    ctx.tlc_mc("MC_Relational.tla", "Relational_laws.cfg", timeout=900)
    if cursor:
        ctx.tlc_mc("MC_Relational.tla", "Relational_cursor.cfg", timeout=300)
    if ctx.thorough():
        ctx.tlc_mc("MC_Relational.tla", "Relational_laws_wide.cfg", timeout=2400)
    # anti-vacuity: a projection that keeps duplicates must violate the project law
    ctx.tlc_mc("MC_Relational.tla", "Relational_dev_nodedup.cfg", timeout=600,
               expect_violation="LawProject", count=False)
    # property specific deviations: (cfg, law that must be violated)
    for cfg, law in devs:
        ctx.tlc_mc("MC_Relational.tla", cfg, timeout=600, expect_violation=law, count=False)
    ctx.assumptions.append(
        "TLC bounds (oracle laws): tables t1(a,b) <= 2 rows, t2(b,c) <= 1 row over 2 values "
        "(thorough: 3 values incl. \"\"), every query of one operator on a base table drawn from "
        "where/project/rename/extend/summarize/join/leftjoin/semijoin/times/union/intersect/minus")


def replayed(ctx, classify, drop_stops=None):
    """bin/vcheck <id> quick --replay <file>: validate a stored trace instead of running the driver"""
    if not ctx.replay:
        return False
    validate(ctx, ctx.replay, classify, drop_stops)
    return True


def ast_has(ast, pred, top=True):
    if not isinstance(ast, dict):
        return False
    if pred(ast, top):
        return True
    return any(ast_has(ast.get(k), pred, False) for k in ("src", "l", "r", "def"))


def segment_bounds(lines, ln, stops):
    """lines [start, end) to drop so validation can continue after a known finding"""
    end = ln
    while end < len(lines) and not any(s in lines[end][:24] for s in stops):
        end += 1
    return ln - 1, end


def validate(ctx, trace, classify, drop_stops=None, max_known=25, timeout=1800):
    """validate the trace; rejections are classified into keys; a rejection whose key is listed
    in known-findings.txt is reported as KNOWN-FINDING, its lines are dropped and validation
    continues; anything else is a VIOLATION"""
    cur = trace
    for it in range(max_known + 1):
        res = ctx.tlc_trace("TraceRelational.tla", "TraceRelational.cfg", cur, timeout=timeout,
                            extra_env=TRACE_ENV)
        if res["accepted"]:
            return True
        lines = open(cur).read().splitlines()
        ln = res.get("line", 0)
        ev = {}
        try:
            ev = json.loads(lines[ln - 1])
        except Exception:
            pass
        opened = {}
        for i in range(ln - 1, -1, -1):       # the Open event a C23 step belongs to
            if lines[i].startswith('{"e":"Open"'):
                try:
                    opened = json.loads(lines[i])
                except Exception:
                    pass
                break
            if lines[i].startswith('{"e":"Reset"'):
                break
        key = classify(ev, opened)
        what = "%s rejected: %s" % (ev.get("e"), ev.get("text") or ev.get("err") or "")
        if ctx.report_rejection(cur, res, key=key, what=what[:300]):
            return False          # VIOLATION printed
        # known finding: drop the offending lines and go on with the rest of the trace
        # (everything before the scenario of the rejected line has been accepted already)
        if ev.get("e") == "Query" or drop_stops is None:
            a, b = ln - 1, ln
        else:
            a, b = segment_bounds(lines, ln, drop_stops)
        start = 0
        for i in range(ln - 2, -1, -1):
            if lines[i].startswith('{"e":"Reset"'):
                start = i + 1
                break
        ctx.cov["events_validated"] += start
        ctx.cov["traces_validated_against_impl"] += sum(1 for l in lines[:start] if l.startswith('{"e":"Reset"'))
        lines = lines[start:a] + lines[b:]
        cur = trace + ".k%d" % it
        with open(cur, "w") as f:
            f.write("\n".join(lines) + "\n")
    ctx.log("more than %d known-finding rejections in one trace; rest not validated" % max_known)
    ctx.cov["exhaustive"] = False
    return True


def semijoin_rev_key(err, plan):
    """finding: a reversed semijoin (strategy semijoin-rev) that receives a Select/Lookup passes
    only its by-columns on to source2.Select although the index chosen for source2 has other
    columns -> Table.selKeys panics "Sels.Get can't find <col>" or selEnd 'ASSERT FAILED' """
    err = err or ""
    if ("Sels.Get can't find" in err or err == "ASSERT FAILED") and "semijoin-rev" in (plan or ""):
        return "semijoin-rev-select"
    return None
