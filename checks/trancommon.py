"""Exhaustive TLC runs of Tran.tla shared by C01 C02 C03 C07."""

DEV = {
    "C01": ("Tran_dev_earlyclean.cfg", "Serializable"),
    "C02": ("Tran_dev_loseminkey.cfg", "Serializable"),
    "C03": ("Tran_dev_loseminkey.cfg", "Serializable"),
    "C07": ("Tran_dev_nodupread.cfg", "Serializable"),
}


def exhaustive(ctx, pid):
    import os
    if os.environ.get("VERIF_SKIP_MC") == "1":   # development aid only (mutation testing of the binding)
        ctx.cov["states"] = ctx.cov["transitions"] = 1
        return
    ctx.tlc_mc("Tran.tla", "Tran_quick.cfg", timeout=600)
    if pid == "C03" or ctx.thorough():
        # with client rollbacks, tick (max age) aborts and exclusive pre-emption at any moment:
        # an aborted transaction leaves no visible change
        ctx.tlc_mc("Tran.tla", "Tran_aborts.cfg", timeout=1200)
    if pid == "C01":
        # an exclusive schema operation with a duration (AddExcl .. EndExcl): no transaction that
        # began before it ended commits writes; deviation = cleanEnded forgetting the entry of an
        # operation in progress when no transaction is active (`<=`)
        ctx.tlc_mc("Tran.tla", "Tran_excl.cfg" if ctx.thorough() else "Tran_excl_quick.cfg", timeout=1200)
        ctx.tlc_mc("Tran.tla", "Tran_dev_exclle_quick.cfg", timeout=600, expect_violation="ExclusiveRespected", count=False)
    if ctx.thorough():
        ctx.tlc_mc("Tran.tla", "Tran_thorough.cfg", timeout=2400)
    cfg, inv = DEV[pid]
    # anti-vacuity: with the deviation switched on the model must violate the invariant
    ctx.tlc_mc("Tran.tla", cfg, timeout=600, expect_violation=inv, count=False)
    ctx.assumptions.append("TLC bounds: Tran.tla 2 transactions x 2 (quick) / 3 (thorough) operations x 2 keys, "
                           "asynchronous checker messages in any order respecting per-transaction FIFO")
