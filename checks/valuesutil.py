"""Helpers for checks C25 / C30: matching a rejected expression against the exact shape of a
recorded finding.  Works on the JSON expression trees and abstract values of the traces
(spec/Values.tla).  Nothing here decides a verdict about the code: a rejection by the trace
spec is only *attributed* to a recorded finding when the expression has that finding's shape."""

from decimal import Decimal, getcontext, localcontext

RANK = {"bool": 0, "num": 1, "str": 2, "date": 3, "obj": 4}


def num(v):
    """Decimal value of an abstract number (None for non-numbers, +-Infinity for inf)"""
    if v is None or v.get("t") != "num":
        return None
    if "dec" in v:
        return v["dec"]
    if v["ns"] == 0:
        return Decimal(0)
    if v["ns"] in (2, -2):
        return Decimal("Infinity") * (1 if v["ns"] > 0 else -1)
    with localcontext() as c:
        c.prec = 60
        d = Decimal("0." + "".join(map(str, v["nd"]))).scaleb(v["nx"])
        return d if v["ns"] > 0 else -d


def cmp(a, b):
    """the value order (Values!Cmp)"""
    if a["t"] != b["t"]:
        return -1 if RANK[a["t"]] < RANK[b["t"]] else 1
    t = a["t"]
    if t == "bool":
        return (a["b"] > b["b"]) - (a["b"] < b["b"])
    if t == "num":
        x, y = num(a), num(b)
        return (x > y) - (x < y)
    if t == "str":
        return (a["c"] > b["c"]) - (a["c"] < b["c"])
    if t == "date":
        x, y = (a["dd"], a["dt"], a["dx"]), (b["dd"], b["dt"], b["dx"])
        return (x > y) - (x < y)
    for x, y in zip(a["l"], b["l"]):
        c = cmp(x, y)
        if c:
            return c
    return (len(a["l"]) > len(b["l"])) - (len(a["l"]) < len(b["l"]))


def eq(a, b):
    if a["t"] != b["t"]:
        return False
    if a["t"] != "obj":
        return cmp(a, b) == 0 and (a["t"] != "str" or a["c"] == b["c"])
    if len(a["l"]) != len(b["l"]) or len(a["n"]) != len(b["n"]):
        return False
    return all(eq(x, y) for x, y in zip(a["l"], b["l"])) and \
        all(any(eq(k, k2) and eq(v, v2) for k2, v2 in b["n"]) for k, v in a["n"])


def BOOL(b):
    return {"t": "bool", "b": bool(b)}


def evalx(x, leafval):
    """value of a (sub)expression where that is easy to tell (boolean / comparison structure),
    else None.  leafval(i) gives the value of operand i or None."""
    op = x["op"]
    if op == "x":
        return leafval(x["i"])
    a = x["a"]
    if op in ("and", "or"):
        l = evalx(a[0], leafval)
        if l is None or l["t"] != "bool":
            return None
        if l["b"] == (op == "or"):
            return l
        r = evalx(a[1], leafval)
        return r if r is not None and r["t"] == "bool" else None
    if op == "not":
        v = evalx(a[0], leafval)
        return BOOL(not v["b"]) if v is not None and v["t"] == "bool" else None
    if op in ("is", "isnt", "lt", "lte", "gt", "gte"):
        l, r = evalx(a[0], leafval), evalx(a[1], leafval)
        if l is None or r is None:
            return None
        c = cmp(l, r)
        return BOOL({"is": eq(l, r), "isnt": not eq(l, r), "lt": c < 0, "lte": c <= 0, "gt": c > 0, "gte": c >= 0}[op])
    if op in ("isnum", "isstr", "isdate"):
        v = evalx(a[0], leafval)
        return None if v is None else BOOL(v["t"] == {"isnum": "num", "isstr": "str", "isdate": "date"}[op])
    if op == "in":
        vs = [evalx(y, leafval) for y in a]
        if any(v is None for v in vs):
            return None
        return BOOL(any(eq(vs[0], v) for v in vs[1:]))
    if op in ("add", "sub", "mul", "neg"):
        vs = [num(evalx(y, leafval)) for y in a]
        if any(v is None or not v.is_finite() for v in vs):
            return None
        with localcontext() as c:
            c.prec = 60
            r = -vs[0] if op == "neg" else vs[0] + vs[1] if op == "add" else vs[0] - vs[1] if op == "sub" else vs[0] * vs[1]
        return {"t": "num", "dec": r}
    if op in ("bitand", "bitor", "bitxor"):
        vs = [num(evalx(y, leafval)) for y in a]
        if any(v is None or not v.is_finite() or v != v.to_integral_value() or v < 0 for v in vs):
            return None
        i, j = int(vs[0]), int(vs[1])
        return {"t": "num", "dec": Decimal(i & j if op == "bitand" else i | j if op == "bitor" else i ^ j)}
    if op == "if":
        c = evalx(a[0], leafval)
        if c is None or c["t"] != "bool":
            return None
        return evalx(a[1 if c["b"] else 2], leafval)
    return None


def nodes(x):
    yield x
    if x["op"] != "x":
        for a in x["a"]:
            yield from nodes(a)


def chain(x, family):
    """operands of the maximal chain of operators of one family rooted at x, as
    (role, operand) with role = the operator that applies the operand (e.g. 'div' for a
    divisor); the first operand has the role of the family's first operator"""
    out = []

    def walk(y, role):
        if y["op"] in family:
            walk(y["a"][0], role)
            # the right operand of a nested chain (a - (b - c)) keeps its own structure
            out.append((y["op"], y["a"][1])) if y["a"][1]["op"] not in family else walk_paren(y["a"][1], y["op"])
        else:
            out.append((role, y))

    def walk_paren(y, role):
        out.append((role, y))
    walk(x, family[0])
    return out


def inexact_product(m, d):
    """(m / d) * d != m in 16-digit decimal arithmetic"""
    with localcontext() as c:
        c.prec = 16
        return d != 0 and (m / d) * d != m
