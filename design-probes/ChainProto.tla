---- MODULE ChainProto ----
\* Design probe (throw-away): hamt.Chain WriteChain / ReadChain with tombstones and flattening.
EXTENDS Integers, Sequences, FiniteSets, TLC
CONSTANTS Keys, MaxClock, MaxChain, FixEmptyFlatten

VARIABLES live,     \* [Keys -> [v: 0 absent | 1.. value | -1 tombstone, lm: lastMod]]
          clock, offs, ages,   \* the in-memory chain (offs = indices into file)
          file,     \* Seq of chunks: [items: set of <<k, v>>, prev: Nat]
          lastOff,  \* offset (index into file) recorded in the last written state, 0 = none
          persisted \* [Keys -> v] logical content at the last persist (what a reopen must show)
vars == <<live, clock, offs, ages, file, lastOff, persisted>>
ALL == -1000

TrailingOnes(n) == IF n % 2 = 0 THEN 0 ELSE IF (n \div 2) % 2 = 0 THEN 1 ELSE IF (n \div 4) % 2 = 0 THEN 2 ELSE 3
NMerge(no, c) == IF no >= MaxChain THEN no ELSE IF no < TrailingOnes(c) THEN no ELSE TrailingOnes(c)
Min(a, b) == IF a < b THEN a ELSE b

Init == /\ live = [k \in Keys |-> [v |-> 0, lm |-> 0]]
        /\ clock = 0 /\ offs = <<>> /\ ages = <<>> /\ file = <<>> /\ lastOff = 0
        /\ persisted = [k \in Keys |-> 0]

Put(k) == /\ live[k].v <= 0
          /\ live' = [live EXCEPT ![k] = [v |-> 1, lm |-> clock]]
          /\ UNCHANGED <<clock, offs, ages, file, lastOff, persisted>>
Upd(k) == /\ live[k].v > 0 /\ live[k].v < 2
          /\ live' = [live EXCEPT ![k] = [v |-> live[k].v + 1, lm |-> clock]]
          /\ UNCHANGED <<clock, offs, ages, file, lastOff, persisted>>
\* drop with tombstone (as meta.Drop does for persisted items)
Tomb(k) == /\ live[k].v > 0
           /\ live' = [live EXCEPT ![k] = [v |-> -1, lm |-> clock]]
           /\ UNCHANGED <<clock, offs, ages, file, lastOff, persisted>>

Logical(l) == [k \in Keys |-> IF l[k].v > 0 THEN l[k].v ELSE 0]

Persist ==
  /\ clock < MaxClock
  /\ LET no == Len(offs)
         merge == NMerge(no, clock)
         oldest == IF merge > 0 THEN ages[no - merge + 1] ELSE clock
         thr == IF merge = no THEN ALL ELSE oldest
         prevOff == IF no > 0 /\ merge < no THEN offs[no - merge] ELSE 0
         items == {k \in Keys : live[k].v # 0 /\ (IF thr = ALL THEN live[k].v # -1 ELSE live[k].lm >= thr)}
         nothing == items = {} /\ (prevOff = 0 \/ thr # ALL)
     IN
     IF nothing
     THEN IF FixEmptyFlatten /\ thr = ALL /\ no > 0
          THEN /\ offs' = <<>> /\ ages' = <<>> /\ lastOff' = 0 /\ clock' = clock + 1
               /\ UNCHANGED <<file, live>>
          ELSE /\ lastOff' = (IF no > 0 THEN offs[no] ELSE 0)
               /\ UNCHANGED <<offs, ages, clock, file, live>>
     ELSE /\ file' = Append(file, [items |-> {<<k, live[k].v>> : k \in items}, prev |-> prevOff])
          /\ offs' = Append(SubSeq(offs, 1, no - merge), Len(file) + 1)
          /\ ages' = Append(SubSeq(ages, 1, no - merge), oldest)
          /\ lastOff' = Len(file) + 1
          /\ clock' = clock + 1
          /\ UNCHANGED live
  /\ persisted' = Logical(live)

\* ReadChain: newest first, ignore older versions of a key
RECURSIVE ReadFrom(_, _)
ReadFrom(off, acc) ==
  IF off = 0 THEN acc
  ELSE LET ch == file[off]
           acc2 == [k \in Keys |-> IF acc[k] # 0 THEN acc[k]
                                   ELSE IF \E it \in ch.items : it[1] = k
                                        THEN (CHOOSE it \in ch.items : it[1] = k)[2] ELSE 0]
       IN ReadFrom(ch.prev, acc2)
ReadBack == LET r == ReadFrom(lastOff, [k \in Keys |-> 0]) IN [k \in Keys |-> IF r[k] > 0 THEN r[k] ELSE 0]

Next == Persist \/ \E k \in Keys : Put(k) \/ Upd(k) \/ Tomb(k)
Spec == Init /\ [][Next]_vars
ReopenSeesPersisted == ReadBack = persisted
ChainBounded == Len(offs) <= MaxChain
====
