---- MODULE StorProto ----
\* Design probe (throw-away): db19/stor/stor.go Alloc/extend, one label per atomic operation.
\* Translate with:  pcal -nocfg StorProto.tla
\* Measured (chunk 4, sizes {1,3,4}): 3 procs x 1 alloc = 270k states/3 s; 2 x 3 = 19M/57 s; 3 x 2 > 170M.
EXTENDS Integers, Sequences, FiniteSets, TLC
CONSTANTS Procs, ChunkSize, MaxChunks, Sizes, NAllocs

(* --algorithm stor {
variables size = 0, allocChunk = 0, nchunks = 1, lock = FALSE,
          allocs = {};  \* set of <<proc, offset, n>>
process (p \in Procs)
  variables n = 0, ac = 0, newsize = 0, retries = 0, todo = NAllocs, failed = FALSE;
{
 start: while (todo > 0) {
          with (s \in Sizes) { n := s };
          retries := 0;
 loadChunk: ac := allocChunk;
 addSize:   size := size + n; newsize := size;
 check:     if ((newsize - 1) \div ChunkSize = ac) {
              allocs := allocs \cup {<<self, newsize - n, n>>};
              todo := todo - 1;
              goto start;
            };
 extLock:   await ~lock; lock := TRUE;
 extCheck:  if (ac + 1 < nchunks) { lock := FALSE; goto retry };
 extAppend: nchunks := nchunks + 1;
 extSize:   size := (ac + 1) * ChunkSize;
 extInc:    allocChunk := allocChunk + 1; lock := FALSE;
 retry:     retries := retries + 1;
            if (retries >= 3) { failed := TRUE; todo := 0; goto start } else { goto loadChunk };
        }
}
} *)

\* invariants (after translation these refer to the generated variables)
\* Disjoint == \A a, b \in allocs : a # b => (a[2] + a[3] <= b[2] \/ b[2] + b[3] <= a[2])
\* InChunk  == \A a \in allocs : a[2] \div ChunkSize = (a[2] + a[3] - 1) \div ChunkSize
\* Mapped   == \A a \in allocs : (a[2] + a[3] - 1) \div ChunkSize < nchunks
\* Bound    == nchunks <= MaxChunks   (state constraint)
====
