// Package aval is the harness-side image of spec/Values.tla: abstract Suneido values
// (booleans, structural numbers, byte strings, dates, objects), their JSON form for the
// trace specs, construction from decimal strings, Suneido source literals, and the
// projection of a real core.Value onto its abstract value.
// Nothing in here decides a verdict: it only names values.
package aval

import (
	"bytes"
	"encoding/json"
	"fmt"
	"strconv"
	"strings"

	. "github.com/apmckinlay/gsuneido/core"
)

// V is an abstract value (see Values.tla for the canonical forms)
type V struct {
	T  string // bool num str date obj
	B  bool
	NS int   // sign: -2 -inf, -1, 0, 1, 2 +inf
	NX int   // exponent: value = 0.d1d2.. * 10^NX
	ND []int // digits, no leading / trailing zero
	C  []int // bytes
	DD int   // yyyymmdd
	DT int   // hhmmssmmm
	DX int   // timestamp extra (0 = plain date)
	L  []*V  // list members
	N  [][2]*V
}

func Bool(b bool) *V { return &V{T: "bool", B: b} }
func Str(s string) *V {
	c := make([]int, len(s))
	for i := 0; i < len(s); i++ {
		c[i] = int(s[i])
	}
	return &V{T: "str", C: c}
}
func Date(dd, dt, dx int) *V { return &V{T: "date", DD: dd, DT: dt, DX: dx} }
func Obj(l []*V, n [][2]*V) *V {
	if l == nil {
		l = []*V{}
	}
	if n == nil {
		n = [][2]*V{}
	}
	return &V{T: "obj", L: l, N: n}
}
func Int(n int64) *V { return Num(strconv.FormatInt(n, 10)) }

// Num parses a decimal literal ("-12.50", ".001", "1e20", "inf", "-inf") into the
// structural form by plain string manipulation (independent of util/dnum)
func Num(s string) *V {
	v := &V{T: "num", ND: []int{}}
	t := s
	sign := 1
	if strings.HasPrefix(t, "-") {
		sign = -1
		t = t[1:]
	} else if strings.HasPrefix(t, "+") {
		t = t[1:]
	}
	if t == "inf" {
		v.NS = 2 * sign
		return v
	}
	exp := 0
	if i := strings.IndexAny(t, "eE"); i >= 0 {
		e, err := strconv.Atoi(t[i+1:])
		if err != nil {
			panic("aval.Num: bad exponent in " + s)
		}
		exp = e
		t = t[:i]
	}
	intpart, frac := t, ""
	if i := strings.IndexByte(t, '.'); i >= 0 {
		intpart, frac = t[:i], t[i+1:]
	}
	digits := intpart + frac
	for _, c := range digits {
		if c < '0' || c > '9' {
			panic("aval.Num: bad digit in " + s)
		}
	}
	// value = 0.digits * 10^(len(intpart)+exp)
	x := len(intpart) + exp
	for len(digits) > 0 && digits[0] == '0' {
		digits = digits[1:]
		x--
	}
	digits = strings.TrimRight(digits, "0")
	if digits == "" {
		return v // zero
	}
	v.NS = sign
	v.NX = x
	for _, c := range digits {
		v.ND = append(v.ND, int(c-'0'))
	}
	return v
}

// NumOf builds a number from sign, exponent and digit string, normalising
func NumOf(sign int, digits string, x int) *V {
	if sign == 0 {
		return Num("0")
	}
	s := "." + digits + "e" + strconv.Itoa(x)
	if sign < 0 {
		s = "-" + s
	}
	return Num(s)
}

func (v *V) MarshalJSON() ([]byte, error) {
	var b bytes.Buffer
	v.json(&b)
	return b.Bytes(), nil
}

func ints(b *bytes.Buffer, a []int) {
	b.WriteByte('[')
	for i, x := range a {
		if i > 0 {
			b.WriteByte(',')
		}
		b.WriteString(strconv.Itoa(x))
	}
	b.WriteByte(']')
}

func (v *V) json(b *bytes.Buffer) {
	switch v.T {
	case "bool":
		fmt.Fprintf(b, `{"t":"bool","b":%v}`, v.B)
	case "num":
		fmt.Fprintf(b, `{"t":"num","ns":%d,"nx":%d,"nd":`, v.NS, v.NX)
		ints(b, v.ND)
		b.WriteByte('}')
	case "str":
		b.WriteString(`{"t":"str","c":`)
		ints(b, v.C)
		b.WriteByte('}')
	case "date":
		fmt.Fprintf(b, `{"t":"date","dd":%d,"dt":%d,"dx":%d}`, v.DD, v.DT, v.DX)
	case "obj":
		b.WriteString(`{"t":"obj","l":[`)
		for i, x := range v.L {
			if i > 0 {
				b.WriteByte(',')
			}
			x.json(b)
		}
		b.WriteString(`],"n":[`)
		for i, kv := range v.N {
			if i > 0 {
				b.WriteByte(',')
			}
			b.WriteByte('[')
			kv[0].json(b)
			b.WriteByte(',')
			kv[1].json(b)
			b.WriteByte(']')
		}
		b.WriteString(`]}`)
	default:
		panic("aval: bad type " + v.T)
	}
}

func (v *V) String() string {
	b, _ := json.Marshal(v)
	return string(b)
}

// IsInt reports whether a number is an integer, and its value if it fits int64
func (v *V) IsInt() (int64, bool) {
	if v.T != "num" || v.NS == 2 || v.NS == -2 {
		return 0, false
	}
	if v.NS == 0 {
		return 0, true
	}
	if len(v.ND) > v.NX || v.NX > 19 {
		return 0, false
	}
	s := v.Digits() + strings.Repeat("0", v.NX-len(v.ND))
	if v.NS < 0 {
		s = "-" + s
	}
	n, err := strconv.ParseInt(s, 10, 64)
	return n, err == nil
}

func (v *V) Digits() string {
	var sb strings.Builder
	for _, d := range v.ND {
		sb.WriteByte(byte('0' + d))
	}
	return sb.String()
}

func (v *V) Bytes() string {
	b := make([]byte, len(v.C))
	for i, c := range v.C {
		b[i] = byte(c)
	}
	return string(b)
}

// NumString renders a number as a plain literal dnum.FromStr / the Suneido lexer accept
func (v *V) NumString() string {
	switch v.NS {
	case 0:
		return "0"
	case 2:
		return "inf"
	case -2:
		return "-inf"
	}
	s := "." + v.Digits() + "e" + strconv.Itoa(v.NX)
	if n, ok := v.IsInt(); ok {
		return strconv.FormatInt(n, 10)
	}
	if 0 < v.NX && v.NX < len(v.ND) {
		s = v.Digits()[:v.NX] + "." + v.Digits()[v.NX:]
	} else if -6 <= v.NX && v.NX <= 0 {
		s = "." + strings.Repeat("0", -v.NX) + v.Digits()
	}
	if v.NS < 0 {
		s = "-" + s
	}
	return s
}

// Lit renders the value as a Suneido source literal (constant)
func (v *V) Lit() string {
	switch v.T {
	case "bool":
		if v.B {
			return "true"
		}
		return "false"
	case "num":
		return v.NumString()
	case "str":
		var sb strings.Builder
		sb.WriteByte('"')
		for _, c := range v.C {
			if c == '"' || c == '\\' || c < 32 || c > 126 {
				fmt.Fprintf(&sb, "\\x%02x", c)
			} else {
				sb.WriteByte(byte(c))
			}
		}
		sb.WriteByte('"')
		return sb.String()
	case "date":
		s := fmt.Sprintf("#%08d", v.DD)
		if v.DT != 0 || v.DX != 0 {
			s += fmt.Sprintf(".%09d", v.DT)
		}
		if v.DX != 0 {
			s += fmt.Sprintf("%03d", v.DX)
		}
		return s
	case "obj":
		return "#" + v.members()
	}
	panic("aval.Lit")
}

func (v *V) members() string {
	var sb strings.Builder
	sb.WriteByte('(')
	sep := ""
	for _, x := range v.L {
		sb.WriteString(sep)
		sb.WriteString(x.Lit())
		sep = ", "
	}
	for _, kv := range v.N {
		sb.WriteString(sep)
		sb.WriteString(kv[0].Lit())
		sb.WriteString(": ")
		sb.WriteString(kv[1].Lit())
		sep = ", "
	}
	sb.WriteByte(')')
	return sb.String()
}

// Of projects a real value onto its abstract value using only the representation's own
// fields (integer digits, dnum sign/coef/exp, string bytes, date components, members).
// ok is false for values outside Values.tla (functions, classes, ...).
func Of(x Value) (v *V, ok bool) {
	defer func() {
		if e := recover(); e != nil {
			v, ok = nil, false
		}
	}()
	return of(x, 0), true
}

func of(x Value, depth int) *V {
	if depth > 12 {
		panic("too deep")
	}
	switch x := x.(type) {
	case SuBool:
		return Bool(bool(x))
	case SuDnum:
		switch {
		case x.Sign() == 0:
			return Num("0")
		case x.IsInf():
			if x.Sign() < 0 {
				return Num("-inf")
			}
			return Num("inf")
		}
		// value = 0.coef(16 digits) * 10^exp
		return NumOf(x.Sign(), fmt.Sprintf("%016d", x.Coef()), x.Exp())
	case SuStr:
		return Str(string(x))
	case SuConcat:
		s, _ := x.ToStr()
		return Str(s)
	case *SuExcept:
		return Str(string(x.SuStr))
	case SuDate:
		return dateOf(x, 0)
	case SuTimestamp:
		// the extra byte is only visible through String(): #yyyymmdd.hhmmssmmmxxx
		s := x.String()
		n, err := strconv.Atoi(s[len(s)-3:])
		if err != nil {
			panic(err)
		}
		return dateOf(x.SuDate, n)
	}
	if x.Type().String() == "Number" {
		if n, ok := SuIntToInt(x); ok {
			return Int(int64(n))
		}
	}
	if c, ok := x.ToContainer(); ok {
		v := Obj(nil, nil)
		for i := 0; i < c.ListSize(); i++ {
			v.L = append(v.L, of(c.ListGet(i), depth+1))
		}
		it := c.Iter2(false, true)
		for k, val := it(); k != nil; k, val = it() {
			v.N = append(v.N, [2]*V{of(k, depth+1), of(val, depth+1)})
		}
		return v
	}
	panic("not an abstract value: " + x.Type().String())
}

func dateOf(d SuDate, extra int) *V {
	return Date(d.Year()*10000+d.Month()*100+d.Day(),
		d.Hour()*10000000+d.Minute()*100000+d.Second()*1000+d.Millisecond(), extra)
}
