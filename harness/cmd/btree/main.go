// Driver for C10: drives the REAL db19/index/btree (Builder, MergeAndSave, Lookup,
// Iterator, Check, RangeFrac) with seeded random and boundary biased change batches
// and records every call with arguments, results and projected state as ndjson for
// spec/trace/TraceOrdMap.tla.
//
// Keys are logged as ranks into a strictly monotone rank -> key table owned (and
// asserted) by the driver; offsets as small ids (nastykeys.OffOf maps them to 40 bit
// offsets). A panic of the real code is an event (ok:0), not a harness crash.
//
// Node sizes are OBSERVED, not inferred from panics: after every successful bulk build
// and MergeAndSave the stored nodes of the new version are walked straight from the stor
// bytes (layout documented at the top of leafnode.go / treenode.go; root offset and levels
// from the header btree.Write produces) and a Nodes event reports the number of nodes,
// the largest node size / fan-out, the number of keys found in the leaves, and a description
// of every node above 8192 bytes (how many long keys / separators it holds, what is left
// without them, how many bytes a leaf wastes on a prefix it could share): only the exact
// shapes of the registered findings may excuse an oversized node (checks/C10.py classify()).
// Build and Merge events carry big2 = the lengths of the two longest keys inserted into
// the scenario's tree so far (incl. the call itself), for the reader of a replay.
//
// usage: btree <trace.ndjson> <nsmall> <nmedium> <nbig> <nlong> <nenum> [<nlbuild>]
package main

import (
	"fmt"
	"math"
	"math/rand"
	"os"
	"runtime/debug"
	"sort"
	"strconv"
	"strings"

	"github.com/apmckinlay/gsuneido/db19/index/btree"
	"github.com/apmckinlay/gsuneido/db19/index/iface"
	"github.com/apmckinlay/gsuneido/db19/index/ixbuf"
	"github.com/apmckinlay/gsuneido/db19/index/ixkey"
	"github.com/apmckinlay/gsuneido/db19/stor"

	"verifharness/nastykeys"
	"verifharness/vh"
)

type scen struct {
	tr     *vh.Trace
	rnd    *rand.Rand
	keys   []string // keys[r-1] = key of rank r
	K      int
	st     *stor.Stor
	vers   []*btree.T
	shadow [][]int // only used to GENERATE valid batches; the verdict is TLC's
	offid  map[uint64]int
	noff   int
	nit    int
	dead   bool
	split  int
	big2   [2]int // lengths of the two longest keys ever inserted into this scenario's tree
	// skip-scan tables (composite universes only): distinct prefixes / suffixes for skipStart = 1
	pfx, sfx []string
}

var stats = map[string]int{}

func safely(f func()) (ok int, msg string) {
	defer func() {
		if r := recover(); r != nil {
			ok = 0
			msg = fmt.Sprint(r)
			if len(msg) > 160 {
				msg = msg[:160]
			}
			stats["panics"]++
			if os.Getenv("VERIF_DEBUG") != "" {
				fmt.Fprintf(os.Stderr, "PANIC %s\n%s\n", msg, debug.Stack())
			}
		}
	}()
	f()
	return 1, ""
}

func (s *scen) keyOf(r int) string {
	if r <= 0 {
		return ixkey.Min
	}
	if r > s.K {
		return ixkey.Max
	}
	return s.keys[r-1]
}

func (s *scen) rankOf(k string) int {
	i := sort.SearchStrings(s.keys, k)
	if i < len(s.keys) && s.keys[i] == k {
		return i + 1
	}
	return -1 // a key the driver never supplied
}

func (s *scen) newOff() (int, uint64) {
	s.noff++
	off := nastykeys.OffOf(s.noff)
	s.offid[off] = s.noff
	return s.noff, off
}

func (s *scen) idOf(off uint64) int {
	if off == 0 {
		return 0
	}
	if id, ok := s.offid[off]; ok {
		return id
	}
	return -1
}

func newScen(tr *vh.Trace, rnd *rand.Rand, keys []string, split int, kind string) *scen {
	if msg := nastykeys.Check(keys); msg != "" {
		vh.Fatal("%s", msg)
	}
	s := &scen{tr: tr, rnd: rnd, keys: keys, K: len(keys), offid: map[uint64]int{}, split: split}
	btree.SetSplit(split)
	s.st = stor.HeapStor(64 * 1024)
	s.st.Alloc(1 + rnd.Intn(9000)) // offset 0 means "no node" to the merge code (DESIGN 6.1)
	pg, sf := []int{}, []int{}
	if strings.Contains(kind, "composite") {
		pg, sf, s.pfx, s.sfx = nastykeys.SplitTables(keys, func(k string) (string, string) { return ixkey.SplitPrefixSuffix(k, 1) })
	}
	tr.Emit(vh.E("Scn", "K", s.K, "split", split, "kind", kind, "pg", pg, "sf", sf))
	stats["scenarios"]++
	return s
}

// build bulk-loads version 1 from the given ranks (non-decreasing, duplicates allowed)
func (s *scen) build(ranks []int) {
	ks := make([]int, 0, len(ranks))
	offs := make([]int, 0, len(ranks))
	added := make([]int, 0, len(ranks))
	sh := make([]int, s.K)
	var bt *btree.T
	ok, msg := safely(func() {
		b := btree.NewBuilder(s.st)
		for _, r := range ranks {
			id, off := s.newOff()
			s.noteLen(len(s.keys[r-1]))
			a := b.Add(s.keys[r-1], off)
			ks = append(ks, r)
			offs = append(offs, id)
			if a {
				added = append(added, 1)
				sh[r-1] = id
			} else {
				added = append(added, 0)
			}
		}
		bt = b.Finish()
	})
	s.vers = append(s.vers, bt)
	s.shadow = append(s.shadow, sh)
	s.tr.Emit(vh.E("Build", "v", len(s.vers), "ks", ks, "offs", offs, "added", added, "big2", s.big2[:], "ok", ok, "msg", msg))
	if ok == 0 {
		s.dead = true
	} else {
		s.nodes(len(s.vers), "build")
	}
	stats["builds"]++
}

type change struct {
	r   int
	op  string
	id  int
	off uint64
}

// genBatch makes a batch that is valid for version from (per the shadow map)
func (s *scen) genBatch(from int) []change {
	sh := s.shadow[from-1]
	rnd := s.rnd
	pick := func(r int, pdel float64, pupd float64) (change, bool) {
		if sh[r-1] == 0 {
			id, off := s.newOff()
			return change{r, "add", id, off}, true
		}
		x := rnd.Float64()
		if x < pdel {
			return change{r, "del", sh[r-1], nastykeys.OffOf(sh[r-1])}, true
		}
		if x < pdel+pupd {
			id, off := s.newOff()
			return change{r, "upd", id, off}, true
		}
		return change{}, false
	}
	var b []change
	style := rnd.Intn(10)
	switch style {
	case 0: // delete everything (emptying the tree)
		for r := 1; r <= s.K; r++ {
			if sh[r-1] != 0 {
				b = append(b, change{r, "del", sh[r-1], nastykeys.OffOf(sh[r-1])})
			}
		}
	case 1: // insert everything that is missing (splits everywhere)
		for r := 1; r <= s.K; r++ {
			if sh[r-1] == 0 {
				c, _ := pick(r, 0, 0)
				b = append(b, c)
			}
		}
	case 2, 3: // a contiguous run: delete or flip (emptying whole leaves / subtrees)
		a := 1 + rnd.Intn(s.K)
		n := 1 + rnd.Intn(max(1, s.K/2))
		pdel := []float64{1, 1, 0.5, 0}[rnd.Intn(4)]
		for r := a; r <= min(s.K, a+n); r++ {
			if c, ok := pick(r, pdel, 1-pdel); ok {
				if c.op != "add" || rnd.Intn(2) == 0 {
					b = append(b, c)
				}
			}
		}
	case 4: // delete all but one
		keep := 1 + rnd.Intn(s.K)
		for r := 1; r <= s.K; r++ {
			if sh[r-1] != 0 && r != keep {
				b = append(b, change{r, "del", sh[r-1], nastykeys.OffOf(sh[r-1])})
			}
		}
	case 5: // updates only
		for r := 1; r <= s.K; r++ {
			if sh[r-1] != 0 && rnd.Intn(3) == 0 {
				c, _ := pick(r, 0, 1)
				b = append(b, c)
			}
		}
	default: // random mix with random density
		p := []float64{0.05, 0.15, 0.4, 0.8}[rnd.Intn(4)]
		pdel := []float64{0.2, 0.5, 0.8}[rnd.Intn(3)]
		for r := 1; r <= s.K; r++ {
			if rnd.Float64() < p {
				if c, ok := pick(r, pdel, 1-pdel); ok {
					b = append(b, c)
				}
			}
		}
	}
	if len(b) == 0 { // never empty: at least one change
		r := 1 + rnd.Intn(s.K)
		if c, ok := pick(r, 0.5, 0.5); ok {
			b = append(b, c)
		}
	}
	return b
}

// merge applies batch b to version from with the real MergeAndSave; returns the new version
func (s *scen) merge(from int, b []change) int {
	var iter iface.IterFn
	if s.rnd.Intn(4) == 0 {
		// plain sorted slice iterator
		i := -1
		iter = func() (string, uint64, bool) {
			i++
			if i >= len(b) {
				return "", 0, false
			}
			return s.keys[b[i].r-1], flag(b[i]), true
		}
	} else {
		// through a real ixbuf, entries inserted in random order
		ib := &ixbuf.T{}
		for _, i := range s.rnd.Perm(len(b)) {
			c := b[i]
			switch c.op {
			case "add":
				ib.Insert(s.keys[c.r-1], c.off)
			case "upd":
				ib.Update(s.keys[c.r-1], c.off)
			case "del":
				ib.Delete(s.keys[c.r-1], c.off)
			}
		}
		iter = ib.Iter()
	}
	ks := make([]int, len(b))
	ops := make([]string, len(b))
	offs := make([]int, len(b))
	sh := append([]int(nil), s.shadow[from-1]...)
	for i, c := range b {
		ks[i], ops[i], offs[i] = c.r, c.op, c.id
		if c.op == "add" {
			s.noteLen(len(s.keys[c.r-1]))
		}
		if c.op == "del" {
			sh[c.r-1] = 0
		} else {
			sh[c.r-1] = c.id
		}
	}
	var bt *btree.T
	ok, msg := safely(func() { bt = s.vers[from-1].MergeAndSave(iter) })
	s.vers = append(s.vers, bt)
	s.shadow = append(s.shadow, sh)
	v := len(s.vers)
	dstep, dw := 0, nodeWalk{big: [][]int{}}
	if ok == 0 && strings.Contains(msg, "too large") {
		dstep, dw = s.diagnose(from, b)
		stats["too_large_panics_diagnosed"]++
	}
	s.tr.Emit(vh.E("Merge", "from", from, "v", v, "ks", ks, "ops", ops, "offs", offs, "big2", s.big2[:], "ok", ok, "msg", msg,
		"dstep", dstep, "dnover", dw.nover, "dbig", dw.big))
	stats["merges"]++
	stats["changes"] += len(b)
	if ok == 1 {
		s.nodes(v, "merge")
	}
	if ok == 0 {
		s.dead = true
	} else if bt.TreeLevels() >= 6 {
		// harness limit, not a finding: iterators hold at most 8 levels, reachable only
		// with tiny split factors and many insert/delete cycles (nodes are never merged);
		// the margin of 3 covers level growth inside one batch (DESIGN F13 note)
		s.tr.Emit(vh.E("Note", "what", "scenario ended: tree levels reached the iterator limit", "n", bt.TreeLevels()))
		s.dead = true
	}
	return v
}

func (s *scen) noteLen(n int) {
	if n > s.big2[0] {
		s.big2[0], s.big2[1] = n, s.big2[0]
	} else if n > s.big2[1] {
		s.big2[1] = n
	}
}

func be16(b []byte) int { return int(b[0])<<8 | int(b[1]) }

func be40(b []byte) uint64 {
	return uint64(b[0])<<32 | uint64(b[1])<<24 | uint64(b[2])<<16 | uint64(b[3])<<8 | uint64(b[4])
}

// longKey: a key / separator of at least this many bytes counts as "long" in the description of
// an oversized node (fewer than 9 of them fill a node)
const longKey = 1000

func lcp(a, b []byte) int {
	i := 0
	for i < len(a) && i < len(b) && a[i] == b[i] {
		i++
	}
	return i
}

// nodes walks every stored node of version v directly from the stor bytes and logs what
// the size invariants are about: number of nodes, largest node (bytes), largest fan-out,
// number of keys found in the leaves, and a description of every node above the limit:
//
//	[size, isLeaf, entries, longest, second longest key/separator,
//	 nlong = entries of >= longKey bytes, rest = size of the node without those,
//	 lost = bytes a leaf wastes because its stored prefix is shorter than the prefix that all
//	        its keys (or all but its first / all but its last key) share,
//	 off = stor offset of the node (the same node shows up in every later version that keeps it)]
//
// (op = which operation produced the version: "build" = Builder, "merge" = MergeAndSave)
func (s *scen) nodes(v int, op string) {
	w, ok, msg := s.walkNodes(s.vers[v-1], op)
	s.tr.Emit(vh.E("Nodes", "v", v, "op", op, "split", s.split, "n", w.n, "maxsz", w.maxsz, "maxfan", w.maxfan, "nk", w.nk,
		"nover", w.nover, "big", w.big, "ok", ok, "msg", msg))
	stats["nodewalks"]++
	stats["nodes_seen"] += w.n
	stats["max_node_size"] = max(stats["max_node_size"], w.maxsz)
	if w.nover > 0 {
		stats["trees_with_oversized_node_"+op]++
	}
}

type nodeWalk struct {
	n, maxsz, maxfan, nk, nover int
	big                         [][]int
}

func (s *scen) walkNodes(bt *btree.T, op string) (w nodeWalk, ok int, msg string) {
	const limit = 8192
	w.big = [][]int{}
	ok, msg = safely(func() {
		buf := make([]byte, 16)
		bt.Write(stor.NewWriter(buf))
		rd := stor.NewReader(buf)
		root := uint64(rd.Get5())
		levels := rd.Get1()
		var walk func(depth int, off uint64)
		walk = func(depth int, off uint64) {
			d := s.st.Data(off)
			w.n++
			if w.n > 100000 {
				panic("node walk does not terminate")
			}
			cnt := int(d[0])
			var size, fan, base, first, plen int
			leaf := depth >= levels
			if leaf {
				base = 2
				size = be16(d[2+7*cnt:])
				fan = cnt
				plen = int(d[1])
				first = 4 + 7*cnt + plen // the prefix is stored in front of the first suffix
			} else {
				base = 1
				size = be16(d[1+7*cnt:])
				fan = cnt + 1
				if cnt == 0 && size == 3 {
					fan = 0
				}
				first = 1 + 7*cnt + 2 + 5
			}
			fields := make([][]byte, cnt) // suffixes (leaf) / separators (tree)
			for i := 0; i < cnt; i++ {
				fo := be16(d[base+7*i:])
				fe := be16(d[base+7*(i+1):]) // the node size acts as the final field offset
				if fo < first || fe < fo || fe > size {
					panic(fmt.Sprintf("stored node at %d: field %d of %d spans %d..%d, node size %d", off, i, cnt, fo, fe, size))
				}
				fields[i] = d[fo:fe]
			}
			w.maxsz, w.maxfan = max(w.maxsz, size), max(w.maxfan, fan)
			if size > limit {
				w.nover++
				k1, k2, nlong, rest, lens := 0, 0, 0, size, []int{}
				for _, f := range fields {
					kl := len(f) + plen
					lens = append(lens, kl)
					if kl > k1 {
						k1, k2 = kl, k1
					} else if kl > k2 {
						k2 = kl
					}
					if kl >= longKey {
						nlong++
						rest -= 7 + len(f)
					}
				}
				l, lost := 0, 0
				if leaf {
					l = 1
					// the suffixes are sorted: what a run of them shares is what its ends share
					waste := func(lo, hi int) int { // suffixes lo..hi-1
						if hi-lo < 2 {
							return 0
						}
						extra := min(255-plen, lcp(fields[lo], fields[hi-1]))
						return extra*(hi-lo) - extra
					}
					lost = max(waste(0, cnt), waste(1, cnt), waste(0, cnt-1))
				}
				if len(w.big) < 50 {
					if off >= 1<<31 {
						vh.Fatal("node offset %d does not fit the trace's 32 bit integers", off)
					}
					w.big = append(w.big, []int{size, l, cnt, k1, k2, nlong, rest, lost, int(off)})
				}
				if os.Getenv("VERIF_DEBUG") != "" {
					fmt.Fprintf(os.Stderr, "OVERSIZED %s split=%d size=%d leaf=%v prefix=%d nlong=%d rest=%d lost=%d keylens=%v\n",
						op, s.split, size, leaf, plen, nlong, rest, lost, lens)
				}
			}
			if leaf {
				w.nk += cnt
				return
			}
			for i := 0; i <= cnt && i < fan; i++ {
				walk(depth+1, be40(d[1+7*i+2:]))
			}
		}
		walk(0, root)
	})
	return
}

// diagnose is called when MergeAndSave(b) on version from panicked with 'too large': an oversized
// node that a split stores silently and the SAME call then refuses to path-copy is never part of
// a version the node walk could see. The batch is applied again entry by entry (MergeAndSave is
// defined as applying the entries one after the other), walking the stored nodes after every
// entry: step = the entry after which a node above the limit is stored, w = its description
// (step 0: no oversized node was stored before the stepwise application failed or finished).
func (s *scen) diagnose(from int, b []change) (step int, w nodeWalk) {
	bt := s.vers[from-1]
	w.big = [][]int{}
	for i, c := range b {
		done := false
		var bt2 *btree.T
		ok, _ := safely(func() {
			bt2 = bt.MergeAndSave(func() (string, uint64, bool) {
				if done {
					return "", 0, false
				}
				done = true
				return s.keys[c.r-1], flag(c), true
			})
		})
		stats["panics"] -= 1 - ok // counted once, by the batch
		if ok == 0 {
			return 0, w
		}
		w2, ok, _ := s.walkNodes(bt2, "merge-step")
		if ok == 0 {
			return 0, w
		}
		if w2.nover > 0 {
			return i + 1, w2
		}
		bt = bt2
	}
	return 0, w
}

// reopen serializes the btree header (root offset, tree levels) and reads it back, as the
// database does when it loads an index: the new handle must show the same content
func (s *scen) reopen(from int) int {
	sh := s.shadow[from-1]
	n := 0
	for _, id := range sh {
		if id != 0 {
			n++
		}
	}
	var bt *btree.T
	ok, msg := safely(func() {
		buf := make([]byte, 16)
		s.vers[from-1].Write(stor.NewWriter(buf))
		bt = btree.Read(s.st, stor.NewReader(buf), n)
	})
	s.vers = append(s.vers, bt)
	s.shadow = append(s.shadow, sh)
	v := len(s.vers)
	s.tr.Emit(vh.E("Reopen", "from", from, "v", v, "ok", ok, "msg", msg))
	stats["reopens"]++
	if ok == 0 {
		s.dead = true
	}
	return v
}

func flag(c change) uint64 {
	switch c.op {
	case "upd":
		return c.off | ixbuf.Update
	case "del":
		return c.off | ixbuf.Delete
	}
	return c.off
}

// state logs the full observable content of version v
func (s *scen) state(v int) {
	bt := s.vers[v-1]
	look := make([]int, s.K)
	fwd, fwdo, bwd, bwdo := []int{}, []int{}, []int{}, []int{}
	chk := -1
	ok, msg := safely(func() {
		for r := 1; r <= s.K; r++ {
			look[r-1] = s.idOf(bt.Lookup(s.keys[r-1]))
		}
	})
	if ok == 1 {
		ok, msg = safely(func() {
			it := bt.Iterator()
			for it.Next(); !it.Eof() && len(fwd) <= s.K+2; it.Next() {
				k, o := it.Cur()
				fwd = append(fwd, s.rankOf(k))
				fwdo = append(fwdo, s.idOf(o))
			}
			it = bt.Iterator()
			for it.Prev(); !it.Eof() && len(bwd) <= s.K+2; it.Prev() {
				k, o := it.Cur()
				bwd = append(bwd, s.rankOf(k))
				bwdo = append(bwdo, s.idOf(o))
			}
		})
	}
	if ok == 1 {
		ok, msg = safely(func() {
			n, _, _ := bt.Check(nil)
			chk = n
		})
		if ok == 0 {
			msg = "Check: " + msg
		}
	}
	s.tr.Emit(vh.E("State", "v", v, "look", look, "fwd", fwd, "fwdo", fwdo, "bwd", bwd, "bwdo", bwdo,
		"chk", chk, "levels", bt.TreeLevels(), "ok", ok, "msg", msg))
	stats["states"]++
	stats["lookups"] += s.K
}

func (s *scen) chkKeys(v int) {
	bt := s.vers[v-1]
	ks, offs := []int{}, []int{}
	ok, msg := safely(func() {
		bt.Check(func(k string, off uint64) {
			ks = append(ks, s.rankOf(k))
			offs = append(offs, s.idOf(off))
		})
	})
	s.tr.Emit(vh.E("ChkKeys", "v", v, "ks", ks, "offs", offs, "ok", ok, "msg", msg))
}

// walk runs n random iterator operations on version v
func (s *scen) walk(v int, n int) {
	rnd := s.rnd
	bt := s.vers[v-1]
	s.nit++
	id := s.nit
	it := bt.Iterator()
	s.tr.Emit(vh.E("ItNew", "it", id, "v", v))
	for i := 0; i < n; i++ {
		op, k, k2, k3, k4 := "", 0, 0, 0, 0
		x := rnd.Intn(20)
		if s.pfx != nil && rnd.Intn(7) == 0 {
			x = 100
		}
		switch {
		case x == 100: // skip-scan: prefix range, suffix range (ranks into the prefix / suffix tables)
			op = "skip"
			k, k2 = bounds(rnd, s.pfx)
			k3, k4 = bounds(rnd, s.sfx)
		case x < 7:
			op = "next"
		case x < 13:
			op = "prev"
		case x < 16:
			op, k = "seek", rnd.Intn(s.K+2)
		case x < 17:
			op = "rewind"
		default:
			op, k, k2 = "range", rnd.Intn(s.K+2), rnd.Intn(s.K+2)
			if k > k2 && rnd.Intn(4) != 0 {
				k, k2 = k2, k
			}
			if rnd.Intn(6) == 0 {
				k, k2 = 0, s.K+1
			}
		}
		res, off, eof := 0, 0, 0
		ok, msg := safely(func() {
			switch op {
			case "next":
				it.Next()
			case "prev":
				it.Prev()
			case "seek":
				it.Seek(s.keyOf(k))
			case "rewind":
				it.Rewind()
			case "range":
				if k == 0 && k2 == s.K+1 {
					it.Range(iface.All)
				} else {
					it.Range(iface.Range{Org: s.keyOf(k), End: s.keyOf(k2)})
				}
			case "skip":
				it.SkipScan(rangeOf(s.pfx, k, k2), rangeOf(s.sfx, k3, k4), 1)
			}
			if it.Eof() {
				eof = 1
			}
			if it.HasCur() {
				key, o := it.Cur()
				res, off = s.rankOf(key), s.idOf(o)
			}
		})
		s.tr.Emit(vh.E("ItOp", "it", id, "op", op, "k", k, "k2", k2, "k3", k3, "k4", k4, "res", res, "off", off, "eof", eof, "ok", ok, "msg", msg))
		stats["iterops"]++
		if ok == 0 {
			return
		}
	}
}

// bounds picks a non-empty range description org < end over a table of n strings:
// 0 = ixkey.Min, n+1 = ixkey.Max. (Degenerate skip-scan ranges are not generated: with
// End = "" the initial skip group "" collides with an out-of-range empty prefix in Prev,
// see the report; the properties do not cover skip-scan over empty range descriptions.)
func bounds(rnd *rand.Rand, tab []string) (int, int) {
	for {
		o, e := bounds1(rnd, len(tab))
		r := rangeOf(tab, o, e)
		if r.Org < r.End { // rank 0 and rank 1 are the same string when the table starts with ""
			return o, e
		}
	}
}

func bounds1(rnd *rand.Rand, n int) (int, int) {
	switch rnd.Intn(4) {
	case 0:
		return 0, n + 1
	case 1:
		o := rnd.Intn(n + 1)
		return o, min(n+1, o+1+rnd.Intn(2))
	}
	o, e := rnd.Intn(n+2), rnd.Intn(n+2)
	if o > e {
		o, e = e, o
	}
	if o == e {
		if e <= n {
			e++
		} else {
			o--
		}
	}
	return o, e
}

func rangeOf(tab []string, o, e int) iface.Range {
	at := func(i int) string {
		if i <= 0 {
			return ixkey.Min
		}
		if i > len(tab) {
			return ixkey.Max
		}
		return tab[i-1]
	}
	if o == 0 && e == len(tab)+1 {
		return iface.All
	}
	return iface.Range{Org: at(o), End: at(e)}
}

func (s *scen) frac(v int, org, end int) float64 {
	bt := s.vers[v-1]
	var f float64
	ok, msg := safely(func() { f = bt.RangeFrac(s.keyOf(org), s.keyOf(end)) })
	fin, ppm := 1, 0
	switch {
	case math.IsNaN(f) || math.IsInf(f, 0):
		fin = 0
	case f > 2000:
		ppm = 2000000000
	case f < -2000:
		ppm = -2000000000
	default:
		ppm = int(math.Round(f * 1e6))
	}
	s.tr.Emit(vh.E("Frac", "v", v, "org", org, "end", end, "ppm", ppm, "fin", fin, "ok", ok, "msg", msg))
	stats["fracs"]++
	if ok == 1 && fin == 1 && (ppm < 0 || ppm > 1000000) {
		stats["fracs_out_of_range"]++
	}
	return f
}

func (s *scen) fracs(v int, n int) {
	for i := 0; i < n; i++ {
		org, end := s.rnd.Intn(s.K+2), s.rnd.Intn(s.K+2)
		switch s.rnd.Intn(4) {
		case 0: // wide range
			org, end = s.rnd.Intn(1+s.K/10), s.K+1-s.rnd.Intn(1+s.K/10)
		case 1:
			if org > end {
				org, end = end, org
			}
		}
		s.frac(v, org, end)
	}
}

func randSubset(rnd *rand.Rand, K int, p float64, dups bool) []int {
	var rs []int
	for r := 1; r <= K; r++ {
		if rnd.Float64() < p {
			rs = append(rs, r)
			if dups && rnd.Intn(8) == 0 {
				rs = append(rs, r)
				if rnd.Intn(3) == 0 {
					rs = append(rs, r) // a third copy: the duplicate check must survive a refused Add
				}
			}
		}
	}
	return rs
}

// ---------------------------------------------------------------------------------------
// bulk builds that reach the BYTE limit of a leaf before the count limit (C10 size invariant):
// the Builder's leaf size estimate only matters once the keys of a leaf total more than
// maxNodeSize - 7*splitCount = 7492 bytes, i.e. with keys averaging more than ~75 bytes.

func pad(n int, c byte) string { return strings.Repeat(string(c), n) }

// longUniverse makes a sorted key universe of long keys; variant:
//
//	0 groups    runs of keys sharing a long prefix (20..300 bytes); the next run starts with a
//	            different byte, or keeps only a part of the prefix: the key that opens a run
//	            SHORTENS the shared prefix of a leaf that is nearly full by bytes
//	1 nearmax   adjacent keys of 4060..4096 bytes that share little (a leaf holds one of them),
//	            or share a long prefix (a leaf holds two), mixed with short and medium keys
//	2 ragged    150..300 keys of 40..200 bytes over a small alphabet, hardly any sharing
//	3 exact     keys of 70..80 bytes without a common prefix: 100 keys total about 7492 bytes
//	            (the Builder's fast path limit), split 100
//	4 edge      70..100 keys sharing one prefix of 150..300 bytes, plus one key below and one
//	            above them that do not share it (lbuild leaves those two to the first batch: an
//	            insert at the edge of a leaf that shortens its prefix)
func longUniverse(rnd *rand.Rand, variant int) []string {
	set := map[string]bool{}
	add := func(k string) {
		if len(k) <= nastykeys.MaxLen && k < nastykeys.MaxKey {
			set[k] = true
		}
	}
	switch variant {
	case 0:
		ng := 2 + rnd.Intn(4)
		common := ""
		if rnd.Intn(2) == 0 {
			common = pad([]int{5, 30, 100, 200}[rnd.Intn(4)], 'X') // part of the prefix survives
		}
		for g := 0; g < ng; g++ {
			p := []int{20, 40, 60, 60, 100, 150, 200, 254, 255, 256, 300}[rnd.Intn(11)]
			w := []int{16, 24, 40, 40, 60, 100, 150}[rnd.Intn(7)]
			m := 25 + rnd.Intn(90)
			pre := common + pad(p, byte('A'+2*g))
			step := 1 + rnd.Intn(3)
			for i := 0; i < m; i++ {
				add(pre + fmt.Sprintf("%0*d", w, 1000+i*step))
			}
			if rnd.Intn(3) == 0 {
				add(pre) // the prefix itself is a key
			}
		}
	case 1:
		n := 3 + rnd.Intn(5)
		for i := 0; i < n; i++ {
			c := byte('b' + 3*i)
			ln := 4060 + rnd.Intn(37)
			switch rnd.Intn(4) {
			case 0: // nothing shared with the neighbours
				add(string(c) + pad(ln-1, c+1))
			case 1: // two that share all but the end
				add(pad(ln-2, c) + "a")
				add(pad(ln-2, c) + "b")
			case 3: // a run that shares all but the end: adjacent separators of about ln bytes
				q := pad(4088+rnd.Intn(5), c)
				for _, t := range []string{"", "a", "ab", "abc", "b", "c"}[:3+rnd.Intn(4)] {
					add(q + t)
				}
			case 2: // two that share 100..300 bytes
				q := pad(100+rnd.Intn(200), c)
				add(q + pad(ln-len(q), 'm'))
				add(q + pad(ln-len(q)-1, 'n'))
			}
			for j := rnd.Intn(4); j > 0; j-- {
				add(string(c) + fmt.Sprintf("%0*d", 5+rnd.Intn(150), j))
			}
		}
	case 2:
		n := 150 + rnd.Intn(150)
		lo := 40 + rnd.Intn(60)
		for len(set) < n {
			b := make([]byte, lo+rnd.Intn(100))
			for i := range b {
				b[i] = "abcdefgh"[rnd.Intn(8)]
			}
			add(string(b))
		}
	case 4:
		pre := pad([]int{150, 200, 255, 300}[rnd.Intn(4)], 'B')
		for i, m := 0, 70+rnd.Intn(31); i < m; i++ {
			add(pre + fmt.Sprintf("%020d", i))
		}
		add("A" + fmt.Sprintf("%0*d", rnd.Intn(40), 0))
		add("C" + fmt.Sprintf("%0*d", rnd.Intn(40), 0))
	case 3:
		n := 200 + rnd.Intn(150)
		for i := 0; len(set) < n; i++ {
			// first byte spreads over the alphabet: no common prefix in any leaf
			add(string(rune('A'+i%50)) + fmt.Sprintf("%0*d", 69+rnd.Intn(11), i))
		}
	}
	ks := make([]string, 0, len(set))
	for k := range set {
		ks = append(ks, k)
	}
	sort.Strings(ks)
	return ks
}

// lbuild: bulk build over a long-key universe (all keys, or most of them), full observation,
// then a few change batches (which split byte-full leaves and change shared prefixes)
func lbuild(tr *vh.Trace, rnd *rand.Rand, variant int) {
	keys := longUniverse(rnd, variant)
	split := 100 // the production value: fieldsLimit is derived from it at package init
	if variant != 3 && rnd.Intn(4) == 0 {
		split = []int{8, 20, 50}[rnd.Intn(3)]
	}
	if variant == 4 {
		split = 100
	}
	kind := []string{"groups", "nearmax", "ragged", "exact", "edge"}[variant]
	s := newScen(tr, rnd, keys, split, "lbuild/"+kind)
	p := []float64{1, 1, 0.9, 0.6}[rnd.Intn(4)]
	ranks := randSubset(rnd, s.K, p, rnd.Intn(4) == 0)
	if variant == 4 { // everything but the two keys that do not share the prefix
		ranks = ranks[:0]
		for r := 2; r < s.K; r++ {
			ranks = append(ranks, r)
		}
	}
	s.build(ranks)
	if s.dead {
		return
	}
	s.state(1)
	if rnd.Intn(2) == 0 {
		s.chkKeys(1)
	}
	s.walk(1, 10)
	nb := 1 + rnd.Intn(3)
	for i := 0; i < nb && !s.dead; i++ {
		from := len(s.vers)
		b := s.genBatch(from)
		if variant == 4 && i == 0 {
			b = b[:0]
			for _, r := range [][]int{{1}, {s.K}, {1, s.K}}[rnd.Intn(3)] {
				id, off := s.newOff()
				b = append(b, change{r, "add", id, off})
			}
		}
		v := s.merge(from, b)
		if s.dead {
			return
		}
		s.state(v)
		s.walk(v, 6)
	}
}

// generic scenario: build, then nb batches, observing after every batch
func generic(tr *vh.Trace, rnd *rand.Rand, kind string, K int, style nastykeys.Style, split int, nb int, walkLen int) {
	keys := nastykeys.Universe(rnd, K, style)
	s := newScen(tr, rnd, keys, split, kind+"/"+style.String())
	p := []float64{0, 0.3, 0.6, 1}[rnd.Intn(4)]
	s.build(randSubset(rnd, s.K, p, rnd.Intn(3) == 0))
	if s.dead {
		return
	}
	s.state(1)
	s.chkKeys(1)
	s.walk(1, walkLen)
	s.fracs(1, 3)
	for i := 0; i < nb && !s.dead; i++ {
		from := len(s.vers)
		if rnd.Intn(6) == 0 {
			from = 1 + rnd.Intn(len(s.vers)) // branch off an older version (persistence)
		}
		v := s.merge(from, s.genBatch(from))
		if s.vers[v-1] == nil {
			return
		}
		s.state(v)
		if rnd.Intn(4) == 0 {
			s.state(from) // the old version must be unchanged
		}
		if rnd.Intn(5) == 0 && !s.dead {
			v = s.reopen(v) // becomes the latest version
			if s.dead {
				return
			}
			s.state(v)
		}
		if rnd.Intn(3) == 0 {
			s.chkKeys(v)
		}
		if s.dead {
			return
		}
		s.walk(v, walkLen)
		s.fracs(v, 3)
	}
}

// big scenario (F13 hunting ground): production-like split factor, many keys, bulk build,
// then deletes (siblings are never merged) and wide RangeFrac queries
func big(tr *vh.Trace, rnd *rand.Rand) {
	K := 300 + rnd.Intn(500)
	if vh.Thorough() {
		K = 700 + rnd.Intn(1400)
	}
	split := []int{100, 100, 60}[rnd.Intn(3)]
	style := []nastykeys.Style{nastykeys.Numeric, nastykeys.Numeric, nastykeys.Alphabet}[rnd.Intn(3)]
	keys := nastykeys.Universe(rnd, K, style)
	s := newScen(tr, rnd, keys, split, "big/"+style.String())
	s.build(randSubset(rnd, s.K, 1, false))
	if s.dead {
		return
	}
	s.state(1)
	s.fracs(1, 20)
	nb := 1 + rnd.Intn(3)
	for i := 0; i < nb && !s.dead; i++ {
		// delete a random 20-60 % of what is there, unevenly (some regions nearly emptied)
		from := len(s.vers)
		sh := s.shadow[from-1]
		var b []change
		p := 0.2 + 0.4*rnd.Float64()
		a, z := rnd.Intn(s.K), rnd.Intn(s.K)
		if a > z {
			a, z = z, a
		}
		for r := 1; r <= s.K; r++ {
			q := p
			if r >= a && r <= z {
				q = 0.9
			}
			if sh[r-1] != 0 && rnd.Float64() < q {
				b = append(b, change{r, "del", sh[r-1], nastykeys.OffOf(sh[r-1])})
			}
		}
		if len(b) == 0 {
			continue
		}
		v := s.merge(from, b)
		if s.dead {
			return
		}
		s.fracs(v, 40)
		if i == nb-1 {
			s.state(v)
			s.walk(v, 30)
		}
	}
}

// enumeration: K = 4, split 2: every initial key set x every valid batch (one offset per change);
// part selects a slice of the initial sets so that quick runs can sample
func enum(tr *vh.Trace, rnd *rand.Rand, first bool, initMask int) {
	K := 4
	keys := nastykeys.Universe(rnd, K, nastykeys.Style(rnd.Intn(int(nastykeys.NStyles))))
	if len(keys) < K {
		keys = nastykeys.Universe(rnd, K, nastykeys.Alphabet)
	}
	var init []int
	for r := 1; r <= K; r++ {
		if initMask&(1<<(r-1)) != 0 {
			init = append(init, r)
		}
	}
	// per key: 0 nothing, 1 change kind A (add | upd), 2 change kind B (del) if present
	n := 1
	for i := 0; i < K; i++ {
		n *= 3
	}
	for code := 1; code < n; code++ {
		if !first {
			tr.Reset()
		}
		first = false
		s := newScen(tr, rnd, keys, 2, "enum")
		s.build(init)
		sh := s.shadow[0]
		var b []change
		c, valid := code, true
		for r := 1; r <= K; r++ {
			d := c % 3
			c /= 3
			switch {
			case d == 0:
			case sh[r-1] == 0 && d == 1:
				id, off := s.newOff()
				b = append(b, change{r, "add", id, off})
			case sh[r-1] != 0 && d == 1:
				id, off := s.newOff()
				b = append(b, change{r, "upd", id, off})
			case sh[r-1] != 0 && d == 2:
				b = append(b, change{r, "del", sh[r-1], nastykeys.OffOf(sh[r-1])})
			default:
				valid = false
			}
		}
		if !valid || len(b) == 0 {
			s.tr.Emit(vh.E("Note", "what", "skip", "n", code))
			continue
		}
		v := s.merge(1, b)
		if !s.dead {
			s.state(v)
			s.state(1)
		}
	}
}

func atoi(s string) int { n, _ := strconv.Atoi(s); return n }

func main() {
	if len(os.Args) < 7 {
		vh.Fatal("usage: btree <trace> <nsmall> <nmedium> <nbig> <nlong> <nenum> [<nlbuild>]")
	}
	out := os.Args[1]
	nsmall, nmed, nbig, nlong, nenum := atoi(os.Args[2]), atoi(os.Args[3]), atoi(os.Args[4]), atoi(os.Args[5]), atoi(os.Args[6])
	nlbuild := 0
	if len(os.Args) > 7 {
		nlbuild = atoi(os.Args[7])
	}
	rnd := rand.New(rand.NewSource(vh.Seed()*7919 + 10))
	tr := vh.Create(out)
	defer tr.Close()
	defer btree.SetSplit(100)
	first := true
	reset := func() {
		if !first {
			tr.Reset()
		}
		first = false
	}
	styles := []nastykeys.Style{nastykeys.Mixed, nastykeys.Alphabet, nastykeys.Mixed, nastykeys.Numeric, nastykeys.LongPfx, nastykeys.Composite}
	for i := 0; i < nbig; i++ {
		reset()
		big(tr, rnd)
	}
	for i := 0; i < nsmall; i++ {
		reset()
		K := 3 + rnd.Intn(14)
		split := []int{2, 2, 3, 3, 4}[rnd.Intn(5)]
		generic(tr, rnd, "small", K, styles[rnd.Intn(len(styles))], split, 6+rnd.Intn(10), 12)
	}
	for i := 0; i < nmed; i++ {
		reset()
		K := 30 + rnd.Intn(90)
		split := []int{3, 4, 5, 8, 16, 100}[rnd.Intn(6)]
		generic(tr, rnd, "medium", K, styles[rnd.Intn(len(styles))], split, 4+rnd.Intn(6), 25)
	}
	for i := 0; i < nlong; i++ {
		reset()
		K := 12 + rnd.Intn(40)
		split := []int{3, 5, 100, 200}[rnd.Intn(4)]
		generic(tr, rnd, "long", K, nastykeys.LongPfx, split, 4+rnd.Intn(6), 10)
	}
	// (own generator so that the scenarios above are the same with and without these)
	rnd2 := rand.New(rand.NewSource(vh.Seed()*104729 + 11))
	for i := 0; i < nlbuild; i++ {
		reset()
		lbuild(tr, rnd2, []int{0, 1, 0, 2, 4, 3}[i%6])
	}
	for i := 0; i < nenum; i++ {
		// nenum >= 16 covers every initial key set over 4 keys; smaller values sample
		mask := i % 16
		if nenum < 16 {
			mask = rnd.Intn(16)
		}
		enum(tr, rnd, first, mask)
		first = false
	}
	kv := []any{"events", tr.N}
	names := make([]string, 0, len(stats))
	for k := range stats {
		names = append(names, k)
	}
	sort.Strings(names)
	for _, k := range names {
		kv = append(kv, k, stats[k])
	}
	vh.Summary(kv...)
}
