package main

import (
	"fmt"

	_ "github.com/apmckinlay/gsuneido/builtin"
	"github.com/apmckinlay/gsuneido/compile"
	"github.com/apmckinlay/gsuneido/core"
)

func ev(th *core.Thread, src string) (res string) {
	defer func() {
		if e := recover(); e != nil {
			res = fmt.Sprint("PANIC ", e)
		}
	}()
	v := compile.EvalString(th, src)
	return fmt.Sprintf("%v (%T)", v, v)
}

func main() {
	th := &core.Thread{}
	for _, s := range []string{
		"#20171015",
		"#20171014.Plus(days: 1)",
		"#20171014.Plus(days: 2)",
		"#20171016.MinusDays(#20171014)",
		"#20171016.MinusSeconds(#20171014)",
		"#20111230",
		"#20111229.Plus(days: 1)",
		"Date('2017-10-15')",
	} {
		fmt.Println(s, "=>", ev(th, s))
	}
}
