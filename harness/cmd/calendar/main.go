// Driver for C33: calls the REAL date code (core.SuDate: NewDate, Plus, MinusDays,
// MinusMs, Compare, String, DateFromLiteral; and through compile.EvalString the
// Suneido level: date literals, date.Plus(years:, ...), date.MinusDays,
// date.MinusSeconds, <, is, Display) on the boundary grid of spec/mc/MC_Calendar.tla
// and on seeded random dates/offsets, and logs inputs and results as small integers
// (a date-time is [year, month, day, hour, minute, second, millisecond]) for
// spec/trace/TraceCalendar.tla.
//
// No expected value is computed here. The only arithmetic of the driver is the
// splitting of 64-bit millisecond/second counts into days and a remainder (TLC has
// 32-bit integers): offsets as xd*86400000 + ms, differences as mq*86400000 + mr.
//
// usage: calendar run <outdir> <scale>      -> <outdir>/main.ndjson, <outdir>/bigms.ndjson
//
//	calendar tz <out.ndjson>            (TZ set by the caller) dates around local DST changes
//	calendar replay <in.ndjson> <out.ndjson>   re-executes the inputs of a recorded trace
package main

import (
	"bufio"
	"encoding/json"
	"fmt"
	"math/rand"
	"os"
	"path/filepath"
	"strconv"
	"strings"
	"time"

	_ "github.com/apmckinlay/gsuneido/builtin"
	"github.com/apmckinlay/gsuneido/compile"
	"github.com/apmckinlay/gsuneido/core"
	"github.com/apmckinlay/gsuneido/util/dnum"

	"verifharness/vh"
)

const msPerDay = 86400000

var (
	rnd    *rand.Rand
	th     *core.Thread
	counts = map[string]int{}
	tzRun  = 0
	zone   = "" // TZ of a tz run (replay needs it)
)

type dt [7]int  // year, month, day, hour, minute, second, millisecond
type off [7]int // years .. milliseconds (64-bit here; split before logging)

func (d dt) sl() []int { return d[:] }

func fields(d core.SuDate) []int {
	return []int{d.Year(), d.Month(), d.Day(), d.Hour(), d.Minute(), d.Second(), d.Millisecond()}
}

func mk(d dt) core.SuDate {
	return core.NewDate(d[0], d[1], d[2], d[3], d[4], d[5], d[6])
}

// floor division
func fdiv(a, b int64) (q, r int64) {
	q, r = a/b, a%b
	if r < 0 {
		q--
		r += b
	}
	return
}

// guard runs f; a panic of the code under test is returned as text
func guard(f func()) (p string) {
	defer func() {
		if e := recover(); e != nil {
			p = fmt.Sprint(e)
		}
	}()
	f()
	return ""
}

func eval(src string) (v core.Value, p string) {
	p = guard(func() { v = compile.EvalString(th, src) })
	if p != "" {
		th.Reset() // an exception leaves frames on the thread's stack
	}
	return
}

func ints(s string) []int {
	r := make([]int, len(s))
	for i := 0; i < len(s); i++ {
		r[i] = int(s[i])
	}
	return r
}

// ---------------------------------------------------------------- differences

// diff computes a.MinusDays(b), a.MinusMs(b) split into days and ms, and the order
// of a and b, at Go level (via 0) or Suneido level (via 1)
func diff(via int, a, b core.SuDate) (ok int, md int, mq, mr int64, cmp int) {
	if via == 0 {
		var ms int64
		if p := guard(func() {
			md = a.MinusDays(b)
			ms = a.MinusMs(b)
			cmp = a.Compare(b)
		}); p != "" {
			return 0, 0, 0, 0, 0
		}
		mq, mr = fdiv(ms, msPerDay)
		return 1, md, mq, mr, cmp
	}
	as, bs := a.String(), b.String()
	v, p := eval(as + ".MinusDays(" + bs + ")")
	if p != "" {
		return 0, 0, 0, 0, 0
	}
	md = core.ToInt(v)
	var ms int64
	yd := a.Year() - b.Year()
	if yd < 50 && yd > -50 {
		// date.MinusSeconds refuses intervals of 50 years or more; seconds with ms accuracy
		v, p = eval(as + ".MinusSeconds(" + bs + ")")
		if p != "" {
			return 0, 0, 0, 0, 0
		}
		n, exact := dnum.Mul(core.ToDnum(v), dnum.FromInt(1000)).ToInt64()
		if !exact {
			// not a whole number of milliseconds: log something that cannot be right
			return 1, md, -999999, -1, 0
		}
		ms = n
	} else {
		ms = a.MinusMs(b)
	}
	mq, mr = fdiv(ms, msPerDay)
	lt, p1 := eval(as + " < " + bs)
	eq, p2 := eval(as + " is " + bs)
	gt, p3 := eval(as + " > " + bs)
	if p1 != "" || p2 != "" || p3 != "" {
		return 0, 0, 0, 0, 0
	}
	n := 0
	cmp = 9
	if lt == core.True {
		cmp, n = -1, n+1
	}
	if eq == core.True {
		cmp, n = 0, n+1
	}
	if gt == core.True {
		cmp, n = 1, n+1
	}
	if n != 1 {
		cmp = 9 // not exactly one of <, is, > holds
	}
	return 1, md, mq, mr, cmp
}

// ---------------------------------------------------------------- events

var names = []string{"years", "months", "days", "hours", "minutes", "seconds", "milliseconds"}

// split makes the offsets fit 32 bits: whole days of too large millisecond / second
// offsets are moved to xd
func split(o off) (lo []int, xd int, xu int) {
	lo = make([]int, 7)
	for i := range o {
		lo[i] = o[i]
	}
	const lim = 2000000000
	if o[6] > lim || o[6] < -lim {
		q, r := fdiv(int64(o[6]), msPerDay)
		xd += int(q)
		lo[6] = int(r)
		xu = 6
	}
	if o[5] > lim || o[5] < -lim {
		q, r := fdiv(int64(o[5]), 86400)
		xd += int(q)
		lo[5] = int(r)
		if xu != 0 {
			vh.Fatal("only one of seconds/milliseconds may exceed 32 bits: %v", o)
		}
		xu = 5
	}
	return
}

func abs(x int) int {
	if x < 0 {
		return -x
	}
	return x
}

// bounded mirrors Calendar!Bounded (the model's 32-bit arithmetic); the driver only
// generates such offsets
func bounded(lo []int, xd int) bool {
	return abs(lo[0]) <= 5000 && abs(lo[1]) <= 60000 && abs(lo[2]) <= 1000000 && abs(xd) <= 1000000 &&
		abs(lo[3]) <= 20000000 && abs(lo[4]) <= 1000000000 && abs(lo[5]) <= 2000000000 && abs(lo[6]) <= 2000000000
}

func emitPlus(tr *vh.Trace, via int, d dt, o off) {
	lo, xd, xu := split(o)
	if !bounded(lo, xd) {
		vh.Fatal("driver generated an offset outside the model's bounds: %v", o)
	}
	sd := mk(d)
	if sd == core.NilDate {
		// the input itself is refused by the real code (only seen for the local time zone finding)
		tr.Emit(vh.E("Plus", "via", via, "tz", tzRun, "zn", zone, "d", d.sl(), "o", lo, "xd", xd, "xu", xu, "ok", 0,
			"r", []int{}, "md", 0, "mq", 0, "mr", 0, "cmp", 0))
		counts["Plus"]++
		return
	}
	var r core.SuDate
	ok := 1
	if via == 0 {
		if p := guard(func() { r = sd.Plus(o[0], o[1], o[2], o[3], o[4], o[5], o[6]) }); p != "" {
			ok = 0
		}
	} else {
		var args []string
		for i, n := range o {
			if n != 0 || rnd.Intn(8) == 0 {
				args = append(args, names[i]+": "+strconv.Itoa(n))
			}
		}
		rnd.Shuffle(len(args), func(i, j int) { args[i], args[j] = args[j], args[i] })
		v, p := eval(sd.String() + ".Plus(" + strings.Join(args, ", ") + ")")
		if p != "" {
			ok = 0
		} else if x, isDate := v.(core.SuDate); isDate {
			r = x
		} else {
			ok = 0
		}
	}
	if ok == 0 {
		tr.Emit(vh.E("Plus", "via", via, "tz", tzRun, "zn", zone, "d", d.sl(), "o", lo, "xd", xd, "xu", xu, "ok", 0,
			"r", []int{}, "md", 0, "mq", 0, "mr", 0, "cmp", 0))
		counts["Plus"]++
		return
	}
	dok, md, mq, mr, cmp := diff(via, r, sd)
	if dok == 0 {
		md, mq, mr, cmp = -999999, -999999, -1, 9 // a difference of two dates must not fail
	}
	tr.Emit(vh.E("Plus", "via", via, "tz", tzRun, "zn", zone, "d", d.sl(), "o", lo, "xd", xd, "xu", xu, "ok", 1,
		"r", fields(r), "md", md, "mq", mq, "mr", mr, "cmp", cmp))
	counts["Plus"]++
}

func emitDiff(tr *vh.Trace, via int, a, b dt) {
	sa, sb := mk(a), mk(b)
	if sa == core.NilDate || sb == core.NilDate {
		tr.Emit(vh.E("Diff", "via", via, "tz", tzRun, "zn", zone, "a", a.sl(), "b", b.sl(), "ok", 0, "md", 0, "mq", 0, "mr", 0, "cmp", 0))
		counts["Diff"]++
		return
	}
	ok, md, mq, mr, cmp := diff(via, sa, sb)
	tr.Emit(vh.E("Diff", "via", via, "tz", tzRun, "zn", zone, "a", a.sl(), "b", b.sl(), "ok", ok, "md", md, "mq", mq, "mr", mr, "cmp", cmp))
	counts["Diff"]++
}

// emitValid: does the real code accept the seven fields as a date (NewDate)?
func emitValid(tr *vh.Trace, d dt) {
	ok := 0
	if mk(d) != core.NilDate {
		ok = 1
	}
	tr.Emit(vh.E("Valid", "tz", tzRun, "zn", zone, "d", d.sl(), "ok", ok))
	counts["Valid"]++
}

// emitLit: the literal text of a date (String / Display) and what it parses back to
func emitLit(tr *vh.Trace, via int, d dt) {
	sd := mk(d)
	if sd == core.NilDate {
		tr.Emit(vh.E("Lit", "via", via, "tz", tzRun, "zn", zone, "d", d.sl(), "s", []int{}, "ok", 0, "p", []int{}))
		counts["Lit"]++
		return
	}
	var s string
	var back core.Value
	if via == 0 {
		s = sd.String()
		if p := guard(func() { back = core.DateFromLiteral(s) }); p != "" {
			back = nil
		}
	} else {
		v, p := eval("Display(" + sd.String() + ")")
		if p == "" {
			s = core.ToStr(v)
		}
		back, _ = eval(s)
	}
	if bd, isDate := back.(core.SuDate); isDate && bd != core.NilDate {
		tr.Emit(vh.E("Lit", "via", via, "tz", tzRun, "zn", zone, "d", d.sl(), "s", ints(s), "ok", 1, "p", fields(bd)))
	} else {
		tr.Emit(vh.E("Lit", "via", via, "tz", tzRun, "zn", zone, "d", d.sl(), "s", ints(s), "ok", 0, "p", []int{}))
	}
	counts["Lit"]++
}

// emitParse: a literal text made by the driver (all four forms, also impossible dates)
func emitParse(tr *vh.Trace, via int, s string) {
	var v core.Value
	if via == 0 {
		if p := guard(func() { v = core.DateFromLiteral(s) }); p != "" {
			v = nil
		}
	} else if via == 1 {
		v, _ = eval(s) // the lexer's date literal
	} else {
		v, _ = eval("Date('" + s + "')") // Date(string) with a literal
	}
	if d, isDate := v.(core.SuDate); isDate && d != core.NilDate {
		tr.Emit(vh.E("Parse", "via", via, "tz", tzRun, "zn", zone, "s", ints(s), "ok", 1, "p", fields(d)))
	} else {
		tr.Emit(vh.E("Parse", "via", via, "tz", tzRun, "zn", zone, "s", ints(s), "ok", 0, "p", []int{}))
	}
	counts["Parse"]++
}

// ---------------------------------------------------------------- inputs

var gridYears = []int{1700, 1899, 1900, 2000, 2023, 2024, 2999, 3000}
var gridDays = []int{1, 28, 29, 30, 31}
var gridTimes = [][4]int{{12, 34, 56, 789}, {0, 0, 0, 0}, {23, 59, 59, 999}, {0, 0, 0, 1}, {23, 59, 59, 0}, {0, 59, 0, 999}}

// gridDates: the dates of the MC grid that the real code accepts as dates
func gridDates() []dt {
	var r []dt
	for _, y := range gridYears {
		for m := 1; m <= 12; m++ {
			for _, d := range gridDays {
				if core.NewDate(y, m, d, 0, 0, 0, 0) != core.NilDate {
					r = append(r, dt{y, m, d, 0, 0, 0, 0})
				}
			}
		}
	}
	return r
}

func withTime(d dt, t [4]int) dt {
	if d[0] == 3000 {
		return d // 3000-01-01 00:00:00.000 is the only value of that year
	}
	d[3], d[4], d[5], d[6] = t[0], t[1], t[2], t[3]
	return d
}

func pm(xs ...int) []int {
	r := append([]int{}, xs...)
	for _, x := range xs {
		r = append(r, -x)
	}
	return r
}

var (
	offYears   = pm(1, 4, 5, 99, 100, 101, 400, 1300)
	offHours   = pm(1, 23, 24, 25, 49, 8760)
	offMinutes = pm(1, 59, 60, 61, 1439, 1440, 1441)
	offSeconds = pm(1, 59, 60, 61, 3599, 3600, 3601, 86399, 86400, 86401, 31622400)
	offMs      = pm(1, 211, 212, 999, 1000, 1001, 59999, 60000, 60001, 3599999, 3600000, 3600001,
		86399999, 86400000, 86400001, 2000000000)
	dayBounds = pm(0, 1, 2, 27, 28, 29, 30, 31, 32, 58, 59, 60, 61, 62, 89, 90, 91, 92, 364, 365, 366, 367, 729, 730, 731, 732, 799, 800)
)

func one(i, n int) off {
	var o off
	o[i] = n
	return o
}

func pick(xs []int) int { return xs[rnd.Intn(len(xs))] }

// sample returns k distinct elements of xs (all if k >= len)
func sample(xs []int, k int) []int {
	if k >= len(xs) {
		return xs
	}
	p := rnd.Perm(len(xs))[:k]
	r := make([]int, k)
	for i, j := range p {
		r[i] = xs[j]
	}
	return r
}

func via() int {
	if rnd.Intn(3) == 0 {
		return 1
	}
	return 0
}

func randTime() [4]int {
	switch rnd.Intn(6) {
	case 0:
		return [4]int{0, 0, 0, 0}
	case 1:
		return [4]int{23, 59, 59, 999}
	case 2:
		return [4]int{pick([]int{0, 23}), pick([]int{0, 59}), pick([]int{0, 59}), pick([]int{0, 1, 999})}
	case 3:
		return [4]int{rnd.Intn(24), rnd.Intn(60), 0, 0}
	case 4:
		return [4]int{rnd.Intn(24), rnd.Intn(60), rnd.Intn(60), 0}
	}
	return [4]int{rnd.Intn(24), rnd.Intn(60), rnd.Intn(60), rnd.Intn(1000)}
}

// randDate: a date of the supported range accepted by the real code, biased to
// month ends, leap days and century years
func randDate() dt {
	for {
		var y int
		switch rnd.Intn(5) {
		case 0:
			y = pick([]int{1700, 1701, 1799, 1800, 1900, 1999, 2000, 2001, 2100, 2400, 2800, 2900, 2996, 2999})
		case 1:
			y = 1900 + rnd.Intn(200)
		default:
			y = 1700 + rnd.Intn(1300)
		}
		m := 1 + rnd.Intn(12)
		if rnd.Intn(4) == 0 {
			m = pick([]int{1, 2, 2, 3, 12})
		}
		d := 1 + rnd.Intn(31)
		if rnd.Intn(3) == 0 {
			d = pick([]int{1, 28, 29, 30, 31})
		}
		x := withTime(dt{y, m, d, 0, 0, 0, 0}, randTime())
		if mk(x) != core.NilDate {
			return x
		}
	}
}

func randMag(limit int) int {
	var n int
	switch rnd.Intn(4) {
	case 0:
		n = rnd.Intn(3)
	case 1:
		n = rnd.Intn(100)
	case 2:
		n = rnd.Intn(10000)
	default:
		n = rnd.Intn(limit)
	}
	if n > limit {
		n = limit
	}
	if rnd.Intn(2) == 0 {
		n = -n
	}
	return n
}

// randOffset: one to seven fields set
func randOffset() off {
	var o off
	lim := []int{300, 3000, 100000, 2000000, 100000000, 2000000000, 2000000000}
	n := 1
	if rnd.Intn(2) == 0 {
		n = 1 + rnd.Intn(7)
	}
	for ; n > 0; n-- {
		i := rnd.Intn(7)
		o[i] = randMag(lim[i])
	}
	return o
}

func literalForms(d dt) []string {
	date := fmt.Sprintf("%04d%02d%02d", d[0], d[1], d[2])
	return []string{
		"#" + date,
		"#" + date + fmt.Sprintf(".%02d%02d", d[3], d[4]),
		"#" + date + fmt.Sprintf(".%02d%02d%02d", d[3], d[4], d[5]),
		"#" + date + fmt.Sprintf(".%02d%02d%02d%03d", d[3], d[4], d[5], d[6]),
	}
}

// ---------------------------------------------------------------- run

func run(outdir string, scale int) {
	tr := vh.Create(filepath.Join(outdir, "main.ndjson"))
	grid := gridDates()
	seed := int(vh.Seed())
	nDays, nOther, nCombo := 10, 3, 3
	if scale >= 4 {
		nDays, nOther, nCombo = 40, 8, 12
	}
	// 0. which field combinations of the grid (and random ones) are dates at all
	for _, y := range gridYears {
		for m := 1; m <= 12; m++ {
			for _, d := range gridDays {
				emitValid(tr, dt{y, m, d, 0, 0, 0, 0})
				emitValid(tr, withTime(dt{y, m, d, 0, 0, 0, 0}, randTime()))
			}
		}
	}
	for i := 0; i < 300*scale; i++ {
		y := 1700 + rnd.Intn(1301)
		if rnd.Intn(3) == 0 {
			y = 100 * (17 + rnd.Intn(14))
		}
		t := randTime()
		emitValid(tr, dt{y, pick([]int{1, 2, 2, 2, 4, 6, 9, 11, 12}), pick([]int{1, 28, 29, 29, 30, 31}), t[0], t[1], t[2], t[3]})
	}
	// 1. the boundary grid of MC_Calendar: every grid date, the time of day rotating with
	// the seed; all month offsets -25..25; seeded samples of the other offset sets
	for gi, g := range grid {
		t := gridTimes[(gi+seed)%len(gridTimes)]
		d := withTime(g, t)
		d0 := withTime(g, gridTimes[0])
		for m := -25; m <= 25; m++ {
			if scale >= 4 || g[2] >= 29 || (m+25+gi+seed)%3 == 0 {
				emitPlus(tr, via(), d0, one(1, m))
			}
		}
		for _, y := range sample(offYears, 2*nOther) {
			emitPlus(tr, via(), d0, one(0, y))
		}
		for _, n := range sample(dayBounds, nDays) {
			emitPlus(tr, via(), d, one(2, n))
		}
		for i := 0; i < nDays/2; i++ {
			emitPlus(tr, via(), d, one(2, rnd.Intn(1601)-800))
		}
		for _, n := range sample(offHours, nOther) {
			emitPlus(tr, via(), d, one(3, n))
		}
		for _, n := range sample(offMinutes, nOther) {
			emitPlus(tr, via(), d, one(4, n))
		}
		for _, n := range sample(offSeconds, nOther) {
			emitPlus(tr, via(), d, one(5, n))
		}
		for _, n := range sample(offMs, 2*nOther) {
			emitPlus(tr, via(), d, one(6, n))
		}
		for i := 0; i < nCombo; i++ {
			emitPlus(tr, via(), d, off{pick([]int{-1, 0, 1}), pick([]int{-13, -1, 0, 1, 13}), pick([]int{-31, 0, 1, 31}),
				pick([]int{-25, 0, 25}), pick([]int{0, 61}), pick([]int{0, -61}), pick([]int{-1, 0, 1000})})
		}
		emitLit(tr, gi%2, d)
		if gi%4 == seed%4 {
			for _, s := range literalForms(d) {
				emitParse(tr, rnd.Intn(3), s)
			}
			emitDiff(tr, via(), d, withTime(grid[rnd.Intn(len(grid))], gridTimes[rnd.Intn(len(gridTimes))]))
		}
	}
	// days that do not exist, systematically: 29 February of every non-leap century and
	// of the years around the seed, day 30/31 of short months
	for y := 1700; y < 3000; y += 100 {
		for _, md := range [][2]int{{2, 29}, {2, 30}, {4, 31}, {2, 28}, {3, 1}} {
			emitParse(tr, rnd.Intn(3), literalForms(dt{y, md[0], md[1], 0, 0, 0, 0})[0])
		}
		yy := y + 1 + (seed*7+y/100)%99
		for _, md := range [][2]int{{2, 29}, {2, 30}, {6, 31}, {9, 31}, {11, 31}} {
			emitParse(tr, rnd.Intn(3), literalForms(withTime(dt{yy, md[0], md[1], 0, 0, 0, 0}, randTime()))[rnd.Intn(4)])
		}
	}
	tr.Reset()
	// 2. seeded random dates and offsets
	nr := 1500 * scale
	for i := 0; i < nr; i++ {
		emitPlus(tr, via(), randDate(), randOffset())
	}
	// large second offsets (beyond 32 bits: split into days + seconds by the driver)
	for i := 0; i < nr/20; i++ {
		d := randDate()
		s := rnd.Int63n(41000000000)
		if d[0] > 2350 {
			s = -s
		}
		emitPlus(tr, via(), d, one(5, int(s)))
	}
	for i := 0; i < nr/3; i++ {
		a := randDate()
		b := randDate()
		switch rnd.Intn(4) {
		case 0: // same day
			b = withTime(a, randTime())
		case 1: // near
			if x, isDate := guardPlus(mk(a), off{0, 0, rnd.Intn(5) - 2, rnd.Intn(49) - 24, 0, rnd.Intn(3) - 1, rnd.Intn(3) - 1}); isDate {
				b = x
			}
		}
		emitDiff(tr, via(), a, b)
	}
	for i := 0; i < nr/3; i++ {
		emitLit(tr, rnd.Intn(2), randDate())
	}
	// literal texts: every form, also days that do not exist
	for i := 0; i < nr/3; i++ {
		d := randDate()
		if rnd.Intn(3) == 0 {
			y := pick([]int{1700, 1800, 1900, 2000, 2023, 2024, 2100, 2400, 2999})
			if rnd.Intn(2) == 0 {
				y = 1700 + rnd.Intn(1300)
			}
			d = dt{y, pick([]int{2, 2, 4, 6, 9, 11, 1, 12}), pick([]int{28, 29, 30, 31}), d[3], d[4], d[5], d[6]}
		}
		emitParse(tr, rnd.Intn(3), literalForms(d)[rnd.Intn(4)])
	}

	// 3. millisecond offsets beyond 32 bits (split into days + ms by the driver), up to
	// the whole supported range. Offsets of more than 9.2e12 ms (292 years) go to a file
	// of their own, validated separately.
	tb := vh.Create(filepath.Join(outdir, "bigms.ndjson"))
	const safe = 9200000000000
	steps := []int64{2147483648, 4294967296, 86400000000, 1000000000000, 9000000000000, 9223372036854,
		9223372036855, 9300000000000, 10000000000000, 20000000000000, 40000000000000}
	for _, ms := range steps {
		t := tr
		if ms > safe {
			t = tb
		}
		emitPlus(t, 0, dt{1700, 1, 1, 0, 0, 0, 0}, one(6, int(ms)))
		emitPlus(t, 1, dt{1700, 1, 1, 0, 0, 0, 0}, one(6, int(ms)))
		emitPlus(t, 0, dt{2999, 12, 31, 23, 59, 59, 999}, one(6, int(-ms)))
		emitPlus(t, 1, dt{2999, 12, 31, 23, 59, 59, 999}, one(6, int(-ms)))
	}
	for i := 0; i < 100*scale; i++ {
		d := randDate()
		t := tr
		var ms int64
		if rnd.Intn(2) == 0 {
			ms = 2000000001 + rnd.Int63n(safe-2000000001)
		} else {
			ms = safe + 1 + rnd.Int63n(41000000000000-safe)
			t = tb
		}
		if d[0] > 2350 {
			ms = -ms
		}
		emitPlus(t, via(), d, one(6, int(ms)))
	}
	tr.Close()
	tb.Close()
	summary()
}

func guardPlus(d core.SuDate, o off) (r dt, ok bool) {
	var x core.SuDate
	if p := guard(func() { x = d.Plus(o[0], o[1], o[2], o[3], o[4], o[5], o[6]) }); p != "" {
		return r, false
	}
	if x.Year() < 1700 {
		return r, false
	}
	copy(r[:], fields(x))
	return r, true
}

func summary() {
	kv := []any{"seed", vh.Seed(), "tz", os.Getenv("TZ"), "local", time.Local.String()}
	for _, k := range []string{"Valid", "Plus", "Diff", "Lit", "Parse"} {
		kv = append(kv, k, counts[k])
	}
	vh.Summary(kv...)
}

// ---------------------------------------------------------------- tz

// tz: the process runs with TZ set by the caller. SuDate is documented as "does not take
// into account time zones or daylight savings": every calendar date must be accepted and
// computed with whatever the local zone is. Inputs: the days on which the local zone
// changes its offset (found with Go's time package - input selection only), their
// neighbours, and additions that land on them.
func tz(out string) {
	tzRun = 1
	zone = os.Getenv("TZ")
	if time.Local.String() != zone {
		vh.Fatal("time zone %q not loaded (local = %s)", zone, time.Local)
	}
	tr := vh.Create(out)
	loc := time.Local
	var days []dt
	t := time.Date(1900, 1, 1, 12, 0, 0, 0, time.UTC)
	end := time.Date(2040, 1, 1, 12, 0, 0, 0, time.UTC)
	_, prev := t.In(loc).Zone()
	for ; t.Before(end); t = t.Add(24 * time.Hour) {
		_, o := t.In(loc).Zone()
		if o != prev {
			for k := -1; k <= 0; k++ {
				x := t.Add(time.Duration(k) * 24 * time.Hour)
				days = append(days, dt{x.Year(), int(x.Month()), x.Day(), 0, 0, 0, 0})
			}
		}
		prev = o
	}
	if len(days) > 400 {
		p := rnd.Perm(len(days))[:400]
		var sel []dt
		for _, i := range p {
			sel = append(sel, days[i])
		}
		days = sel
	}
	for _, d := range days {
		emitValid(tr, d)
		for _, s := range literalForms(d)[:1] {
			emitParse(tr, 0, s)
			emitParse(tr, 1+rnd.Intn(2), s)
		}
		emitLit(tr, rnd.Intn(2), d)
		// land on d from a day, a month and an hour away
		for _, o := range []off{one(2, 1), one(2, -1), one(1, 1), one(3, -24), one(6, 1)} {
			var neg off
			for i := range o {
				neg[i] = -o[i]
			}
			if from, ok := guardPlusUTC(d, neg); ok {
				emitPlus(tr, via(), from, o)
			}
		}
		emitPlus(tr, via(), withTime(d, randTime()), one(3, rnd.Intn(49)-24))
		emitDiff(tr, via(), d, withTime(randDate(), randTime()))
	}
	for i := 0; i < 300; i++ {
		emitPlus(tr, via(), randDate(), randOffset())
		emitLit(tr, rnd.Intn(2), randDate())
	}
	tr.Close()
	vh.Summary("seed", vh.Seed(), "tz", os.Getenv("TZ"), "local", time.Local.String(), "changedays", len(days),
		"Valid", counts["Valid"], "Plus", counts["Plus"], "Diff", counts["Diff"], "Lit", counts["Lit"], "Parse", counts["Parse"])
}

// guardPlusUTC picks a start date for a tz scenario with Go's time package in UTC
// (input selection only; the model decides what the real Plus must return)
func guardPlusUTC(d dt, o off) (dt, bool) {
	t := time.Date(d[0]+o[0], time.Month(d[1]+o[1]), d[2]+o[2], d[3]+o[3], d[4]+o[4], d[5]+o[5], (d[6]+o[6])*1000000, time.UTC)
	if t.Year() < 1700 || t.Year() >= 3000 {
		return dt{}, false
	}
	return dt{t.Year(), int(t.Month()), t.Day(), t.Hour(), t.Minute(), t.Second(), t.Nanosecond() / 1000000}, true
}

// ---------------------------------------------------------------- replay

func geti(m map[string]any, k string) int {
	f, _ := m[k].(float64)
	return int(f)
}

func getis(m map[string]any, k string) []int {
	a, _ := m[k].([]any)
	r := make([]int, len(a))
	for i, x := range a {
		f, _ := x.(float64)
		r[i] = int(f)
	}
	return r
}

func todt(xs []int) (d dt) {
	copy(d[:], xs)
	return
}

func replay(in, out string) {
	f, err := os.Open(in)
	if err != nil {
		vh.Fatal("replay: %v", err)
	}
	defer f.Close()
	tr := vh.Create(out)
	sc := bufio.NewScanner(f)
	sc.Buffer(make([]byte, 1<<20), 1<<24)
	for sc.Scan() {
		line := strings.TrimSpace(sc.Text())
		if line == "" {
			continue
		}
		var m map[string]any
		if err := json.Unmarshal([]byte(line), &m); err != nil {
			vh.Fatal("replay: bad line: %v", err)
		}
		tzRun = geti(m, "tz")
		zone, _ = m["zn"].(string)
		if tzRun == 1 && time.Local.String() != zone {
			vh.Fatal("replay of a line recorded with TZ=%s needs that TZ (local = %s)", zone, time.Local)
		}
		switch m["e"] {
		case "Reset":
			tr.Reset()
		case "Plus":
			lo := getis(m, "o")
			var o off
			copy(o[:], lo)
			// undo the split of large second/millisecond offsets
			xd := geti(m, "xd")
			switch geti(m, "xu") {
			case 5:
				o[5] = xd*86400 + lo[5]
			case 6:
				o[6] = xd*msPerDay + lo[6]
			}
			emitPlus(tr, geti(m, "via"), todt(getis(m, "d")), o)
		case "Valid":
			emitValid(tr, todt(getis(m, "d")))
		case "Diff":
			emitDiff(tr, geti(m, "via"), todt(getis(m, "a")), todt(getis(m, "b")))
		case "Lit":
			emitLit(tr, geti(m, "via"), todt(getis(m, "d")))
		case "Parse":
			b := getis(m, "s")
			s := make([]byte, len(b))
			for i, c := range b {
				s[i] = byte(c)
			}
			emitParse(tr, geti(m, "via"), string(s))
		}
	}
	tr.Close()
	summary()
}

func main() {
	if len(os.Args) < 3 {
		vh.Fatal("usage: calendar run <outdir> <scale> | tz <out> | replay <in> <out>")
	}
	rnd = rand.New(rand.NewSource(vh.Seed()*7919 + 33))
	th = &core.Thread{}
	switch os.Args[1] {
	case "run":
		scale := 1
		if len(os.Args) > 3 {
			scale, _ = strconv.Atoi(os.Args[3])
		}
		if scale < 1 {
			scale = 1
		}
		run(os.Args[2], scale)
	case "tz":
		tz(os.Args[2])
	case "replay":
		if len(os.Args) < 4 {
			vh.Fatal("usage: calendar replay <in> <out>")
		}
		replay(os.Args[2], os.Args[3])
	default:
		vh.Fatal("unknown mode %s", os.Args[1])
	}
}
