// Driver for C29: renders programs of the tiny block language of spec/Closure.tla to
// Suneido source, compiles them with the REAL compiler and runs them in the REAL
// interpreter (fresh Thread per program). Programs come from TLC (file with one JSON
// program body per line) and from a seeded random generator. After the outermost
// function has returned, every block value it returned is called again from outside
// (escaping closures). The results are logged as ndjson and compared with the
// reference interpreter by spec/trace/TraceClosure.tla.
//
// usage: closure <out.ndjson> <programs.json|-> <nrandom>
//        closure eval <file.su>          (debugging aid: run a source file)
package main

import (
	"bufio"
	"encoding/json"
	"fmt"
	"math/rand"
	"os"
	"strconv"
	"strings"

	_ "github.com/apmckinlay/gsuneido/builtin"
	"github.com/apmckinlay/gsuneido/compile"
	"github.com/apmckinlay/gsuneido/core"

	"verifharness/vh"
)

// Stmt is one AST node; all fields are always present in JSON (uniform records for TLC)
type Stmt struct {
	K  string   `json:"k"`
	V  string   `json:"v"`
	W  string   `json:"w"`
	C  int      `json:"c"`
	A  string   `json:"a"`
	Id int      `json:"id"`
	R  string   `json:"r"`
	B  []Stmt   `json:"b"`
	B2 []Stmt   `json:"b2"`
	Vs []string `json:"vs"`
}

func (s *Stmt) norm() {
	if s.B == nil {
		s.B = []Stmt{}
	}
	if s.B2 == nil {
		s.B2 = []Stmt{}
	}
	if s.Vs == nil {
		s.Vs = []string{}
	}
	for i := range s.B {
		s.B[i].norm()
	}
	for i := range s.B2 {
		s.B2[i].norm()
	}
}

var refused int

// fuel: every block body starts with VhTick(); after fuelLimit block calls in one program
// every further call fails, so runaway (mutual) recursion ends quickly. Such runs are
// marked (note "fuel") and not compared.
const fuelLimit = 200

var ticks int
var exhausted bool

type val [2]any // ["I", n] | ["B", 0] | ["E", code] | ["N", 0] | ["O", len] | ["X", 0] (something else)

func main() {
	if os.Args[1] == "eval" {
		evalFile(os.Args[2])
		return
	}
	core.Global.TestDef("VhTick", &core.SuBuiltinRaw{
		Fn: func(th *core.Thread, as *core.ArgSpec, args []core.Value) core.Value {
			ticks++
			if ticks > fuelLimit {
				exhausted = true
				panic("vh out of fuel")
			}
			return nil
		},
		BuiltinParams: core.BuiltinParams{ParamSpec: core.ParamSpecAt}})
	out := os.Args[1]
	progs := os.Args[2]
	nrandom, _ := strconv.Atoi(os.Args[3])
	rnd := rand.New(rand.NewSource(vh.Seed()))
	tr := vh.Create(out)
	defer tr.Close()
	n := 0
	if progs != "-" {
		f, err := os.Open(progs)
		if err != nil {
			vh.Fatal("open programs: %v", err)
		}
		sc := bufio.NewScanner(f)
		sc.Buffer(make([]byte, 1<<20), 1<<26)
		for sc.Scan() {
			var body []Stmt
			if err := json.Unmarshal(sc.Bytes(), &body); err != nil {
				vh.Fatal("program line: %v", err)
			}
			runProgram(tr, body, "tlc")
			n++
		}
		f.Close()
	}
	for i := 0; i < nrandom; i++ {
		g := &gen{rnd: rnd}
		runProgram(tr, g.program(), "random")
		n++
	}
	vh.Summary("programs", n, "refused", refused, "events", tr.N)
}

func evalFile(file string) {
	src, _ := os.ReadFile(file)
	th := core.NewThread(nil)
	defer func() {
		if e := recover(); e != nil {
			fmt.Println("EXC:", e)
		}
	}()
	fmt.Println("RESULT:", th.Call(compile.Constant(string(src))))
}

// ---------------------------------------------------------------- rendering

func render(body []Stmt) string {
	var sb strings.Builder
	sb.WriteString("function ()\n\t{\n")
	renderBody(&sb, body, 1)
	sb.WriteString("\t}\n")
	return sb.String()
}

func renderBody(sb *strings.Builder, body []Stmt, ind int) {
	for i := range body {
		renderStmt(sb, &body[i], ind)
	}
}

func renderStmt(sb *strings.Builder, s *Stmt, ind int) {
	tab := strings.Repeat("\t", ind)
	switch s.K {
	case "const":
		fmt.Fprintf(sb, "%s%s = %d\n", tab, s.V, s.C)
	case "inc":
		fmt.Fprintf(sb, "%s%s = %s + 1\n", tab, s.V, s.W)
	case "dec":
		fmt.Fprintf(sb, "%s%s = %s - 1\n", tab, s.V, s.W)
	case "copy":
		fmt.Fprintf(sb, "%s%s = %s\n", tab, s.V, s.W)
	case "blk":
		if s.A == "" {
			fmt.Fprintf(sb, "%s%s = {\n", tab, s.V)
		} else {
			fmt.Fprintf(sb, "%s%s = {|%s|\n", tab, s.V, s.A)
		}
		fmt.Fprintf(sb, "%s\tVhTick()\n", tab)
		renderBody(sb, s.B, ind+1)
		if s.R == "" {
			fmt.Fprintf(sb, "%s\t0\n", tab)
		} else {
			fmt.Fprintf(sb, "%s\t%s\n", tab, s.R)
		}
		fmt.Fprintf(sb, "%s\t}\n", tab)
	case "call0":
		fmt.Fprintf(sb, "%s%s = %s()\n", tab, s.V, s.W)
	case "call1c":
		fmt.Fprintf(sb, "%s%s = %s(%d)\n", tab, s.V, s.W, s.C)
	case "call1v":
		fmt.Fprintf(sb, "%s%s = %s(%s)\n", tab, s.V, s.W, s.A)
	case "ret":
		fmt.Fprintf(sb, "%sreturn %s\n", tab, s.W)
	case "throw":
		fmt.Fprintf(sb, "%sthrow \"boom\"\n", tab)
	case "try":
		fmt.Fprintf(sb, "%stry\n%s\t{\n", tab, tab)
		renderBody(sb, s.B, ind+1)
		fmt.Fprintf(sb, "%s\t}\n%scatch\n%s\t{\n", tab, tab, tab)
		renderBody(sb, s.B2, ind+1)
		fmt.Fprintf(sb, "%s\t}\n", tab)
	case "ifnz":
		fmt.Fprintf(sb, "%sif %s isnt 0\n%s\t{\n", tab, s.W, tab)
		renderBody(sb, s.B, ind+1)
		fmt.Fprintf(sb, "%s\t}\n", tab)
	case "rep":
		fmt.Fprintf(sb, "%sfor %s in ..%d\n%s\t{\n", tab, s.V, s.C, tab)
		renderBody(sb, s.B, ind+1)
		fmt.Fprintf(sb, "%s\t}\n", tab)
	case "obs":
		fmt.Fprintf(sb, "%sreturn Object(%s)\n", tab, strings.Join(s.Vs, ", "))
	default:
		vh.Fatal("unknown statement kind %q", s.K)
	}
}

// ---------------------------------------------------------------- execution

func classify(e any) int {
	s := fmt.Sprint(e)
	switch {
	case strings.Contains(s, "uninitialized variable"):
		return 1
	case strings.Contains(s, "can't convert"):
		return 2
	case strings.Contains(s, "can't call"):
		return 3
	case strings.Contains(s, "too many arguments"), strings.Contains(s, "missing argument"):
		return 4
	case strings.Contains(s, "boom"):
		return 5
	case strings.Contains(s, "block return"):
		return 6
	case strings.Contains(s, "call overflow"):
		return 7
	}
	return 9
}

func isBlock(v core.Value) (nparams int, ok bool) {
	switch b := v.(type) {
	case *core.SuClosure:
		return int(b.Nparams), true
	case *core.SuFunc:
		return int(b.Nparams), true
	}
	return 0, false
}

func encode(v core.Value) val {
	if v == nil {
		return val{"N", 0}
	}
	if _, ok := isBlock(v); ok {
		return val{"B", 0}
	}
	if n, ok := v.ToInt(); ok {
		if _, isnum := v.(core.SuStr); !isnum {
			return val{"I", n}
		}
	}
	return val{"X", 0}
}

func call(th *core.Thread, fn core.Value, args ...core.Value) (v core.Value, exc int) {
	defer func() {
		if e := recover(); e != nil {
			exc = classify(e)
			v = nil
		}
	}()
	return th.Call(fn, args...), 0
}

func runProgram(tr *vh.Trace, body []Stmt, origin string) {
	for i := range body {
		body[i].norm()
	}
	src := render(body)
	th := core.NewThread(nil)
	var fn core.Value
	cerr := ""
	func() {
		defer func() {
			if e := recover(); e != nil {
				cerr = fmt.Sprint(e)
			}
		}()
		fn = compile.Constant(src)
	}()
	if strings.Contains(cerr, "possibly uninitialized variable") || strings.Contains(cerr, "nested try not supported") {
		// static diagnostics of the compiler (read before the only assignment, try inside try):
		// the program is outside the language under test; counted, not logged
		refused++
		return
	}
	if cerr != "" {
		// a program of the grammar that the compiler refuses: not explained by the specification
		tr.Emit(vh.E("Prog", "origin", origin, "body", body, "src", src,
			"main", val{"C", 0}, "obs", []val{}, "post", [][]any{}, "note", cerr))
		return
	}
	ticks, exhausted = 0, false
	v, exc := call(th, fn)
	main := val{"E", exc}
	obs := []val{}
	blocks := []core.Value{}
	idx := []int{}
	if exc == 0 {
		if ob, ok := v.(*core.SuObject); ok && v != nil {
			main = val{"O", ob.ListSize()}
			for i := 0; i < ob.ListSize(); i++ {
				x := ob.ListGet(i)
				obs = append(obs, encode(x))
				if _, ok := isBlock(x); ok {
					blocks = append(blocks, x)
					idx = append(idx, i+1)
				}
			}
		} else {
			main = encode(v)
			if v != nil {
				if _, ok := isBlock(v); ok {
					blocks = append(blocks, v)
					idx = append(idx, 0)
				}
			}
		}
	}
	// escaping: F has returned; call every returned block, then the first one again
	post := [][]any{}
	order := []int{}
	for i := range blocks {
		order = append(order, i)
	}
	if len(blocks) > 0 {
		order = append(order, 0)
		if len(blocks) > 1 {
			order = append(order, len(blocks)-1)
		}
	}
	for _, i := range order {
		np, _ := isBlock(blocks[i])
		var r core.Value
		var e int
		nargs := 0
		if np >= 1 {
			nargs = 1
			r, e = call(th, blocks[i], core.IntVal(7))
		} else {
			r, e = call(th, blocks[i])
		}
		if e != 0 {
			post = append(post, []any{idx[i], nargs, val{"E", e}})
		} else {
			post = append(post, []any{idx[i], nargs, encode(r)})
		}
	}
	tr.Emit(vh.E("Prog", "origin", origin, "body", body, "src", src,
		"main", main, "obs", obs, "post", post, "note", fuelNote()))
}

func fuelNote() string {
	if exhausted {
		return "fuel"
	}
	return ""
}

// ---------------------------------------------------------------- random programs

type gen struct {
	rnd    *rand.Rand
	nextId int
	inTry  int
}

var intNames = []string{"x", "y", "z", "t", "u"}
var blkNames = []string{"f", "g", "h"}
var paramNames = []string{"p", "q", "x", "y", ""}

func (g *gen) pick(a []string) string { return a[g.rnd.Intn(len(a))] }

// scopeInfo tracks (approximately) what is likely initialised, to bias the generator
// towards programs that get somewhere; correctness does not depend on it
type scopeInfo struct {
	ints map[string]bool
	blks map[string]string // block variable -> parameter name ("" none)
}

func (si *scopeInfo) clone() *scopeInfo {
	n := &scopeInfo{ints: map[string]bool{}, blks: map[string]string{}}
	for k, v := range si.ints {
		n.ints[k] = v
	}
	for k, v := range si.blks {
		n.blks[k] = v
	}
	return n
}

func (g *gen) readable(si *scopeInfo) string {
	if len(si.ints) > 0 && g.rnd.Intn(25) != 0 {
		ks := []string{}
		for _, n := range intNames {
			if si.ints[n] {
				ks = append(ks, n)
			}
		}
		for _, n := range []string{"p", "q"} {
			if si.ints[n] {
				ks = append(ks, n)
			}
		}
		if len(ks) > 0 {
			return g.pick(ks)
		}
	}
	return g.pick(intNames)
}

func (g *gen) program() []Stmt {
	g.nextId = 0
	si := &scopeInfo{ints: map[string]bool{}, blks: map[string]string{}}
	n := 3 + g.rnd.Intn(5)
	body := []Stmt{}
	for i := g.rnd.Intn(3); i > 0; i-- {
		v := g.pick(intNames)
		si.ints[v] = true
		body = append(body, Stmt{K: "const", V: v, C: g.rnd.Intn(3)})
	}
	body = append(body, g.body(si, n, 0, true)...)
	// final observation
	if g.rnd.Intn(6) != 0 {
		vs := []string{}
		for _, v := range intNames {
			if si.ints[v] && g.rnd.Intn(4) != 0 {
				vs = append(vs, v)
			}
		}
		for _, v := range blkNames {
			if _, ok := si.blks[v]; ok && g.rnd.Intn(3) != 0 {
				vs = append(vs, v)
			}
		}
		if g.rnd.Intn(10) == 0 {
			vs = append(vs, g.pick(intNames))
		}
		body = append(body, Stmt{K: "obs", Vs: vs})
	} else {
		// every program ends with an explicit return (the value of falling off the end of a
		// function is not part of the model)
		body = append(body, Stmt{K: "obs", Vs: []string{}})
	}
	return body
}

func (g *gen) body(si *scopeInfo, n int, depth int, top bool) []Stmt {
	body := []Stmt{}
	for i := 0; i < n; i++ {
		body = append(body, g.stmt(si, depth, top))
	}
	return body
}

func (g *gen) stmt(si *scopeInfo, depth int, top bool) Stmt {
	r := g.rnd.Intn(100)
	switch {
	case r < 14:
		v := g.pick(intNames)
		si.ints[v] = true
		return Stmt{K: "const", V: v, C: g.rnd.Intn(3)}
	case r < 30:
		v, w := g.pick(intNames), g.readable(si)
		si.ints[v] = true
		k := "inc"
		if g.rnd.Intn(4) == 0 {
			k = "dec"
		}
		return Stmt{K: k, V: v, W: w}
	case r < 36:
		v, w := g.pick(intNames), g.readable(si)
		si.ints[v] = true
		return Stmt{K: "copy", V: v, W: w}
	case r < 56 && depth < 3:
		g.nextId++
		s := Stmt{K: "blk", V: g.pick(blkNames), A: g.pick(paramNames), Id: g.nextId}
		inner := si.clone()
		if s.A != "" {
			inner.ints[s.A] = true
			delete(inner.blks, s.A)
		}
		s.B = g.body(inner, g.rnd.Intn(4), depth+1, false)
		switch g.rnd.Intn(6) {
		case 0:
			s.R = ""
		case 1:
			// return an inner block: escaping closure
			for _, b := range blkNames {
				if _, ok := inner.blks[b]; ok {
					if _, outer := si.blks[b]; !outer {
						s.R = b
					}
				}
			}
			if s.R == "" {
				s.R = g.readable(inner)
			}
		default:
			s.R = g.readable(inner)
		}
		// assignments inside the block to names the enclosing scope uses are visible outside
		for k := range inner.ints {
			if k != s.A && g.rnd.Intn(2) == 0 {
				_ = k
			}
		}
		si.blks[s.V] = s.A
		delete(si.ints, s.V)
		return s
	case r < 80 && len(si.blks) > 0:
		ks := []string{}
		for _, b := range blkNames {
			if _, ok := si.blks[b]; ok {
				ks = append(ks, b)
			}
		}
		w := g.pick(ks)
		v := g.pick(intNames)
		if g.rnd.Intn(5) == 0 {
			v = g.pick(blkNames) // the result may be a block (factory)
		}
		s := Stmt{V: v, W: w}
		wantArg := si.blks[w] != ""
		if g.rnd.Intn(12) == 0 {
			wantArg = !wantArg // arity error
		}
		switch {
		case !wantArg:
			s.K = "call0"
		case g.rnd.Intn(2) == 0:
			s.K = "call1c"
			s.C = g.rnd.Intn(4)
		default:
			s.K = "call1v"
			s.A = g.readable(si)
		}
		if v == "f" || v == "g" || v == "h" {
			if _, ok := si.blks[v]; !ok {
				si.blks[v] = ""
			}
		} else {
			si.ints[v] = true
		}
		return s
	case r < 84 && !top:
		return Stmt{K: "ret", W: g.readable(si)}
	case r < 87 && (g.inTry > 0 || (!top && g.rnd.Intn(2) == 0)):
		return Stmt{K: "throw"}
	case r < 93 && depth < 3 && g.inTry == 0:
		a, b := si.clone(), si.clone()
		s := Stmt{K: "try"}
		g.inTry++
		s.B = g.body(a, 1+g.rnd.Intn(3), depth+1, top)
		s.B2 = g.body(b, g.rnd.Intn(2), depth+1, top)
		g.inTry--
		for k := range a.ints {
			if b.ints[k] {
				si.ints[k] = true
			}
		}
		return s
	case r < 96 && depth < 3:
		s := Stmt{K: "ifnz", W: g.readable(si)}
		s.B = g.body(si.clone(), 1+g.rnd.Intn(2), depth+1, top)
		return s
	case r < 99 && depth < 3:
		s := Stmt{K: "rep", V: g.pick(intNames), C: g.rnd.Intn(3)}
		inner := si.clone()
		inner.ints[s.V] = true
		s.B = g.body(inner, 1+g.rnd.Intn(3), depth+1, top)
		si.ints[s.V] = true
		return s
	default:
		v := g.pick(intNames)
		si.ints[v] = true
		return Stmt{K: "const", V: v, C: 1}
	}
}
