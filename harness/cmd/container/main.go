// Driver for C36: performs container operations on REAL SuObject / SuRecord values,
// either through the Go API (the calls the builtin methods make) or through compiled
// Suneido code (ob.Add(x), ob.Add(x, at: i), ob[k] = x, ob.Delete(k), ob.Erase(k),
// ob.Find(x), ob.Size(list:), ob.Members(), ob.Sort!(), ob.Unique!(), ob[i..j],
// ob[i::n], ob.Set_readonly(), ob.Copy()), following TLC-generated operation
// sequences and seeded random walks. After every operation the complete
// (list, named, readonly) state of every object is logged; the ndjson trace is
// validated by spec/trace/TraceContainer.tla.
//
// Keys: integers are themselves, 100 = "a", 101 = "b". Values [v,t]: t = 0 is the
// number v, t > 0 is the object #(v, t: t) (compares equal to #(v, t: t') but is
// not equal to it, which makes sort stability observable).
//
// usage: container <out.ndjson> <behaviours.json|-> <nwalks> <walklen>
package main

import (
	"bufio"
	"encoding/json"
	"fmt"
	"math/rand"
	"os"
	"strconv"
	"strings"

	_ "github.com/apmckinlay/gsuneido/builtin"
	"github.com/apmckinlay/gsuneido/compile"
	"github.com/apmckinlay/gsuneido/core"

	"verifharness/vh"
)

type op struct {
	Op string `json:"op"`
	O  int    `json:"o"`
	K  int    `json:"k"`
	X  [2]int `json:"x"`
	N  int    `json:"n"`
}

type world struct {
	th   *core.Thread
	obs  map[int]core.Container
	sun  bool // operations through compiled Suneido code
	rec  bool // SuRecord instead of SuObject
	fns  map[string]core.Value
	nops int
}

var none = [2]int{-1, -1}

func main() {
	out := os.Args[1]
	behav := os.Args[2]
	nwalks, _ := strconv.Atoi(os.Args[3])
	wlen, _ := strconv.Atoi(os.Args[4])
	rnd := rand.New(rand.NewSource(vh.Seed()))
	tr := vh.Create(out)
	defer tr.Close()
	nscen, nops := 0, 0
	run := func(ops []op, kind int) {
		if nscen > 0 {
			tr.Reset()
		}
		nscen++
		w := newWorld(kind)
		tr.Emit(vh.E("Kind", "sun", b2i(w.sun), "rec", b2i(w.rec)))
		for _, o := range ops {
			w.step(tr, o)
		}
		nops += w.nops
	}
	if behav != "-" {
		f, err := os.Open(behav)
		if err != nil {
			vh.Fatal("open behaviours: %v", err)
		}
		sc := bufio.NewScanner(f)
		sc.Buffer(make([]byte, 1<<20), 1<<26)
		i := 0
		for sc.Scan() {
			var ops []op
			if err := json.Unmarshal(sc.Bytes(), &ops); err != nil {
				vh.Fatal("behaviour line: %v", err)
			}
			run(ops, i)
			i++
		}
		f.Close()
	}
	for i := 0; i < nwalks; i++ {
		if i%10 == 9 {
			run(bigSort(rnd), rnd.Intn(4))
		} else {
			run(randomWalk(rnd, wlen), rnd.Intn(4))
		}
	}
	vh.Summary("scenarios", nscen, "ops", nops, "events", tr.N)
}

func b2i(b bool) int {
	if b {
		return 1
	}
	return 0
}

func newWorld(kind int) *world {
	w := &world{th: core.NewThread(nil), obs: map[int]core.Container{},
		sun: kind&1 == 1, rec: kind&2 == 2, fns: map[string]core.Value{}}
	switch {
	case w.sun && w.rec:
		w.obs[1] = w.call("function () { return Record() }").(core.Container)
	case w.sun:
		w.obs[1] = w.call("function () { return Object() }").(core.Container)
	case w.rec:
		w.obs[1] = core.NewSuRecord()
	default:
		w.obs[1] = &core.SuObject{}
	}
	return w
}

func (w *world) call(src string, args ...core.Value) core.Value {
	fn, ok := w.fns[src]
	if !ok {
		fn = compile.Constant(src)
		w.fns[src] = fn
	}
	return w.th.Call(fn, args...)
}

// ---- encoding of keys and values

func keyVal(k int) core.Value {
	if k >= 100 {
		return core.SuStr(string(rune('a' + k - 100)))
	}
	return core.IntVal(k)
}

func keyInt(k core.Value) int {
	if s, ok := k.(core.SuStr); ok && len(s) == 1 && s[0] >= 'a' && s[0] <= 'z' {
		return 100 + int(s[0]-'a')
	}
	if n, ok := k.ToInt(); ok && n > -90 && n < 90 {
		return n
	}
	return 999 // not a key of the universe: rejected by the trace spec
}

func mkVal(x [2]int) core.Value {
	if x[1] == 0 {
		return core.IntVal(x[0])
	}
	ob := &core.SuObject{}
	ob.Add(core.IntVal(x[0]))
	ob.Set(core.SuStr("t"), core.IntVal(x[1]))
	return ob
}

func valPair(v core.Value) [2]int {
	if v == nil {
		return none
	}
	if ob, ok := v.(*core.SuObject); ok {
		if ob.ListSize() == 1 && ob.NamedSize() == 1 {
			if t := ob.NamedGet(core.SuStr("t")); t != nil {
				return [2]int{core.ToInt(ob.ListGet(0)), core.ToInt(t)}
			}
		}
		return [2]int{-7, -7}
	}
	if n, ok := v.ToInt(); ok {
		return [2]int{n, 0}
	}
	return [2]int{-8, -8}
}

// state returns [list, named, ro] of every object (ro = -1: does not exist)
func (w *world) state() []any {
	res := make([]any, 0, 2)
	for o := 1; o <= 2; o++ {
		c := w.obs[o]
		if c == nil {
			res = append(res, []any{[]any{}, []any{}, -1})
			continue
		}
		list := []any{}
		n := c.ListSize()
		for i := 0; i < n; i++ {
			list = append(list, valPair(c.ListGet(i)))
		}
		named := []any{}
		it := c.Iter2(false, true)
		for k, v := it(); k != nil; k, v = it() {
			named = append(named, []any{keyInt(k), valPair(v)})
		}
		res = append(res, []any{list, named, b2i(c.IsReadOnly())})
	}
	return res
}

func classify(e any) string {
	s := fmt.Sprint(e)
	if strings.Contains(s, "readonly") {
		return "ro"
	}
	return "other: " + s
}

func valList(v core.Value) []any {
	res := []any{}
	c, ok := v.ToContainer()
	if !ok {
		return []any{[2]int{-9, -9}}
	}
	if c.NamedSize() != 0 {
		res = append(res, [2]int{-10, -10})
	}
	for i := 0; i < c.ListSize(); i++ {
		res = append(res, valPair(c.ListGet(i)))
	}
	return res
}

// step performs one operation on the real container(s) and logs it
func (w *world) step(tr *vh.Trace, o op) {
	c := w.obs[o.O]
	if c == nil {
		return
	}
	w.nops++
	errs := ""
	var res any = 0
	x := func() core.Value { return mkVal(o.X) }
	k := keyVal(o.K)
	func() {
		defer func() {
			if e := recover(); e != nil {
				errs = classify(e)
			}
		}()
		switch o.Op {
		case "Add":
			if w.sun {
				w.call("function (ob, x) { ob.Add(x) }", c, x())
			} else {
				c.Add(x())
			}
		case "Insert":
			if w.sun {
				w.call("function (ob, x, i) { ob.Add(x, at: i) }", c, x(), core.IntVal(o.K))
			} else {
				c.Insert(o.K, x())
			}
		case "Put":
			if w.sun {
				w.call("function (ob, k, x) { ob[k] = x }", c, k, x())
			} else {
				c.Put(w.th, k, x())
			}
		case "Delete", "Erase":
			if w.sun {
				r := w.call("function (ob, k) { m = ob.Member?(k); ob."+o.Op+"(k); return m }", c, k)
				res = b2i(r == core.True)
			} else if o.Op == "Delete" {
				res = b2i(c.Delete(w.th, k))
			} else {
				res = b2i(c.Erase(w.th, k))
			}
		case "Sort":
			if w.sun && o.N == 1 {
				w.call("function (ob) { ob.Sort!({|x, y| x < y }) }", c)
			} else if w.sun {
				w.call("function (ob) { ob.Sort!() }", c)
			} else if o.N == 1 {
				c.ToObject().Sort(w.th, compile.Constant("function (x, y) { return x < y }"))
			} else {
				c.ToObject().Sort(w.th, core.False)
			}
		case "Unique":
			if w.sun {
				w.call("function (ob) { ob.Unique!() }", c)
			} else {
				c.ToObject().Unique()
			}
		case "SetRO":
			if w.sun {
				w.call("function (ob) { ob.Set_readonly() }", c)
			} else {
				c.SetReadOnly()
			}
		case "Copy":
			if o.K == o.O || o.K < 1 || o.K > 2 {
				vh.Fatal("bad copy target %d", o.K)
			}
			if w.sun {
				w.obs[o.K] = w.call("function (ob) { return ob.Copy() }", c).(core.Container)
			} else {
				w.obs[o.K] = c.Copy()
			}
		case "Get":
			if w.sun {
				r := w.call("function (ob, k) { return ob.Member?(k) ? ob[k] : false }", c, k)
				if r == core.False {
					res = none
				} else {
					res = valPair(r)
				}
			} else {
				has := c.HasKey(k)
				v := c.GetIfPresent(w.th, k)
				if has != (v != nil) {
					res = [2]int{-6, -6}
				} else {
					res = valPair(v)
				}
			}
		case "Find":
			var r core.Value
			if w.sun {
				r = w.call("function (ob, x) { return ob.Find(x) }", c, x())
			} else {
				r = c.ToObject().Find(x())
			}
			if r == core.False {
				res = -1
			} else {
				res = keyInt(r)
			}
		case "Size":
			if w.sun {
				r := w.call("function (ob) { return Object(ob.Size(list:), ob.Size(named:), ob.Size()) }", c).(*core.SuObject)
				res = []int{core.ToInt(r.ListGet(0)), core.ToInt(r.ListGet(1)), core.ToInt(r.ListGet(2))}
			} else {
				res = []int{c.ListSize(), c.NamedSize(), c.ToObject().Size()}
			}
		case "Members":
			keys := []int{}
			if w.sun {
				r := w.call("function (ob) { m = Object(); for k in ob.Members() m.Add(k); return m }", c).(*core.SuObject)
				for i := 0; i < r.ListSize(); i++ {
					keys = append(keys, keyInt(r.ListGet(i)))
				}
			} else {
				it := c.Iter2(true, true)
				for kk, v := it(); v != nil; kk, v = it() {
					keys = append(keys, keyInt(kk))
				}
			}
			res = keys
		case "RangeTo":
			if w.sun {
				res = valList(w.call("function (ob, i, j) { return ob[i..j] }", c, core.IntVal(o.K), core.IntVal(o.N)))
			} else {
				res = valList(c.(interface{ RangeTo(int, int) core.Value }).RangeTo(o.K, o.N))
			}
		case "RangeLen":
			if w.sun {
				res = valList(w.call("function (ob, i, n) { return ob[i::n] }", c, core.IntVal(o.K), core.IntVal(o.N)))
			} else {
				res = valList(c.(interface{ RangeLen(int, int) core.Value }).RangeLen(o.K, o.N))
			}
		default:
			vh.Fatal("unknown op %q", o.Op)
		}
	}()
	if errs != "" {
		// results of a failed operation are meaningless; keep the type of the field stable
		switch o.Op {
		case "Get":
			res = none
		case "Size":
			res = []int{0, 0, 0}
		case "Members":
			res = []int{}
		case "RangeTo", "RangeLen":
			res = []any{}
		default:
			res = 0
		}
	}
	tr.Emit(vh.E(o.Op, "o", o.O, "k", o.K, "x", o.X, "n", o.N, "res", res, "err", errs, "st", w.state()))
}

var rkeys = []int{-1, 0, 1, 2, 3, 4, 5, 6, 100, 101}
var rvals = [][2]int{{0, 0}, {1, 0}, {2, 0}, {1, 1}, {1, 2}, {0, 1}, {2, 3}}

func randomWalk(rnd *rand.Rand, n int) []op {
	ops := make([]op, 0, n)
	roAt := -1
	if rnd.Intn(3) == 0 {
		roAt = n/2 + rnd.Intn(n/2)
	}
	for len(ops) < n {
		o := 1
		if rnd.Intn(4) == 0 {
			o = 2
		}
		x := rvals[rnd.Intn(len(rvals))]
		k := rkeys[rnd.Intn(len(rkeys))]
		if len(ops) == roAt {
			ops = append(ops, op{Op: "SetRO", O: 1, X: none})
			continue
		}
		switch r := rnd.Intn(40); {
		case r < 7:
			ops = append(ops, op{Op: "Add", O: o, X: x})
		case r < 11:
			ops = append(ops, op{Op: "Insert", O: o, K: rnd.Intn(9) - 2, X: x})
		case r < 17:
			ops = append(ops, op{Op: "Put", O: o, K: k, X: x})
		case r < 20:
			ops = append(ops, op{Op: "Delete", O: o, K: k, X: none})
		case r < 23:
			ops = append(ops, op{Op: "Erase", O: o, K: k, X: none})
		case r < 26:
			ops = append(ops, op{Op: "Sort", O: o, X: none, N: rnd.Intn(2)})
		case r < 28:
			ops = append(ops, op{Op: "Unique", O: o, X: none})
		case r < 30:
			ops = append(ops, op{Op: "Copy", O: o, K: 3 - o, X: none})
		case r < 32:
			ops = append(ops, op{Op: "Get", O: o, K: k, X: none})
		case r < 34:
			ops = append(ops, op{Op: "Find", O: o, X: x})
		case r < 35:
			ops = append(ops, op{Op: "Size", O: o, X: none})
		case r < 36:
			ops = append(ops, op{Op: "Members", O: o, X: none})
		case r < 38:
			ops = append(ops, op{Op: "RangeTo", O: o, K: rnd.Intn(10) - 4, N: rnd.Intn(10) - 4, X: none})
		default:
			ops = append(ops, op{Op: "RangeLen", O: o, K: rnd.Intn(10) - 4, N: rnd.Intn(10) - 3, X: none})
		}
	}
	return ops
}

// bigSort builds a long list with many members that compare equal but carry different
// tags (sorting algorithms switch strategy with the length), sorts it, copies, sorts
// the copy again after more additions, and removes duplicates
func bigSort(rnd *rand.Rand) []op {
	ops := []op{}
	n := 13 + rnd.Intn(40)
	add := func(o, n int) {
		for i := 0; i < n; i++ {
			x := [2]int{rnd.Intn(3), rnd.Intn(6)}
			if rnd.Intn(6) == 0 {
				ops = append(ops, op{Op: "Put", O: o, K: rkeys[rnd.Intn(len(rkeys))], X: x})
			} else {
				ops = append(ops, op{Op: "Add", O: o, X: x})
			}
		}
	}
	add(1, n)
	ops = append(ops, op{Op: "Sort", O: 1, X: none, N: rnd.Intn(2)})
	ops = append(ops, op{Op: "Copy", O: 1, K: 2, X: none})
	add(2, 5+rnd.Intn(20))
	ops = append(ops, op{Op: "Sort", O: 2, X: none, N: rnd.Intn(2)})
	ops = append(ops, op{Op: "Members", O: 2, X: none})
	ops = append(ops, op{Op: "Unique", O: 2, X: none})
	ops = append(ops, op{Op: "RangeTo", O: 2, K: 2, N: -2, X: none})
	ops = append(ops, op{Op: "Sort", O: 1, X: none, N: rnd.Intn(2)})
	return ops
}
