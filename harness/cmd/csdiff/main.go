// Driver for C40 (b): differential by specification.  A generated script of
// database operations (admin, transactions with get/lookup/output/update/erase,
// actions, queries, cursors, headers, Info/Schema/Run/...) is executed step by
// step through dbms.DbmsLocal on database L and through the REAL DbmsClient <->
// mux <-> TLS <-> server command table (over the re-chunking in-memory pipe) on
// the identically prepared database R.  Operations on the small table tm(k, v)
// are logged as Op events (judged by TableModel.tla on both sides); all other
// operations as Pair events (result class and digest must be equal).
package main

import (
	"fmt"
	"hash/crc32"
	"math/rand"
	"os"
	"sort"
	"strconv"
	"strings"
	"time"

	_ "github.com/apmckinlay/gsuneido/builtin"
	"github.com/apmckinlay/gsuneido/core"
	"github.com/apmckinlay/gsuneido/db19"
	"github.com/apmckinlay/gsuneido/dbms"

	"verifharness/cs"
	"verifharness/vh"
)

const nKeys = 8

var bigKey int // keys of the big records (the databases outlive the scenarios)

// side is one way of accessing a database
type side struct {
	name    string
	db      *db19.Database
	local   *dbms.DbmsLocal
	d       core.IDbms // what the script talks to
	th      *core.Thread
	trans   map[int]core.ITran
	queries map[int]core.IQuery
	cursors map[int]core.ICursor
	offs    map[int]map[int]uint64 // tran handle -> key -> record offset (from Get1)
	lastTs  core.SuDate
}

type result struct {
	cls  string
	val  int
	rows [][]int
	msg  string
}

func setupDb() *db19.Database {
	db := cs.NewDbChunk(4*1024*1024, // large records (many mux frames) must fit
		"create tm (k, v) key(k)",
		"create big (a, b, c, d) key(a) index(b)",
		"create other (a, x) key(a)",
		"create stat (a, x) key(a)",
		"create mwide (a, s) key(a)",
		"create stdlib (name, group, text, num) key(name, group) key(num)")
	cs.Action(db, "insert { name: 'Foo', group: -1, text: 'function () { 123 }', num: 1 } into stdlib")
	for i := 0; i < 12; i++ {
		cs.Action(db, fmt.Sprintf("insert { a: %d, b: %d, c: 'c%d', d: #20200101 } into big", i, i%4, i))
	}
	for i := 0; i < 6; i++ {
		cs.Action(db, fmt.Sprintf("insert { a: %d, x: 'x%d' } into other", i*2, i))
		// stat is never modified by the scripts: only its indexes are altered
		// (index creation right after commits on the same table is C06/C16's subject)
		cs.Action(db, fmt.Sprintf("insert { a: %d, x: 'x%d' } into stat", i, i%3))
	}
	return db
}

func main() {
	out := os.Args[1]
	nscen, _ := strconv.Atoi(os.Args[2])
	steps, _ := strconv.Atoi(os.Args[3])
	cs.Quiet()
	cs.InstallExit()
	seed := vh.Seed()
	tr := vh.Create(out)

	// R: served by the real server code; its worker threads use the global dbms
	dbR := setupDb()
	dR := dbms.NewDbmsLocal(dbR)
	cs.SetGlobalDbms(dR)
	// L: accessed directly
	dbL := setupDb()
	dL := dbms.NewDbmsLocal(dbL)

	nops, npairs := 0, 0
	for s := 0; s < nscen; s++ {
		if s > 0 {
			tr.Reset()
		}
		rnd := rand.New(rand.NewSource(seed*7919 + int64(s)))
		chc := cs.Chunking{Seed: rnd.Int63(), MaxRead: pickMax(rnd), MaxWrite: pickMax(rnd)}
		chs := cs.Chunking{Seed: rnd.Int63(), MaxRead: pickMax(rnd), MaxWrite: pickMax(rnd)}
		slow := false
		for _, m := range []int{chc.MaxRead, chc.MaxWrite, chs.MaxRead, chs.MaxWrite} {
			slow = slow || (m > 0 && m <= 100)
		}
		tc, pipe, err := cs.Serve(dR, fmt.Sprintf("10.2.0.%d:5000", s%200+1), chc, chs)
		if err != nil {
			cs.Fatal("connect: %v", err)
		}
		dc := dbms.NewDbmsClient(tc)
		thL := core.NewThread(nil)
		thL.SetDbms(dL)
		L := newSide("L", dbL, dL, dL, thL)
		R := newSide("R", dbR, dR, dc.NewSession(), core.NewThread(nil))
		sc := &script{rnd: rnd, tr: tr, L: L, R: R, model: map[int]int{}, open: map[int]*mtran{}, slowPipe: slow}
		sc.resetTm()
		sc.run(steps)
		sc.finish()
		nops += sc.nops
		npairs += sc.npairs
		lost0 := cs.NClientLost.Load()
		pipe.Close()
		for i := 0; cs.NClientLost.Load() == lost0 && i < 20000; i++ {
			time.Sleep(100 * time.Microsecond)
		}
	}
	tr.Close()
	vh.Summary("scenarios", nscen, "ops", nops, "pairs", npairs, "events", tr.N)
}

func pickMax(r *rand.Rand) int {
	m := []int{3, 17, 100, 1000, 4096, 5000, 20000, 0}
	return m[r.Intn(len(m))]
}

func newSide(name string, db *db19.Database, local *dbms.DbmsLocal, d core.IDbms, th *core.Thread) *side {
	return &side{name: name, db: db, local: local, d: d, th: th, trans: map[int]core.ITran{},
		queries: map[int]core.IQuery{}, cursors: map[int]core.ICursor{}, offs: map[int]map[int]uint64{}}
}

// ---------------------------------------------------------------- script

type mtran struct {
	upd    bool
	view   map[int]int
	ended  bool
	hasOff map[int]bool // keys whose current record offset the script holds (from Get1 / Upd)
}

type script struct {
	rnd      *rand.Rand
	tr       *vh.Trace
	L, R     *side
	step     int
	model    map[int]int // the driver's own idea of tm (to generate sensible steps only)
	open     map[int]*mtran
	nextH    int
	nops     int
	npairs   int
	nextA    int
	slowPipe bool
}

// call runs f on one side and classifies the outcome
func call(f func() result) (r result) {
	done := make(chan struct{})
	go func() {
		defer close(done)
		defer func() {
			if e := recover(); e != nil {
				r = result{cls: "err", msg: fmt.Sprint(e)}
			}
		}()
		r = f()
		if r.cls == "" {
			r.cls = "ok"
		}
	}()
	select {
	case <-done:
	case m := <-cs.ServerFatal:
		return result{cls: "fatal", msg: m}
	case <-time.After(60 * time.Second):
		cs.Fatal("no answer within 60 s")
	}
	return
}

// op executes a modelled operation on both sides (L first) and logs one Op event each
func (sc *script) op(name string, h int, upd bool, k, v int, f func(s *side) result) (rl, rr result) {
	sc.step++
	for _, s := range []*side{sc.L, sc.R} {
		r := call(func() result { return f(s) })
		if r.rows == nil {
			r.rows = [][]int{}
		}
		sc.tr.Emit(vh.E("Op", "side", s.name, "i", sc.step, "op", name, "h", h, "upd", upd, "k", k, "v", v,
			"cls", r.cls, "val", r.val, "rows", r.rows, "msg", trunc(r.msg)))
		if s == sc.L {
			rl = r
		} else {
			rr = r
		}
		sc.nops++
	}
	return
}

// pair executes any other operation on both sides and logs one Pair event
func (sc *script) pair(name, arg string, f func(s *side) result) (rl, rr result) {
	sc.step++
	if os.Getenv("VERIF_DEBUG") != "" {
		fmt.Fprintf(cs.RealStderr, "step %d %s %s\n", sc.step, name, arg)
	}
	rl = call(func() result { return f(sc.L) })
	rr = call(func() result { return f(sc.R) })
	sc.tr.Emit(vh.E("Pair", "i", sc.step, "op", name, "arg", trunc(arg), "clsL", rl.cls, "clsR", rr.cls,
		"valL", rl.val, "valR", rr.val, "msgL", trunc(rl.msg), "msgR", trunc(rr.msg)))
	sc.npairs++
	return
}

func trunc(s string) string {
	s = strings.ToValidUTF8(s, "?")
	if len(s) > 70 {
		s = s[:70]
	}
	return s
}

func dig(s string) int { return int(crc32.ChecksumIEEE([]byte(s)) & 0x3fffffff) }

// resetTm empties tm on both sides (scenarios share the two databases)
func (sc *script) resetTm() {
	for _, s := range []*side{sc.L, sc.R} {
		var err any
		for try := 0; try < 5; try++ {
			err = func() (e any) {
				defer func() { e = recover() }()
				cs.Action(s.db, "delete tm")
				return nil
			}()
			if err == nil {
				break
			}
			time.Sleep(20 * time.Millisecond)
		}
		if err != nil {
			cs.Fatal("cannot empty tm on side %s: %v", s.name, err)
		}
		t := s.local.Transaction(false)
		row, _ := t.Query("tm", nil).Get(core.NewThread(nil), core.Next)
		t.Complete()
		if row != nil {
			cs.Fatal("tm not empty at the start of a scenario on side %s", s.name)
		}
	}
}

func keyQuery(k int) core.Value {
	ob := core.SuObjectOf(core.SuStr("tm"))
	ob.Set(core.SuStr("k"), core.IntVal(k))
	return ob
}

func tmRec(k, v int) core.Record {
	var rb core.RecordBuilder
	rb.Add(core.IntVal(k))
	rb.Add(core.IntVal(v))
	return rb.Build()
}

func intOf(row core.Row, hdr *core.Header, col string) int {
	return core.ToInt(core.Unpack(row.GetRaw(hdr, col)))
}

func (sc *script) begin(upd bool) int {
	sc.nextH++
	h := sc.nextH
	sc.op("Begin", h, upd, 0, 0, func(s *side) result {
		s.trans[h] = s.d.Transaction(upd)
		s.offs[h] = map[int]uint64{}
		return result{}
	})
	view := map[int]int{}
	for k, v := range sc.model {
		view[k] = v
	}
	sc.open[h] = &mtran{upd: upd, view: view, hasOff: map[int]bool{}}
	return h
}

func (sc *script) get1(h, k int) {
	sc.op("Get1", h, false, k, 0, func(s *side) result {
		row, hdr, _ := s.trans[h].Get(s.th, keyQuery(k), core.Only)
		if row == nil {
			return result{val: -1}
		}
		s.offs[h][k] = row[0].Off
		if got := intOf(row, hdr, "k"); got != k {
			return result{val: -1000 - got}
		}
		return result{val: intOf(row, hdr, "v")}
	})
}

func (sc *script) out(h, k, v int) {
	sc.op("Out", h, false, k, v, func(s *side) result {
		q := s.trans[h].Query("tm", nil)
		q.Output(s.th, tmRec(k, v))
		return result{}
	})
	if t := sc.open[h]; t != nil && !t.ended && t.upd {
		if _, ok := t.view[k]; !ok {
			t.view[k] = v
		}
	}
}

func (sc *script) upd(h, k, v int) {
	sc.op("Upd", h, false, k, v, func(s *side) result {
		off, ok := s.offs[h][k]
		if !ok {
			panic("harness: no offset")
		}
		newoff := s.trans[h].Update(s.th, "tm", off, tmRec(k, v))
		s.offs[h][k] = newoff
		return result{}
	})
	if t := sc.open[h]; t != nil && !t.ended && t.upd {
		if _, ok := t.view[k]; ok {
			t.view[k] = v
		}
	}
}

func (sc *script) del(h, k int) {
	sc.op("Del", h, false, k, 0, func(s *side) result {
		off, ok := s.offs[h][k]
		if !ok {
			panic("harness: no offset")
		}
		s.trans[h].Delete(s.th, "tm", off)
		delete(s.offs[h], k)
		return result{}
	})
	if t := sc.open[h]; t != nil && !t.ended && t.upd {
		delete(t.view, k)
	}
}

func (sc *script) scan(h int, fwd bool) {
	name, dir := "Scan", core.Next
	if !fwd {
		name, dir = "ScanRev", core.Prev
	}
	sc.op(name, h, false, 0, 0, func(s *side) result {
		q := s.trans[h].Query("tm", nil)
		hdr := q.Header()
		rows := [][]int{}
		for {
			row, _ := q.Get(s.th, dir)
			if row == nil {
				break
			}
			rows = append(rows, []int{intOf(row, hdr, "k"), intOf(row, hdr, "v")})
			if len(rows) > 100 {
				panic("harness: scan does not end")
			}
		}
		q.Close()
		return result{rows: rows}
	})
}

func (sc *script) end(h int, commit bool) {
	name := "Commit"
	if !commit {
		name = "Abort"
	}
	sc.op(name, h, false, 0, 0, func(s *side) result {
		t := s.trans[h]
		if commit {
			if r := t.Complete(); r != "" {
				return result{cls: "err", msg: r}
			}
		} else {
			if r := t.Abort(); r != "" {
				return result{cls: "err", msg: r}
			}
		}
		return result{}
	})
	if t := sc.open[h]; t != nil && !t.ended {
		t.ended = true
		if commit && t.upd {
			sc.model = t.view
		}
	}
}

func (sc *script) writerOpen() int {
	for h, t := range sc.open {
		if t.upd && !t.ended {
			return h
		}
	}
	return 0
}

func (sc *script) anyOpen(rnd *rand.Rand) int {
	var hs []int
	for h, t := range sc.open {
		if !t.ended {
			hs = append(hs, h)
		}
	}
	if len(hs) == 0 {
		return 0
	}
	sort.Ints(hs)
	return hs[rnd.Intn(len(hs))]
}

func (sc *script) run(steps int) {
	r := sc.rnd
	for i := 0; i < steps; i++ {
		canBegin := sc.nextH < 11 // TraceCS has 12 handles
		switch x := r.Intn(20); {
		case x < 13:
			// prefer the writer: most of the modelled work is done in the update transaction
			h := sc.writerOpen()
			if h == 0 || r.Intn(4) == 0 {
				h = sc.anyOpen(r)
			}
			if h == 0 || (canBegin && r.Intn(12) == 0) {
				if !canBegin {
					sc.other()
					continue
				}
				sc.begin(sc.writerOpen() == 0 && r.Intn(5) > 0)
				continue
			}
			t := sc.open[h]
			k := 1 + r.Intn(nKeys)
			_, present := t.view[k]
			switch y := r.Intn(20); {
			case y < 3:
				sc.get1(h, k)
			case y < 9 && t.upd:
				sc.out(h, k, r.Intn(4))
			case y < 15 && t.upd && present:
				if !t.hasOff[k] || r.Intn(3) == 0 {
					sc.get1(h, k) // needs the offset
					t.hasOff[k] = true
				}
				// otherwise the offset returned by the previous Update is used
				if r.Intn(3) > 0 {
					sc.upd(h, k, r.Intn(4))
					switch r.Intn(3) { // use the offset Update returned
					case 0:
						sc.upd(h, k, r.Intn(4)) // update of the updated record
					case 1:
						sc.del(h, k) // erase of the updated record
						t.hasOff[k] = false
					}
				} else {
					sc.del(h, k)
					t.hasOff[k] = false
				}
			case y < 18:
				sc.scan(h, r.Intn(2) == 0)
			case y == 18 || !canBegin:
				// (ended transactions are not used again: the language level
				// (SuTran) refuses that before it reaches IDbms)
				sc.end(h, r.Intn(4) > 0)
			default:
				sc.get1(h, k)
			}
		default:
			sc.other()
		}
	}
	// end everything that is still open
	var hs []int
	for h, t := range sc.open {
		if !t.ended {
			hs = append(hs, h)
		}
	}
	sort.Ints(hs)
	for _, h := range hs {
		sc.end(h, r.Intn(2) == 0)
	}
}

func (sc *script) finish() {
	for _, s := range []*side{sc.L, sc.R} {
		rows := [][]int{}
		t := s.local.Transaction(false)
		q := t.Query("tm", nil)
		hdr := q.Header()
		th := core.NewThread(nil)
		for {
			row, _ := q.Get(th, core.Next)
			if row == nil {
				break
			}
			rows = append(rows, []int{intOf(row, hdr, "k"), intOf(row, hdr, "v")})
		}
		t.Complete()
		sc.tr.Emit(vh.E("Table", "side", s.name, "rows", rows))
	}
	th := core.NewThread(nil)
	dl, e1 := cs.DbDigest(sc.L.local, th)
	dr, e2 := cs.DbDigest(sc.R.local, th)
	if e1 != nil || e2 != nil {
		cs.Fatal("db digest: %v %v", e1, e2)
	}
	sc.tr.Emit(vh.E("Final", "dbL", dl, "dbR", dr))
}

// ---------------------------------------------------------------- other operations (Pair)

// transferable is the result of Run/Exec as a client can get it: the value must be
// packable and within the 1 MB protocol limit (otherwise an error, on both sides)
func transferable(v core.Value) result {
	if v == nil {
		return result{val: 0}
	}
	packed := core.PackValue(v) // panics for functions, classes, ...
	if len(packed) > 1024*1024 {
		panic("value too large to transfer")
	}
	return result{val: dig(packed)}
}

func rowString(row core.Row, hdr *core.Header) string {
	cols := append([]string{}, hdr.Columns...)
	sort.Strings(cols)
	var sb strings.Builder
	for _, c := range cols {
		if c == "-" || strings.HasSuffix(c, "_lower!") {
			continue
		}
		raw := row.GetRaw(hdr, c)
		fmt.Fprintf(&sb, "%s=%x;", c, raw)
	}
	return sb.String()
}

// readAll reads a query to the end; ordered says whether the order is part of the result
func readAll(s *side, q core.IQuery, dir core.Dir, ordered bool) string {
	hdr := q.Header()
	var rows []string
	for {
		row, _ := q.Get(s.th, dir)
		if row == nil {
			break
		}
		rows = append(rows, rowString(row, hdr))
		if len(rows) > 5000 {
			panic("harness: query does not end")
		}
	}
	if !ordered {
		sort.Strings(rows)
	}
	return strings.Join(rows, "\n")
}

var queries = []struct {
	q       string
	ordered bool
}{
	{"big", false}, {"big sort a", true}, {"big sort reverse a", true}, {"big where b is 2", false},
	{"big where a > 3 and a < 9 sort a", true}, {"big join other", false}, {"big leftjoin other", false},
	{"big project b", false}, {"big summarize b, count", false}, {"big summarize max a", false},
	{"big extend z = a + b sort a", true}, {"big rename c to cc sort a", true}, {"big union other", false},
	{"big minus other", false}, {"big intersect other", false}, {"big times (other rename a to a2) where a < 2", false},
	{"tables", false}, {"columns where table is 'big'", false}, {"indexes", false},
	{"big where c is 'nope'", false}, {"nonexistent", false}, {"big where", false},
	{"other sort x", true}, {"mwide sort a", true}, {"stat where x is 'x1'", false}, {"stat sort x, a", true}, {"tm sort k", true}, {"big sort b, a", true},
}

func (sc *script) other() {
	r := sc.rnd
	switch x := r.Intn(22); {
	case x == 0: // admin
		sc.nextA++
		adm := []string{
			"create mwide (a, s) key(a)", "create mwide (a, s) key(a)", "alter mwide create (t)",
			"alter mwide drop (t)", "alter big create (e)", "alter big drop (e)", "ensure side (p, q) key(p)",
			"drop side", "rename side to side2", "drop side2", "create bad (", "alter nonexistent create (z)",
			"view vbig = big where a < 5", "drop vbig", "alter stat create index(x)", "alter stat drop index(x)",
		}
		a := adm[r.Intn(len(adm))]
		sc.pair("Admin", a, func(s *side) result {
			s.d.Admin(a, nil)
			return result{}
		})
	case x < 4: // whole query in a read transaction
		qq := queries[r.Intn(len(queries))]
		dir := core.Next
		if r.Intn(3) == 0 {
			dir = core.Prev
		}
		sc.pair("Query", qq.q, func(s *side) result {
			t := s.d.Transaction(false)
			defer t.Complete()
			q := t.Query(qq.q, nil)
			rows := readAll(s, q, dir, qq.ordered)
			keys := strings.Join(q.Keys(), "|")
			cols := append([]string{}, q.Header().Columns...)
			sort.Strings(cols)
			order := strings.Join(q.Order(), ",")
			q.Rewind()
			again := readAll(s, q, dir, qq.ordered)
			if again != rows {
				return result{cls: "err", msg: "rewind gives different rows"}
			}
			q.Strategy(false)
			q.Close()
			return result{val: dig(rows + "#" + keys + "#" + strings.Join(cols, ",") + "#" + order)}
		})
	case x < 6: // single-row gets at dbms level
		qq := queries[r.Intn(len(queries))]
		dirs := []core.Dir{core.Next, core.Prev, core.Only, core.Any}
		dir := dirs[r.Intn(len(dirs))]
		ob := core.SuObjectOf(core.SuStr(qq.q))
		if r.Intn(3) == 0 {
			ob.Set(core.SuStr("a"), core.IntVal(r.Intn(14)))
		}
		sc.pair("Get"+string(rune(dir)), qq.q, func(s *side) result {
			row, hdr, tbl := s.d.Get(s.th, ob, dir)
			if row == nil {
				return result{val: 0}
			}
			if dir == core.Any {
				return result{val: 1}
			}
			return result{val: dig(rowString(row, hdr) + "@" + tbl)}
		})
	case x < 9: // action in its own update transaction (only when no modelled writer is open)
		if sc.writerOpen() != 0 {
			return
		}
		sc.nextA++
		acts := []string{
			fmt.Sprintf("insert { a: %d, b: %d, c: 'n', d: #20210203 } into big", 100+sc.nextA, r.Intn(4)),
			fmt.Sprintf("insert { a: %d, b: 1 } into big", r.Intn(14)),
			fmt.Sprintf("update big where a is %d set c = 'u%d'", r.Intn(14), sc.nextA),
			fmt.Sprintf("delete big where a is %d", 100+r.Intn(sc.nextA+1)),
			"update big where b is 3 set b = 3", "delete big where a > 1000",
			fmt.Sprintf("insert { a: %d, x: 'o' } into other", 50+sc.nextA),
			fmt.Sprintf("insert { a: %d, s: '%s' } into mwide", sc.nextA, strings.Repeat("w", r.Intn(3000))),
			"insert big into other", "update nonexistent set a = 1", "delete big where",
		}
		a := acts[r.Intn(len(acts))]
		commit := r.Intn(5) > 0
		sc.pair("Action", a, func(s *side) result {
			t := s.d.Transaction(true)
			n := 0
			func() {
				defer func() {
					if e := recover(); e != nil {
						t.Abort()
						panic(e)
					}
				}()
				n = t.Action(s.th, a)
			}()
			if commit {
				if c := t.Complete(); c != "" {
					return result{cls: "err", msg: c}
				}
			} else {
				t.Abort()
			}
			return result{val: n}
		})
	case x < 11: // big record through the protocol (many frames), then read it back
		if sc.writerOpen() != 0 {
			return
		}
		sc.nextA++
		sizes := []int{0, 1, 4000, 4087, 4096, 8200, 70000, 300000, 900000}
		n := sizes[r.Intn(len(sizes))]
		if sc.slowPipe && n > 70000 {
			n = 8200 + r.Intn(20000) // a few bytes per read/write: keep it short
		}
		bigKey++
		key := 5000 + bigKey
		payload := strings.Repeat(string(rune('a'+sc.nextA%26)), n)
		sc.pair("BigOutput", strconv.Itoa(n), func(s *side) result {
			t := s.d.Transaction(true)
			q := t.Query("mwide", nil)
			var rb core.RecordBuilder
			rb.Add(core.IntVal(key))
			rb.Add(core.SuStr(payload))
			func() {
				defer func() {
					if e := recover(); e != nil {
						t.Abort()
						panic(e)
					}
				}()
				q.Output(s.th, rb.Build())
			}()
			if c := t.Complete(); c != "" {
				return result{cls: "err", msg: c}
			}
			ob := core.SuObjectOf(core.SuStr("mwide"))
			ob.Set(core.SuStr("a"), core.IntVal(key))
			row, hdr, _ := s.d.Get(s.th, ob, core.Only)
			if row == nil {
				return result{val: -1}
			}
			return result{val: dig(rowString(row, hdr))}
		})
	case x < 13: // cursor over several transactions
		qs := []string{"big sort a", "other sort a", "big where b is 1 sort a", "tm sort k", "nonexistent sort a"}
		cq := qs[r.Intn(len(qs))]
		nget := 1 + r.Intn(6)
		back := r.Intn(3) == 0
		sc.pair("Cursor", cq, func(s *side) result {
			c := s.d.Cursor(cq, nil)
			hdr := c.Header()
			var sb strings.Builder
			for i := 0; i < nget; i++ {
				t := s.d.Transaction(false)
				dir := core.Next
				if back && i%2 == 1 {
					dir = core.Prev
				}
				row, _ := c.Get(s.th, t, dir)
				t.Complete()
				if row == nil {
					sb.WriteString("<eof>")
				} else {
					sb.WriteString(rowString(row, hdr) + "\n")
				}
			}
			sb.WriteString(strings.Join(c.Keys(), "|") + strings.Join(c.Order(), ","))
			c.Close()
			return result{val: dig(sb.String())}
		})
	case x == 13:
		tb := []string{"big", "tm", "other", "mwide", "nonexistent", "tables", "vbig"}[r.Intn(7)]
		sc.pair("Schema", tb, func(s *side) result { return result{val: dig(s.d.Schema(tb))} })
	case x == 14:
		sc.pair("Info", "", func(s *side) result {
			ob := s.d.Info().(*core.SuObject)
			return result{val: ob.NamedSize()}
		})
	case x == 15:
		sc.pair("Timestamp", "", func(s *side) result {
			ts := s.d.Timestamp()
			if s.lastTs != (core.SuDate{}) && ts.Compare(s.lastTs) <= 0 {
				return result{cls: "err", msg: "timestamp not increasing"}
			}
			s.lastTs = ts
			return result{}
		})
	case x == 16:
		code := []string{"1 + 2", "'abc'.Size()", "QueryFirst('big sort a').c", "Query1('big', a: 3).c",
			"Object(1, 2, a: 3)", "throw 'boom'", "xyzzy(", "QueryEmpty?('big where a is 77')", "#20200102.Plus(days: 1)",
			"Database.SessionId() is ''",
			// results that cannot be sent (the server fails AFTER it has started its reply)
			"function () { 1 }", "class { F() { } }", "Object(function () { })", "'x'.Repeat(1100000)",
			"'y'.Repeat(1048570)", "Object('z'.Repeat(600000), 'z'.Repeat(600000))"}[r.Intn(16)]
		sc.pair("Run", code, func(s *side) result {
			return transferable(s.d.Run(s.th, code))
		})
	case x == 17:
		sc.pair("Libraries", "", func(s *side) result { return result{val: dig(strings.Join(s.d.Libraries(), ","))} })
		nm := []string{"Foo", "Bar", ""}[r.Intn(3)]
		sc.pair("LibGet", nm, func(s *side) result { return result{val: dig(strings.Join(s.d.LibGet(nm), "\x00"))} })
	case x == 18:
		sc.pair("Check", "", func(s *side) result { return result{val: dig(s.d.Check(false))} })
		sc.pair("Final", "", func(s *side) result { return result{val: s.d.Final()} })
		sc.pair("Transactions", "", func(s *side) result { return result{val: s.d.Transactions().Size()} })
	case x == 19:
		id := []string{"", "sess-one", "sess-two"}[r.Intn(3)]
		sc.pair("SessionId", id, func(s *side) result {
			got := s.d.SessionId(s.th, id)
			if id != "" && got != id {
				return result{cls: "err", msg: "session id not set: " + got}
			}
			return result{}
		})
	case x == 20 && r.Intn(2) == 0: // Asof: refused for update transactions, after the reply was started
		upd := r.Intn(2) == 0
		sc.pair("Asof", fmt.Sprint(upd), func(s *side) result {
			t := s.d.Transaction(upd)
			defer t.Abort()
			return result{val: int(t.Asof(0) & 0x3fffffff)}
		})
	case x == 20: // transaction counters
		if sc.writerOpen() != 0 {
			return
		}
		sc.pair("Counts", "", func(s *side) result {
			t := s.d.Transaction(true)
			defer t.Abort()
			q := t.Query("big sort a", nil)
			q.Get(s.th, core.Next)
			q.Get(s.th, core.Next)
			n := t.Action(s.th, "insert { a: 7777, b: 0 } into big")
			return result{val: 1000000*t.ReadCount() + 1000*t.WriteCount() + n}
		})
	default: // Exec (new style ServerEval)
		ob := core.SuObjectOf(core.SuStr([]string{"Display", "Type", "Nope.Nope", "Object", "Thread.List", "Suneido.Members",
			"Global", "Seq"}[r.Intn(8)]), core.IntVal(r.Intn(100)))
		if r.Intn(4) == 0 {
			ob = core.SuObjectOf(core.SuStr("Global"), core.SuStr([]string{"Object", "Date", "Query1"}[r.Intn(3)]))
		}
		sc.pair("Exec", ob.String(), func(s *side) result {
			return transferable(s.d.Exec(s.th, ob))
		})
	}
}
