// Driver for the durability properties C04 C05 C19 C20: builds REAL database files
// (mmap stor) through random histories of schema changes, transactions and persists
// on the real pipeline, then
//   - closes and reopens them (C04),
//   - moves read transactions to past times (C19),
//   - damages a copy of the unclosed file at chosen byte offsets with different tails
//     and runs open / check / repair in CHILD processes (C05; a crash of repair is
//     observed instead of killing the driver),
//   - dumps / loads / compacts (C20),
// and records an ndjson trace for TraceDurable.tla. The logical content of a state is
// logged as a digest string computed by reading through the real code.
package main

import (
	"bufio"
	"crypto/sha1"
	"encoding/hex"
	"encoding/json"
	"fmt"
	"math/rand"
	"os"
	"os/exec"
	"path/filepath"
	"sort"
	"strconv"
	"strings"
	"sync/atomic"
	"time"

	_ "github.com/apmckinlay/gsuneido/builtin"
	"github.com/apmckinlay/gsuneido/core"
	"github.com/apmckinlay/gsuneido/db19"
	"github.com/apmckinlay/gsuneido/db19/meta"
	"github.com/apmckinlay/gsuneido/db19/stor"
	"github.com/apmckinlay/gsuneido/db19/tools"
	_ "github.com/apmckinlay/gsuneido/dbms"
	"github.com/apmckinlay/gsuneido/dbms/query"

	"verifharness/vh"
)

var (
	tr      *vh.Trace
	db      *db19.Database
	dir     string
	base    int64 // first persist time, times are logged relative to it (32-bit ints in TLC)
	pend    string
	pendOff uint64
	npers   int
)

func main() {
	if len(os.Args) >= 2 && os.Args[1] == "child" {
		child(os.Args[2], os.Args[3])
		return
	}
	if len(os.Args) < 5 {
		vh.Fatal("usage: dbfile <mode: reopen|crash|asof|dump|all> <scratch dir> <out.ndjson> <scenarios> [trials]")
	}
	mode := os.Args[1]
	dir = os.Args[2]
	os.MkdirAll(dir, 0o755)
	tr = vh.Create(os.Args[3])
	defer tr.Close()
	nscen, _ := strconv.Atoi(os.Args[4])
	ntrials := 60
	if len(os.Args) > 5 {
		ntrials, _ = strconv.Atoi(os.Args[5])
	}
	core.Exit = func(code int) {
		tr.Emit(vh.E("Fatal", "code", code))
		tr.Close()
		os.Exit(3)
	}
	rnd := rand.New(rand.NewSource(vh.Seed()))
	tot := map[string]int{}
	for s := 0; s < nscen; s++ {
		if s > 0 {
			tr.Reset()
		}
		scenario(rnd, s, mode, ntrials, tot)
	}
	if mode == "asof" {
		for s := 0; s < (nscen+3)/4; s++ {
			tr.Reset()
			heapScenario(rnd, tot)
		}
	}
	kv := []any{"mode", mode, "scenarios", nscen, "events", tr.N}
	keys := []string{}
	for k := range tot {
		keys = append(keys, k)
	}
	sort.Strings(keys)
	for _, k := range keys {
		kv = append(kv, k, tot[k])
	}
	vh.Summary(kv...)
}

// ---------------------------------------------------------------- digests

// digest of the logical content reachable from a Meta.
// btOnly: what a reopen of this state would see (stored btrees, persisted counts);
// otherwise the visible content incl. unmerged / unpersisted layers, read through
// the real iterators of a ReadTran.
func digestMeta(store *stor.Stor, m *meta.Meta, rt *db19.ReadTran) (dig string, agree int) {
	agree = 1
	var names []string
	for ts := range m.Tables() {
		names = append(names, ts.Table)
	}
	sort.Strings(names)
	h := sha1.New()
	for _, name := range names {
		ts := m.GetRoSchema(name)
		ti := m.GetRoInfo(name)
		fmt.Fprintf(h, "T %s\n", ts.Schema.String2())
		var first string
		for i, ov := range ti.Indexes {
			var rows []string
			if rt == nil {
				bt, _, _ := ov.VerifParts()
				it := bt.Iterator()
				for it.Next(); !it.Eof(); it.Next() {
					_, off := it.Cur()
					rows = append(rows, string(db19.OffToRec(store, off)))
				}
			} else {
				it := rt.IndexIter(name, i)
				for it.Next(rt); !it.Eof(); it.Next(rt) {
					rows = append(rows, string(db19.OffToRec(store, it.CurOff())))
				}
			}
			sort.Strings(rows)
			rh := sha1.Sum([]byte(strings.Join(rows, "\x00\x01")))
			s := hex.EncodeToString(rh[:8]) + ":" + strconv.Itoa(len(rows))
			if i == 0 {
				first = s
				size := 0
				for _, r := range rows {
					size += len(r)
				}
				if rt == nil {
					fmt.Fprintf(h, "R %s nrows %d size %d\n", s, ti.BtreeNrows, ti.BtreeSize)
					if ti.BtreeNrows != len(rows) || int(ti.BtreeSize) != size {
						agree = 0
					}
				} else {
					fmt.Fprintf(h, "R %s nrows %d size %d\n", s, ti.Nrows, ti.Size)
					if ti.Nrows != len(rows) || int(ti.Size) != size {
						agree = 0
					}
				}
			} else if s != first {
				agree = 0
			}
			if agree == 0 && os.Getenv("VERIF_DEBUG") != "" {
				fmt.Fprintln(os.Stderr, "DISAGREE table", name, "index", i, s, "first", first, "btnrows", ti.BtreeNrows, "btsize", ti.BtreeSize, "nrows", ti.Nrows, "deltas", ti.Deltas, "nlayers", ov.Nlayers())
			}
		}
	}
	var views []string
	for name, def := range m.Views() {
		views = append(views, name+"="+def)
	}
	sort.Strings(views)
	fmt.Fprintf(h, "V %s\n", strings.Join(views, ";"))
	return hex.EncodeToString(h.Sum(nil)[:10]), agree
}

func logicalDigest(d *db19.Database) (string, int) {
	rt := d.NewReadTran()
	return digestMeta(d.Store, db19.VerifReadMeta(rt), rt)
}

// ---------------------------------------------------------------- hook sink

func sink(seq int64, ev string, kv []any) {
	switch ev {
	case "PersistApply":
		pend = "persist"
		pendOff = kv[1].(uint64)
	case "Commit", "MergeApply":
		pend = ev
	case "State":
		newS := kv[3].(*db19.DbState)
		if pend == "" && loadPending.Load() {
			// the state update of the table load itself (not a commit / merge / persist)
			if ch := loadDone.Load(); ch != nil {
				select {
				case <-*ch:
				default:
					close(*ch)
				}
			}
		}
		if pend == "persist" {
			t := db19.VerifStateTime(db.Store, pendOff)
			if base == 0 {
				base = t - 1000
			}
			dig, agree := digestMeta(db.Store, newS.Meta, nil)
			npers++
			persistOffsets = append(persistOffsets, int(pendOff))
			persistTimes = append(persistTimes, t)
			// the same digest from the state record just written, read back the way a reopen reads it
			disk := ""
			func() {
				defer func() {
					if e := recover(); e != nil {
						disk = fmt.Sprint("unreadable: ", e)
					}
				}()
				ds := db19.ReadState(db.Store, pendOff)
				disk, _ = digestMeta(db.Store, ds.Meta, nil)
			}()
			tr.Emit(vh.E("Persist", "off", int(pendOff), "t", int(t-base), "dig", dig, "agree", agree, "disk", disk))
		}
		pend = ""
	}
}

// ---------------------------------------------------------------- history

type tbl struct {
	name string
	cols []string
	key  string
}

func currentTables() []tbl {
	var ts []tbl
	for s := range db.GetState().Meta.Tables() {
		t := tbl{name: s.Table, cols: append([]string{}, s.Columns...)}
		for _, ix := range s.Indexes {
			if ix.Mode == 'k' && len(ix.Columns) == 1 {
				t.key = ix.Columns[0]
				break
			}
		}
		if t.key != "" {
			ts = append(ts, t)
		}
	}
	sort.Slice(ts, func(i, j int) bool { return ts[i].name < ts[j].name })
	return ts
}

func try(fn func()) (res string) {
	defer func() {
		if e := recover(); e != nil {
			res = fmt.Sprint(e)
			if len(res) > 60 {
				res = res[:60]
			}
		}
	}()
	fn()
	return "ok"
}

var nameSeq int
var manyPersists bool
var dumpMode bool
var loadMode bool
var asofMode bool

func adminOp(r *rand.Rand) {
	ts := currentTables()
	nameSeq++
	n := strconv.Itoa(nameSeq)
	var cmd string
	pick := func() tbl { return ts[r.Intn(len(ts))] }
	op := r.Intn(12)
	if len(ts) > 0 && r.Intn(25) == 0 {
		// empty the schema completely (views first, then tables; foreign key targets last)
		for name := range db.GetState().Meta.Views() {
			res := try(func() { query.DoAdmin(db, "drop "+name, nil) })
			tr.Emit(vh.E("Admin", "cmd", "drop "+name, "res", res))
		}
		for pass := 0; pass < 3; pass++ {
			for _, t := range currentTables() {
				res := try(func() { query.DoAdmin(db, "drop "+t.name, nil) })
				tr.Emit(vh.E("Admin", "cmd", "drop "+t.name, "res", res))
			}
		}
		return
	}
	if len(ts) == 0 || (op < 3 && len(ts) < 5) {
		extra := ""
		switch r.Intn(5) {
		case 0:
			extra = " index(a)"
		case 1:
			extra = " index unique(b)"
		case 2:
			extra = " index(a,b)"
		case 3:
			if len(ts) > 0 {
				mode := []string{"", " cascade", " cascade update"}[r.Intn(3)]
				extra = " index(a) in " + pick().name + mode
			}
		}
		name := "t" + n
		if r.Intn(2) == 0 {
			name = "t" + strconv.Itoa(1+r.Intn(4)) // reuse names of dropped tables
		}
		cmd = "create " + name + " (k, a, b, c) key(k)" + extra
	} else {
		t := pick()
		col := func() string { return t.cols[r.Intn(len(t.cols))] }
		switch op {
		case 3:
			cmd = "alter " + t.name + " create (x" + n + ")"
		case 4:
			cmd = "alter " + t.name + " create index(" + col() + ")"
		case 5:
			cmd = "alter " + t.name + " rename " + col() + " to y" + n
		case 6:
			cmd = "alter " + t.name + " drop (" + col() + ")"
		case 7:
			cmd = "alter " + t.name + " drop index(" + col() + ")"
		case 8:
			cmd = "rename " + t.name + " to r" + n
		case 9:
			cmd = "view v" + n + " = " + t.name
		case 10:
			if r.Intn(2) == 0 {
				cmd = "drop " + t.name
				if r.Intn(2) == 0 {
					// drop, recreate under the same name and drop again without a persist in between
					res := try(func() { query.DoAdmin(db, cmd, nil) })
					tr.Emit(vh.E("Admin", "cmd", cmd, "res", res))
					c2 := "create " + t.name + " (k, a, b, c) key(k) index(b)"
					res = try(func() { query.DoAdmin(db, c2, nil) })
					tr.Emit(vh.E("Admin", "cmd", c2, "res", res))
					if r.Intn(2) == 0 {
						tranOp(r)
					}
				}
			} else {
				cmd = "ensure " + t.name + " (k, e" + n + ") index(e" + n + ")"
			}
		default:
			cmd = "ensure t" + n + " (k, a, b) key(k) index(b)"
		}
	}
	res := try(func() { query.DoAdmin(db, cmd, nil) })
	tr.Emit(vh.E("Admin", "cmd", cmd, "res", res))
}

func randRec(r *rand.Rand, t tbl, big bool) core.Record {
	var rb core.RecordBuilder
	for _, c := range t.cols {
		switch {
		case c == t.key:
			rb.Add(core.IntVal(1 + r.Intn(14)))
		case strings.HasSuffix(c, "-"): // deleted column
			rb.AddRaw("")
		case r.Intn(4) == 0:
			rb.AddRaw("")
		case big && r.Intn(3) == 0:
			rb.Add(core.SuStr(strings.Repeat("x", 200+r.Intn(70000))))
		case r.Intn(3) == 0:
			rb.Add(core.SuStr("s" + strconv.Itoa(r.Intn(5))))
		default:
			rb.Add(core.IntVal(r.Intn(6)))
		}
	}
	return rb.Trim().Build()
}

func tranOp(r *rand.Rand) {
	ts := currentTables()
	if len(ts) == 0 {
		return
	}
	th := &core.Thread{}
	ut := db.NewUpdateTran()
	if ut == nil {
		return
	}
	nops := 1 + r.Intn(4)
	alive := true
	for i := 0; i < nops && alive; i++ {
		t := ts[r.Intn(len(ts))]
		res := try(func() {
			switch r.Intn(4) {
			case 0, 1:
				ut.Output(th, t.name, randRec(r, t, !noBig && r.Intn(40) == 0))
			default:
				it := ut.IndexIter(t.name, 0)
				n := 1 + r.Intn(5)
				var off uint64
				for j := 0; j < n; j++ {
					it.Next(ut)
					if it.Eof() {
						break
					}
					off = it.CurOff()
				}
				if off == 0 {
					return
				}
				switch r.Intn(5) {
				case 0, 1:
					ut.Delete(th, t.name, off)
				case 2:
					// an "update" that changes nothing
					ut.Update(th, t.name, off, db19.OffToRec(db.Store, off))
				default:
					ut.Update(th, t.name, off, randRec(r, t, false))
				}
			}
		})
		if strings.Contains(res, "aborted") || strings.Contains(res, "ended") {
			alive = false
		}
	}
	if r.Intn(10) == 0 {
		ut.Abort()
		return
	}
	if ut.Complete() == "" {
		tr.Emit(vh.E("Committed"))
	}
}

// dropRecreateDrop: a persisted table is dropped, created again under the same name and
// (mostly) dropped again, all between two persists
func dropRecreateDrop(r *rand.Rand) {
	ts := currentTables()
	if len(ts) == 0 {
		return
	}
	t := ts[r.Intn(len(ts))]
	if r.Intn(4) > 0 {
		db.Persist()
	}
	cmds := []string{"drop " + t.name, "create " + t.name + " (k, a, b, c) key(k) index(b)"}
	for i, cmd := range cmds {
		res := try(func() { query.DoAdmin(db, cmd, nil) })
		tr.Emit(vh.E("Admin", "cmd", cmd, "res", res))
		if res != "ok" {
			return
		}
		if i == 1 && r.Intn(2) == 0 {
			tranOp(r)
		}
	}
	if r.Intn(4) > 0 {
		res := try(func() { query.DoAdmin(db, cmds[0], nil) })
		tr.Emit(vh.E("Admin", "cmd", cmds[0], "res", res))
	}
}

// shortRowsThenDrop: rows whose last stored field is column c (the fields after it are empty
// and trimmed), then column c is dropped: the records keep the value in the deleted slot and
// dump / compact have to squeeze it out
func shortRowsThenDrop(r *rand.Rand) {
	for _, t := range currentTables() {
		var live []int
		for i, c := range t.cols {
			if c != "-" && c != t.key {
				live = append(live, i)
			}
		}
		if len(live) < 2 || r.Intn(2) == 0 {
			continue
		}
		ci := live[r.Intn(len(live)-1)] // not the last live column
		th := &core.Thread{}
		if ut := db.NewUpdateTran(); ut != nil {
			try(func() {
				for n := 0; n < 2; n++ {
					var rb core.RecordBuilder
					for i, c := range t.cols {
						switch {
						case c == t.key:
							rb.Add(core.IntVal(20 + r.Intn(30)))
						case i == ci:
							rb.Add(core.SuStr("gone" + strconv.Itoa(r.Intn(9))))
						default:
							rb.AddRaw("")
						}
					}
					ut.Output(th, t.name, rb.Trim().Build())
				}
			})
			if ut.Complete() == "" {
				tr.Emit(vh.E("Committed"))
			}
		}
		cmd := "alter " + t.name + " drop (" + t.cols[ci] + ")"
		res := try(func() { query.DoAdmin(db, cmd, nil) })
		tr.Emit(vh.E("Admin", "cmd", cmd, "res", res))
		return
	}
}

// noopUpdateTran: a transaction "updates" a row of one table to the identical record and
// really writes another table; later the first table is written again
func noopUpdateTran(r *rand.Rand) {
	ts := currentTables()
	if len(ts) < 2 {
		return
	}
	r.Shuffle(len(ts), func(i, j int) { ts[i], ts[j] = ts[j], ts[i] })
	a, b := ts[0], ts[1]
	th := &core.Thread{}
	ut := db.NewUpdateTran()
	if ut == nil {
		return
	}
	try(func() {
		it := ut.IndexIter(a.name, 0)
		it.Next(ut)
		if !it.Eof() {
			off := it.CurOff()
			ut.Update(th, a.name, off, db19.OffToRec(db.Store, off))
		}
		ut.Output(th, b.name, freshRec(r, b))
	})
	if ut.Complete() == "" {
		tr.Emit(vh.E("Committed"))
	}
	if r.Intn(3) == 0 {
		db.Persist()
	}
	if w := db.NewUpdateTran(); w != nil {
		try(func() { w.Output(th, a.name, freshRec(r, a)) })
		if w.Complete() == "" {
			tr.Emit(vh.E("Committed"))
		}
	}
}

// buildThenChange: build an index over rows that are not persisted yet, then delete or
// update some of them (their entries are in the new index's btree but only in the
// layers of the older indexes)
func buildThenChange(r *rand.Rand) {
	ts := currentTables()
	if len(ts) == 0 {
		return
	}
	t := ts[r.Intn(len(ts))]
	th := &core.Thread{}
	if r.Intn(3) > 0 {
		db.Persist() // so that only the rows added below are unpersisted
	}
	ut := db.NewUpdateTran()
	if ut == nil {
		return
	}
	var added []string
	for i := 0; i < 1+r.Intn(3); i++ {
		rec := randRec(r, t, false)
		if try(func() { ut.Output(th, t.name, rec) }) == "ok" {
			added = append(added, string(rec))
		}
	}
	if ut.Complete() != "" {
		return
	}
	tr.Emit(vh.E("Committed"))
	nameSeq++
	col := t.cols[r.Intn(len(t.cols))]
	cmd := "alter " + t.name + " create index(" + col + ")"
	if r.Intn(3) == 0 {
		cmd = "ensure " + t.name + " (" + t.key + ", n" + strconv.Itoa(nameSeq) + ") index(n" + strconv.Itoa(nameSeq) + ")"
	}
	res := try(func() { query.DoAdmin(db, cmd, nil) })
	tr.Emit(vh.E("Admin", "cmd", cmd, "res", res))
	ut = db.NewUpdateTran()
	if ut == nil {
		return
	}
	all := r.Intn(4) > 0
	try(func() {
		it := ut.IndexIter(t.name, 0)
		for it.Next(ut); !it.Eof(); it.Next(ut) {
			rec := string(db19.OffToRec(db.Store, it.CurOff()))
			mine := false
			for _, a := range added {
				mine = mine || a == rec
			}
			if (mine && all) || (!all && r.Intn(3) == 0) {
				ut.Delete(th, t.name, it.CurOff())
			}
		}
	})
	if ut.Complete() == "" {
		tr.Emit(vh.E("Committed"))
	}
	if r.Intn(2) == 0 {
		db.Persist()
	}
}

// liveDump: dump one table of the OPEN database (merger running, changes possibly not
// persisted yet) and load it into a fresh database: must be the table as visible now
func liveDump(r *rand.Rand) {
	ts := currentTables()
	if len(ts) == 0 {
		return
	}
	t := ts[r.Intn(len(ts))]
	if strings.Contains(db.Schema(t.name), " in ") {
		return // a lone table with a foreign key cannot be loaded into an empty database
	}
	rt := db.NewReadTran()
	var want []string
	it := rt.IndexIter(t.name, 0)
	sch := db19.VerifReadMeta(rt).GetRoSchema(t.name)
	for it.Next(rt); !it.Eof(); it.Next(rt) {
		want = append(want, liveRow(db19.OffToRec(db.Store, it.CurOff()), sch.Columns))
	}
	sort.Strings(want)
	wd, _ := os.Getwd()
	os.Chdir(dir)
	defer os.Chdir(wd)
	su := t.name + ".su"
	newdb := filepath.Join(dir, "live.db")
	os.Remove(newdb)
	defer func() {
		for _, f := range []string{su, su + ".bak", newdb, newdb + ".bak"} {
			os.Remove(f)
		}
	}()
	res := try(func() {
		if _, err := tools.DumpDbTable(db, t.name, su, ""); err != nil {
			panic(err)
		}
		if _, err := tools.LoadTable(t.name, newdb); err != nil {
			panic(err)
		}
	})
	same := 0
	if res == "ok" {
		if d, err := db19.OpenDb(newdb, stor.Read, true); err == nil {
			rt2 := d.NewReadTran()
			var got []string
			it := rt2.IndexIter(t.name, 0)
			sch2 := db19.VerifReadMeta(rt2).GetRoSchema(t.name)
			for it.Next(rt2); !it.Eof(); it.Next(rt2) {
				got = append(got, liveRow(db19.OffToRec(d.Store, it.CurOff()), sch2.Columns))
			}
			sort.Strings(got)
			if strings.Join(got, "\x00\x01") == strings.Join(want, "\x00\x01") {
				same = 1
			}
			d.Close()
		}
	}
	tr.Emit(vh.E("LiveDump", "table", t.name, "res", res, "same", same))
}

// liveLoad (C16, C20): Database.Load(table) on the running database. The table is dumped,
// changed again (committed changes that the load discards) and loaded back while a
// background persist (variant 0) or merge (variant 1) that was computed on the old table is
// parked; afterwards the table must be exactly the dumped one, in every index, and stay so.
var (
	loadPending atomic.Bool
	loadParked  atomic.Int32
	loadDone    atomic.Pointer[chan struct{}]
)

func gate(point string, kv []any) {
	switch point {
	case "persist.computed", "merge.begin", "merge.computed":
		if h := spanHold.Load(); h != nil && point == "persist.computed" {
			spanParked.Add(1)
			select {
			case <-*h:
			case <-time.After(200 * time.Millisecond):
			}
		}
		if loadPending.Load() {
			if ch := loadDone.Load(); ch != nil {
				loadParked.Add(1)
				select {
				case <-*ch:
				case <-time.After(300 * time.Millisecond):
				}
			}
		}
	}
}

func tableRows(name string) []string {
	rt := db.NewReadTran()
	var rows []string
	it := rt.IndexIter(name, 0)
	sch := db19.VerifReadMeta(rt).GetRoSchema(name)
	for it.Next(rt); !it.Eof(); it.Next(rt) {
		rows = append(rows, liveRow(db19.OffToRec(db.Store, it.CurOff()), sch.Columns))
	}
	sort.Strings(rows)
	return rows
}

func liveLoad(r *rand.Rand) {
	ts := currentTables()
	if len(ts) == 0 {
		return
	}
	t := ts[r.Intn(len(ts))]
	sc := db.GetState().Meta.GetRoSchema(t.name)
	if sc == nil || sc.HasFkey() || sc.HasFkeyToHere() {
		return // single tables with foreign keys (either direction) cannot be loaded
	}
	wd, _ := os.Getwd()
	os.Chdir(dir)
	defer os.Chdir(wd)
	su := t.name + ".su"
	defer func() {
		os.Remove(su)
		os.Remove(su + ".bak")
	}()
	want := tableRows(t.name)
	if res := try(func() {
		if _, err := tools.DumpDbTable(db, t.name, su, ""); err != nil {
			panic(err)
		}
	}); res != "ok" {
		tr.Emit(vh.E("LiveLoad", "table", t.name, "res", "dump: "+res, "same", 0, "variant", 0))
		return
	}
	variant := r.Intn(2)
	if os.Getenv("VERIF_LOAD_VARIANT") != "" {
		variant, _ = strconv.Atoi(os.Getenv("VERIF_LOAD_VARIANT"))
	}
	// committed changes to the table that the load will replace
	change := func() {
		th := &core.Thread{}
		ut := db.NewUpdateTran()
		if ut == nil {
			return
		}
		try(func() {
			for i := 0; i < 1+r.Intn(3); i++ {
				ut.Output(th, t.name, randRec(r, t, false))
			}
		})
		if ut.Complete() == "" {
			tr.Emit(vh.E("Committed"))
		}
	}
	ch := make(chan struct{})
	loadDone.Store(&ch)
	loadParked.Store(0)
	if variant == 0 {
		// merged but not yet persisted changes; wait for the ticker's persist to be parked
		change()
		time.Sleep(3 * time.Millisecond)
		loadPending.Store(true)
		for i := 0; i < 60 && loadParked.Load() == 0; i++ {
			time.Sleep(time.Millisecond)
		}
	} else {
		// a commit whose merge is still pending when the load takes the table
		loadPending.Store(true)
		change()
	}
	parked := int(loadParked.Load())
	res := try(func() {
		if _, err := tools.LoadDbTable(t.name, su, "", "", db); err != nil {
			panic(err)
		}
	})
	loadPending.Store(false)
	select {
	case <-ch:
	default:
		close(ch)
	}
	time.Sleep(2 * time.Millisecond) // let the released merge / persist apply
	same := 0
	got := tableRows(t.name)
	_, agree := logicalDigest(db)
	if res == "ok" && agree == 1 && strings.Join(got, "\x00\x01") == strings.Join(want, "\x00\x01") {
		same = 1
	}
	tr.Emit(vh.E("LiveLoad", "table", t.name, "res", res, "same", same, "variant", variant, "parked", parked))
}

func liveRow(rec core.Record, cols []string) string {
	var sb strings.Builder
	for ci, col := range cols {
		if col == "-" {
			continue
		}
		if ci < rec.Count() {
			sb.WriteString(rec.GetRaw(ci))
		}
		sb.WriteString("\x00\x02")
	}
	return strings.TrimRight(sb.String(), "\x00\x02")
}

// live asof (C19): ask for a time that is still in the future, keep working (commits,
// persists), and ask for the same time again once it has passed
var pendingAsof []int64

func liveAsof(r *rand.Rand, tot map[string]int) {
	if base == 0 {
		return
	}
	now := time.Now().UnixMilli()
	if len(pendingAsof) > 0 && now > pendingAsof[0]+3 {
		tau := pendingAsof[0]
		pendingAsof = pendingAsof[1:]
		// a forced persist: every state record written so far has been logged when it returns
		db.Persist()
		rt := db.NewReadTran()
		got := rt.Asof(tau)
		if got == 0 {
			tr.Emit(vh.E("Asof", "kind", "at", "arg", int(tau-base), "t", 0, "off", 0, "dig", ""))
		} else {
			dig, _ := digestMeta(db.Store, db19.VerifReadMeta(rt), nil)
			tr.Emit(vh.E("Asof", "kind", "at", "arg", int(tau-base), "t", int(got-base), "off", int(db19.VerifAsofOff(rt)), "dig", dig))
		}
		return
	}
	if len(pendingAsof) < 3 {
		tau := now + int64(15+r.Intn(40))
		rt := db.NewReadTran()
		rt.Asof(tau) // future: shows the current state; what matters is that it is not remembered
		pendingAsof = append(pendingAsof, tau)
		// make sure at least one more state is persisted before that time
		tranOp(r)
		db.Persist()
	}
}

// spanningTran: a transaction that is open across a persist which writes metadata
func spanningTran(r *rand.Rand) {
	ts := currentTables()
	if len(ts) == 0 {
		return
	}
	t := ts[r.Intn(len(ts))]
	th := &core.Thread{}
	ut := db.NewUpdateTran()
	if ut == nil {
		return
	}
	if r.Intn(2) == 0 {
		spanOvertaken(r, t, ut)
		return
	}
	// something else commits and is persisted while ut is open
	for i := 0; i < 1+r.Intn(2); i++ {
		tranOp(r)
	}
	db.Persist()
	res := try(func() {
		for i := 0; i < 1+r.Intn(2); i++ {
			ut.Output(th, t.name, randRec(r, t, false))
		}
	})
	_ = res
	if ut.Complete() == "" {
		tr.Emit(vh.E("Committed"))
	}
	if r.Intn(2) == 0 {
		db.Persist()
	}
}

// spanOvertaken: the table the open transaction ut is going to write is changed and
// persisted (once or twice) by others; then ut commits while the merger is busy with a
// ticker persist, long enough for the ticker to fire again, so that the next persist may
// run BEFORE the merge of ut's commit
var (
	spanHold   atomic.Pointer[chan struct{}]
	spanParked atomic.Int32
	curIvl     time.Duration
)

var freshKey = 1000
var noBig bool // heap store scenarios: records must fit into a small chunk
var spanOften = os.Getenv("VERIF_SPAN_OFTEN") != ""

// freshRec: a record for t with a key nobody else uses
func freshRec(r *rand.Rand, t tbl) core.Record {
	var rb core.RecordBuilder
	for _, c := range t.cols {
		switch {
		case c == t.key:
			freshKey++
			rb.Add(core.IntVal(freshKey))
		case strings.HasSuffix(c, "-") || r.Intn(3) == 0:
			rb.AddRaw("")
		default:
			rb.Add(core.IntVal(r.Intn(6)))
		}
	}
	return rb.Trim().Build()
}

func spanOvertaken(r *rand.Rand, t tbl, ut *db19.UpdateTran) {
	th := &core.Thread{}
	writeTo := func() {
		if w := db.NewUpdateTran(); w != nil {
			try(func() { w.Output(th, t.name, freshRec(r, t)) })
			if w.Complete() == "" {
				tr.Emit(vh.E("Committed"))
			}
		}
	}
	for i := 0; i < 2+r.Intn(3); i++ {
		writeTo()
		db.Persist()
	}
	// the persist that is held saves some other table
	ts := currentTables()
	o := ts[r.Intn(len(ts))]
	if w := db.NewUpdateTran(); w != nil && o.name != t.name {
		try(func() { w.Output(th, o.name, freshRec(r, o)) })
		if w.Complete() == "" {
			tr.Emit(vh.E("Committed"))
		}
	} else if w != nil {
		w.Abort()
	}
	time.Sleep(2 * time.Millisecond)
	hold := make(chan struct{})
	spanParked.Store(0)
	spanHold.Store(&hold)
	for i := 0; i < 60 && spanParked.Load() == 0; i++ {
		time.Sleep(time.Millisecond)
	}
	try(func() { ut.Output(th, t.name, freshRec(r, t)) })
	if ut.Complete() == "" {
		tr.Emit(vh.E("Committed"))
	}
	time.Sleep(curIvl + 2*time.Millisecond)
	if os.Getenv("VERIF_DEBUG") != "" {
		fmt.Fprintln(os.Stderr, "spanOvertaken parked", spanParked.Load(), "npers", npers, "ivl", curIvl)
	}
	spanHold.Store(nil)
	close(hold)
	time.Sleep(time.Duration(1+r.Intn(5)) * time.Millisecond)
}

func history(r *rand.Rand, steps int) {
	for i := 0; i < steps; i++ {
		if r.Intn(9) == 0 || (spanOften && r.Intn(3) == 0) {
			spanningTran(r)
			continue
		}
		if asofMode && r.Intn(5) == 0 {
			liveAsof(r, nil)
			continue
		}
		if dumpMode && r.Intn(16) == 0 {
			shortRowsThenDrop(r)
			continue
		}
		if dumpMode && r.Intn(8) == 0 {
			liveDump(r)
			continue
		}
		if r.Intn(12) == 0 {
			buildThenChange(r)
			continue
		}
		if r.Intn(16) == 0 {
			dropRecreateDrop(r)
			continue
		}
		if r.Intn(14) == 0 {
			noopUpdateTran(r)
			continue
		}
		if loadMode && r.Intn(14) == 0 {
			liveLoad(r)
			continue
		}
		switch n := r.Intn(20); {
		case n < 4:
			adminOp(r)
		case n < 16:
			tranOp(r)
		case n < 18 || manyPersists:
			db.Persist()
		default:
			time.Sleep(time.Duration(1+r.Intn(4)) * time.Millisecond)
		}
	}
}

// ---------------------------------------------------------------- scenario

// heapScenario (C19): the same history on a heap store with 8 KB chunks, so that the persisted
// states are spread over many storage chunks and asof / step searches cross chunk boundaries
func heapScenario(r *rand.Rand, tot map[string]int) {
	base, npers, nameSeq = 0, 0, 0
	persistOffsets = nil
	persistTimes = nil
	db = db19.CreateDb(stor.HeapStor(8192))
	vh.SetSink(sink)
	vh.SetGate(gate)
	curIvl = time.Duration(4+r.Intn(12)) * time.Millisecond
	db19.StartConcur(db, curIvl)
	tr.Emit(vh.E("Created", "statelen", db19.VerifStateLen, "tail", db19.VerifTailSize))
	manyPersists, dumpMode, loadMode, asofMode, noBig = true, false, false, true, true
	pendingAsof = nil
	history(r, 90+r.Intn(60))
	for len(pendingAsof) > 0 {
		if d := pendingAsof[0] + 4 - time.Now().UnixMilli(); d > 0 {
			time.Sleep(time.Duration(d) * time.Millisecond)
		}
		liveAsof(r, nil)
	}
	db.Persist()
	tot["persists"] += npers
	tot["heap_chunks"] += int(db.Store.Size() / 8192)
	asofPhase(r, tot)
	db.Close()
	vh.SetSink(nil)
	vh.SetGate(nil)
	noBig = false
}

func scenario(r *rand.Rand, sn int, mode string, ntrials int, tot map[string]int) {
	path := filepath.Join(dir, fmt.Sprintf("s%d.db", sn))
	os.Remove(path)
	base, npers, nameSeq = 0, 0, 0
	persistOffsets = nil
	persistTimes = nil
	var err error
	db, err = db19.CreateDatabase(path)
	if err != nil {
		vh.Fatal("create: %v", err)
	}
	vh.SetSink(sink)
	vh.SetGate(gate)
	curIvl = time.Duration(4+r.Intn(20)) * time.Millisecond
	db19.StartConcur(db, curIvl)
	tr.Emit(vh.E("Created", "statelen", db19.VerifStateLen, "tail", db19.VerifTailSize))
	manyPersists = mode == "crash" || mode == "asof"
	dumpMode = mode == "dump" || mode == "all"
	loadMode = mode == "dump" || mode == "all" || mode == "reopen"
	asofMode = mode == "asof" || mode == "all"
	pendingAsof = nil
	rounds := 1 + r.Intn(3)
	var img []byte
	for round := 0; round < rounds; round++ {
		steps := 15 + r.Intn(30)
		if mode == "crash" {
			steps = 120 + r.Intn(60) // many state records: some straddle a page boundary
		}
		history(r, steps)
		for asofMode && len(pendingAsof) > 0 {
			if d := pendingAsof[0] + 4 - time.Now().UnixMilli(); d > 0 {
				time.Sleep(time.Duration(d) * time.Millisecond)
			}
			liveAsof(r, nil)
		}
		if round == rounds-1 && (mode == "crash" || mode == "all") {
			// image of the file as a process death would leave it: everything allocated so far,
			// no final persist, no shutdown marker. Taken under a forced persist so that the
			// list of durable states is complete up to here.
			db.Persist()
			size := int(db.Store.Size())
			f, _ := os.ReadFile(path)
			if len(f) < size {
				vh.Fatal("file shorter than store size")
			}
			img = append([]byte{}, f[:size]...)
			tr.Emit(vh.E("Image", "size", size))
		}
		dig, agree := logicalDigest(db)
		tr.Emit(vh.E("Close", "dig", dig, "agree", agree))
		db.Close()
		tot["closes"]++
		// reopen (read-write, through the same entry point the server uses)
		res := try(func() {
			db, err = db19.OpenDatabase(path)
			if err != nil {
				panic(err)
			}
		})
		if res != "ok" {
			tr.Emit(vh.E("Reopen", "res", res, "dig", "", "agree", 0, "check", ""))
			return
		}
		ck := ""
		if e := db.Check(true); e != nil {
			ck = fmt.Sprint(e)
		}
		dig, agree = logicalDigest(db)
		tr.Emit(vh.E("Reopen", "res", "ok", "dig", dig, "agree", agree, "check", ck))
		if round < rounds-1 {
			curIvl = time.Duration(4+r.Intn(20)) * time.Millisecond
			db19.StartConcur(db, curIvl)
		}
	}
	tot["persists"] += npers
	// db is open (no checker) on the final, cleanly closed file
	if mode == "asof" || mode == "all" {
		asofPhase(r, tot)
	}
	db.Close()
	vh.SetSink(nil)
	vh.SetGate(nil)
	if mode == "dump" || mode == "all" {
		dumpPhase(r, path, tot)
	}
	if img != nil {
		crashPhase(r, img, sn, ntrials, tot)
	}
	os.Remove(path)
}

// ---------------------------------------------------------------- asof (C19)

func asofPhase(r *rand.Rand, tot map[string]int) {
	rt := db.NewReadTran()
	cur, _ := logicalDigest(db)
	emit := func(kind string, arg int, got int64) {
		if got == 0 && kind == "future" {
			// the live state of a database that was not reopened carries no time
			dig, _ := digestMeta(db.Store, db19.VerifReadMeta(rt), nil)
			tr.Emit(vh.E("Asof", "kind", kind, "arg", arg, "t", 0, "off", 0, "dig", dig))
			return
		}
		if got == 0 {
			tr.Emit(vh.E("Asof", "kind", kind, "arg", arg, "t", 0, "off", 0, "dig", ""))
			return
		}
		dig, _ := digestMeta(db.Store, db19.VerifReadMeta(rt), nil)
		tr.Emit(vh.E("Asof", "kind", kind, "arg", arg, "t", int(got-base), "off", int(db19.VerifAsofOff(rt)), "dig", dig))
		tot["asofs"]++
	}
	_ = cur
	// absolute times around every persisted state, before the first, and random
	taus := []int64{base - 5000}
	for _, k := range r.Perm(len(persistTimes)) {
		if len(taus) > 14 {
			break
		}
		taus = append(taus, persistTimes[k]+int64(r.Intn(3)-1)) // exactly at, just before, just after
	}
	for i := 0; i < 4; i++ {
		taus = append(taus, base+int64(r.Intn(3000)))
	}
	for _, tau := range taus {
		if tau >= time.Now().UnixMilli()-20 {
			continue // not (safely) in the past: that is the "future" case below
		}
		got := rt.Asof(tau)
		emit("at", int(tau-base), got)
		// walk a few steps from here
		for j := 0; j < 3; j++ {
			d := int64(1)
			if r.Intn(2) == 0 {
				d = -1
			}
			got := rt.Asof(d)
			emit("step", int(d), got)
			if got == 0 {
				break
			}
		}
	}
	// a time in the future shows the current state
	got := rt.Asof(time.Now().UnixMilli() + 100000)
	emit("future", 0, got)
}

// ---------------------------------------------------------------- dump / load / compact (C20)

func digestFile(path string) (string, int, string) {
	d, err := db19.OpenDb(path, stor.Read, true)
	if err != nil {
		return "", 0, fmt.Sprint(err)
	}
	defer d.Close()
	ck := ""
	if e := d.Check(true); e != nil {
		ck = fmt.Sprint(e)
	}
	dig, agree := contentDigest(d)
	return dig, agree, ck
}

// contentDigest is like logicalDigest but independent of physical layout details that
// dump/load/compact legitimately change: schema text as dumped, views, rows as sets.
func contentDigest(d *db19.Database) (string, int) {
	rt := d.NewReadTran()
	m := db19.VerifReadMeta(rt)
	agree := 1
	var names []string
	for ts := range m.Tables() {
		names = append(names, ts.Table)
	}
	sort.Strings(names)
	h := sha1.New()
	for _, name := range names {
		ts := m.GetRoSchema(name)
		ti := m.GetRoInfo(name)
		fmt.Fprintf(h, "T %s\n", ts.Schema.DumpString(0))
		var first string
		for i := range ti.Indexes {
			var rows []string
			it := rt.IndexIter(name, i)
			for it.Next(rt); !it.Eof(); it.Next(rt) {
				rec := db19.OffToRec(d.Store, it.CurOff())
				// compare by field values of the live columns
				var sb strings.Builder
				for ci, col := range ts.Columns {
					if col == "-" {
						continue
					}
					if ci < rec.Count() {
						sb.WriteString(rec.GetRaw(ci))
					}
					sb.WriteString("\x00\x02")
				}
				rows = append(rows, strings.TrimRight(sb.String(), "\x00\x02"))
			}
			sort.Strings(rows)
			rh := sha1.Sum([]byte(strings.Join(rows, "\x00\x01")))
			s := hex.EncodeToString(rh[:8]) + ":" + strconv.Itoa(len(rows))
			if i == 0 {
				first = s
				fmt.Fprintf(h, "R %s\n", s)
				if ti.Nrows != len(rows) {
					agree = 0
				}
			} else if s != first {
				agree = 0
			}
		}
	}
	var views []string
	for name, def := range m.Views() {
		views = append(views, name+"="+def)
	}
	sort.Strings(views)
	fmt.Fprintf(h, "V %s\n", strings.Join(views, ";"))
	return hex.EncodeToString(h.Sum(nil)[:10]), agree
}

// tableDigest: rows of one table (by live column) + dump schema text
func tableDigest(path, name string) (string, int) {
	d, err := db19.OpenDb(path, stor.Read, true)
	if err != nil {
		return "open:" + fmt.Sprint(err), 0
	}
	defer d.Close()
	rt := d.NewReadTran()
	m := db19.VerifReadMeta(rt)
	ts := m.GetRoSchema(name)
	if ts == nil {
		return "missing", 0
	}
	var rows []string
	it := rt.IndexIter(name, 0)
	for it.Next(rt); !it.Eof(); it.Next(rt) {
		rec := db19.OffToRec(d.Store, it.CurOff())
		var sb strings.Builder
		for ci, col := range ts.Columns {
			if col == "-" {
				continue
			}
			if ci < rec.Count() {
				sb.WriteString(rec.GetRaw(ci))
			}
			sb.WriteString("\x00\x02")
		}
		rows = append(rows, strings.TrimRight(sb.String(), "\x00\x02"))
	}
	sort.Strings(rows)
	h := sha1.Sum([]byte(ts.Schema.DumpString(0) + "\n" + strings.Join(rows, "\x00\x01")))
	return hex.EncodeToString(h[:10]), len(rows)
}

// tablePhase: DumpTable + LoadTable into a fresh database must give the same table;
// a dump edited to contain a duplicate key must be refused by load
func tablePhase(r *rand.Rand, path string, tot map[string]int) {
	d, err := db19.OpenDb(path, stor.Read, true)
	if err != nil {
		return
	}
	var names []string
	for ts := range d.GetState().Meta.Tables() {
		if ti := d.GetState().Meta.GetRoInfo(ts.Table); ti != nil && ti.Nrows > 0 {
			names = append(names, ts.Table)
		}
	}
	d.Close()
	if len(names) == 0 {
		return
	}
	sort.Strings(names)
	name := names[r.Intn(len(names))]
	wd, _ := os.Getwd()
	os.Chdir(dir)
	defer os.Chdir(wd)
	su := name + ".su"
	newdb := filepath.Join(dir, "tbl.db")
	defer func() {
		for _, f := range []string{su, su + ".bak", newdb, newdb + ".bak"} {
			os.Remove(f)
		}
	}()
	os.Remove(newdb)
	res := try(func() {
		if _, err := tools.DumpTable(path, name, su); err != nil {
			panic(err)
		}
		if _, err := tools.LoadTable(name, newdb); err != nil {
			panic(err)
		}
	})
	same := 0
	if res == "ok" {
		a, na := tableDigest(path, name)
		b, nb := tableDigest(newdb, name)
		if a == b && na == nb {
			same = 1
		}
	}
	tr.Emit(vh.E("TableRoundTrip", "table", name, "res", res, "same", same))
	tot["table_roundtrips"]++
	// duplicate the first record of the dump
	b, err := os.ReadFile(su)
	if err != nil || res != "ok" {
		return
	}
	nl1 := strings.IndexByte(string(b), '\n')
	nl2 := nl1 + 1 + strings.IndexByte(string(b[nl1+1:]), '\n')
	p := nl2 + 1
	if p+4 > len(b) {
		return
	}
	n := int(b[p])<<24 | int(b[p+1])<<16 | int(b[p+2])<<8 | int(b[p+3])
	if n == 0 || p+4+n > len(b) {
		return
	}
	dup := append([]byte{}, b[:p+4+n]...)
	dup = append(dup, b[p:p+4+n]...)
	dup = append(dup, b[p+4+n:]...)
	os.WriteFile(su, dup, 0o644)
	os.Remove(newdb)
	res = try(func() {
		if _, err := tools.LoadTable(name, newdb); err != nil {
			panic(err)
		}
	})
	out := "refused"
	if res == "ok" {
		out = "accepted"
	}
	tr.Emit(vh.E("DupLoad", "table", name, "res", out))
	tot["dup_loads"]++
}

func dumpPhase(r *rand.Rand, path string, tot map[string]int) {
	tablePhase(r, path, tot)
	orig, agree, ck := digestFile(path)
	tr.Emit(vh.E("Original", "dig", orig, "agree", agree, "check", ck))
	dump := path + ".dump"
	loaded := path + ".loaded"
	os.Remove(dump)
	os.Remove(loaded)
	res := try(func() {
		if _, _, err := tools.DumpDatabase(path, dump); err != nil {
			panic(err)
		}
		if _, _, err := tools.LoadDatabase(dump, loaded, "", ""); err != nil {
			panic(err)
		}
	})
	dig, agree, ck := "", 0, ""
	if res == "ok" {
		dig, agree, ck = digestFile(loaded)
	}
	tr.Emit(vh.E("DumpLoad", "res", res, "dig", dig, "agree", agree, "check", ck))
	tot["dumploads"]++
	// compact a copy
	comp := path + ".compact"
	b, _ := os.ReadFile(path)
	os.WriteFile(comp, b, 0o644)
	res = try(func() {
		if _, _, _, _, err := tools.Compact(comp); err != nil {
			panic(err)
		}
	})
	dig, agree, ck = "", 0, ""
	if res == "ok" {
		dig, agree, ck = digestFile(comp)
	}
	tr.Emit(vh.E("Compact", "res", res, "dig", dig, "agree", agree, "check", ck))
	tot["compacts"]++
	for _, f := range []string{dump, loaded, comp, comp + ".bak", path + ".bak"} {
		os.Remove(f)
	}
}

// ---------------------------------------------------------------- crash trials (C05)

type trial struct {
	X    int    `json:"x"`
	Tail string `json:"tail"`
	Y    int    `json:"y"` // hole trials: bytes [X,Y) are damaged, the rest of the image is intact
}

type trialRes struct {
	X      int    `json:"x"`
	Y      int    `json:"y"`
	Tail   string `json:"tail"`
	Open   string `json:"open"`   // refused | opened
	Check  string `json:"check"`  // error | ok
	Repair string `json:"repair"` // ok | novalid | error:...
	Dig    string `json:"dig"`
	Agree  int    `json:"agree"`
	Ck2    string `json:"ck2"` // full check of the repaired database ("" = passed)
	Reopen string `json:"reopen"`
	Eff    int    `json:"eff"`    // length of the trial file without trailing zero bytes (what the stor uses)
	Marker int    `json:"marker"` // 1 if the last 8 of those bytes are the shutdown marker
}

func crashPhase(r *rand.Rand, img []byte, sn, ntrials int, tot map[string]int) {
	imgPath := filepath.Join(dir, fmt.Sprintf("s%d.img", sn))
	os.WriteFile(imgPath, img, 0o644)
	defer os.Remove(imgPath)
	// offsets: around every state record and page boundaries, plus seeded random ones
	var xs []int
	sl := db19.VerifStateLen
	add := func(x int) {
		if x >= 16 && x <= len(img) {
			xs = append(xs, x)
		}
	}
	// (1) page boundaries that fall inside a state record (the file then ends inside a
	//     record whose first bytes are present)
	for _, off := range persistOffsets {
		for p := (off/4096 + 1) * 4096; p < off+sl; p += 4096 {
			add(p)
		}
	}
	// (2) before the first state record, (3) around state records, (4) other page
	//     boundaries, (5) seeded random offsets
	if len(persistOffsets) > 0 {
		add(16 + r.Intn(persistOffsets[0]-15))
		add(persistOffsets[0] + 8)
	}
	var more []int
	xs, more = nil, xs
	keep := func() { more = append(more, xs...); xs = nil }
	keep()
	for _, k := range r.Perm(len(persistOffsets)) {
		for _, d := range []int{-1, 0, 1, 8, 9, sl - 1, sl, sl + 1, sl + 8, sl + 9} {
			add(persistOffsets[k] + d)
		}
	}
	keep()
	for _, k := range r.Perm(len(img) / 4096) {
		add((k+1)*4096 + r.Intn(3) - 1)
	}
	keep()
	for i := 0; i < ntrials; i++ {
		add(16 + r.Intn(len(img)-15))
	}
	keep()
	xs = more
	if len(xs) > ntrials {
		// keep all of (1),(2) and a fair share of the rest
		head := xs[:min(len(xs), ntrials/3)]
		rest := xs[len(head):]
		r.Shuffle(len(rest), func(i, j int) { rest[i], rest[j] = rest[j], rest[i] })
		xs = append(head, rest[:ntrials-len(head)]...)
	}
	tails := []string{"none", "zeros", "garbage", "marker"}
	var trials []trial
	for _, x := range xs {
		trials = append(trials, trial{X: x, Tail: tails[r.Intn(len(tails))]})
	}
	// (6) pages written out of order: the image with a damaged region [x,y) (zeros, as a
	//     never-written page reads, or garbage) in front of intact later state records
	np := len(persistOffsets)
	for i := 0; np >= 3 && i < 2+ntrials/4; i++ {
		j := r.Intn(np - 1)                 // states 0..j are before the hole
		m := j + 1 + r.Intn(min(np-1-j, 5)) // state records m.. are intact after it
		if i%2 == 0 {
			// only a few (1..8) intact looking state records after the hole
			m = np - 1 - r.Intn(min(np-2, 8))
			j = m - 1 - r.Intn(min(m, 2))
		}
		lo := persistOffsets[j] + sl
		x := lo + r.Intn(persistOffsets[j+1]-lo+1)
		if r.Intn(3) == 0 && j > 0 { // the hole starts inside / before state record j
			x = persistOffsets[j] + r.Intn(sl)
		}
		y := persistOffsets[m]
		if r.Intn(3) == 0 {
			y -= r.Intn(min(200, y-x) + 1)
		}
		if x < 16 || y <= x || y > len(img) {
			continue
		}
		trials = append(trials, trial{X: x, Y: y, Tail: []string{"hole-zeros", "hole-garbage"}[r.Intn(2)]})
	}
	// run in child processes; if a child dies the trial in progress is recorded as Died
	for len(trials) > 0 {
		lst := filepath.Join(dir, "trials.json")
		out := filepath.Join(dir, "results.ndjson")
		b, _ := json.Marshal(trials)
		os.WriteFile(lst, b, 0o644)
		os.Remove(out)
		cmd := exec.Command(os.Args[0], "child", imgPath, lst)
		cmd.Env = append(os.Environ(), "VERIF_CHILD_OUT="+out)
		cmd.Dir = dir
		outb, _ := cmd.CombinedOutput()
		if os.Getenv("VERIF_DEBUG") == "2" {
			os.Stderr.Write(outb)
		}
		done := 0
		if f, err := os.Open(out); err == nil {
			sc := bufio.NewScanner(f)
			sc.Buffer(make([]byte, 1<<20), 1<<20)
			for sc.Scan() {
				var tres trialRes
				if json.Unmarshal(sc.Bytes(), &tres) != nil {
					break
				}
				ev := "Trial"
				if tres.Y > 0 {
					ev = "Hole"
				}
				tr.Emit(vh.E(ev, "x", tres.X, "y", tres.Y, "tail", tres.Tail, "open", tres.Open, "check", tres.Check,
					"repair", tres.Repair, "dig", tres.Dig, "agree", tres.Agree, "ck2", tres.Ck2, "reopen", tres.Reopen,
					"eff", tres.Eff, "marker", tres.Marker))
				done++
				tot["trials"]++
			}
			f.Close()
		}
		if done < len(trials) {
			t := trials[done]
			msg := string(outb)
			if os.Getenv("VERIF_DEBUG") != "" {
				fmt.Fprintln(os.Stderr, "CHILD DIED:", msg[:min(len(msg), 6000)])
			}
			first := ""
			for _, ln := range strings.Split(msg, "\n") {
				if first == "" {
					first = ln
				}
				if strings.Contains(ln, "panic") || strings.Contains(ln, "fatal error") || strings.Contains(ln, "signal") || strings.Contains(ln, "core.Fatal") {
					first = ln
					break
				}
			}
			msg = first
			if len(msg) > 100 {
				msg = msg[:100]
			}
			tr.Emit(vh.E("Died", "x", t.X, "y", t.Y, "tail", t.Tail, "msg", msg))
			tot["child_deaths"]++
			done++
		}
		trials = trials[done:]
	}
}

var persistOffsets []int
var persistTimes []int64

func child(imgPath, lst string) {
	img, err := os.ReadFile(imgPath)
	if err != nil {
		os.Exit(97)
	}
	var trials []trial
	b, _ := os.ReadFile(lst)
	json.Unmarshal(b, &trials)
	out, _ := os.Create(os.Getenv("VERIF_CHILD_OUT"))
	core.Exit = func(code int) {
		fmt.Println("core.Fatal in child")
		os.Exit(4)
	}
	for i, t := range trials {
		path := fmt.Sprintf("%s.t%d", imgPath, i) // fresh file (fresh inode) per trial
		data := append([]byte{}, img[:t.X]...)
		switch t.Tail {
		case "zeros":
			data = append(data, make([]byte, 64)...)
		case "garbage":
			g := make([]byte, 64+(t.X%3)*(t.X%6000))
			rand.New(rand.NewSource(int64(t.X))).Read(g)
			data = append(data, g...)
		case "hole-zeros":
			data = append(data, make([]byte, t.Y-t.X)...)
			data = append(data, img[t.Y:]...)
		case "hole-garbage":
			g := make([]byte, t.Y-t.X)
			rand.New(rand.NewSource(int64(t.X))).Read(g)
			data = append(data, g...)
			data = append(data, img[t.Y:]...)
		case "marker": // the shutdown marker bytes right after the cut (as if only the tail was written)
			data = append(data, []byte("\x2b\xc1\x85\x63\x8d\x71\x65\x6d")...)
		}
		os.WriteFile(path, data, 0o644)
		if os.Getenv("VERIF_DEBUG") != "" {
			fmt.Println("TRIAL", t.X, t.Y, t.Tail)
		}
		res := trialRes{X: t.X, Y: t.Y, Tail: t.Tail}
		res.Eff = len(data)
		for res.Eff > 0 && data[res.Eff-1] == 0 {
			res.Eff--
		}
		if res.Eff >= 8 && string(data[res.Eff-8:res.Eff]) == "\x2b\xc1\x85\x63\x8d\x71\x65\x6d" {
			res.Marker = 1
		}
		var openErr error
		func() {
			defer func() {
				if e := recover(); e != nil {
					openErr = fmt.Errorf("%v", e)
				}
			}()
			d, err := db19.OpenDb(path, stor.Read, true)
			openErr = err
			if err == nil {
				res.Dig, res.Agree = logicalDigest(d)
				d.Close()
			}
		}()
		if openErr != nil {
			res.Open = "refused"
		} else {
			res.Open = "opened"
		}
		ckErr := db19.CheckDatabase(path, true)
		if ckErr != nil {
			res.Check = "error"
		} else {
			res.Check = "ok"
		}
		if openErr != nil || ckErr != nil {
			e := openErr
			if e == nil {
				e = ckErr
			}
			_, rerr := db19.Repair(path, e)
			switch {
			case rerr == nil:
				res.Repair = "ok"
			case strings.Contains(rerr.Error(), "no valid states"):
				res.Repair = "novalid"
			default:
				res.Repair = "error:" + rerr.Error()
			}
			if rerr == nil {
				d, err := db19.OpenDatabase(path)
				if err != nil {
					res.Reopen = "refused"
				} else {
					res.Reopen = "ok"
					if e := d.Check(true); e != nil {
						res.Ck2 = fmt.Sprint(e)
						if len(res.Ck2) > 80 {
							res.Ck2 = res.Ck2[:80]
						}
					}
					res.Dig, res.Agree = logicalDigest(d)
					d.Close()
				}
			}
		} else {
			res.Repair = "notneeded"
		}
		jb, _ := json.Marshal(res)
		out.Write(append(jb, '\n'))
		os.Remove(path)
		os.Remove(path + ".bak")
	}
	out.Close()
}
