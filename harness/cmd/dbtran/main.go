// Driver for the database-level properties (C01 C02 C03 C06 C07 C08 C16 C44):
// runs the REAL db19 pipeline (checker goroutine, merger, persist timer) with
// concurrent client goroutines executing random transactions over a tiny universe,
// and records
//   - client events (Begin/Lookup/Scan/Output/Update/Delete/Complete ...) with results
//   - hook events emitted inside the state mutex (Commit, StateU with the full
//     physical projection of every touched table: btree + layers of every index,
//     Info statistics)
//
// as one ndjson trace for TraceDb.tla.
package main

import (
	"fmt"
	"math/rand"
	"os"
	"runtime"
	"sort"
	"strconv"
	"strings"
	"sync"
	"sync/atomic"
	"time"

	_ "github.com/apmckinlay/gsuneido/builtin"
	"github.com/apmckinlay/gsuneido/core"
	"github.com/apmckinlay/gsuneido/db19"
	"github.com/apmckinlay/gsuneido/db19/index"
	"github.com/apmckinlay/gsuneido/db19/index/ixbuf"
	"github.com/apmckinlay/gsuneido/db19/index/ixkey"
	"github.com/apmckinlay/gsuneido/db19/meta"
	"github.com/apmckinlay/gsuneido/db19/stor"
	_ "github.com/apmckinlay/gsuneido/dbms"
	"github.com/apmckinlay/gsuneido/dbms/query"

	"verifharness/vh"
)

// ---------------------------------------------------------------- universe

type tableDef struct {
	name  string
	admin string
	ncols int
	// domain of each column (values 1..dom; 0 = empty string allowed if optional)
	dom []int
	opt []bool
}

type profile struct {
	name     string
	tables   []tableDef
	clients  int
	trans    int // transactions per client
	maxOps   int
	readFrac int // percent of read-only transactions
	persist  time.Duration
	triggers bool
	admin    bool // run index creation / drop concurrently
	limit    bool // run a transaction into the write limit
	noPhys   bool // do not log the physical projection (large tables)
	bulk     bool // transactions insert runs of adjacent keys
	pairs    int  // >0: deterministic op-level interleaving of 2-3 transactions from one goroutine, this many groups
}

var profiles = map[string]profile{
	// key + unique + non-unique index, key() table: serializability, snapshots, atomicity, uniqueness
	"tran": {name: "tran", clients: 4, trans: 40, maxOps: 5, readFrac: 20, persist: 5 * time.Millisecond,
		tables: []tableDef{
			{name: "t1", admin: "create t1 (k,u,v) key(k) index unique(u) index(v)", ncols: 3, dom: []int{6, 3, 2}, opt: []bool{false, true, true}},
			{name: "t0", admin: "create t0 (a,b) key()", ncols: 2, dom: []int{3, 2}, opt: []bool{true, true}},
			{name: "t2", admin: "create t2 (p,q,r) key(p,q) index(r)", ncols: 3, dom: []int{2, 3, 2}, opt: []bool{false, true, true}},
		}},
	"tranpairs": {name: "tranpairs", pairs: 60, maxOps: 4, readFrac: 20, persist: 3 * time.Millisecond,
		tables: []tableDef{
			{name: "t1", admin: "create t1 (k,u,v) key(k) index unique(u) index(v)", ncols: 3, dom: []int{4, 3, 2}, opt: []bool{false, true, true}},
			{name: "t0", admin: "create t0 (a,b) key()", ncols: 2, dom: []int{3, 2}, opt: []bool{true, true}},
			{name: "t2", admin: "create t2 (p,q,r) key(p,q) index(r)", ncols: 3, dom: []int{2, 2, 2}, opt: []bool{false, true, true}},
		}},
	// one transaction that runs into the per-transaction write limit (10000), catches the
	// error and tries to commit; plus ordinary traffic
	"limit": {name: "limit", clients: 2, trans: 10, maxOps: 3, readFrac: 30, persist: 5 * time.Millisecond, limit: true,
		tables: []tableDef{
			{name: "t1", admin: "create t1 (k,u,v) key(k) index unique(u) index(v)", ncols: 3, dom: []int{6, 3, 2}, opt: []bool{false, true, true}},
		}},
	// a table large enough for multi-level btrees (leaf splits at persist); no physical projection
	"big": {name: "big", clients: 3, trans: 50, maxOps: 3, readFrac: 35, persist: 3 * time.Millisecond, noPhys: true, bulk: true,
		tables: []tableDef{
			{name: "b1", admin: "create b1 (k,v) key(k)", ncols: 2, dom: []int{600, 3}, opt: []bool{false, true}},
		}},
	// many tables: table infos live in deeper nodes of the persistent metadata map
	"wide": {name: "wide", clients: 4, trans: 40, maxOps: 3, readFrac: 30, persist: 5 * time.Millisecond, tables: wideTables(40)},
	// index creation / removal on a populated table while transactions commit and the merger runs
	"admin": {name: "admin", clients: 3, trans: 50, maxOps: 3, readFrac: 20, persist: 4 * time.Millisecond, admin: true,
		tables: []tableDef{
			{name: "t1", admin: "create t1 (k,u,v,w) key(k) index unique(u) index(v)", ncols: 4, dom: []int{8, 3, 2, 3}, opt: []bool{false, true, true, true}},
			{name: "t2", admin: "create t2 (p,q,r) key(p,q) index(r)", ncols: 3, dom: []int{2, 3, 2}, opt: []bool{false, true, true}},
		}},
	"fkeypairs": {name: "fkeypairs", pairs: 60, maxOps: 4, readFrac: 10, persist: 3 * time.Millisecond,
		tables: []tableDef{
			{name: "tg", admin: "create tg (id,x) key(id)", ncols: 2, dom: []int{3, 2}, opt: []bool{false, true}},
			{name: "sb", admin: "create sb (sk,id) key(sk) index(id) in tg", ncols: 2, dom: []int{3, 3}, opt: []bool{false, true}},
			{name: "sc", admin: "create sc (ck,id) key(ck) index(id) in tg cascade", ncols: 2, dom: []int{3, 3}, opt: []bool{false, true}},
			{name: "su", admin: "create su (uk,id) key(uk) index(id) in tg cascade update", ncols: 2, dom: []int{3, 3}, opt: []bool{false, true}},
		}},
	// triggers on every table incl. cascade generated changes, throwing triggers, nested disable/enable
	"trigpairs": {name: "trigpairs", pairs: 60, maxOps: 4, readFrac: 10, persist: 3 * time.Millisecond, triggers: true,
		tables: []tableDef{
			{name: "tg", admin: "create tg (id,x) key(id)", ncols: 2, dom: []int{3, 2}, opt: []bool{false, true}},
			{name: "sc", admin: "create sc (ck,id) key(ck) index(id) in tg cascade", ncols: 2, dom: []int{3, 3}, opt: []bool{false, true}},
			{name: "su", admin: "create su (uk,id) key(uk) index(id) in tg cascade update", ncols: 2, dom: []int{3, 3}, opt: []bool{false, true}},
			{name: "t1", admin: "create t1 (k,u,v) key(k) index unique(u) index(v)", ncols: 3, dom: []int{4, 3, 2}, opt: []bool{false, true, true}},
		}},
	"trig": {name: "trig", clients: 3, trans: 40, maxOps: 4, readFrac: 10, persist: 5 * time.Millisecond, triggers: true,
		tables: []tableDef{
			{name: "tg", admin: "create tg (id,x) key(id)", ncols: 2, dom: []int{4, 2}, opt: []bool{false, true}},
			{name: "sc", admin: "create sc (ck,id) key(ck) index(id) in tg cascade", ncols: 2, dom: []int{4, 4}, opt: []bool{false, true}},
			{name: "su", admin: "create su (uk,id) key(uk) index(id) in tg cascade update", ncols: 2, dom: []int{4, 4}, opt: []bool{false, true}},
		}},
	// foreign keys in all three modes + self reference
	"fkey": {name: "fkey", clients: 3, trans: 40, maxOps: 4, readFrac: 15, persist: 5 * time.Millisecond,
		tables: []tableDef{
			{name: "tg", admin: "create tg (id,x) key(id)", ncols: 2, dom: []int{4, 2}, opt: []bool{false, true}},
			{name: "sb", admin: "create sb (sk,id) key(sk) index(id) in tg", ncols: 2, dom: []int{4, 4}, opt: []bool{false, true}},
			{name: "sc", admin: "create sc (ck,id) key(ck) index(id) in tg cascade", ncols: 2, dom: []int{4, 4}, opt: []bool{false, true}},
			{name: "su", admin: "create su (uk,id) key(uk) index(id) in tg cascade update", ncols: 2, dom: []int{4, 4}, opt: []bool{false, true}},
		}},
}

func wideTables(n int) []tableDef {
	var ts []tableDef
	for i := 0; i < n; i++ {
		name := fmt.Sprintf("w%02d", i)
		ts = append(ts, tableDef{name: name, admin: "create " + name + " (k,v) key(k) index(v)", ncols: 2,
			dom: []int{3, 2}, opt: []bool{false, true}})
	}
	return ts
}

// ---------------------------------------------------------------- global state

var (
	tr      *vh.Trace
	db      *db19.Database
	prof    profile
	commits atomic.Int64 // number of Commit hook events so far
	metaC   sync.Map     // *meta.Meta -> commit count (int64)
	metaS   sync.Map     // *meta.Meta -> state update number (debugging aid)
	tranIds sync.Map     // *db19.UpdateTran -> int
	nextId  atomic.Int64
	// pending kind set by Commit/MergeApply/PersistApply events, consumed by State
	pendKind string
	pendTran int
	pendOff  uint64
	nState   int
	schemaMu sync.Mutex
)

func main() {
	if len(os.Args) < 4 {
		vh.Fatal("usage: dbtran <profile> <out.ndjson> <scenarios>")
	}
	p, ok := profiles[os.Args[1]]
	if !ok {
		vh.Fatal("unknown profile %s", os.Args[1])
	}
	prof = p
	nscen, _ := strconv.Atoi(os.Args[3])
	if v := os.Getenv("DBTRAN_CLIENTS"); v != "" {
		prof.clients, _ = strconv.Atoi(v)
	}
	if v := os.Getenv("DBTRAN_TRANS"); v != "" {
		prof.trans, _ = strconv.Atoi(v)
	}
	tr = vh.Create(os.Args[2])
	defer tr.Close()
	if os.Getenv("VERIF_CKORDER") != "" {
		// C17: order in which checker messages are sent for / dispatched to each transaction
		trCk = vh.Create(os.Args[2] + ".ck")
		defer trCk.Close()
	}
	core.Exit = func(code int) { // core.Fatal from the code under test: record it, never die silently
		tr.Emit(vh.E("Fatal", "code", code))
		tr.Close()
		fmt.Println("FATAL from code under test")
		os.Exit(3)
	}
	rnd := rand.New(rand.NewSource(vh.Seed()))
	ntran, ncommit, nstate := 0, 0, 0
	for s := 0; s < nscen; s++ {
		if s > 0 {
			tr.Reset()
			if trCk != nil {
				trCk.Reset()
			}
		}
		a, b := scenario(rnd.Int63(), s)
		ntran += a
		ncommit += b
		nstate += nState
	}
	vh.Summary("alters", nAlter.Load(), "merges_gated", nGated.Load(), "windows_widened", nWidened.Load(), "profile", prof.name, "scenarios", nscen, "transactions", ntran, "commits", ncommit,
		"state_updates", nstate, "events", tr.N)
}

func scenario(seed int64, sn int) (int, int) {
	trigOff = map[string]int{}
	commits.Store(0)
	nextId.Store(0)
	nState = 0
	metaC = sync.Map{}
	metaS = sync.Map{}
	tranIds = sync.Map{}
	db = db19.CreateDb(stor.HeapStor(64 * 1024))
	persist := prof.persist
	if prof.admin && sn%2 == 1 {
		persist *= 12 // rows stay unpersisted across index builds and later deletes
	}
	db19.StartConcur(db, persist)
	for _, td := range prof.tables {
		query.DoAdmin(db, td.admin, nil)
	}
	db.Persist()
	if prof.triggers {
		defineTriggers()
	}
	vh.SetSink(sink)
	emitSchema()
	// register the initial state and emit a full projection
	st := db.GetState()
	metaC.Store(st.Meta, int64(0))
	tr.Emit(stateEvent("init", 0, nil, st.Meta, true))
	var wg sync.WaitGroup
	var ntran atomic.Int64
	if prof.pairs > 0 {
		r := rand.New(rand.NewSource(seed))
		for g := 0; g < prof.pairs; g++ {
			if g%2 == 1 {
				ntran.Add(int64(raceTemplate(r)))
			} else {
				ntran.Add(int64(groupInterleaved(r)))
			}
		}
	}
	vh.SetGate(gate)
	stopAdmin := make(chan struct{})
	adminDone := make(chan struct{})
	if prof.admin {
		go adminLoop(rand.New(rand.NewSource(seed-99)), stopAdmin, adminDone)
	} else {
		close(adminDone)
	}
	stopLong := make(chan struct{})
	longDone := make(chan struct{})
	if prof.pairs == 0 {
		// a long-lived reader: repeated reads over many commits / merges / persists
		go func() {
			defer close(longDone)
			r := rand.New(rand.NewSource(seed + 424242))
			for {
				select {
				case <-stopLong:
					return
				default:
				}
				c := beginTran(r, r.Intn(4) == 0)
				if c == nil {
					continue
				}
				n := 8 + r.Intn(20)
				for i := 0; i < n && !c.dead; i++ {
					td := prof.tables[r.Intn(len(prof.tables))]
					if r.Intn(3) == 0 {
						c.lookup(td)
					} else {
						c.scan(td)
					}
					time.Sleep(time.Duration(r.Intn(1500)) * time.Microsecond)
				}
				c.finish()
				ntran.Add(1)
			}
		}()
	} else {
		close(longDone)
	}
	if prof.pairs == 0 && vh.Thorough() && sn%3 == 0 {
		// a transaction that outlives the checker's MaxAge: the tick aborts it, its writes
		// must never become visible and Complete must report failure
		db19.MaxAge = 1
		wg.Add(1)
		go func() {
			defer wg.Done()
			r := rand.New(rand.NewSource(seed + 777))
			c := beginTran(r, true)
			if c == nil {
				return
			}
			c.op()
			c.output(prof.tables[0])
			time.Sleep(2300 * time.Millisecond)
			if !c.dead {
				c.op()
			}
			c.finish()
			ntran.Add(1)
		}()
	} else {
		db19.MaxAge = 20
	}
	if prof.limit {
		wg.Add(1)
		go func() {
			defer wg.Done()
			r := rand.New(rand.NewSource(seed + 31337))
			// retried when another client's conflicting write ends the attempt early
			for attempt := 0; attempt < 6; attempt++ {
				c := beginTran(r, true)
				if c == nil {
					return
				}
				td := prof.tables[0]
				row := []int{td.dom[0], 0, 1}
				c.force = row
				c.output(td)
				// updates to an identical record change nothing but count as writes
				n := 0
				for ; n < 10010 && !c.dead; n++ {
					c.force = row
					c.forcePick = true
					c.forceNew = row
					c.updateQuiet(td)
				}
				c.finish()
				ntran.Add(1)
				if n > 9000 {
					break
				}
			}
		}()
	}
	for c := 0; c < prof.clients && prof.pairs == 0; c++ {
		wg.Add(1)
		go func(c int) {
			defer wg.Done()
			r := rand.New(rand.NewSource(seed + int64(c)*7919))
			for i := 0; i < prof.trans; i++ {
				oneTran(r)
				ntran.Add(1)
				if r.Intn(4) == 0 {
					runtime.Gosched()
				}
				if r.Intn(10) == 0 {
					time.Sleep(time.Duration(r.Intn(3)) * time.Millisecond)
				}
			}
		}(c)
	}
	wg.Wait()
	close(stopLong)
	<-longDone
	close(stopAdmin)
	<-adminDone
	vh.SetGate(nil)
	// quiesce: stop the pipeline (drains merges, final persist), then full check
	db.CloseKeepMapped()
	vh.SetSink(nil)
	// after a clean stop every committed change must have been merged and persisted
	tr.Emit(vh.E("Quiesced"))
	final := db.GetState()
	_ = final
	return int(ntran.Load()), int(commits.Load())
}

// ---------------------------------------------------------------- triggers

var thClient sync.Map // *core.Thread -> *client

func trigVals(th *core.Thread, v core.Value, cols []string) []int {
	if v == core.False {
		return []int{}
	}
	row := make([]int, len(cols))
	for i, col := range cols {
		x := v.Get(th, core.SuStr(col))
		if x != nil && x != core.EmptyStr {
			row[i] = decVal(core.ToInt(x))
		}
	}
	return row
}

func defineTriggers() {
	for _, td := range prof.tables {
		td := td
		cols := db.GetState().Meta.GetRoSchema(td.name).Columns
		fn := &core.SuBuiltin{Fn: func(th *core.Thread, args []core.Value) core.Value {
			if v, ok := thClient.Load(th); ok {
				c := v.(*client)
				c.trig = append(c.trig, map[string]any{"tbl": td.name,
					"old": trigVals(th, args[1], cols), "new": trigVals(th, args[2], cols)})
				if c.throw {
					c.throw = false
					panic("trigger threw (verif)")
				}
			}
			return nil
		}, BuiltinParams: core.BuiltinParams{ParamSpec: core.ParamSpec{Nparams: 3, Signature: ^core.Sig3,
			Flags: []core.Flag{0, 0, 0}, Names: []string{"t", "oldrec", "newrec"}}}}
		core.Global.TestDef("Trigger_"+td.name, fn)
	}
}

// ---------------------------------------------------------------- admin

var (
	alterPending atomic.Bool
	alterBuilt   atomic.Pointer[chan struct{}]
	nAlter       atomic.Int64
	nGated       atomic.Int64
	nGateSeq     atomic.Int64
	nCkSeq       atomic.Int64
	stallCk      atomic.Bool
	builtSig     atomic.Pointer[chan struct{}]
	holdMerger   atomic.Pointer[chan struct{}]
	strWaiting   atomic.Bool
	strDone      = make(chan struct{}, 1)
	nWidened     atomic.Int64
)

// gate: park the merger at the start of a merge while an index build is in flight,
// until the build has taken its snapshot (the window of DESIGN F1), bounded by a timeout
func newSig() *chan struct{} {
	ch := make(chan struct{})
	return &ch
}

func gate(point string, kv []any) {
	switch point {
	case "merge.begin":
		if ch := holdMerger.Load(); ch != nil {
			select {
			case <-*ch:
			case <-time.After(30 * time.Millisecond):
			}
		}
		if alterPending.Load() {
			if ch := alterBuilt.Load(); ch != nil {
				nGated.Add(1)
				select {
				case <-*ch:
				case <-time.After(300 * time.Millisecond):
				}
			}
		}
	case "merge.computed", "persist.computed":
		// widen the window between computing a merge / persist on a snapshot and applying
		// it to the latest state, so that commits land in between
		if n := nGateSeq.Add(1); n%2 == 0 {
			time.Sleep(time.Duration(200+(n*7919)%1800) * time.Microsecond)
			nWidened.Add(1)
		}
	case "ck.dispatch":
		// let the checker goroutine fall behind the transactions' asynchronous
		// output/update/delete messages now and then
		if len(kv) > 0 {
			switch fmt.Sprintf("%T", kv[0]) {
			case "*db19.ckOutput", "*db19.ckUpdate", "*db19.ckDelete", "*db19.ckRead":
				if ckSlow {
					time.Sleep(150 * time.Microsecond) // keep the 8-slot queue full
				}
				if stallCk.CompareAndSwap(true, false) {
					time.Sleep(1500 * time.Microsecond)
					return
				}
				if n := nCkSeq.Add(1); n%3 == 0 {
					time.Sleep(time.Duration(100+(n*7919)%400) * time.Microsecond)
				}
			}
		}
	case "alter.built":
		if ch := alterBuilt.Load(); ch != nil {
			select {
			case <-*ch:
			default:
				close(*ch)
			}
		}
		if sig := builtSig.Swap(nil); sig != nil {
			close(*sig)
		}
		if strWaiting.Load() {
			// let the straddling transaction try to commit inside the window
			select {
			case <-strDone:
			case <-time.After(50 * time.Millisecond):
			}
		}
		// the new indexes are built, the table is still locked exclusively: keep it that
		// way for a while so that update transactions begin, end and (try to) write the
		// table inside the window
		if n := nGateSeq.Add(1); n%3 != 0 {
			time.Sleep(time.Duration(1000+(n*7919)%7000) * time.Microsecond)
		}
	}
}

func adminLoop(r *rand.Rand, stop, done chan struct{}) {
	defer close(done)
	vh.SetGate(gate)
	have := false
	zstate := 0
	for {
		select {
		case <-stop:
			return
		case <-time.After(time.Duration(1+r.Intn(6)) * time.Millisecond):
		}
		cmd := "alter t1 create index(w)"
		if have {
			cmd = "alter t1 drop index(w)"
		}
		// or: a new column together with an index on it (on the populated table), later
		// dropped again in two steps
		zstep := r.Intn(3) == 0
		if zstep {
			cmd = []string{"alter t1 create (z) index(z)", "alter t1 drop index(z)", "alter t1 drop (z)"}[zstate]
		}
		building := !have && !zstep || zstep && zstate == 0
		ch := make(chan struct{})
		alterBuilt.Store(&ch)
		alterPending.Store(building && r.Intn(4) != 0)
		// a transaction that has only deleted from the table is open when the index build
		// takes the table, and tries to commit while the table is still locked
		var st *client
		stDone := make(chan struct{})
		if building && r.Intn(4) != 0 {
			if st = beginTran(rand.New(rand.NewSource(r.Int63())), true); st != nil {
				st.delete(prof.tables[0])
				sig := newSig()
				builtSig.Store(sig)
				strWaiting.Store(true)
				go func() {
					select {
					case <-*sig:
					case <-time.After(100 * time.Millisecond):
					}
					st.finish()
					strWaiting.Store(false)
					select {
					case strDone <- struct{}{}:
					default:
					}
					close(stDone)
				}()
			}
		}
		// a transaction on another table that spans the schema change
		var span *client
		other := prof.tables[len(prof.tables)-1]
		if r.Intn(2) == 0 {
			if span = beginTran(rand.New(rand.NewSource(r.Int63())), true); span != nil {
				span.force = span.freshRow(other)
				span.output(other)
			}
		}
		res := "ok"
		func() {
			defer func() {
				if e := recover(); e != nil {
					res = clip(fmt.Sprint(e))
				}
			}()
			query.DoAdmin(db, cmd, nil)
		}()
		alterPending.Store(false)
		if st != nil {
			<-stDone
		}
		if span != nil {
			// while the merger is held inside a merge, the spanning transaction (old
			// schema) and one begun after the change commit back to back
			hold := newSig()
			holdMerger.Store(hold)
			if c := beginTran(rand.New(rand.NewSource(r.Int63())), true); c != nil {
				c.force = c.freshRow(other)
				c.output(other)
				c.finish()
			}
			time.Sleep(300 * time.Microsecond)
			b := beginTran(rand.New(rand.NewSource(r.Int63())), true)
			if b != nil {
				b.force = b.freshRow(other)
				b.output(other)
			}
			span.finish()
			if b != nil {
				b.finish()
			}
			holdMerger.Store(nil)
			close(*hold)
		}
		if res == "ok" {
			if zstep {
				zstate = (zstate + 1) % 3
			} else {
				have = !have
			}
			nAlter.Add(1)
		}
		tr.Emit(vh.E("Admin", "cmd", cmd, "res", res))
	}
}

// ---------------------------------------------------------------- schema event

var baseIdx = map[string]int{}

func emitSchema() {
	for _, td := range prof.tables {
		baseIdx[td.name] = len(db.GetState().Meta.GetRoSchema(td.name).Indexes)
	}
	tr.Emit(schemaEvent("Schema", db.GetState().Meta))
}

func schemaEvent(name string, m *meta.Meta) *vh.Ev {
	tabs := []any{}
	for _, td := range prof.tables {
		ts := m.GetRoSchema(td.name)
		idx := []any{}
		for _, ix := range ts.Indexes {
			cols := []int{}
			for _, c := range ix.Columns {
				cols = append(cols, colIndex(ts.Columns, c)+1)
			}
			fkcols := len(ix.Fk.Columns)
			kcols, kcols2 := []int{}, []int{}
			for _, f := range ix.Ixspec.Fields {
				kcols = append(kcols, f+1)
			}
			for _, f := range ix.Ixspec.Fields2 {
				kcols2 = append(kcols2, f+1)
			}
			idx = append(idx, map[string]any{"cols": cols, "kcols": kcols, "kcols2": kcols2, "mode": string(rune(ix.Mode)),
				"fktable": ix.Fk.Table, "fkix": ix.Fk.IIndex + 1, "fkmode": int(ix.Fk.Mode), "fkn": fkcols})
		}
		trig := 0
		if prof.triggers {
			trig = 1
		}
		tabs = append(tabs, map[string]any{"name": td.name, "ncols": td.ncols, "idx": idx, "trig": trig})
	}
	return vh.E(name, "tables", tabs)
}

func schemaChanged(oldM, newM *meta.Meta) bool {
	for _, td := range prof.tables {
		if oldM.GetRoSchema(td.name) != newM.GetRoSchema(td.name) {
			return true
		}
	}
	return false
}

func colIndex(cols []string, c string) int {
	for i, x := range cols {
		if x == c {
			return i
		}
	}
	return -1
}

// ---------------------------------------------------------------- hook sink

var trCk *vh.Trace
var ckSlow = os.Getenv("VERIF_CKSLOW") != ""

func sink(seq int64, ev string, kv []any) {
	switch ev {
	case "CkSend", "CkRecv":
		// client goroutines / the checker goroutine; the trace writer serialises them
		if trCk != nil {
			trCk.Emit(vh.E(ev[2:], "t", kv[1].(int), "m", kv[3].(string)))
		}
		return
	case "Commit":
		ut := kv[1].(*db19.UpdateTran)
		id, _ := tranIds.Load(ut)
		pendKind = "commit"
		if id != nil {
			pendTran = id.(int)
		} else {
			pendTran = 0
		}
	case "MergeApply":
		pendKind = "merge"
	case "PersistApply":
		pendKind = "persist"
		pendOff = kv[1].(uint64)
	case "State":
		oldS := kv[1].(*db19.DbState)
		newS := kv[3].(*db19.DbState)
		kind := pendKind
		if kind == "" {
			kind = "other"
		}
		pendKind = ""
		if newS.Meta == oldS.Meta {
			return // nothing published
		}
		c := commits.Load()
		if kind == "commit" {
			c = commits.Add(1)
			tr.Emit(vh.E("Commit", "t", pendTran, "c", int(c)))
		}
		metaC.Store(newS.Meta, c)
		nState++
		metaS.Store(newS.Meta, nState)
		if schemaChanged(oldS.Meta, newS.Meta) {
			tr.Emit(schemaEvent("SchemaU", newS.Meta))
		}
		tr.Emit(stateEvent(kind, int(c), oldS.Meta, newS.Meta, false))
	}
}

// stateEvent projects the physical structure of every table whose Info changed
func stateEvent(kind string, c int, oldM, newM *meta.Meta, all bool) *vh.Ev {
	tabs := []any{}
	for _, td := range prof.tables {
		if prof.noPhys {
			break
		}
		ti := newM.GetRoInfo(td.name)
		if ti == nil {
			continue
		}
		if !all && oldM != nil && oldM.GetRoInfo(td.name) == ti {
			continue
		}
		tabs = append(tabs, projectTable(newM, td.name, ti))
	}
	return vh.E("StateU", "kind", kind, "c", c, "s", nState, "tables", tabs)
}

func projectTable(m *meta.Meta, name string, ti *meta.Info) map[string]any {
	ts := m.GetRoSchema(name)
	ncols := len(ts.Columns)
	for _, td := range prof.tables {
		if td.name == name {
			ncols = td.ncols // columns added by the admin loop are always empty
		}
	}
	deltas := [][]int{}
	for _, d := range ti.Deltas {
		deltas = append(deltas, []int{d.Nrows, int(d.Size)})
	}
	idx := []any{}
	for i, ov := range ti.Indexes {
		spec := &ts.Indexes[i].Ixspec
		bt, layers, _ := ov.VerifParts()
		btrows := [][]int{}
		keyok := 1
		it := bt.Iterator()
		prev := ""
		first := true
		for it.Next(); !it.Eof(); it.Next() {
			key, off := it.Cur()
			rec := db19.OffToRec(db.Store, off)
			if spec.Key(rec) != key {
				keyok = 0
			}
			if !first && !(prev < key) {
				keyok = 0
			}
			prev, first = key, false
			btrows = append(btrows, append(rowOf(rec, ncols), len(rec)))
		}
		lay := []any{}
		for _, l := range layers {
			ents := [][]int{}
			iter := l.Iter()
			prev, first = "", true
			for {
				key, off, ok := iter()
				if !ok {
					break
				}
				op := 1 // add
				if off&ixbuf.Delete != 0 {
					op = 3
				} else if off&ixbuf.Update != 0 {
					op = 2
				}
				rec := db19.OffToRec(db.Store, off&ixbuf.Mask)
				if spec.Key(rec) != key {
					keyok = 0
				}
				if !first && !(prev < key) {
					keyok = 0
				}
				prev, first = key, false
				ents = append(ents, append(append([]int{op}, rowOf(rec, ncols)...), len(rec)))
			}
			lay = append(lay, ents)
		}
		idx = append(idx, map[string]any{"bt": btrows, "layers": lay, "keyok": keyok})
	}
	return map[string]any{"name": name, "nrows": ti.Nrows, "size": int(ti.Size),
		"btnrows": ti.BtreeNrows, "btsize": int(ti.BtreeSize), "deltas": deltas, "idx": idx}
}

func rowOf(rec core.Record, ncols int) []int {
	row := make([]int, ncols)
	for i := 0; i < ncols; i++ {
		if i < rec.Count() {
			if raw := rec.GetRaw(i); raw != "" {
				row[i] = decVal(core.ToInt(rec.GetVal(i)))
			}
		}
	}
	return row
}

// Model value v >= 2 is stored as the number 100000+v-1 (same order): the packed form of
// 100001, 100002, ... contains a zero byte, which index keys have to escape.
func encVal(v int) int {
	if v < 2 {
		return v
	}
	return 100000 + v - 1
}

func decVal(x int) int {
	if x < 2 {
		return x
	}
	return x - 100000 + 1
}

func recOf(row []int) core.Record {
	var rb core.RecordBuilder
	for _, v := range row {
		if v == 0 {
			rb.AddRaw("")
		} else {
			rb.Add(core.IntVal(encVal(v)))
		}
	}
	return rb.Trim().Build()
}

// recLen is the stored length of a row (what Info.Size sums)
func recLen(row []int) int {
	return recOf(row).Len()
}

// ---------------------------------------------------------------- clients

type client struct {
	r     *rand.Rand
	id    int
	ut    *db19.UpdateTran
	rt    *db19.ReadTran
	dead  bool
	done  bool
	th    *core.Thread
	hot   *hotspot // shared by the transactions of one interleaved group
	trig  []any    // trigger calls observed during the current operation
	throw bool     // make the next trigger call of this client throw
	// one-shot overrides used by the directed race templates
	force     []int // next randRow result
	forceNew  []int // next update's new row
	forcePick bool  // next pick uses a point lookup of force
	forceScan []int // next scan: {index, dir, limit}
}

func (c *client) tran() interface {
	GetIndexI(table string, iIndex int) *index.Overlay
	Read(table string, iIndex int, from, to string)
	Num() int
} {
	if c.ut != nil {
		return c.ut
	}
	return c.rt
}

// groupInterleaved runs 2-3 transactions whose operations are interleaved at
// operation granularity by this single goroutine (no scheduler noise: every
// interleaving of the group's operations is equally likely), then completes them
// in random order. Returns the number of transactions.
func groupInterleaved(r *rand.Rand) int {
	n := 2 + r.Intn(2)
	hot := &hotspot{table: r.Intn(16), vals: [4]int{r.Intn(60), r.Intn(60), r.Intn(60), r.Intn(60)}}
	cs := make([]*client, 0, n)
	left := make([]int, 0, n)
	for i := 0; i < n; i++ {
		c := beginTran(r, r.Intn(100) >= prof.readFrac/2)
		if c == nil {
			continue
		}
		c.hot = hot
		cs = append(cs, c)
		left = append(left, 1+r.Intn(prof.maxOps))
		// sometimes let earlier transactions work before the next one starts
		for r.Intn(3) == 0 && len(cs) > 0 {
			j := r.Intn(len(cs))
			if left[j] > 0 && !cs[j].dead && !cs[j].done {
				cs[j].op()
				left[j]--
			} else {
				break
			}
		}
	}
	for {
		live := []int{}
		for j, c := range cs {
			if !c.done {
				live = append(live, j)
			}
		}
		if len(live) == 0 {
			break
		}
		j := live[r.Intn(len(live))]
		c := cs[j]
		if left[j] > 0 && !c.dead {
			c.op()
			left[j]--
		} else {
			c.finish()
		}
	}
	return len(cs)
}

// peekRows lists the committed rows of a table without logging anything
func peekRows(td tableDef) [][]int {
	rt := db.NewReadTran()
	var rows [][]int
	it := rt.IndexIter(td.name, 0)
	for it.Next(rt); !it.Eof(); it.Next(rt) {
		rows = append(rows, rowOf(db19.OffToRec(db.Store, it.CurOff()), td.ncols))
	}
	return rows
}

// freshRow: a row whose key columns do not collide with a committed row (so the insert succeeds)
func (c *client) freshRow(td tableDef) []int {
	rows := peekRows(td)
	for try := 0; try < 20; try++ {
		row := c.randRowPlain(td)
		ok := true
		for _, x := range rows {
			if x[0] == row[0] && (td.ncols < 2 || td.name != "t2" || x[1] == row[1]) {
				ok = false
			}
		}
		if ok {
			return row
		}
	}
	return c.randRowPlain(td)
}

func (c *client) randRowPlain(td tableDef) []int {
	h := c.hot
	c.hot = nil
	row := c.randRow(td)
	c.hot = h
	if td.opt[len(row)-1] {
		// unique / optional columns: leave them empty to avoid unrelated duplicate errors
		for i := 1; i < len(row); i++ {
			if td.opt[i] {
				row[i] = 0
			}
		}
	}
	return row
}

// raceTemplate runs one directed two-transaction race: B commits a change between an
// observation of A and A's own write + commit. The real outcome (who fails, what is
// visible) is whatever the code does; the trace specification decides. Returns the
// number of transactions.
func raceTemplate(r *rand.Rand) int {
	a := beginTran(r, true)
	b := beginTran(r, true)
	if a == nil || b == nil {
		if a != nil {
			a.finish()
		}
		if b != nil {
			b.finish()
		}
		return 0
	}
	defer func() {
		if !b.done {
			b.finish()
		}
		if !a.done {
			a.finish()
		}
	}()
	hasFk := false
	var srcs []tableDef
	for _, td := range prof.tables {
		if strings.Contains(td.admin, " in ") {
			hasFk = true
			srcs = append(srcs, td)
		}
	}
	other := func(td tableDef) tableDef { // some table to write to so that A has updates
		for _, t := range prof.tables {
			if t.name != td.name && !strings.Contains(t.admin, " in ") {
				return t
			}
		}
		return td
	}
	kind := []int{0, 1, 2, 2, 3, 3, 2, 3, 4, 5, 8, 8}[r.Intn(12)]
	if hasFk && r.Intn(2) == 0 {
		kind = 6 + r.Intn(2)
	}
	switch kind {
	case 0, 1: // A looks up key k; B inserts / deletes / changes that row and commits; A writes elsewhere
		td := prof.tables[r.Intn(len(prof.tables))]
		rows := peekRows(td)
		row := a.randRow(td)
		if len(rows) > 0 && r.Intn(2) == 0 {
			row = rows[r.Intn(len(rows))]
		}
		a.force = row
		a.lookup(td)
		b.force = row
		if r.Intn(2) == 0 {
			b.output(td)
		} else {
			b.forcePick = true
			if r.Intn(2) == 0 {
				b.delete(td)
			} else {
				b.update(td)
			}
		}
		b.finish()
		if !a.dead {
			a.output(other(td))
		}
	case 2, 3: // A reads part of a secondary index; B moves a row inside that index (key unchanged); A writes
		td := prof.tables[r.Intn(len(prof.tables))]
		ts := a.schema(td)
		if len(ts.Indexes) < 2 {
			return 2
		}
		ix := 1 + r.Intn(len(ts.Indexes)-1)
		dir := 1 - 2*r.Intn(2)
		a.forceScan = []int{ix, dir, 1 + r.Intn(2)}
		a.scan(td)
		rows := peekRows(td)
		if len(rows) > 0 {
			old := rows[r.Intn(len(rows))]
			nw := append([]int{}, old...)
			for _, col := range ts.Indexes[ix].Columns {
				ci := colIndex(ts.Columns, col)
				nw[ci] = r.Intn(td.dom[ci] + 1)
				if !td.opt[ci] && nw[ci] == 0 {
					nw[ci] = 1
				}
			}
			b.force = old
			b.forcePick = true
			b.forceNew = nw
			b.update(td)
		} else {
			b.output(td)
		}
		b.finish()
		if !a.dead {
			a.force = a.freshRow(td)
			a.output(td)
		}
	case 4: // both insert the same key
		td := prof.tables[r.Intn(len(prof.tables))]
		row := a.randRow(td)
		a.force = row
		a.output(td)
		row2 := b.randRow(td)
		ts := a.schema(td)
		if k := a.keyIndex(ts); k >= 0 {
			for _, col := range ts.Indexes[k].Columns {
				ci := colIndex(ts.Columns, col)
				row2[ci] = row[ci]
			}
		}
		b.force = row2
		b.output(td)
		if r.Intn(2) == 0 {
			b.finish()
		} else {
			a.finish()
		}
	case 8: // A inserts two rows back to back while the checker goroutine is behind; B inserts the first key
		td := prof.tables[r.Intn(len(prof.tables))]
		row1, row2 := a.freshRow(td), a.freshRow(td)
		stallCk.Store(true)
		a.output2(td, row1, row2)
		stallCk.Store(false)
		rowb := b.randRowPlain(td)
		ts := a.schema(td)
		if k := a.keyIndex(ts); k >= 0 {
			for _, col := range ts.Indexes[k].Columns {
				ci := colIndex(ts.Columns, col)
				rowb[ci] = row1[ci]
			}
		}
		b.force = rowb
		b.output(td)
		a.finish()
	case 5: // A scans a whole table (sees it empty or not); B inserts or deletes and commits; A writes
		td := prof.tables[r.Intn(len(prof.tables))]
		a.forceScan = []int{0, 1, 0}
		a.scan(td)
		if r.Intn(2) == 0 {
			b.output(td)
		} else {
			b.delete(td)
		}
		b.finish()
		if !a.dead {
			a.output(other(td))
		}
	case 6: // B inserts a reference to target K and commits; A (older snapshot) deletes / re-keys K
		tg := prof.tables[0]
		rows := peekRows(tg)
		if len(rows) == 0 {
			b.output(tg)
			return 2
		}
		k := rows[r.Intn(len(rows))]
		src := srcs[r.Intn(len(srcs))]
		srow := b.randRow(src)
		srow[1] = k[0]
		b.force = srow
		b.output(src)
		b.finish()
		a.force = k
		a.forcePick = true
		if r.Intn(2) == 0 {
			a.delete(tg)
		} else {
			nk := append([]int{}, k...)
			nk[0] = 1 + r.Intn(tg.dom[0])
			a.forceNew = nk
			a.update(tg)
		}
	case 7: // B deletes / re-keys target K and commits; A (older snapshot) inserts a reference to K
		tg := prof.tables[0]
		rows := peekRows(tg)
		if len(rows) == 0 {
			b.output(tg)
			return 2
		}
		k := rows[r.Intn(len(rows))]
		b.force = k
		b.forcePick = true
		if r.Intn(2) == 0 {
			b.delete(tg)
		} else {
			nk := append([]int{}, k...)
			nk[0] = 1 + r.Intn(tg.dom[0])
			b.forceNew = nk
			b.update(tg)
		}
		b.finish()
		src := srcs[r.Intn(len(srcs))]
		srow := a.randRow(src)
		srow[1] = k[0]
		a.force = srow
		a.output(src)
	}
	return 2
}

func oneTran(r *rand.Rand) {
	c := beginTran(r, r.Intn(100) >= prof.readFrac)
	if c == nil {
		return
	}
	nops := 1 + r.Intn(prof.maxOps)
	for i := 0; i < nops && !c.dead; i++ {
		c.op()
		if r.Intn(3) == 0 {
			runtime.Gosched()
		}
	}
	c.finish()
}

func beginTran(r *rand.Rand, update bool) *client {
	c := &client{r: r, id: int(nextId.Add(1)), th: &core.Thread{}}
	thClient.Store(c.th, c)
	tr.Emit(vh.E("BeginCall", "t", c.id))
	if update {
		c.ut = db.NewUpdateTran()
		if c.ut == nil {
			tr.Emit(vh.E("BeginFail", "t", c.id))
			return nil
		}
		tranIds.Store(c.ut, c.id)
		tr.Emit(vh.E("Begin", "t", c.id, "kind", "u", "c", snapC(db19.VerifSnapshotMeta(c.ut)), "s", snapS(db19.VerifSnapshotMeta(c.ut))))
	} else {
		c.rt = db.NewReadTran()
		tr.Emit(vh.E("Begin", "t", c.id, "kind", "r", "c", snapC(db19.VerifReadMeta(c.rt)), "s", snapS(db19.VerifReadMeta(c.rt))))
	}
	return c
}

func (c *client) finish() {
	r := c.r
	c.done = true
	thClient.Delete(c.th)
	if c.ut != nil {
		if !c.dead && r.Intn(12) == 0 {
			c.ut.Abort()
			tr.Emit(vh.E("Rollback", "t", c.id))
			return
		}
		res := c.ut.Complete()
		if res == "" {
			tr.Emit(vh.E("Complete", "t", c.id, "res", "ok", "why", ""))
		} else {
			tr.Emit(vh.E("Complete", "t", c.id, "res", "fail", "why", clip(res)))
		}
	} else {
		tr.Emit(vh.E("Complete", "t", c.id, "res", "ok", "why", ""))
	}
}

func snapC(m *meta.Meta) int {
	v, ok := metaC.Load(m)
	if !ok {
		return -1 // unknown state: the trace spec rejects this
	}
	return int(v.(int64))
}

func snapS(m *meta.Meta) int {
	if v, ok := metaS.Load(m); ok {
		return v.(int)
	}
	return 0
}

func clip(s string) string {
	if len(s) > 80 {
		return s[:80]
	}
	return s
}

func (c *client) op() {
	td := c.pickTable()
	n := c.r.Intn(100)
	if prof.triggers && prof.pairs > 0 && c.r.Intn(12) == 0 {
		c.toggleTrigger()
		return
	}
	if c.ut == nil {
		if n < 50 {
			c.lookup(td)
		} else {
			c.scan(td)
		}
		return
	}
	if prof.bulk && c.r.Intn(4) == 0 {
		// a run of adjacent keys
		start := 1 + c.r.Intn(td.dom[0]-20)
		for i := 0; i < 5+c.r.Intn(12) && !c.dead; i++ {
			c.force = []int{start + i, c.r.Intn(td.dom[1] + 1)}
			c.output(td)
		}
		return
	}
	switch {
	case n < 15:
		c.lookup(td)
	case n < 35:
		c.scan(td)
	case n < 60:
		c.output(td)
	case n < 80:
		c.update(td)
	default:
		c.delete(td)
	}
}

// hotspot makes the transactions of a group collide: a preferred table and
// preferred values for each column position
type hotspot struct {
	table int
	vals  [4]int
}

func (c *client) pickTable() tableDef {
	if c.hot != nil && c.r.Intn(10) < 8 {
		t := prof.tables[c.hot.table%len(prof.tables)]
		if strings.Contains(t.admin, " in ") && c.r.Intn(2) == 0 {
			// a source table is hot: its target (the first table) is hot too, so that
			// inserts of references race with deletes / key changes of the referenced row
			return prof.tables[0]
		}
		return t
	}
	return prof.tables[c.r.Intn(len(prof.tables))]
}

func (c *client) randRow(td tableDef) []int {
	if c.force != nil {
		row := append([]int{}, c.force...)
		c.force = nil
		if len(row) == td.ncols {
			return row
		}
	}
	row := make([]int, td.ncols)
	for i := range row {
		if c.hot != nil && i < 4 && c.r.Intn(10) < 6 {
			v := c.hot.vals[i]%td.dom[i] + 1
			if td.opt[i] && c.hot.vals[i]%5 == 0 {
				v = 0
			}
			row[i] = v
			continue
		}
		if td.opt[i] && c.r.Intn(4) == 0 {
			row[i] = 0
		} else {
			row[i] = 1 + c.r.Intn(td.dom[i])
		}
	}
	return row
}

// classify a panic from the code under test
func classify(e any) string {
	s := fmt.Sprint(e)
	switch {
	case strings.Contains(s, "trigger threw (verif)"):
		return "trigger"
	case strings.Contains(s, "too many writes"), strings.Contains(s, "too many reads"):
		return "limit"
	case strings.Contains(s, "duplicate key"):
		return "dup"
	case strings.Contains(s, "blocked by foreign key"):
		return "fk"
	case strings.Contains(s, "transaction aborted"), strings.Contains(s, "transaction already ended"):
		return "aborted"
	case strings.Contains(s, "trigger threw (verif)"):
		return "trigger"
	}
	return "other:" + clip(s)
}

func (c *client) guard(fn func()) (res string) {
	defer func() {
		if e := recover(); e != nil {
			res = classify(e)
			if res == "aborted" || res == "limit" {
				c.dead = true
			}
			if strings.HasPrefix(res, "other") {
				c.dead = true
			}
		}
	}()
	fn()
	return "ok"
}

func (c *client) schema(td tableDef) *meta.Schema {
	if c.ut != nil {
		return db19.VerifReadMeta(&c.ut.ReadTran).GetRoSchema(td.name)
	}
	return db19.VerifReadMeta(c.rt).GetRoSchema(td.name)
}

// keyOf builds the index key for explicit values of the index columns
func keyOfVals(ts *meta.Schema, ix int, row []int) string {
	return ts.Indexes[ix].Ixspec.Key(recOf(row))
}

func (c *client) lookupRec(td tableDef, ix int, key string) *core.DbRec {
	if c.ut != nil {
		return c.ut.Lookup(td.name, ix, key)
	}
	return c.rt.Lookup(td.name, ix, key)
}

// lookup by a key index (mode k with columns)
func (c *client) lookup(td tableDef) {
	ts := c.schema(td)
	ix := c.keyIndex(ts)
	if ix < 0 {
		c.scan(td)
		return
	}
	row := c.randRow(td)
	key := keyOfVals(ts, ix, row)
	var got []any
	res := c.guard(func() {
		if dr := c.lookupRec(td, ix, key); dr != nil {
			got = append(got, rowOf(dr.Record, td.ncols))
		}
	})
	if got == nil {
		got = []any{}
	}
	tr.Emit(vh.E("Lookup", "t", c.id, "tbl", td.name, "ix", ix+1, "key", keyVals(ts, ix, row), "rows", got, "res", res))
}

func keyVals(ts *meta.Schema, ix int, row []int) []int {
	vals := []int{}
	for _, col := range ts.Indexes[ix].Columns {
		vals = append(vals, row[colIndex(ts.Columns, col)])
	}
	return vals
}

func (c *client) keyIndex(ts *meta.Schema) int {
	var cand []int
	for i, ix := range ts.Indexes {
		if ix.Mode == 'k' && len(ix.Columns) > 0 {
			cand = append(cand, i)
		}
	}
	if len(cand) == 0 {
		return -1
	}
	return cand[c.r.Intn(len(cand))]
}

// scan an index: full (to eof) on any index, or a range / partial scan on a key index
func (c *client) scan(td tableDef) {
	ts := c.schema(td)
	nix := len(ts.Indexes)
	if b, ok := baseIdx[td.name]; ok && nix > b {
		nix = b // indexes added by the admin goroutine come and go; positions beyond the base are not stable
	}
	ix := c.r.Intn(nix)
	isKey := ts.Indexes[ix].Mode == 'k' && len(ts.Indexes[ix].Columns) > 0
	dir := 1
	if c.r.Intn(2) == 0 {
		dir = -1
	}
	limit := 0 // 0 = to eof
	lo, hi := []int{}, []int{}
	rng := index.Range{Org: ixkey.Min, End: ixkey.Max}
	if isKey && len(ts.Indexes[ix].Columns) == 1 && c.r.Intn(2) == 0 {
		// inclusive range on a single column key
		a, b := c.randRow(td), c.randRow(td)
		ka, kb := keyOfVals(ts, ix, a), keyOfVals(ts, ix, b)
		if ka > kb {
			a, b, ka, kb = b, a, kb, ka
		}
		lo, hi = keyVals(ts, ix, a), keyVals(ts, ix, b)
		rng = index.Range{Org: ka, End: kb + "\x00"}
	}
	if c.r.Intn(3) == 0 {
		// a partial scan registers only the range up to the last row returned; the order of
		// every index is total (non-unique indexes carry the key columns)
		limit = 1 + c.r.Intn(3)
	}
	if c.forceScan != nil {
		ix, dir, limit = c.forceScan[0], c.forceScan[1], c.forceScan[2]
		lo, hi = []int{}, []int{}
		rng = index.Range{Org: ixkey.Min, End: ixkey.Max}
		c.forceScan = nil
	}
	rows := []any{}
	eof := 0
	res := c.guard(func() {
		it := index.NewOverIter(td.name, ix)
		it.Range(rng)
		t := c.tran()
		for n := 0; limit == 0 || n < limit; n++ {
			if dir > 0 {
				it.Next(t)
			} else {
				it.Prev(t)
			}
			if it.Eof() {
				eof = 1
				break
			}
			off := it.CurOff()
			rows = append(rows, rowOf(db19.OffToRec(db.Store, off), td.ncols))
		}
	})
	tr.Emit(vh.E("Scan", "t", c.id, "tbl", td.name, "ix", ix+1, "dir", dir, "lo", lo, "hi", hi,
		"limit", limit, "rows", rows, "eof", eof, "res", res))
}

func (c *client) armTrigger() {
	c.trig = nil
	c.throw = prof.triggers && c.r.Intn(8) == 0
}

func (c *client) trigs() []any {
	c.throw = false
	if c.trig == nil {
		return []any{}
	}
	return c.trig
}

// toggleTrigger disables / re-enables the trigger of a table (nested counts);
// only used when a single goroutine drives all transactions
func (c *client) toggleTrigger() {
	td := c.pickTable()
	if trigOff[td.name] > 0 && c.r.Intn(2) == 0 {
		db.EnableTrigger(td.name)
		trigOff[td.name]--
		tr.Emit(vh.E("TrigEnable", "tbl", td.name))
	} else if trigOff[td.name] < 2 {
		db.DisableTrigger(td.name)
		trigOff[td.name]++
		tr.Emit(vh.E("TrigDisable", "tbl", td.name))
	}
}

var trigOff = map[string]int{}

func (c *client) output(td tableDef) {
	row := c.randRow(td)
	c.armTrigger()
	res := c.guard(func() { c.ut.Output(c.th, td.name, recOf(row)) })
	tr.Emit(vh.E("Output", "t", c.id, "tbl", td.name, "row", row, "len", recLen(row), "res", res, "trig", c.trigs()))
}

// two inserts with nothing in between (the events are logged afterwards)
func (c *client) output2(td tableDef, row1, row2 []int) {
	c.armTrigger()
	res1 := c.guard(func() { c.ut.Output(c.th, td.name, recOf(row1)) })
	trig1 := c.trigs()
	res2 := ""
	var trig2 any
	if !c.dead {
		c.armTrigger()
		res2 = c.guard(func() { c.ut.Output(c.th, td.name, recOf(row2)) })
		trig2 = c.trigs()
	}
	tr.Emit(vh.E("Output", "t", c.id, "tbl", td.name, "row", row1, "len", recLen(row1), "res", res1, "trig", trig1))
	if res2 != "" {
		tr.Emit(vh.E("Output", "t", c.id, "tbl", td.name, "row", row2, "len", recLen(row2), "res", res2, "trig", trig2))
	}
}

// pick an existing row through a scan step on the first index (this registers a read)
func (c *client) pick(td tableDef) (*core.DbRec, []int) {
	ts := c.schema(td)
	if ix := c.keyIndex(ts); ix >= 0 && (c.forcePick || c.r.Intn(2) == 0) {
		c.forcePick = false
		// point lookup of a (hot) key: registers only the point read
		row := c.randRow(td)
		key := keyOfVals(ts, ix, row)
		var dr *core.DbRec
		got := []any{}
		var found []int
		res := c.guard(func() {
			if dr = c.lookupRec(td, ix, key); dr != nil {
				found = rowOf(dr.Record, td.ncols)
				got = append(got, found)
			}
		})
		tr.Emit(vh.E("Lookup", "t", c.id, "tbl", td.name, "ix", ix+1, "key", keyVals(ts, ix, row), "rows", got, "res", res))
		if res != "ok" || dr == nil {
			return nil, nil
		}
		return dr, found
	}
	var found *core.DbRec
	var row []int
	steps := 1 + c.r.Intn(4)
	rows := []any{}
	eof := 0
	res := c.guard(func() {
		it := index.NewOverIter(td.name, 0)
		for n := 0; n < steps; n++ {
			it.Next(c.ut)
			if it.Eof() {
				eof = 1
				break
			}
			off := it.CurOff()
			rec := db19.OffToRec(db.Store, off)
			row = rowOf(rec, td.ncols)
			rows = append(rows, row)
			found = &core.DbRec{Off: off, Record: rec}
		}
	})
	isKey := ts.Indexes[0].Mode == 'k' && len(ts.Indexes[0].Columns) > 0
	limit := steps
	if !isKey {
		// order among rows is unspecified for this index: only a complete scan is an observation
		limit = 0
		if eof == 0 {
			// finish the scan so that it is complete
			res = c.guard(func() {
				it := index.NewOverIter(td.name, 0)
				rows = rows[:0]
				for it.Next(c.ut); !it.Eof(); it.Next(c.ut) {
					rows = append(rows, rowOf(db19.OffToRec(db.Store, it.CurOff()), td.ncols))
				}
				eof = 1
			})
		}
	}
	tr.Emit(vh.E("Scan", "t", c.id, "tbl", td.name, "ix", 1, "dir", 1, "lo", []int{}, "hi", []int{},
		"limit", limit, "rows", rows, "eof", eof, "res", res))
	if res != "ok" {
		return nil, nil
	}
	return found, row
}

func (c *client) update(td tableDef) {
	dr, old := c.pick(td)
	if dr == nil {
		return
	}
	nw := append([]int{}, old...)
	if c.forceNew != nil {
		nw = c.forceNew
		c.forceNew = nil
	}
	// change one or two columns
	for n := 1 + c.r.Intn(2); n > 0 && c.forceNew == nil && fmt.Sprint(nw) == fmt.Sprint(old); n-- {
		i := c.r.Intn(td.ncols)
		if td.opt[i] && c.r.Intn(4) == 0 {
			nw[i] = 0
		} else {
			nw[i] = 1 + c.r.Intn(td.dom[i])
		}
	}
	c.armTrigger()
	res := c.guard(func() { c.ut.Update(c.th, td.name, dr.Off, recOf(nw)) })
	tr.Emit(vh.E("Update", "t", c.id, "tbl", td.name, "old", old, "new", nw,
		"oldlen", recLen(old), "newlen", recLen(nw), "res", res, "trig", c.trigs()))
}

// updateQuiet: update of a row found by an unlogged point lookup (the lookup is still a
// real call; only the Update event is logged). Used by the write-limit scenario.
func (c *client) updateQuiet(td tableDef) {
	ts := c.schema(td)
	ix := c.keyIndex(ts)
	row := c.randRow(td)
	c.forcePick = false
	nw := c.forceNew
	c.forceNew = nil
	var dr *core.DbRec
	res := c.guard(func() { dr = c.lookupRec(td, ix, keyOfVals(ts, ix, row)) })
	if res != "ok" || dr == nil {
		tr.Emit(vh.E("Lookup", "t", c.id, "tbl", td.name, "ix", ix+1, "key", keyVals(ts, ix, row), "rows", []any{}, "res", res))
		c.dead = true
		return
	}
	old := rowOf(dr.Record, td.ncols)
	c.armTrigger()
	res = c.guard(func() { c.ut.Update(c.th, td.name, dr.Off, recOf(nw)) })
	tr.Emit(vh.E("Update", "t", c.id, "tbl", td.name, "old", old, "new", nw,
		"oldlen", recLen(old), "newlen", recLen(nw), "res", res, "trig", c.trigs()))
}

func (c *client) delete(td tableDef) {
	dr, old := c.pick(td)
	if dr == nil {
		return
	}
	c.armTrigger()
	res := c.guard(func() { c.ut.Delete(c.th, td.name, dr.Off) })
	tr.Emit(vh.E("Delete", "t", c.id, "tbl", td.name, "row", old, "len", recLen(old), "res", res, "trig", c.trigs()))
}

var _ = sort.Ints
