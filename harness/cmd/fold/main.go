// Driver for C30: constant folding and propagation preserve program meaning.
// Generates expressions over constants of every type with every unary / binary / n-ary /
// ternary / in operator, and for each one compiles and RUNS (real compiler, real
// interpreter) several forms of the same operations:
//
//	lit   all operands are literals                 function () { return 1 + "a" }   (folded at compile time)
//	par   all operands are parameters               function (a, b) { return a + b } (evaluated at run time)
//	mix   some operands literals, some parameters   (partial folding)
//	prop  operands are single-assignment locals     a = 1; b = "a"; return a + b     (PropFold)
//	nf    operands are locals assigned twice        (not final: evaluated at run time)
//
// and records the results (value, run-time exception class, or compile-time error class).
// spec/trace/TraceFold.tla requires all forms to equal Values.tla Eval (value or exception
// class); outside the domain Eval covers the forms must still agree with each other.
//
// usage: fold <trace.ndjson> [-one '<json expr event to re-run>']
package main

import (
	"bufio"
	"fmt"
	"math/rand"
	"os"
	"strings"

	_ "github.com/apmckinlay/gsuneido/builtin"
	"github.com/apmckinlay/gsuneido/compile"
	. "github.com/apmckinlay/gsuneido/core"

	"verifharness/aval"
	"verifharness/vh"
)

// ---------------------------------------------------------------- expressions

type expr struct {
	op string // c (constant leaf), or operator name
	v  int    // leaf: index into the operand list
	a  []*expr
}

type opinfo struct {
	name  string
	tok   string
	prec  int
	arity int // 1, 2, 3 (if), -1 (in)
}

// precedences as in compile/expression.go
var unary = []opinfo{{"neg", "-", 15, 1}, {"pos", "+", 15, 1}, {"not", "not ", 15, 1}, {"bitnot", "~", 15, 1}}
var binary = []opinfo{
	{"or", " or ", 4, 2}, {"and", " and ", 5, 2},
	{"bitor", " | ", 7, 2}, {"bitxor", " ^ ", 8, 2}, {"bitand", " & ", 9, 2},
	{"is", " is ", 10, 2}, {"isnt", " isnt ", 10, 2}, {"match", " =~ ", 10, 2}, {"nomatch", " !~ ", 10, 2},
	{"lt", " < ", 11, 2}, {"lte", " <= ", 11, 2}, {"gt", " > ", 11, 2}, {"gte", " >= ", 11, 2},
	{"lshift", " << ", 12, 2}, {"rshift", " >> ", 12, 2},
	{"add", " + ", 13, 2}, {"sub", " - ", 13, 2}, {"cat", " $ ", 13, 2},
	{"mul", " * ", 14, 2}, {"div", " / ", 14, 2}, {"mod", " % ", 14, 2},
}
var calls = []string{"isnum", "isstr", "isdate"}
var callName = map[string]string{"isnum": "Number?", "isstr": "String?", "isdate": "Date?"}

var opByName = map[string]opinfo{}

func init() {
	for _, o := range unary {
		opByName[o.name] = o
	}
	for _, o := range binary {
		opByName[o.name] = o
	}
}

func leaf(i int) *expr { return &expr{op: "x", v: i} }

// render produces Suneido source; leafText gives the text of operand i.
// Parentheses are only used where the grammar needs them, so chains such as a + b - c
// reach the folder in their flattened n-ary form.
func (e *expr) render(leafText func(int) string) (string, int) {
	switch e.op {
	case "x":
		return leafText(e.v), 20
	case "if":
		c, _ := e.a[0].render(leafText)
		t, _ := e.a[1].render(leafText)
		f, _ := e.a[2].render(leafText)
		return "(" + c + ") ? (" + t + ") : (" + f + ")", 1
	case "in":
		x, p := e.a[0].render(leafText)
		if p <= 6 {
			x = "(" + x + ")"
		}
		var sb strings.Builder
		for i, y := range e.a[1:] {
			if i > 0 {
				sb.WriteString(", ")
			}
			s, _ := y.render(leafText)
			sb.WriteString(s)
		}
		return x + " in (" + sb.String() + ")", 6
	case "isnum", "isstr", "isdate":
		s, _ := e.a[0].render(leafText)
		return callName[e.op] + "(" + s + ")", 20
	}
	o := opByName[e.op]
	if o.arity == 1 {
		s, p := e.a[0].render(leafText)
		if p < 16 || strings.HasPrefix(s, "-") || strings.HasPrefix(s, "+") {
			s = "(" + s + ")"
		}
		return o.tok + s, 15
	}
	l, lp := e.a[0].render(leafText)
	r, rp := e.a[1].render(leafText)
	if lp < o.prec {
		l = "(" + l + ")"
	}
	if rp <= o.prec { // left associative: a right operand of the same level needs parentheses
		r = "(" + r + ")"
	}
	return l + o.tok + r, o.prec
}

func (e *expr) json(sb *strings.Builder) {
	if e.op == "x" {
		fmt.Fprintf(sb, `{"op":"x","i":%d}`, e.v+1)
		return
	}
	fmt.Fprintf(sb, `{"op":%q,"a":[`, e.op)
	for i, x := range e.a {
		if i > 0 {
			sb.WriteByte(',')
		}
		x.json(sb)
	}
	sb.WriteString("]}")
}

type rawJSON string

func (r rawJSON) MarshalJSON() ([]byte, error) { return []byte(r), nil }

func (e *expr) JSON() rawJSON {
	var sb strings.Builder
	e.json(&sb)
	return rawJSON(sb.String())
}

func (e *expr) nleaves() int {
	if e.op == "x" {
		return e.v + 1
	}
	n := 0
	for _, x := range e.a {
		if k := x.nleaves(); k > n {
			n = k
		}
	}
	return n
}

// ---------------------------------------------------------------- running

type result struct {
	K string  // v value, x run-time exception, ce compile-time error
	V *aval.V // value (abstract) when K == v and it is an abstract value
	C string  // exception class
	M string  // message (informational only)
	I bool    // value is an integer value (SuInt / SuInt64: the integer fast paths of core/ops.go apply)
}

type resJSON struct{ r result }

func (r resJSON) MarshalJSON() ([]byte, error) {
	v := r.r.V
	if v == nil {
		v = aval.Bool(false)
	}
	return []byte(fmt.Sprintf(`{"k":%q,"v":%s,"c":%q}`, r.r.K, v.String(), r.r.C)), nil
}

func class(msg string) string {
	switch {
	case strings.Contains(msg, "cannot do math on"):
		return "static"
	case strings.Contains(msg, "can't convert"), strings.Contains(msg, "require"):
		return "type"
	case strings.Contains(msg, "divide by zero"), strings.Contains(msg, "negative shift"):
		return "arith"
	}
	return "other"
}

func errString(e any) string {
	if se, ok := e.(*SuExcept); ok {
		return string(se.SuStr)
	}
	return fmt.Sprint(e)
}

var th *Thread

// compileFn compiles "function (params) { body }"
func compileFn(src string) (fn Value, cerr string) {
	defer func() {
		if e := recover(); e != nil {
			fn, cerr = nil, errString(e)
		}
	}()
	return compile.NamedConstant("", "f", src, nil), ""
}

func call(fn Value, args []Value) (res result) {
	defer func() {
		if e := recover(); e != nil {
			m := errString(e)
			res = result{K: "x", C: class(m), M: m}
		}
		th.Reset()
	}()
	v := th.PushCall(fn, nil, &ArgSpec{Nargs: byte(len(args))}, args...)
	if v == nil {
		return result{K: "v", C: "nil"}
	}
	if av, ok := aval.Of(v); ok {
		_, isInt := SuIntToInt(v)
		return result{K: "v", V: av, I: isInt}
	}
	return result{K: "v", C: "opaque:" + v.Type().String()}
}

func run(src string, args []Value) result {
	fn, cerr := compileFn(src)
	if fn == nil {
		return result{K: "ce", C: class(cerr), M: cerr}
	}
	return call(fn, args)
}

// ---------------------------------------------------------------- constants

type konst struct {
	av  *aval.V
	lit string
	val Value
}

func K(av *aval.V) konst {
	lit := av.Lit()
	v := compile.Constant(lit)
	back, ok := aval.Of(v)
	if !ok || back.String() != av.String() {
		// the literal must denote the abstract value it was rendered from (harness sanity)
		if !(av.T == "obj") { // named member order of constants is not significant
			vh.Fatal("literal %s does not denote %s but %v", lit, av, back)
		}
	}
	return konst{av: av, lit: lit, val: v}
}

func constants() []konst {
	var ks []konst
	for _, av := range []*aval.V{
		aval.Bool(true), aval.Bool(false),
		aval.Num("0"), aval.Num("1"), aval.Num("2"), aval.Num("3"), aval.Num("-1"), aval.Num("10"), aval.Num("255"),
		aval.Num(".5"), aval.Num("1.5"), aval.Num("-2.5"), aval.Num("100000"), aval.Num("65536"), aval.Num("4294967295"),
		aval.Num("1e20"), aval.Num(".001"),
		aval.Str(""), aval.Str("a"), aval.Str("abc"), aval.Str("1"), aval.Str("0"), aval.Str("true"),
		aval.Date(20200101, 0, 0), aval.Date(20200101, 123000000, 0),
		aval.Obj(nil, nil), aval.Obj([]*aval.V{aval.Num("1"), aval.Num("2")}, nil),
		aval.Obj(nil, [][2]*aval.V{{aval.Str("a"), aval.Num("1")}}),
	} {
		ks = append(ks, K(av))
	}
	return ks
}

// ---------------------------------------------------------------- one test

var varNames = []string{"a", "b", "c", "d", "e2", "f2"}

type test struct {
	e    *expr
	args []konst
}

var ntests int

// side file <trace>.sub (NOT part of the validated trace): for every Expr event, on the same
// line number, the run-time result of every subexpression (pre-order; evaluated on its own
// with all operands as parameters).  checks/C30.py uses it only to ATTRIBUTE an expression
// that the trace spec has already rejected to a recorded finding (e.g. "an operand of this
// & evaluates to 0"), never for a verdict.
var subw *bufio.Writer

func (t *test) emitSub(text string, allParams string, vals []Value, avs []*aval.V, par result) {
	if subw == nil {
		return
	}
	var sb strings.Builder
	fmt.Fprintf(&sb, `{"src":%q,"sub":[`, text)
	first := true
	var walk func(e *expr)
	walk = func(e *expr) {
		var r result
		switch {
		case e.op == "x":
			_, isInt := SuIntToInt(vals[e.v])
			r = result{K: "v", V: avs[e.v], I: isInt}
		case e == t.e:
			r = par
		default:
			body, _ := e.render(func(i int) string { return varNames[i] })
			r = run("function ("+allParams+") {\nreturn "+body+"\n}", vals)
		}
		if !first {
			sb.WriteByte(',')
		}
		first = false
		v := r.V
		if v == nil {
			v = aval.Bool(false)
		}
		fmt.Fprintf(&sb, `{"k":%q,"v":%s,"c":%q,"int":%v}`, r.K, v.String(), r.C, r.I)
		for _, x := range e.a {
			walk(x)
		}
	}
	walk(t.e)
	sb.WriteString("]}\n")
	subw.WriteString(sb.String())
}

func (t *test) emit(tr *vh.Trace, stats map[string]int) {
	n := len(t.args)
	litText := func(i int) string { return t.args[i].lit }
	parText := func(i int) string { return varNames[i] }
	src := func(params string, pre string, leafText func(int) string) string {
		body, _ := t.e.render(leafText)
		return "function (" + params + ") {\n" + pre + "return " + body + "\n}"
	}
	vals := make([]Value, n)
	avs := make([]*aval.V, n)
	for i, k := range t.args {
		vals[i] = k.val
		avs[i] = k.av
	}
	allParams := strings.Join(varNames[:n], ", ")
	lit := run(src("", "", litText), nil)
	par := run(src(allParams, "", parText), vals)
	// prop: single-assignment locals (final => propagated and folded)
	var pre, prenf strings.Builder
	for i, k := range t.args {
		fmt.Fprintf(&pre, "%s = %s\n", varNames[i], k.lit)
		fmt.Fprintf(&prenf, "%s = 0\n%s = %s\n", varNames[i], varNames[i], k.lit)
	}
	prop := run(src("", pre.String(), parText), nil)
	nf := run(src("", prenf.String(), parText), nil)
	// mix: every proper non-empty subset of operands as parameters (at most 6 masks)
	var mixes []any
	masks := []int{}
	for m := 1; m < (1<<n)-1; m++ {
		masks = append(masks, m)
	}
	if len(masks) > 6 {
		rand.New(rand.NewSource(int64(n)*7919+vh.Seed())).Shuffle(len(masks), func(i, j int) { masks[i], masks[j] = masks[j], masks[i] })
		masks = masks[:6]
	}
	for _, m := range masks {
		var ps []string
		var pv []Value
		isLit := make([]bool, n)
		for i := 0; i < n; i++ {
			if m&(1<<i) != 0 {
				ps = append(ps, varNames[i])
				pv = append(pv, vals[i])
			} else {
				isLit[i] = true
			}
		}
		r := run(src(strings.Join(ps, ", "), "", func(i int) string {
			if isLit[i] {
				return t.args[i].lit
			}
			return varNames[i]
		}), pv)
		mixes = append(mixes, map[string]any{"lit": isLit, "r": resJSON{r}})
		stats["mix."+r.K]++
	}
	if mixes == nil {
		mixes = []any{}
	}
	litMask := func(b bool) []bool {
		m := make([]bool, n)
		for i := range m {
			m[i] = b
		}
		return m
	}
	// extra statement-level forms of the same operations
	extra := []any{}
	addExtra := func(form string, lit []bool, r result) {
		extra = append(extra, map[string]any{"form": form, "lit": lit, "r": resJSON{r}})
		stats["extra."+r.K]++
	}
	if len(t.e.a) == 2 && opByName[t.e.op].arity == 2 && t.e.op != "and" && t.e.op != "or" &&
		(t.e.a[0].op != "x" || t.e.a[1].op != "x") {
		// ssa: the operands of a strict operator are first assigned to single-assignment locals
		l, _ := t.e.a[0].render(parText)
		r, _ := t.e.a[1].render(parText)
		o := opByName[t.e.op]
		body := "t1 = " + l + "\nt2 = " + r + "\nreturn t1" + o.tok + "t2\n"
		addExtra("ssa", litMask(true), run("function () {\n"+pre.String()+body+"}", nil))
		addExtra("ssa-par", litMask(false), run("function ("+allParams+") {\n"+body+"}", vals))
	}
	if t.e.op == "if" {
		c, _ := t.e.a[0].render(parText)
		tt, _ := t.e.a[1].render(parText)
		ff, _ := t.e.a[2].render(parText)
		body := "if (" + c + ")\n{ return " + tt + " }\nreturn " + ff + "\n"
		addExtra("ifstmt", litMask(true), run("function () {\n"+pre.String()+body+"}", nil))
		addExtra("ifstmt-par", litMask(false), run("function ("+allParams+") {\n"+body+"}", vals))
	}
	{
		// block: the expression inside a block that captures the single-assignment locals
		b, _ := t.e.render(parText)
		body := "blk = { " + b + " }\nreturn blk()\n"
		addExtra("block", litMask(true), run("function () {\n"+pre.String()+body+"}", nil))
		if ntests%3 == 0 {
			addExtra("block-par", litMask(false), run("function ("+allParams+") {\n"+body+"}", vals))
		}
	}
	if t.e.op == "if" {
		// the branches assign a local that is therefore not final
		c, _ := t.e.a[0].render(parText)
		tt, _ := t.e.a[1].render(parText)
		ff, _ := t.e.a[2].render(parText)
		body := "if (" + c + ")\n{ r = " + tt + " }\nelse\n{ r = " + ff + " }\nreturn r\n"
		addExtra("ifassign", litMask(true), run("function () {\n"+pre.String()+body+"}", nil))
		addExtra("ifassign-par", litMask(false), run("function ("+allParams+") {\n"+body+"}", vals))
	}
	{
		// mod / in: the first operand is a local that is assigned a different constant first
		// and then gets its value from a construct that must disqualify it from being
		// "final" (single-assignment): assignment inside a block / branch / try / loop /
		// switch / nested expression, ++ / += / $= in a loop or block, first and second
		// variable of for-in loops, catch variable, block parameter.  It must NOT be
		// propagated; the other operands are single-assignment locals (propagated).
		//   mod-*: the construct runs, then the expression is evaluated after it
		//   in-*:  the expression is evaluated inside the construct (loop body, catch
		//          block, block with parameter) where the local has its new value
		k0 := "123456"
		if t.args[0].lit == k0 {
			k0 = "\"q\""
		}
		a, k, kav := varNames[0], t.args[0].lit, t.args[0].av
		init := a + " = " + k0 + "\n"
		type mod struct{ name, before, inside string } // inside: "%s" is replaced by the expression
		mods := []mod{
			{"mod-block", init + "blk = { " + a + " = " + k + " }\nblk()\n", ""},
			{"mod-if", init + "if (" + a + " is " + a + ")\n{ " + a + " = " + k + " }\n", ""},
			{"mod-try", init + "try { " + a + " = " + k + "\nthrow \"x\" } catch { }\n", ""},
			{"mod-for", init + "for (i = 0; i < 2; i++)\n{ " + a + " = " + k + " }\n", ""},
			{"mod-param-block", "blk = {|x| " + a + " = x }\n" + init + "blk(" + k + ")\n", ""},
			{"mod-forinit", init + "for (" + a + " = " + k + "; false; )\n{ }\n", ""},
			{"mod-while", init + "cnt = 0\nwhile (cnt++ < 1)\n{ " + a + " = " + k + " }\n", ""},
			{"mod-dowhile", init + "do { " + a + " = " + k + " } while (false)\n", ""},
			{"mod-forever", init + "forever { " + a + " = " + k + "\nbreak }\n", ""},
			{"mod-switch", init + "switch (1) { case 1: " + a + " = " + k + " }\n", ""},
			{"mod-chain", init + "zz = " + a + " = " + k + "\n", ""},
			{"mod-nested", init + "zz = Object(" + a + " = " + k + ")\n", ""},
			{"mod-forin1", init + "for " + a + " in #(" + k + ")\n{ }\n", ""},
			{"mod-forin2-second", init + "for km, " + a + " in #(kk: " + k + ")\n{ }\n", ""},
			{"in-forin1", init, "for " + a + " in #(" + k + ")\n{ return %s }\nreturn \"loop body not reached\"\n"},
			{"in-forin2-second", init, "for km, " + a + " in #(kk: " + k + ")\n{ return %s }\nreturn \"loop body not reached\"\n"},
			{"in-blockparam", init, "blk = {|" + a + "| %s }\nreturn blk(" + k + ")\n"},
			{"mod-multiassign", init + "fn2 = function () { return " + k + ", 1 }\n" + a + ", zz = fn2()\n", ""},
			// implicit block parameter "it": the first operand is renamed to it
			{"in-itparam", "it = " + k0 + "\n", "blk = { %s }\nreturn blk(" + k + ")\n"},
		}
		if n, ok := kav.IsInt(); ok && kav.T == "num" && -1000000 < n && n < 1000000 {
			if n == 0 || n == 1 { // the first variable of a two-variable for-in is the member (index)
				ob := []string{"#(9)", "#(9, 9)"}[n]
				mods = append(mods,
					mod{"mod-forin2-first", init + "for " + a + ", vv in " + ob + "\n{ }\n", ""},
					mod{"in-forin2-first", init, "for " + a + ", vv in " + ob + "\n{ if " + a + " is " + k + "\n{ return %s } }\nreturn \"loop body not reached\"\n"})
			}
			less, more := fmt.Sprint(n-1), fmt.Sprint(n+1)
			init1 := a + " = " + less + "\n"
			mods = append(mods,
				mod{"mod-postinc-loop", init1 + "for (i = 0; i < 1; i++)\n{ " + a + "++ }\n", ""},
				mod{"mod-preinc-block", init1 + "blk = { ++" + a + " }\nblk()\n", ""},
				mod{"mod-addeq-block", init1 + "blk = { " + a + " += 1 }\nblk()\n", ""},
				mod{"mod-subeq-forin", a + " = " + more + "\nfor i in #(1)\n{ " + a + " -= 1 }\n", ""},
				mod{"mod-dec-while", a + " = " + more + "\ncnt = 0\nwhile (cnt++ < 1)\n{ " + a + "-- }\n", ""})
		}
		if kav.T == "str" {
			mods = append(mods, mod{"mod-cateq-loop", a + " = \"\"\nfor i in #(1)\n{ " + a + " $= " + k + " }\n", ""})
			if len(kav.C) > 0 {
				mods = append(mods,
					mod{"mod-catch", init + "try throw " + k + " catch (" + a + ") { }\n", ""},
					mod{"in-catch", init, "try throw " + k + " catch (" + a + ")\n{ return %s }\nreturn \"catch not reached\"\n"})
			}
		}
		m := mods[ntests%len(mods)]
		var rest strings.Builder
		for i := 1; i < n; i++ {
			fmt.Fprintf(&rest, "%s = %s\n", varNames[i], t.args[i].lit)
		}
		lm := litMask(true)
		lm[0] = false
		body, _ := t.e.render(parText)
		if m.name == "in-itparam" {
			body, _ = t.e.render(func(i int) string {
				if i == 0 {
					return "it"
				}
				return varNames[i]
			})
		}
		tail := "return " + body + "\n"
		if m.inside != "" {
			tail = strings.Replace(m.inside, "%s", body, 1)
		}
		addExtra(m.name, lm, run("function () {\n"+rest.String()+m.before+tail+"}", nil))
	}
	// se: parameters are read through a block that logs the read, literals stay literals:
	// folding must not change which operands are evaluated (side effects)
	ses := []any{}
	{
		m := 1 + rand.New(rand.NewSource(vh.Seed()*31+int64(len(text(t, litText))))).Intn(1<<n-1)
		isLit := make([]bool, n)
		var ps []string
		pv := []Value{nil}
		for i := 0; i < n; i++ {
			if m&(1<<i) != 0 {
				ps = append(ps, varNames[i])
				pv = append(pv, vals[i])
			} else {
				isLit[i] = true
			}
		}
		log := &SuObject{}
		pv[0] = log
		body, _ := t.e.render(func(i int) string {
			if isLit[i] {
				return t.args[i].lit
			}
			return fmt.Sprintf("rd(%d, %s)", i+1, varNames[i])
		})
		r := run("function (log, "+strings.Join(ps, ", ")+") {\nrd = {|i, x| log.Add(i); x }\nreturn "+body+"\n}", pv)
		evs := []int{}
		for i := 0; i < log.ListSize(); i++ {
			evs = append(evs, ToInt(log.ListGet(i)))
		}
		ses = append(ses, map[string]any{"lit": isLit, "r": resJSON{r}, "ev": evs})
		stats["se."+r.K]++
	}
	text, _ := t.e.render(litText)
	t.emitSub(text, allParams, vals, avs, par)
	tr.Emit(vh.E("Expr", "src", text, "x", t.e.JSON(), "env", avs,
		"lit", resJSON{lit}, "par", resJSON{par}, "prop", resJSON{prop}, "nf", resJSON{nf}, "mix", mixes,
		"extra", extra, "se", ses,
		"msg", []string{lit.M, par.M, prop.M, nf.M}))
	stats["lit."+lit.K]++
	stats["par."+par.K]++
	for _, r := range []result{lit, par, prop, nf} {
		if r.C == "other" || strings.HasPrefix(r.C, "opaque") || r.C == "nil" {
			stats["unclassified"]++
			fmt.Fprintf(os.Stderr, "unclassified result for %s: %+v\n", text, r)
		}
	}
}

func text(t *test, leafText func(int) string) string {
	s, _ := t.e.render(leafText)
	return s
}

// ---------------------------------------------------------------- generation

func main() {
	out := os.Args[1]
	th = NewThread(nil)
	rnd := rand.New(rand.NewSource(vh.Seed()))
	ks := constants()
	tr := vh.Create(out)
	defer tr.Close()
	if sf, err := os.Create(out + ".sub"); err == nil {
		subw = bufio.NewWriterSize(sf, 1<<20)
		defer func() { subw.Flush(); sf.Close() }()
	} else {
		vh.Fatal("create %s.sub: %v", out, err)
	}
	stats := map[string]int{}
	emit := func(e *expr, args ...konst) {
		(&test{e: e, args: args}).emit(tr, stats)
		ntests++
	}
	pick := func() konst { return ks[rnd.Intn(len(ks))] }
	bin := func(op string, l, r *expr) *expr { return &expr{op: op, a: []*expr{l, r}} }
	un := func(op string, x *expr) *expr { return &expr{op: op, a: []*expr{x}} }

	// 1. every unary operator and type test on every constant
	for _, o := range unary {
		for _, k := range ks {
			emit(un(o.name, leaf(0)), k)
		}
	}
	for _, c := range calls {
		for _, k := range ks {
			emit(un(c, leaf(0)), k)
		}
	}
	// 2. every binary operator on every pair of constants (quick: seed-dependent half)
	//    quick: all pairs of a core set with one constant of every kind, plus a seed-dependent
	//    sample of the other pairs
	core := map[string]bool{"true": true, "false": true, "0": true, "1": true, "-1": true, ".5": true,
		`""`: true, `"a"`: true, "#20200101": true}
	for _, o := range binary {
		for _, k1 := range ks {
			for _, k2 := range ks {
				if !vh.Thorough() && !(core[k1.lit] && core[k2.lit]) && rnd.Intn(100) >= 4 {
					continue
				}
				emit(bin(o.name, leaf(0), leaf(1)), k1, k2)
			}
		}
	}
	// 2b. negated comparisons (the folder rewrites not (a < b) as a >= b, also for parameters)
	//     and comparisons with equal operands
	for _, o := range []string{"is", "isnt", "lt", "lte", "gt", "gte"} {
		for _, k1 := range ks {
			for _, k2 := range ks {
				if !(core[k1.lit] && core[k2.lit]) || !vh.Thorough() && k1.lit != k2.lit && rnd.Intn(100) >= 30 {
					continue
				}
				emit(un("not", bin(o, leaf(0), leaf(1))), k1, k2)
			}
		}
	}
	// 3. ternary and in
	nrand := 240
	if vh.Thorough() {
		nrand = 10000
	}
	for i := 0; i < nrand/4; i++ {
		emit(&expr{op: "if", a: []*expr{leaf(0), leaf(1), leaf(2)}}, pick(), pick(), pick())
		emit(&expr{op: "in", a: []*expr{leaf(0), leaf(1), leaf(2), leaf(3)}}, pick(), pick(), pick(), pick())
	}
	// 4. chains of three operands with two operators (flattened n-ary forms: a + b - c, a and b or c, ...)
	for i := 0; i < nrand; i++ {
		o1 := binary[rnd.Intn(len(binary))]
		o2 := binary[rnd.Intn(len(binary))]
		if rnd.Intn(3) > 0 { // mostly within one family so that the n-ary folding is exercised
			fam := [][]string{{"add", "sub"}, {"mul", "div"}, {"and"}, {"or"}, {"and", "or"}, {"cat"}, {"bitor"}, {"bitand"}, {"bitxor"},
				{"add", "sub", "mul", "div"}, {"bitor", "bitand", "bitxor"}}[rnd.Intn(11)]
			o1, o2 = opByName[fam[rnd.Intn(len(fam))]], opByName[fam[rnd.Intn(len(fam))]]
		}
		var e *expr
		if rnd.Intn(2) == 0 {
			e = bin(o2.name, bin(o1.name, leaf(0), leaf(1)), leaf(2))
		} else {
			e = bin(o1.name, leaf(0), bin(o2.name, leaf(1), leaf(2)))
		}
		if rnd.Intn(6) == 0 {
			e = un(unary[rnd.Intn(len(unary))].name, e)
		}
		// operands biased to the types the operators accept, with some of any type
		var args []konst
		for j := 0; j < 3; j++ {
			k := pick()
			if rnd.Intn(3) > 0 {
				switch o1.name {
				case "and", "or":
					k = ks[rnd.Intn(2)]
				case "cat":
				default:
					k = ks[2+rnd.Intn(15)]
				}
			}
			args = append(args, k)
		}
		emit(e, args...)
	}
	// 5. deeper random expressions (4..5 operands)
	var gen func(depth int, next *int) *expr
	gen = func(depth int, next *int) *expr {
		if depth == 0 || *next >= 4 && rnd.Intn(2) == 0 || rnd.Intn(4) == 0 {
			i := *next
			if i >= 5 {
				i = rnd.Intn(5)
			} else {
				*next++
			}
			return leaf(i)
		}
		switch rnd.Intn(10) {
		case 0:
			return un(unary[rnd.Intn(len(unary))].name, gen(depth-1, next))
		case 1:
			return &expr{op: "if", a: []*expr{gen(depth-1, next), gen(depth-1, next), gen(depth-1, next)}}
		case 2:
			return &expr{op: "in", a: []*expr{gen(depth-1, next), gen(depth-1, next), gen(depth-1, next)}}
		case 3:
			return un(calls[rnd.Intn(3)], gen(depth-1, next))
		}
		return bin(binary[rnd.Intn(len(binary))].name, gen(depth-1, next), gen(depth-1, next))
	}
	for i := 0; i < nrand/2; i++ {
		next := 0
		e := gen(3, &next)
		n := e.nleaves()
		if n == 0 {
			continue
		}
		var args []konst
		for j := 0; j < n; j++ {
			args = append(args, pick())
		}
		emit(e, args...)
	}
	// 6. patterns the folder rewrites when one operand is repeated: x > lo and x < hi (range),
	//    x is a or x is b (in), also inside larger conjunctions
	for i := 0; i < nrand/2; i++ {
		x := leaf(0)
		var e *expr
		args := []konst{pick(), pick(), pick()}
		if rnd.Intn(3) > 0 { // mostly comparable operands
			args = []konst{ks[2+rnd.Intn(15)], ks[2+rnd.Intn(15)], ks[2+rnd.Intn(15)]}
		}
		switch rnd.Intn(5) { // often exactly on a bound
		case 0, 1:
			args[1] = args[0]
		case 2:
			args[2] = args[0]
		}
		switch rnd.Intn(4) {
		case 0, 1:
			lo := []string{"gt", "gte"}[rnd.Intn(2)]
			hi := []string{"lt", "lte"}[rnd.Intn(2)]
			e = bin("and", bin(lo, x, leaf(1)), bin(hi, x, leaf(2)))
			if rnd.Intn(3) == 0 {
				e = bin("and", bin(hi, x, leaf(2)), bin(lo, x, leaf(1)))
			}
		case 2:
			e = bin("or", bin("is", x, leaf(1)), bin("is", x, leaf(2)))
		default:
			e = bin("or", bin("or", bin("is", x, leaf(1)), bin("is", x, leaf(2))), bin("isnt", x, leaf(1)))
		}
		if rnd.Intn(4) == 0 {
			e = bin("and", e, bin("isnt", x, leaf(1)))
		}
		emit(e, args...)
	}
	kv := []any{"expressions", ntests, "events", tr.N}
	for _, k := range []string{"lit.v", "lit.x", "lit.ce", "par.v", "par.x", "par.ce", "mix.v", "mix.x", "mix.ce",
		"extra.v", "extra.x", "extra.ce", "se.v", "se.x", "se.ce", "unclassified"} {
		kv = append(kv, k, stats[k])
	}
	vh.Summary(kv...)
}
