// gencert writes a throw-away self-signed certificate pair and a go build
// overlay file mapping /repo/dbms/server.{crt,key} (gitignored, go:embed'ed)
// to it, so that packages importing dbms can be built without touching /repo.
package main

import (
	"crypto/ecdsa"
	"crypto/elliptic"
	"crypto/rand"
	"crypto/x509"
	"crypto/x509/pkix"
	"encoding/json"
	"encoding/pem"
	"math/big"
	"os"
	"path/filepath"
	"time"
)

func main() {
	dir := os.Args[1]
	repo := "/repo"
	if len(os.Args) > 2 {
		repo = os.Args[2]
	}
	must(os.MkdirAll(dir, 0o755))
	crt := filepath.Join(dir, "server.crt")
	key := filepath.Join(dir, "server.key")
	if _, err := os.Stat(crt); err != nil {
		priv, err := ecdsa.GenerateKey(elliptic.P256(), rand.Reader)
		must(err)
		tmpl := x509.Certificate{
			SerialNumber: big.NewInt(1),
			Subject:      pkix.Name{CommonName: "verif"},
			NotBefore:    time.Now().Add(-time.Hour),
			NotAfter:     time.Now().Add(10 * 365 * 24 * time.Hour),
			KeyUsage:     x509.KeyUsageDigitalSignature | x509.KeyUsageCertSign,
			ExtKeyUsage:  []x509.ExtKeyUsage{x509.ExtKeyUsageServerAuth},
			IsCA:         true, BasicConstraintsValid: true,
			DNSNames: []string{"localhost", "verif"},
		}
		der, err := x509.CreateCertificate(rand.Reader, &tmpl, &tmpl, &priv.PublicKey, priv)
		must(err)
		must(os.WriteFile(crt, pem.EncodeToMemory(&pem.Block{Type: "CERTIFICATE", Bytes: der}), 0o644))
		kb, err := x509.MarshalECPrivateKey(priv)
		must(err)
		must(os.WriteFile(key, pem.EncodeToMemory(&pem.Block{Type: "EC PRIVATE KEY", Bytes: kb}), 0o600))
	}
	ov := map[string]map[string]string{"Replace": {}}
	for _, f := range []string{"server.crt", "server.key"} {
		if _, err := os.Stat(filepath.Join(repo, "dbms", f)); err != nil {
			ov["Replace"][filepath.Join(repo, "dbms", f)] = filepath.Join(dir, f)
		}
	}
	b, _ := json.MarshalIndent(ov, "", " ")
	must(os.WriteFile(filepath.Join(dir, "overlay.json"), b, 0o644))
}

func must(err error) {
	if err != nil {
		panic(err)
	}
}
