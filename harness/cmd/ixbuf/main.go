// Driver for C11: drives the REAL db19/index/ixbuf (Insert/Update/Delete, Merge,
// Iter, Lookup, Iterator, RangeActivity, Check) and records every call as ndjson for
// spec/trace/TraceIxBuf.tla.
//
// Buffers are filled with VALID change sequences (per key: add only when absent,
// update/delete only when present, tracked across the buffers in merge order), with
// sizes around the chunk goal boundaries (goal 24 below 256 entries, 48 below 1024,
// 96 below 4096) and key layouts that make chunk pass-through happen or nearly happen:
// disjoint blocks, interleaved blocks, a buffer whose first key equals the last key of
// another buffer's chunk, fully random.
//
// "Input buffers left unchanged": every buffer that was an argument or the result of a Merge
// is kept alive (as older snapshots keep the layers they started with) and is read again
// completely after EVERY later Merge (Recheck event: Iter, Len, Check; Lookup of every key of
// the universe for the arguments of that merge and at the end of the scenario). Two scenario
// families make the chunk layouts where a merge could write into storage it shares with an
// input: "chain" (a base layer merged again and again with small new layers, db19 style: the
// outputs, with their passed-through large chunks and flushed small chunks, are the inputs of
// the next merge) and "shaped" (input chunks cut to chosen sizes, large / small / large in key
// order, the other inputs interleaved as single slots), with totals on both sides of the goal
// boundaries (goal 24 / 48 / 96).
// Keys are logged as ranks of a strictly monotone key table, offsets as ids.
//
// usage: ixbuf <trace.ndjson> <nsmall> <nsized> <nbig> <nchain> <nshaped>
package main

import (
	"fmt"
	"math/rand"
	"os"
	"runtime/debug"
	"sort"
	"strconv"
	"strings"

	"github.com/apmckinlay/gsuneido/db19/index/iface"
	"github.com/apmckinlay/gsuneido/db19/index/ixbuf"
	"github.com/apmckinlay/gsuneido/db19/index/ixkey"

	"verifharness/nastykeys"
	"verifharness/vh"
)

var stats = map[string]int{}

func safely(f func()) (ok int, msg string) {
	defer func() {
		if r := recover(); r != nil {
			ok = 0
			msg = fmt.Sprint(r)
			if len(msg) > 160 {
				msg = msg[:160]
			}
			stats["panics"]++
			if os.Getenv("VERIF_DEBUG") != "" {
				fmt.Fprintf(os.Stderr, "PANIC %s\n%s\n", msg, debug.Stack())
			}
		}
	}()
	f()
	return 1, ""
}

type scen struct {
	tr    *vh.Trace
	rnd   *rand.Rand
	keys  []string
	K     int
	bufs  []*ixbuf.T
	cur   []int // abstract state per key (0 absent / offset id): only to GENERATE valid sequences
	offid map[uint64]int
	noff  int
	nit   int
	dead  bool
	// buffers that were an argument or the result of a Merge, in order: shared values from then on
	frozen   []int
	isFrozen map[int]bool
	// skip-scan tables (composite universes only), skipStart = 1
	pfx, sfx []string
}

func newScen(tr *vh.Trace, rnd *rand.Rand, keys []string, kind string) *scen {
	if msg := nastykeys.Check(keys); msg != "" {
		vh.Fatal("%s", msg)
	}
	s := &scen{tr: tr, rnd: rnd, keys: keys, K: len(keys), offid: map[uint64]int{}, isFrozen: map[int]bool{}}
	s.cur = make([]int, s.K)
	empty := 0
	if keys[0] == "" {
		empty = 1
	}
	pg, sf := []int{}, []int{}
	if strings.Contains(kind, "composite") {
		pg, sf, s.pfx, s.sfx = nastykeys.SplitTables(keys, func(k string) (string, string) { return ixkey.SplitPrefixSuffix(k, 1) })
	}
	tr.Emit(vh.E("Scn", "K", s.K, "emptykey", empty, "kind", kind, "pg", pg, "sf", sf))
	stats["scenarios"]++
	return s
}

func (s *scen) keyOf(r int) string {
	if r <= 0 {
		return ixkey.Min
	}
	if r > s.K {
		return ixkey.Max
	}
	return s.keys[r-1]
}

func (s *scen) rankOf(k string) int {
	i := sort.SearchStrings(s.keys, k)
	if i < len(s.keys) && s.keys[i] == k {
		return i + 1
	}
	return -1
}

func (s *scen) newOff() (int, uint64) {
	s.noff++
	off := nastykeys.OffOf(s.noff)
	s.offid[off] = s.noff
	return s.noff, off
}

// decode splits a tagged offset into (tag, id)
func (s *scen) decode(off uint64) (string, int) {
	if off == 0 {
		return "none", 0
	}
	tag := "add"
	switch {
	case off&ixbuf.Delete != 0 && off&ixbuf.Update != 0:
		tag = "both"
	case off&ixbuf.Delete != 0:
		tag = "del"
	case off&ixbuf.Update != 0:
		tag = "upd"
	}
	id, ok := s.offid[off&ixbuf.Mask]
	if !ok || off&^(ixbuf.Mask|ixbuf.Delete|ixbuf.Update) != 0 {
		id = -1
	}
	return tag, id
}

func (s *scen) newBuf() int {
	s.bufs = append(s.bufs, &ixbuf.T{})
	b := len(s.bufs)
	s.tr.Emit(vh.E("New", "b", b))
	return b
}

type op struct {
	r   int
	op  string
	id  int
	off uint64
}

// genOps makes valid changes for the given ranks (in the given order), advancing s.cur;
// multi > 0 gives some keys several consecutive changes inside the same buffer
func (s *scen) genOps(ranks []int, pdel float64, multi int) []op {
	var ops []op
	for _, r := range ranks {
		n := 1
		if multi > 0 && s.rnd.Intn(multi) == 0 {
			n = 2 + s.rnd.Intn(3)
		}
		for j := 0; j < n; j++ {
			c := s.cur[r-1]
			switch {
			case c == 0:
				id, off := s.newOff()
				ops = append(ops, op{r, "add", id, off})
				s.cur[r-1] = id
			case s.rnd.Float64() < pdel:
				ops = append(ops, op{r, "del", c, nastykeys.OffOf(c)})
				s.cur[r-1] = 0
			default:
				id, off := s.newOff()
				ops = append(ops, op{r, "upd", id, off})
				s.cur[r-1] = id
			}
		}
	}
	return ops
}

// fill applies ops to buffer b with the real Insert/Update/Delete. Changes of one key stay in
// their order; the interleaving between different keys follows order: 0 as generated,
// 1 ascending key, 2 descending key, 3 random
func (s *scen) fill(b int, ops []op, order int) {
	switch order {
	case 1:
		sort.SliceStable(ops, func(i, j int) bool { return ops[i].r < ops[j].r })
	case 2:
		sort.SliceStable(ops, func(i, j int) bool { return ops[i].r > ops[j].r })
	case 3:
		// random interleaving that keeps the per-key order: shuffle the ranks, stable sort by that
		pos := s.rnd.Perm(s.K + 1)
		sort.SliceStable(ops, func(i, j int) bool { return pos[ops[i].r] < pos[ops[j].r] })
	}
	ib := s.bufs[b-1]
	ks, tags, offs, olds := []int{}, []string{}, []int{}, []int{}
	ok, msg := safely(func() {
		for _, o := range ops {
			var old uint64
			k := s.keys[o.r-1]
			switch o.op {
			case "add":
				old = ib.Insert(k, o.off)
			case "upd":
				old = ib.Update(k, o.off)
			case "del":
				old = ib.Delete(k, o.off)
			}
			ks, tags, offs = append(ks, o.r), append(tags, o.op), append(offs, o.id)
			oldid := 0
			if old != 0 {
				var okk bool
				if oldid, okk = s.offid[old]; !okk {
					oldid = -1
				}
			}
			olds = append(olds, oldid)
		}
	})
	s.tr.Emit(vh.E("Fill", "b", b, "ks", ks, "ops", tags, "offs", offs, "olds", olds, "ok", ok, "msg", msg))
	stats["inserts"] += len(ks)
	if ok == 0 {
		s.dead = true
	}
}

// content logs what Iter() yields for buffer b, Len() and Check()
func (s *scen) content(b int) {
	ks, tags, offs, n, chk, ok, msg := s.readAll(b)
	s.tr.Emit(vh.E("Content", "b", b, "ks", ks, "ops", tags, "offs", offs, "len", n, "chk", chk, "ok", ok, "msg", msg))
	stats["contents"]++
	stats["entries_compared"] += len(ks)
}

// readAll reads buffer b completely: Iter() to the end, Len(), Check()
func (s *scen) readAll(b int) (ks []int, tags []string, offs []int, n, chk, ok int, msg string) {
	ib := s.bufs[b-1]
	ks, tags, offs = []int{}, []string{}, []int{}
	n, chk = -1, 1
	ok, msg = safely(func() {
		it := ib.Iter()
		for k, off, more := it(); more; k, off, more = it() {
			t, id := s.decode(off)
			ks, tags, offs = append(ks, s.rankOf(k)), append(tags, t), append(offs, id)
			if len(ks) > s.K+2 {
				break
			}
		}
		n = ib.Len()
	})
	if ok == 1 {
		if ok2, _ := safely(func() { ib.Check() }); ok2 == 0 {
			chk = 0
			stats["panics"]-- // counted separately
			stats["check_panics"]++
		}
	}
	return
}

// maxFullLookup: universes up to this size get a Lookup of every key in a recheck
const maxFullLookup = 450

// recheck reads a frozen buffer again after the merge that produced buffer `after` (0 = end of
// the scenario); full = also Lookup every key of the universe
func (s *scen) recheck(b, after int, full bool) {
	ks, tags, offs, n, chk, ok, msg := s.readAll(b)
	lkops, lkoffs := []string{}, []int{}
	if ok == 1 && full && s.K <= maxFullLookup {
		ib := s.bufs[b-1]
		ok, msg = safely(func() {
			for r := 1; r <= s.K; r++ {
				t, id := s.decode(ib.Lookup(s.keys[r-1]))
				lkops, lkoffs = append(lkops, t), append(lkoffs, id)
			}
		})
		stats["recheck_lookups"] += len(lkops)
	}
	s.tr.Emit(vh.E("Recheck", "b", b, "after", after, "ks", ks, "ops", tags, "offs", offs, "len", n, "chk", chk,
		"lkops", lkops, "lkoffs", lkoffs, "ok", ok, "msg", msg))
	stats["rechecks"]++
	stats["entries_compared"] += len(ks)
}

func (s *scen) freeze(b int) {
	if !s.isFrozen[b] {
		s.isFrozen[b] = true
		s.frozen = append(s.frozen, b)
	}
}

// recheckAll: the arguments of the merge that produced `after` completely, every other frozen
// buffer (arguments and results of earlier merges, still held by older snapshots) by iteration
func (s *scen) recheckAll(after int, ins []int) {
	isIn := map[int]bool{}
	for _, b := range ins {
		isIn[b] = true
	}
	for _, b := range s.frozen {
		if b != after {
			s.recheck(b, after, isIn[b] || after == 0)
		}
	}
}

func (s *scen) merge(ins []int) int {
	for _, b := range ins {
		s.content(b) // inputs before
	}
	args := make([]*ixbuf.T, len(ins))
	for i, b := range ins {
		args[i] = s.bufs[b-1]
	}
	var out *ixbuf.T
	ok, msg := safely(func() { out = ixbuf.Merge(args...) })
	s.bufs = append(s.bufs, out)
	ob := len(s.bufs)
	s.tr.Emit(vh.E("Merge", "ins", ins, "out", ob, "ok", ok, "msg", msg))
	stats["merges"]++
	if ok == 0 {
		s.dead = true
		return ob
	}
	for _, b := range ins {
		s.freeze(b)
	}
	s.freeze(ob)
	s.content(ob)
	s.recheckAll(ob, ins) // inputs of this and of all earlier merges: must be unchanged
	return ob
}

func (s *scen) lookups(b int, n int) {
	ib := s.bufs[b-1]
	for i := 0; i < n; i++ {
		r := 1 + s.rnd.Intn(s.K)
		if n >= s.K {
			r = i%s.K + 1
		}
		var off uint64
		ok, msg := safely(func() { off = ib.Lookup(s.keys[r-1]) })
		t, id := s.decode(off)
		s.tr.Emit(vh.E("Lookup", "b", b, "k", r, "op", t, "off", id, "ok", ok, "msg", msg))
		stats["lookups"]++
	}
}

func (s *scen) rangeActs(b int, n int) {
	ib := s.bufs[b-1]
	for i := 0; i < n; i++ {
		org, end := s.rnd.Intn(s.K+2), s.rnd.Intn(s.K+2)
		if org > end && s.rnd.Intn(4) != 0 {
			org, end = end, org
		}
		cnt := -1
		ok, msg := safely(func() { cnt = ib.RangeActivity(s.keyOf(org), s.keyOf(end)) })
		s.tr.Emit(vh.E("RangeAct", "b", b, "org", org, "end", end, "n", cnt, "ok", ok, "msg", msg))
		stats["rangeacts"]++
		// RangeApproxDelta: adds minus deletes in the range (logged as the two counts' difference + 100000
		// would lose the sign in naturals, so the driver logs plus and minus separately via the sign)
		delta := 0
		ok, msg = safely(func() { delta = ib.RangeApproxDelta(iface.Range{Org: s.keyOf(org), End: s.keyOf(end)}) })
		neg := 0
		if delta < 0 {
			neg, delta = 1, -delta
		}
		s.tr.Emit(vh.E("RangeDelta", "b", b, "org", org, "end", end, "abs", delta, "neg", neg, "ok", ok, "msg", msg))
	}
}

func (s *scen) walk(b int, n int) {
	rnd := s.rnd
	ib := s.bufs[b-1]
	s.nit++
	id := s.nit
	it := ib.Iterator()
	inSkip := false
	s.tr.Emit(vh.E("ItNew", "it", id, "b", b))
	for i := 0; i < n; i++ {
		opn, k, k2, k3, k4 := "", 0, 0, 0, 0
		x := rnd.Intn(20)
		if inSkip && x >= 13 && x < 16 {
			// no Seek to arbitrary keys in skip-scan mode: ixbuf's skipSeek can land on an earlier
			// visible key instead of the last one when the sought suffix is beyond the suffix range
			// (observation shared with the C09 check; not part of C11) -- step instead
			x = 0
		}
		if s.pfx != nil && rnd.Intn(7) == 0 {
			x = 100
		}
		switch {
		case x == 100: // skip-scan: prefix range, suffix range (ranks into the prefix / suffix tables)
			opn = "skip"
			k, k2 = bounds(rnd, s.pfx)
			k3, k4 = bounds(rnd, s.sfx)
		case x < 7:
			opn = "next"
		case x < 13:
			opn = "prev"
		case x < 16:
			opn, k = "seek", rnd.Intn(s.K+2)
		case x < 17:
			opn = "rewind"
		default:
			opn, k, k2 = "range", rnd.Intn(s.K+2), rnd.Intn(s.K+2)
			if k > k2 && rnd.Intn(4) != 0 {
				k, k2 = k2, k
			}
			if rnd.Intn(6) == 0 {
				k, k2 = 0, s.K+1
			}
		}
		res, off, eof, tag := 0, 0, 0, "none"
		ok, msg := safely(func() {
			switch opn {
			case "next":
				it.Next()
			case "prev":
				it.Prev()
			case "seek":
				it.Seek(s.keyOf(k))
			case "rewind":
				it.Rewind()
			case "range":
				it.Range(iface.Range{Org: s.keyOf(k), End: s.keyOf(k2)})
			case "skip":
				it.SkipScan(rangeOf(s.pfx, k, k2), rangeOf(s.sfx, k3, k4), 1)
			}
			if opn == "skip" {
				inSkip = true
			} else if opn == "range" {
				inSkip = false
			}
			if it.Eof() {
				eof = 1
			}
			if it.HasCur() {
				key, o := it.Cur()
				res = s.rankOf(key)
				tag, off = s.decode(o)
			}
		})
		s.tr.Emit(vh.E("ItOp", "it", id, "op", opn, "k", k, "k2", k2, "k3", k3, "k4", k4, "res", res, "tag", tag, "off", off, "eof", eof, "ok", ok, "msg", msg))
		stats["iterops"]++
		if ok == 0 {
			return
		}
	}
}

// bounds picks a non-empty range description org < end over a table of n strings:
// 0 = ixkey.Min, n+1 = ixkey.Max. (Degenerate skip-scan ranges are not generated: with
// End = "" the initial skip group "" collides with an out-of-range empty prefix in Prev,
// see the report; the properties do not cover skip-scan over empty range descriptions.)
func bounds(rnd *rand.Rand, tab []string) (int, int) {
	for {
		o, e := bounds1(rnd, len(tab))
		r := rangeOf(tab, o, e)
		if r.Org < r.End { // rank 0 and rank 1 are the same string when the table starts with ""
			return o, e
		}
	}
}

func bounds1(rnd *rand.Rand, n int) (int, int) {
	switch rnd.Intn(4) {
	case 0:
		return 0, n + 1
	case 1:
		o := rnd.Intn(n + 1)
		return o, min(n+1, o+1+rnd.Intn(2))
	}
	o, e := rnd.Intn(n+2), rnd.Intn(n+2)
	if o > e {
		o, e = e, o
	}
	if o == e {
		if e <= n {
			e++
		} else {
			o--
		}
	}
	return o, e
}

func rangeOf(tab []string, o, e int) iface.Range {
	at := func(i int) string {
		if i <= 0 {
			return ixkey.Min
		}
		if i > len(tab) {
			return ixkey.Max
		}
		return tab[i-1]
	}
	if o == 0 && e == len(tab)+1 {
		return iface.All
	}
	return iface.Range{Org: at(o), End: at(e)}
}

// layouts: which ranks each of the nb buffers touches
func layout(rnd *rand.Rand, K, nb int, sizes []int, kind int) [][]int {
	out := make([][]int, nb)
	switch kind {
	case 0: // disjoint consecutive blocks (pure pass-through)
		at := 1
		for b := 0; b < nb && at <= K; b++ {
			for i := 0; i < sizes[b] && at <= K; i++ {
				out[b] = append(out[b], at)
				at++
			}
			at += rnd.Intn(3)
		}
	case 1: // interleaved blocks of random length
		b := 0
		left := append([]int(nil), sizes...)
		for r := 1; r <= K; {
			n := 1 + rnd.Intn(40)
			for i := 0; i < n && r <= K; i++ {
				if left[b] > 0 {
					out[b] = append(out[b], r)
					left[b]--
				}
				r++
			}
			b = (b + 1) % nb
		}
	case 2: // chained: each buffer starts on the last key of the previous one (update of previous slot)
		at := 1
		for b := 0; b < nb && at <= K; b++ {
			if b > 0 && at > 1 {
				at--
			}
			for i := 0; i < sizes[b] && at <= K; i++ {
				out[b] = append(out[b], at)
				at++
			}
		}
	case 3: // all buffers over the same small window + disjoint tails
		w := 1 + rnd.Intn(min(K, 30))
		at := w + 1
		for b := 0; b < nb; b++ {
			for r := 1; r <= w; r++ {
				if rnd.Intn(2) == 0 {
					out[b] = append(out[b], r)
				}
			}
			for i := 0; i < sizes[b] && at <= K; i++ {
				out[b] = append(out[b], at)
				at++
			}
		}
	default: // random subsets
		for b := 0; b < nb; b++ {
			p := float64(sizes[b]) / float64(K)
			for r := 1; r <= K; r++ {
				if rnd.Float64() < p {
					out[b] = append(out[b], r)
				}
			}
		}
	}
	return out
}

var boundarySizes = []int{1, 2, 11, 12, 13, 23, 24, 25, 26, 36, 47, 48, 49, 50, 72, 96, 97, 100, 150, 255, 256, 257, 300}

func scenario(tr *vh.Trace, rnd *rand.Rand, kind string, K int, nb int, sizes []int, lay int, style nastykeys.Style, multi int, walkLen int) {
	keys := nastykeys.Universe(rnd, K, style)
	s := newScen(tr, rnd, keys, fmt.Sprintf("%s/%s/layout%d", kind, style, lay))
	// base state: some keys already exist (in the btree below the buffers)
	pbase := []float64{0, 0.3, 0.7, 1}[rnd.Intn(4)]
	for r := range s.cur {
		if rnd.Float64() < pbase {
			id, _ := s.newOff()
			s.cur[r] = id
		}
	}
	lo := layout(rnd, s.K, nb, sizes, lay)
	pdel := []float64{0.1, 0.4, 0.8}[rnd.Intn(3)]
	var ins []int
	for b := 0; b < nb; b++ {
		id := s.newBuf()
		ins = append(ins, id)
		if len(lo[b]) == 0 {
			continue // an empty input buffer
		}
		s.fill(id, s.genOps(lo[b], pdel, multi), rnd.Intn(4))
		if s.dead {
			return
		}
	}
	var out int
	if nb >= 3 && rnd.Intn(3) == 0 {
		// merge in two steps: outputs (which may share chunks with inputs) as inputs
		cut := 1 + rnd.Intn(nb-1)
		var left int
		if cut == 1 {
			left = ins[0]
		} else {
			left = s.merge(ins[:cut])
		}
		if s.dead {
			return
		}
		out = s.merge(append([]int{left}, ins[cut:]...))
	} else if nb >= 2 {
		out = s.merge(ins)
	} else {
		out = ins[0]
		s.content(out)
	}
	if s.dead {
		return
	}
	if s.K <= 40 {
		s.lookups(out, s.K)
	} else {
		s.lookups(out, 25)
	}
	s.lookups(ins[rnd.Intn(len(ins))], 5)
	s.rangeActs(out, 6)
	s.rangeActs(ins[0], 2)
	s.walk(out, walkLen)
	if rnd.Intn(2) == 0 {
		s.walk(ins[rnd.Intn(len(ins))], walkLen/2)
	}
	s.recheckAll(0, nil) // reading did not change anything either
}

// pickRanks: n ranks for a small new layer: scattered single keys, or a run of consecutive ranks
// starting at a random place (ascending, no duplicates)
func pickRanks(rnd *rand.Rand, K, n int, run bool) []int {
	set := map[int]bool{}
	if run {
		at := 1 + rnd.Intn(K)
		for i := 0; i < n && at+i <= K; i++ {
			set[at+i] = true
		}
	} else {
		for i := 0; i < n; i++ {
			set[1+rnd.Intn(K)] = true
		}
	}
	out := make([]int, 0, len(set))
	for r := range set {
		out = append(out, r)
	}
	sort.Ints(out)
	return out
}

// finish: reads on the last output and on an older buffer, then every frozen buffer once more
func (s *scen) finish(out int, walkLen int) {
	if s.dead {
		return
	}
	s.lookups(out, 10)
	s.rangeActs(out, 3)
	s.walk(out, walkLen)
	if len(s.frozen) > 0 {
		old := s.frozen[s.rnd.Intn(len(s.frozen))]
		s.rangeActs(old, 2)
		s.walk(old, walkLen/2)
	}
	s.recheckAll(0, nil)
}

// chainScenario: the way db19 uses ixbuf. A base layer of n entries; then `rounds` times one to
// three small new layers (transactions) are merged into it, in one Merge or (like the two
// stage merge of db19) first among themselves and then with the base. Every merge result is the
// input of the next merge, so the inputs have the chunk structure merges produce: large chunks
// passed through untouched for generations, small chunks where a buffer was flushed around an
// inserted slot. All previous bases and layers stay alive and are rechecked after every merge.
func chainScenario(tr *vh.Trace, rnd *rand.Rand, n int, rounds int, style nastykeys.Style) {
	dens := []float64{0.55, 0.8, 0.95}[rnd.Intn(3)]
	K := int(float64(n)/dens) + 4
	keys := nastykeys.Universe(rnd, K, style)
	order := []int{1, 1, 2, 3}[rnd.Intn(4)]
	s := newScen(tr, rnd, keys, fmt.Sprintf("chain/%s/n%d/order%d", style, n, order))
	pbase := []float64{0, 0, 0.3}[rnd.Intn(3)]
	for r := range s.cur {
		if rnd.Float64() < pbase {
			id, _ := s.newOff()
			s.cur[r] = id
		}
	}
	// sometimes the lowest ranks are left to the new layers: the merge then starts with a slot or
	// two of a layer (a tiny merge buffer) before the base's chunks are passed through
	low := []int{0, 0, 2, 6}[rnd.Intn(4)]
	var ranks []int
	for r := 1 + low; r <= s.K; r++ {
		if rnd.Float64() < dens {
			ranks = append(ranks, r)
		}
	}
	pdel := []float64{0.1, 0.3}[rnd.Intn(2)]
	base := s.newBuf()
	s.fill(base, s.genOps(ranks, pdel, 0), order)
	if s.dead {
		return
	}
	for i := 0; i < rounds && !s.dead; i++ {
		nl := []int{1, 1, 1, 2, 3}[rnd.Intn(5)]
		var layers []int
		for j := 0; j < nl; j++ {
			var rk []int
			switch rnd.Intn(6) {
			case 0:
				rk = pickRanks(rnd, s.K, 2+rnd.Intn(30), true) // a run: its own chunks get passed through
			case 1:
				rk = pickRanks(rnd, s.K, 5+rnd.Intn(12), false)
			default:
				rk = pickRanks(rnd, s.K, 1+rnd.Intn(3), false) // a transaction touching 1..3 keys
			}
			if low > 0 && rnd.Intn(2) == 0 {
				rk = append([]int{1 + rnd.Intn(low)}, rk...)
				sort.Ints(rk)
				rk = slicesCompact(rk)
			}
			b := s.newBuf()
			s.fill(b, s.genOps(rk, pdel, 5), rnd.Intn(4))
			if s.dead {
				return
			}
			layers = append(layers, b)
		}
		if nl >= 2 && rnd.Intn(3) == 0 {
			t := s.merge(layers)
			if s.dead {
				return
			}
			base = s.merge([]int{base, t})
		} else {
			base = s.merge(append([]int{base}, layers...))
		}
	}
	s.finish(base, 12)
}

// shapedScenario: input A gets chunks of chosen sizes: it is filled in ascending key order
// (chunks of 18 while it has fewer than 256 entries, 36 from 1024 on the way up) and then
// thinned by add+delete pairs that remove entries again, group by group, down to a size chosen
// from small (<= goal/2 of the merge), just above goal/2 and full. The other inputs hold single
// keys (or short runs) between A's keys, and a few updates / deletes of A's own keys, so that
// most of A's chunks are passed through and some are output slot by slot in between. Two or
// three more merges with sparse layers follow on the result. uniform: short inputs (3..6 chunks)
// whose chunks alternate between large (13..18: passed through, flushing the merge buffer) and
// small (2..12: copied to the merge buffer) with an often tiny first chunk (the first chunk is
// always output slot by slot and determines the capacity of the merge buffer).
func shapedScenario(tr *vh.Trace, rnd *rand.Rand, n int, nother int, style nastykeys.Style, uniform bool) {
	psp := []float64{0.02, 0.05, 0.12}[rnd.Intn(3)] // share of ranks reserved for the other inputs
	K := int(float64(n)/(1-psp)) + 6
	keys := nastykeys.Universe(rnd, K, style)
	s := newScen(tr, rnd, keys, fmt.Sprintf("shaped/%s/n%d/others%d", style, n, nother))
	var aRanks, oRanks []int
	low := []int{0, 0, 1, 3}[rnd.Intn(4)] // the merge starts with slots of another input
	quiet := 0
	if uniform {
		// the first 0..4 chunks of A are not interleaved with the other inputs: after the first chunk
		// (slot by slot) they are passed through or copied whole, the merge buffer stays small
		quiet = rnd.Intn(5) * 18
	}
	for r := 1; r <= s.K; r++ {
		if (rnd.Float64() < psp && r > quiet) || r <= low {
			oRanks = append(oRanks, r)
			if rnd.Intn(2) == 0 { // the reserved key exists in the base state: update / delete
				id, _ := s.newOff()
				s.cur[r-1] = id
			}
		} else {
			aRanks = append(aRanks, r)
		}
	}
	if len(oRanks) == 0 {
		oRanks = append(oRanks, aRanks[len(aRanks)/2])
	}
	// A: ascending adds, then thin out group by group
	ops := s.genOps(aRanks, 0, 0)
	group := []int{18, 18, 18, 36, 12}[rnd.Intn(5)]
	if uniform {
		group = 18
	}
	if n >= 1024 {
		group = []int{36, 36, 72, 18}[rnd.Intn(4)]
	}
	var dels []op
	prevSmall := false
	for at := 0; at < len(aRanks); at += group {
		end := min(at+group, len(aRanks))
		var keep int
		switch x := rnd.Intn(6); {
		case uniform:
			// alternate large (passed through with a flush) and small (appended to the merge buffer)
			// chunks; the first chunk, output slot by slot, is often tiny (small merge buffer)
			switch {
			case at == 0 && rnd.Intn(2) == 0:
				keep = 1 + rnd.Intn(3)
			case prevSmall || rnd.Intn(5) < 2:
				keep = group/2 + 4 + rnd.Intn(group/2-3) // large
			default:
				keep = 2 + rnd.Intn(group/2+2) // small, up to and just above the boundary
			}
			prevSmall = keep <= group/2+3
		case x == 0:
			keep = 1 + rnd.Intn(3)
		case x == 1:
			keep = group/2 - 3 + rnd.Intn(4) // around the small / large boundary
		case x == 2:
			keep = 1 + rnd.Intn(group)
		default:
			keep = group // untouched
		}
		idx := rnd.Perm(end - at)
		for _, i := range idx[min(max(keep, 1), end-at):] {
			r := aRanks[at+i]
			c := s.cur[r-1]
			dels = append(dels, op{r, "del", c, nastykeys.OffOf(c)})
			s.cur[r-1] = 0
		}
	}
	sort.SliceStable(dels, func(i, j int) bool { return dels[i].r < dels[j].r })
	a := s.newBuf()
	s.fill(a, ops, 0) // ascending
	if s.dead {
		return
	}
	if len(dels) > 0 {
		s.fill(a, dels, 0)
		if s.dead {
			return
		}
	}
	pdel := []float64{0.1, 0.4}[rnd.Intn(2)]
	ins := []int{a}
	for j := 0; j < nother; j++ {
		var rk []int
		for _, r := range oRanks {
			if rnd.Intn(nother) == 0 || nother == 1 {
				rk = append(rk, r)
			}
		}
		// a few changes of A's own keys (combine in place with the previous output slot)
		for i := rnd.Intn(3); i > 0; i-- {
			if r := aRanks[rnd.Intn(len(aRanks))]; r > quiet {
				rk = append(rk, r)
			}
		}
		if rnd.Intn(4) == 0 && !uniform {
			rk = append(rk, pickRanks(rnd, s.K, 13+rnd.Intn(20), true)...)
		}
		sort.Ints(rk)
		rk = slicesCompact(rk)
		b := s.newBuf()
		if len(rk) > 0 {
			s.fill(b, s.genOps(rk, pdel, 6), rnd.Intn(4))
			if s.dead {
				return
			}
		}
		ins = append(ins, b)
	}
	out := s.merge(ins)
	for i := 1 + rnd.Intn(3); i > 0 && !s.dead; i-- {
		b := s.newBuf()
		s.fill(b, s.genOps(pickRanks(rnd, s.K, 1+rnd.Intn(4), false), pdel, 0), rnd.Intn(4))
		if s.dead {
			return
		}
		out = s.merge([]int{out, b})
	}
	s.finish(out, 12)
}

func slicesCompact(a []int) []int {
	out := a[:0]
	for i, x := range a {
		if i == 0 || x != a[i-1] {
			out = append(out, x)
		}
	}
	return out
}

func atoi(s string) int { n, _ := strconv.Atoi(s); return n }

func main() {
	if len(os.Args) < 7 {
		vh.Fatal("usage: ixbuf <trace> <nsmall> <nsized> <nbig> <nchain> <nshaped>")
	}
	nsmall, nsized, nbig := atoi(os.Args[2]), atoi(os.Args[3]), atoi(os.Args[4])
	nchain, nshaped := atoi(os.Args[5]), atoi(os.Args[6])
	rnd := rand.New(rand.NewSource(vh.Seed()*104729 + 11))
	tr := vh.Create(os.Args[1])
	defer tr.Close()
	first := true
	reset := func() {
		if !first {
			tr.Reset()
		}
		first = false
	}
	styles := []nastykeys.Style{nastykeys.Mixed, nastykeys.Alphabet, nastykeys.Numeric, nastykeys.Composite, nastykeys.Mixed}
	for i := 0; i < nsmall; i++ {
		reset()
		K := 3 + rnd.Intn(20)
		nb := 2 + rnd.Intn(4)
		sizes := make([]int, nb)
		for j := range sizes {
			sizes[j] = rnd.Intn(K + 1)
		}
		scenario(tr, rnd, "small", K, nb, sizes, 3+rnd.Intn(2), styles[rnd.Intn(len(styles))], 2, 14)
	}
	for i := 0; i < nsized; i++ {
		reset()
		nb := 2 + rnd.Intn(5)
		sizes := make([]int, nb)
		tot := 0
		for j := range sizes {
			sizes[j] = boundarySizes[rnd.Intn(len(boundarySizes)-4)] // up to 100
			tot += sizes[j]
		}
		K := tot + rnd.Intn(20) + 2
		K = min(K, 400)
		style := []nastykeys.Style{nastykeys.Numeric, nastykeys.Alphabet, nastykeys.Numeric}[rnd.Intn(3)]
		scenario(tr, rnd, "sized", K, nb, sizes, rnd.Intn(5), style, 6, 16)
	}
	for i := 0; i < nbig; i++ {
		reset()
		nb := 2 + rnd.Intn(3)
		sizes := make([]int, nb)
		tot := 0
		for j := range sizes {
			sizes[j] = boundarySizes[len(boundarySizes)-8+rnd.Intn(8)]
			tot += sizes[j]
		}
		if vh.Thorough() && rnd.Intn(2) == 0 {
			sizes[0] = 1100 // goal 96
			tot += 1100
		}
		K := min(tot+rnd.Intn(50), 2000)
		scenario(tr, rnd, "big", K, nb, sizes, rnd.Intn(5), nastykeys.Numeric, 8, 20)
	}
	// totals below 256 (merge goal 24), 256..1023 (goal 48) and, thorough, from 1024 (goal 96)
	plain := []nastykeys.Style{nastykeys.Numeric, nastykeys.Alphabet, nastykeys.Numeric}
	for i := 0; i < nchain; i++ {
		reset()
		n := 60 + rnd.Intn(180)
		switch {
		case i%4 == 3:
			n = 230 + rnd.Intn(60) // crosses 256 while merging
		case i%8 == 5:
			n = 300 + rnd.Intn(300)
		case vh.Thorough() && i%16 == 9:
			n = 1000 + rnd.Intn(200)
		}
		chainScenario(tr, rnd, n, 3+rnd.Intn(5), plain[rnd.Intn(3)])
	}
	for i := 0; i < nshaped; i++ {
		reset()
		n := 50 + rnd.Intn(190)
		switch {
		case i%8 == 4:
			n = 256 + rnd.Intn(300)
		case vh.Thorough() && i%16 == 10:
			n = 1024 + rnd.Intn(300)
		}
		if i%2 == 1 {
			shapedScenario(tr, rnd, 50+rnd.Intn(70), 1+rnd.Intn(2), plain[rnd.Intn(3)], true)
			continue
		}
		shapedScenario(tr, rnd, n, 1+rnd.Intn(3), plain[rnd.Intn(3)], false)
	}
	kv := []any{"events", tr.N}
	names := make([]string, 0, len(stats))
	for k := range stats {
		names = append(names, k)
	}
	sort.Strings(names)
	for _, k := range names {
		kv = append(kv, k, stats[k])
	}
	vh.Summary(kv...)
}
