// Driver for C12: calls the REAL composite key code (db19/index/ixkey: Spec.Key,
// Spec.Compare, Encoder, CompKey, Encode, Decode, Decode1, HasPrefix,
// SplitPrefixSuffix, JoinPrefixSuffix, TruncFunc; db19.rangeEnd through the
// verif accessor) on field tuples and logs arguments and results as ndjson for
// TraceIxKey.tla. Bytes are logged as integers, byte strings as arrays.
//
// usage: ixkey <outdir> <nrandom>
// writes <outdir>/ixkey.ndjson (everything except TruncFunc),
//        <outdir>/trunc.ndjson (TruncFunc, spec1 with and without Fields2)
package main

import (
	"fmt"
	"math/rand"
	"os"
	"path/filepath"
	"strconv"
	"strings"

	"github.com/apmckinlay/gsuneido/core"
	"github.com/apmckinlay/gsuneido/db19"
	"github.com/apmckinlay/gsuneido/db19/index/ixkey"

	"verifharness/vh"
)

type tuple []string

func ints(s string) []int {
	r := make([]int, len(s))
	for i := 0; i < len(s); i++ {
		r[i] = int(s[i])
	}
	return r
}

func tints(t []string) [][]int {
	r := make([][]int, len(t))
	for i, f := range t {
		r[i] = ints(f)
	}
	return r
}

func b2i(b bool) int {
	if b {
		return 1
	}
	return 0
}

var rnd *rand.Rand
var counts = map[string]int{}

// call runs f; a panic inside the code under test is recorded as the result
func call(f func()) (panicked string) {
	defer func() {
		if e := recover(); e != nil {
			panicked = fmt.Sprint(e)
		}
	}()
	f()
	return ""
}

// layout places the values of f (and f2) at random positions of a record, with
// filler fields in between; returns the record and the Spec
func layout(f, f2 tuple, lo []int) (core.Record, *ixkey.Spec) {
	n := len(f) + len(f2)
	nrec := n + rnd.Intn(3)
	pos := rnd.Perm(nrec)[:n]
	vals := make([]string, nrec)
	for i := range vals {
		if rnd.Intn(2) == 0 {
			vals[i] = "fill" + strconv.Itoa(i)
		}
	}
	spec := &ixkey.Spec{Fields: make([]int, len(f))}
	for i, v := range f {
		vals[pos[i]] = v
		spec.Fields[i] = pos[i]
		if lo != nil && lo[i] == 1 {
			spec.Fields[i] = -pos[i] - 2 // _lower!
		}
	}
	for i, v := range f2 {
		vals[pos[len(f)+i]] = v
		spec.Fields2 = append(spec.Fields2, pos[len(f)+i])
	}
	var b core.RecordBuilder
	for _, v := range vals {
		b.AddRaw(v)
	}
	if rnd.Intn(2) == 0 {
		b.Trim()
	}
	return b.Build(), spec
}

func zeros(n int) []int { return make([]int, n) }

func emitKey(tr *vh.Trace, f, f2 tuple, lo []int) string {
	if lo == nil {
		lo = zeros(len(f))
	}
	rec, spec := layout(f, f2, lo)
	var key string
	if p := call(func() { key = spec.Key(rec) }); p != "" {
		key = "PANIC " + p
	}
	tr.Emit(vh.E("Key", "f", tints(f), "f2", tints(f2), "lo", lo, "key", ints(key)))
	counts["Key"]++
	return key
}

func emitCmp(tr *vh.Trace, f, f2, g, g2 tuple, lo []int) {
	if lo == nil {
		lo = zeros(len(f))
	}
	// both records must use the same layout
	n := len(f) + len(f2)
	nrec := n + rnd.Intn(3)
	pos := rnd.Perm(nrec)[:n]
	v1 := make([]string, nrec)
	v2 := make([]string, nrec)
	for i := range v1 {
		v1[i] = "fill" + strconv.Itoa(rnd.Intn(3))
		v2[i] = "fill" + strconv.Itoa(rnd.Intn(3))
	}
	spec := &ixkey.Spec{Fields: make([]int, len(f))}
	for i := range f {
		v1[pos[i]], v2[pos[i]] = f[i], g[i]
		spec.Fields[i] = pos[i]
		if lo[i] == 1 {
			spec.Fields[i] = -pos[i] - 2
		}
	}
	for i := range f2 {
		p := pos[len(f)+i]
		v1[p], v2[p] = f2[i], g2[i]
		spec.Fields2 = append(spec.Fields2, p)
	}
	mk := func(vals []string) core.Record {
		var b core.RecordBuilder
		for _, v := range vals {
			b.AddRaw(v)
		}
		return b.Build()
	}
	r1, r2 := mk(v1), mk(v2)
	var k1, k2 string
	cmp := 99
	if p := call(func() { k1, k2 = spec.Key(r1), spec.Key(r2); cmp = spec.Compare(r1, r2) }); p != "" {
		k1 = "PANIC " + p
	}
	tr.Emit(vh.E("Cmp", "f", tints(f), "f2", tints(f2), "g", tints(g), "g2", tints(g2), "lo", lo,
		"cmp", cmp, "k1", ints(k1), "k2", ints(k2), "kcmp", strings.Compare(k1, k2)))
	counts["Cmp"]++
}

func emitEnc(tr *vh.Trace, f tuple) string {
	var key string
	p := call(func() {
		switch rnd.Intn(3) {
		case 0:
			key = ixkey.CompKey(f...)
		case 1:
			var e ixkey.Encoder
			for _, v := range f {
				e.Add(v)
			}
			key = e.String()
		default: // Dup in the middle, the original continues
			var e ixkey.Encoder
			var d *ixkey.Encoder
			for i, v := range f {
				if i == len(f)/2 && i > 0 {
					d = e.Dup()
				}
				e.Add(v)
			}
			key = e.String()
			if d != nil {
				for _, v := range f[len(f)/2:] {
					d.Add(v)
				}
				if k2 := d.String(); k2 != key {
					key = "DUP-DIFFERS " + k2
				}
			}
		}
		if len(f) == 1 { // single value for a multi-field index
			if k2 := ixkey.Encode(f[0]); k2 != key {
				key = "ENCODE-DIFFERS " + k2
			}
		}
	})
	if p != "" {
		key = "PANIC " + p
	}
	tr.Emit(vh.E("Enc", "f", tints(f), "key", ints(key)))
	counts["Enc"]++
	return key
}

func emitDec(tr *vh.Trace, f tuple) {
	key := ixkey.CompKey(f...)
	var out []string
	out1 := make([]string, len(f)+1)
	if p := call(func() {
		out = ixkey.Decode(key)
		for i := range out1 {
			out1[i] = ixkey.Decode1(key, i)
		}
	}); p != "" {
		out = []string{"PANIC " + p}
	}
	tr.Emit(vh.E("Dec", "f", tints(f), "out", tints(out), "out1", tints(out1)))
	counts["Dec"]++
}

func emitHasPrefix(tr *vh.Trace, a, p tuple) {
	s, pre := ixkey.CompKey(a...), ixkey.CompKey(p...)
	res := -1
	call(func() { res = b2i(ixkey.HasPrefix(s, pre)) })
	tr.Emit(vh.E("HasPrefix", "a", tints(a), "p", tints(p), "res", res))
	counts["HasPrefix"]++
}

func emitSplit(tr *vh.Trace, a tuple, n int) {
	key := ixkey.CompKey(a...)
	var pre, suf string
	if p := call(func() { pre, suf = ixkey.SplitPrefixSuffix(key, n) }); p != "" {
		pre = "PANIC " + p
	}
	tr.Emit(vh.E("Split", "a", tints(a), "n", n, "pre", ints(pre), "suf", ints(suf)))
	counts["Split"]++
}

func emitJoin(tr *vh.Trace, p tuple, n int, x string) {
	pre := ixkey.CompKey(p...)
	var out string
	if pn := call(func() { out = ixkey.JoinPrefixSuffix(pre, n, x) }); pn != "" {
		out = "PANIC " + pn
	}
	tr.Emit(vh.E("Join", "p", tints(p), "n", n, "x", ints(x), "out", ints(out)))
	counts["Join"]++
}

// emitTrunc: spec1 = fields f (+ Fields2 f2), spec2 = the first n2 fields of spec1
func emitTrunc(tr *vh.Trace, f, f2 tuple, n2 int) {
	rec, spec1 := layout(f, f2, nil)
	spec2 := ixkey.Spec{Fields: spec1.Fields[:n2]}
	var out string
	if p := call(func() { out = ixkey.TruncFunc(*spec1, spec2)(spec1.Key(rec)) }); p != "" {
		out = "PANIC " + p
	}
	tr.Emit(vh.E("Trunc", "f", tints(f), "f2", tints(f2), "n2", n2, "out", ints(out)))
	counts["Trunc"]++
}

func rangeEndOf(p tuple, n int) (org, end string) {
	org = ixkey.CompKey(p...)
	if n == 1 && rnd.Intn(2) == 0 {
		org = ixkey.Encode(p[0]) // as fkeyDeleteBlock does for a single field target key
	}
	return org, db19.VerifRangeEnd(org, n)
}

func emitRangeEnd(tr *vh.Trace, p tuple) {
	n := len(p)
	var end string
	if pn := call(func() { _, end = rangeEndOf(p, n) }); pn != "" {
		end = "PANIC " + pn
	}
	tr.Emit(vh.E("RangeEnd", "p", tints(p), "n", n, "end", ints(end)))
	counts["RangeEnd"]++
}

// emitInRange: is the real key of t (an index whose leading fields are the foreign
// key columns) inside [Enc(p), rangeEnd(Enc(p), n)) ?
func emitInRange(tr *vh.Trace, p, t tuple) {
	n := len(p)
	res := -1
	call(func() {
		org, end := rangeEndOf(p, n)
		rec, spec := layout(t, nil, nil)
		var key string
		if len(t) == 1 {
			key = ixkey.Encode(t[0])
		} else {
			key = spec.Key(rec)
		}
		res = b2i(org <= key && key < end)
	})
	tr.Emit(vh.E("InRange", "p", tints(p), "n", n, "t", tints(t), "res", res))
	counts["InRange"]++
}

//-------------------------------------------------------------------

// small-scope fields: all byte strings over alphabet up to length maxlen
func fieldSet(alphabet string, maxlen int) []string {
	res := []string{""}
	prev := []string{""}
	for l := 1; l <= maxlen; l++ {
		var cur []string
		for _, p := range prev {
			for i := 0; i < len(alphabet); i++ {
				cur = append(cur, p+alphabet[i:i+1])
			}
		}
		res = append(res, cur...)
		prev = cur
	}
	return res
}

func allTuples(fields []string, nf int) []tuple {
	res := []tuple{{}}
	for i := 0; i < nf; i++ {
		var next []tuple
		for _, t := range res {
			for _, f := range fields {
				nt := append(append(tuple{}, t...), f)
				next = append(next, nt)
			}
		}
		res = next
	}
	return res
}

var byteClasses = []byte{0, 0, 0, 0, 1, 1, 2, 255, 255, 'A', 'z', 'Q'}

func randField(maxlen int) string {
	n := rnd.Intn(maxlen + 1)
	b := make([]byte, n)
	for i := range b {
		switch rnd.Intn(4) {
		case 0:
			b[i] = byte(rnd.Intn(256))
		default:
			b[i] = byteClasses[rnd.Intn(len(byteClasses))]
		}
	}
	if n > 0 && rnd.Intn(3) == 0 {
		b[0] = core.PackString // so that _lower! fields do something
	}
	return string(b)
}

func randTuple(nf, maxlen int) tuple {
	t := make(tuple, nf)
	for i := range t {
		switch rnd.Intn(5) {
		case 0: // empty
		default:
			t[i] = randField(maxlen)
		}
	}
	if rnd.Intn(4) == 0 { // trailing empties
		for i := rnd.Intn(nf + 1); i < nf; i++ {
			t[i] = ""
		}
	}
	return t
}

// a variation of t that shares a leading part (so that later fields decide)
func vary(t tuple, maxlen int) tuple {
	g := append(tuple{}, t...)
	if len(g) == 0 {
		return g
	}
	switch rnd.Intn(4) {
	case 0:
		return g
	case 1:
		i := rnd.Intn(len(g))
		g[i] = randField(maxlen)
	case 2:
		i := rnd.Intn(len(g))
		switch rnd.Intn(4) {
		case 0:
			g[i] += "\x00"
		case 1:
			g[i] += "\x01"
		case 2:
			if len(g[i]) > 0 {
				g[i] = g[i][:len(g[i])-1]
			}
		case 3:
			g[i] = strings.ToLower(g[i])
		}
	case 3:
		for i := rnd.Intn(len(g)); i < len(g); i++ {
			g[i] = randField(maxlen)
		}
	}
	return g
}

func unary(tr, tt, tt2 *vh.Trace, t tuple) {
	nf := len(t)
	emitKey(tr, t, nil, nil)
	for s := 1; s < nf; s++ { // Fields2 splits
		emitKey(tr, t[:s], t[s:], nil)
	}
	emitKey(tr, t[:1], nil, nil) // single field, not encoded
	emitEnc(tr, t)
	emitDec(tr, t)
	for n := 1; n <= nf; n++ {
		emitSplit(tr, t, n)
		emitJoin(tr, t[:n], n, ixkey.CompKey(t[n:]...))
		emitJoin(tr, t[:n], n, ixkey.Max)
		emitRangeEnd(tr, t[:n])
		emitTrunc(tt, t, nil, n)
		for s := n; s < nf; s++ {
			emitTrunc(tt2, t[:s], t[s:], n)
		}
	}
}

func main() {
	if len(os.Args) < 3 {
		vh.Fatal("usage: ixkey <outdir> <nrandom>")
	}
	outdir := os.Args[1]
	nrandom, _ := strconv.Atoi(os.Args[2])
	rnd = rand.New(rand.NewSource(vh.Seed()))
	if core.PackString != 4 {
		vh.Fatal("PackString is %d, IxKey.tla assumes 4", core.PackString)
	}
	if ixkey.Sep != "\x00\x00" || ixkey.Max != "\xff\xff\xff\xff\xff\xff\xff\xff" {
		vh.Fatal("ixkey.Sep / ixkey.Max differ from IxKey.tla")
	}
	tr := vh.Create(filepath.Join(outdir, "ixkey.ndjson"))
	tt := vh.Create(filepath.Join(outdir, "trunc.ndjson"))
	tt2 := tt
	defer tr.Close()
	defer tt.Close()

	// 1. the small scope that TLC enumerates, through the real code
	f2 := fieldSet("\x00\x01\x02\xff", 2)
	t2 := allTuples(f2, 2)
	for _, t := range t2 {
		unary(tr, tt, tt2, t)
	}
	var t3 []tuple
	if vh.Thorough() {
		t3 = allTuples(f2, 3)
	} else {
		t3 = allTuples(fieldSet("\x00\x01\x02\xff", 1), 3)
	}
	for _, t := range t3 {
		unary(tr, tt, tt2, t)
	}
	npairs := 800
	if vh.Thorough() {
		npairs = 40000
	}
	for i := 0; i < npairs; i++ {
		set := t2
		if i%2 == 1 {
			set = t3
		}
		a, b := set[rnd.Intn(len(set))], set[rnd.Intn(len(set))]
		if rnd.Intn(3) == 0 {
			b = vary(a, 2)
		}
		pairwise(tr, a, b)
	}

	// 2. seeded random tuples of arbitrary bytes, 1..5 fields
	for i := 0; i < nrandom; i++ {
		nf := 1 + rnd.Intn(5)
		maxlen := 1 + rnd.Intn(6)
		t := randTuple(nf, maxlen)
		g := vary(t, maxlen)
		if rnd.Intn(3) == 0 {
			g = randTuple(nf, maxlen)
		}
		lo := make([]int, nf)
		for j := range lo {
			lo[j] = b2i(rnd.Intn(3) == 0)
		}
		emitKey(tr, t, nil, lo)
		emitCmp(tr, t, nil, g, nil, lo)
		if nf > 1 {
			s := 1 + rnd.Intn(nf-1)
			emitKey(tr, t[:s], t[s:], nil)
			emitCmp(tr, t[:s], t[s:], g[:s], g[s:], nil)
			// all primary fields empty: the secondary fields decide
			e := make(tuple, s)
			emitKey(tr, e, t[s:], nil)
			emitCmp(tr, e, t[s:], e, g[s:], nil)
		}
		if i%4 == 0 {
			unary(tr, tt, tt2, t)
		}
		pairwise(tr, t, g)
	}
	if rnd.Intn(2) == 0 {
		emitKey(tr, tuple{}, nil, nil) // index on no fields: key()
	}
	vh.Summary("events", tr.N+tt.N, "main", tr.N, "trunc", tt.N,
		"Key", counts["Key"], "Cmp", counts["Cmp"], "Enc", counts["Enc"], "Dec", counts["Dec"],
		"HasPrefix", counts["HasPrefix"], "Split", counts["Split"], "Join", counts["Join"],
		"Trunc", counts["Trunc"], "RangeEnd", counts["RangeEnd"], "InRange", counts["InRange"])
}

func pairwise(tr *vh.Trace, a, b tuple) {
	nf := len(a)
	emitCmp(tr, a, nil, b, nil, nil)
	if nf > 1 {
		s := 1 + rnd.Intn(nf-1)
		emitCmp(tr, a[:s], a[s:], b[:s], b[s:], nil)
	}
	n := 1 + rnd.Intn(nf)
	emitHasPrefix(tr, a, b[:n])
	emitHasPrefix(tr, a, a[:n])
	emitInRange(tr, a[:n], b)
	emitInRange(tr, a[:n], a)
	if n < nf {
		// an index with more fields than the foreign key: rows matching on the
		// leading fields with arbitrary further fields
		t := append(append(tuple{}, a[:n]...), b[n:]...)
		emitInRange(tr, a[:n], t)
		emitHasPrefix(tr, t, a[:n])
	}
}
