// Driver for C15: persistent metadata tables (util/hamt + db19/meta).
//
// Part 1 (hamt level): the REAL generic hamt.Hamt / hamt.Chain instantiated with a
// test item type whose Hash is chosen per scenario (colliding 5-bit prefixes, deep
// collisions, overflow nodes), written to a heap stor.  Random sequences of
// Mutable / Put / tombstone / Delete / Freeze on a main line of versions (as meta
// does) and on side branches of retained older versions, WriteChain, ReadChain of
// what was just written, and reopen (continue from ReadChain).  After every action
// Get and All of ALL retained versions are logged, and the chain's Offs/Ages/Clock.
//
// Part 2 (meta level): the same persist cycles through a real database on a heap
// stor: create / alter / rename / drop tables and views, inserts, db.Persist(),
// reading the persisted state back, close and reopen.
//
// The ndjson trace is validated by spec/trace/TraceMetaChain.tla.
package main

import (
	"fmt"
	"math/rand"
	"os"
	"sort"
	"strconv"
	"strings"
	"time"

	"github.com/apmckinlay/gsuneido/core"
	"github.com/apmckinlay/gsuneido/db19"
	"github.com/apmckinlay/gsuneido/db19/stor"
	"github.com/apmckinlay/gsuneido/dbms/query"
	"github.com/apmckinlay/gsuneido/util/cksum"
	"github.com/apmckinlay/gsuneido/util/hamt"
	"github.com/apmckinlay/gsuneido/util/hash"

	"verifharness/vh"
)

// NK is the size of the key universe (Keys = 1..NK in TraceMetaChain.cfg)
const NK = 8

// NV is the number of distinct values
const NV = 3

//-------------------------------------------------------------------
// the test item

type item struct {
	key  int
	val  int
	tomb bool
	lm   int
}

var hashTab [NK + 2]uint64

func (it *item) Key() int         { return it.key }
func (*item) Hash(k int) uint64   { return hashTab[k] }
func (it *item) Cksum() uint32    { return uint32(it.key)*1000003 + uint32(it.val)*7919 + 1 }
func (it *item) StorSize() int    { return 2 + 1 + 4 }
func (it *item) IsTomb() bool     { return it.tomb }
func (it *item) LastMod() int     { return it.lm }
func (it *item) SetLastMod(m int) { it.lm = m }
func (it *item) Write(w *stor.Writer) {
	t := 0
	if it.tomb {
		t = 1
	}
	w.Put2(it.key).Put1(t).Put4(it.val)
}

func readItem(_ *stor.Stor, r *stor.Reader) *item {
	k := r.Get2()
	t := r.Get1()
	v := r.Get4()
	return &item{key: k, val: v, tomb: t == 1}
}

type Hamt = hamt.Hamt[int, *item]
type Chain = hamt.Chain[int, *item]

// setHashes chooses the hash function for a scenario
func setHashes(rnd *rand.Rand, profile int) {
	const deep = 5 | 5<<5 | 5<<10 | 5<<15 | 5<<20 | 5<<25 | 5<<30 // same slot on all 7 levels
	for k := 1; k <= NK+1; k++ {
		var h uint64
		switch profile {
		case 0: // no collisions
			h = uint64(k)
		case 1: // three groups colliding on level 0, distinct on level 1
			h = uint64(k%3) | uint64(k)<<5
		case 2: // two groups colliding on levels 0..2, distinct on level 3
			h = 7 | 7<<5 | uint64(k%2)<<10 | uint64(k)<<15
		case 3: // everything in one overflow node (35 equal low bits)
			h = deep | uint64(k)<<40
		case 4: // keys 1-3 overflow, 4-5 collide on 2 levels, 6.. collide on level 0 only
			switch {
			case k <= 3:
				h = deep
			case k <= 5:
				h = 5 | 5<<5 | uint64(k)<<10
			default:
				h = 5 | uint64(k)<<5
			}
		case 5: // chain of collisions: key k shares k-1 levels with key k+1
			h = 0
			for lev := 0; lev < 7; lev++ {
				d := uint64(1)
				if lev >= k-1 {
					d = uint64(2 + (k+lev)%3)
				}
				h |= d << (5 * lev)
			}
		default: // random small alphabet per level
			for lev := 0; lev < 7; lev++ {
				h |= uint64(rnd.Intn(2)) << (5 * lev)
			}
			if rnd.Intn(3) == 0 {
				h = deep
			}
		}
		hashTab[k] = h
	}
}

//-------------------------------------------------------------------
// part 1: hamt level

type hver struct {
	id   int
	h    Hamt
	mut  bool
	main bool // the open main-line mutable version
}

type hscen struct {
	tr        *vh.Trace
	rnd       *rand.Rand
	store     *stor.Stor
	chain     Chain
	lastOff   uint64
	mainID    int
	vers      []*hver
	nextID    int
	ord       map[uint64]int
	nord      int
	chunkKeys map[uint64]map[int]bool
	writes    int
	puts      int
	dels      int
	maxclock  int
	maxchain  int
	dead      bool
}

func (s *hscen) find(id int) *hver {
	for _, v := range s.vers {
		if v.id == id {
			return v
		}
	}
	return nil
}

func (s *hscen) remove(id int) {
	for i, v := range s.vers {
		if v.id == id {
			s.vers = append(s.vers[:i], s.vers[i+1:]...)
			return
		}
	}
}

func b2i(b bool) int {
	if b {
		return 1
	}
	return 0
}

// code packs an entry into one integer (0 = absent):
// ((lastMod+100)*2 + tomb)*4 + value, decoded by TraceMetaChain!Decode
func code(it *item) int {
	return ((it.lm+100)*2+b2i(it.tomb))*4 + it.val
}

// codesOf returns what All yields as [n, bad, c1..cNK]: n = number of items,
// bad = 1 if a key was yielded twice or is outside 1..NK, ck = code of key k
func codesOf(h Hamt) []int {
	list := make([]int, 2+NK)
	for it := range h.All() {
		list[0]++
		if it.key < 1 || it.key > NK || list[1+it.key] != 0 || it.val < 0 || it.val > NV || it.lm < -100 || it.lm > 400 {
			list[1] = 1
			continue
		}
		list[1+it.key] = code(it)
	}
	return list
}

// obsAll logs, for every retained version, All and Get of every key:
// [id, mutable, n, bad, p1..pNK] with pk = (code from All) + 4096*(code from Get)
func (s *hscen) obsAll() {
	obs := make([][]int, 0, len(s.vers))
	for _, v := range s.vers {
		all := codesOf(v.h)
		o := []int{v.id, b2i(v.mut), all[0], all[1]}
		for k := 1; k <= NK; k++ {
			it, ok := v.h.Get(k)
			g := 0
			switch {
			case !ok:
			case it.key != k || it.lm < -100 || it.lm > 400 || it.val < 0 || it.val > NV:
				g = 4095 // Get returned another key's item (or garbage)
			default:
				g = code(it)
			}
			o = append(o, all[1+k]+4096*g)
		}
		obs = append(obs, o)
	}
	s.tr.Emit(vh.E("Obs", "obs", obs))
}

func (s *hscen) ords(offs []uint64) []int {
	list := make([]int, len(offs))
	for i, o := range offs {
		list[i] = s.ord[o] // 0 if unknown
	}
	return list
}

func (s *hscen) inChain(k int) bool {
	for _, o := range s.chain.Offs {
		if s.chunkKeys[o][k] {
			return true
		}
	}
	return false
}

// parseChunk decodes the chunk at off with the driver's own reader
func (s *hscen) parseChunk(off uint64) (prev uint64, items [][]int) {
	buf := s.store.Data(off)
	size := stor.NewReader(buf).Get3()
	r := stor.NewReader(buf[3 : size-cksum.Len])
	prev = uint64(r.Get5())
	r.Get4()
	items = [][]int{}
	for r.Remaining() > 0 {
		it := readItem(nil, r)
		items = append(items, []int{it.key, it.val, b2i(it.tomb)})
	}
	sort.SliceStable(items, func(i, j int) bool { return items[i][0] < items[j][0] })
	return
}

func catch(fn func()) (err any) {
	defer func() {
		if e := recover(); e != nil {
			err = e
		}
	}()
	fn()
	return nil
}

func newHscen(tr *vh.Trace, rnd *rand.Rand) *hscen {
	s := &hscen{tr: tr, rnd: rnd, store: stor.HeapStor(8192), ord: map[uint64]int{},
		chunkKeys: map[uint64]map[int]bool{}}
	s.store.Alloc(8) // offset 0 means "no chunk"; real files start with a header
	// version 0 is the zero Hamt (what a new database starts with)
	s.vers = []*hver{{id: 0}}
	s.mainID = 0
	s.nextID = 1
	return s
}

// edit performs a batch of operations on a new mutable version derived from src
func (s *hscen) edit(src *hver, mainLine bool, nops int) {
	m := &hver{id: s.nextID, h: src.h.Mutable(), mut: true, main: mainLine}
	s.nextID++
	s.vers = append(s.vers, m)
	s.tr.Emit(vh.E("Mut", "src", src.id, "dst", m.id))
	s.obsAll()
	for i := 0; i < nops; i++ {
		// occasionally work on another open mutable version in between
		s.op(m)
		if s.rnd.Intn(4) == 0 {
			for _, o := range s.vers {
				if o.mut && o != m && !o.main && s.rnd.Intn(2) == 0 {
					s.op(o)
				}
			}
		}
	}
	if mainLine || s.rnd.Intn(3) != 0 {
		s.freeze(m)
	}
}

func (s *hscen) freeze(m *hver) {
	m.h = m.h.Freeze()
	m.mut = false
	s.tr.Emit(vh.E("Freeze", "ver", m.id, "main", b2i(m.main)))
	if m.main {
		m.main = false
		s.chain.Hamt = m.h
		s.mainID = m.id
	}
	s.obsAll()
}

// op does one Put / tombstone / Delete on the mutable version m
func (s *hscen) op(m *hver) {
	k := 1 + s.rnd.Intn(NK)
	if s.rnd.Intn(3) == 0 {
		k = 1 + s.rnd.Intn(3) // concentrate on a few keys
	}
	cur, ok := m.h.Get(k)
	clock := s.chain.Clock
	const (
		put = iota
		tomb
		del
	)
	var what int
	if m.main {
		// the discipline of db19/meta: tombstone for anything the file may know,
		// physical delete only for keys no chunk of the chain mentions
		switch {
		case !ok:
			what = put
		case cur.tomb:
			what = put
			if !s.inChain(k) && s.rnd.Intn(4) == 0 {
				what = del
			}
		default:
			switch s.rnd.Intn(5) {
			case 0, 1:
				what = put
			default:
				what = tomb
				if !s.inChain(k) && s.rnd.Intn(3) != 0 {
					what = del
				}
			}
		}
	} else {
		what = []int{put, put, tomb, del, del}[s.rnd.Intn(5)]
	}
	switch what {
	case put:
		it := &item{key: k, val: 1 + s.rnd.Intn(NV), lm: clock}
		m.h.Put(it)
		s.puts++
		s.tr.Emit(vh.E("Put", "ver", m.id, "k", k, "v", it.val, "t", 0, "lm", clock))
	case tomb:
		it := &item{key: k, val: 0, tomb: true, lm: clock}
		m.h.Put(it)
		s.puts++
		s.tr.Emit(vh.E("Put", "ver", m.id, "k", k, "v", 0, "t", 1, "lm", clock))
	case del:
		found := m.h.Delete(k)
		s.dels++
		s.tr.Emit(vh.E("Del", "ver", m.id, "k", k, "found", b2i(found)))
	}
	s.obsAll()
}

func (s *hscen) write() {
	var off uint64
	var c2 Chain
	before := s.store.Size()
	if e := catch(func() { off, c2 = s.chain.WriteChain(s.store) }); e != nil {
		s.tr.Emit(vh.E("Crash", "what", "WriteChain", "msg", fmt.Sprint(e)))
		s.dead = true
		return
	}
	wrote := s.store.Size() != before
	prev, citems := 0, [][]int{}
	if wrote {
		s.nord++
		s.ord[off] = s.nord
		p, items := s.parseChunk(off)
		prev, citems = s.ord[p], items
		keys := map[int]bool{}
		for _, it := range items {
			keys[it[0]] = true
		}
		s.chunkKeys[off] = keys
		s.writes++
	}
	s.chain = c2
	s.lastOff = off
	s.maxclock = max(s.maxclock, c2.Clock)
	s.maxchain = max(s.maxchain, len(c2.Offs))
	// read back what a reopen would see
	var rb Chain
	rbok := 1
	if e := catch(func() { rb = hamt.ReadChain(s.store, off, readItem) }); e != nil {
		rbok = 0
	}
	rbitems := make([]int, 2+NK)
	if rbok == 1 {
		rbitems = codesOf(rb.Hamt)
	}
	s.tr.Emit(vh.E("Write", "wrote", b2i(wrote), "off", s.ord[off], "prev", prev, "citems", citems,
		"offs", s.ords(c2.Offs), "ages", append([]int{}, c2.Ages...), "clock", c2.Clock,
		"rbok", rbok, "rb", rbitems, "rbn", len(rb.Offs)))
	s.obsAll()
}

func (s *hscen) reopen() {
	var c Chain
	ok := 1
	if e := catch(func() { c = hamt.ReadChain(s.store, s.lastOff, readItem) }); e != nil {
		ok = 0
	}
	id := s.nextID
	s.nextID++
	if ok == 0 {
		s.tr.Emit(vh.E("Reopen", "ver", id, "ok", 0, "items", make([]int, 2+NK), "offs", []int{}, "ages", []int{}, "clock", 0))
		s.dead = true
		return
	}
	// open mutable versions do not survive; frozen ones are kept for comparison
	keep := s.vers[:0]
	for _, v := range s.vers {
		if v.mut {
			s.tr.Emit(vh.E("Forget", "ver", v.id))
		} else {
			keep = append(keep, v)
		}
	}
	s.vers = keep
	s.chain = c
	s.vers = append(s.vers, &hver{id: id, h: c.Hamt})
	s.mainID = id
	s.tr.Emit(vh.E("Reopen", "ver", id, "ok", 1, "items", codesOf(c.Hamt), "offs", s.ords(c.Offs),
		"ages", append([]int{}, c.Ages...), "clock", c.Clock))
	s.obsAll()
}

func (s *hscen) forgetSome(max int) {
	for len(s.vers) > max {
		// never forget the main version or open mutable ones first
		cand := []int{}
		for _, v := range s.vers {
			if v.id != s.mainID && !v.main {
				cand = append(cand, v.id)
			}
		}
		if len(cand) == 0 {
			return
		}
		id := cand[s.rnd.Intn(len(cand))]
		if s.rnd.Intn(2) == 0 {
			id = cand[0] // oldest
		}
		s.remove(id)
		s.tr.Emit(vh.E("Forget", "ver", id))
	}
}

// run executes one hamt-level scenario.
// style 0: mixed; 1: persist-heavy (long clock, forced flattening); 2: edit-heavy;
// 3: reopen-heavy
func (s *hscen) run(nsteps, style int) {
	for i := 0; i < nsteps && !s.dead; i++ {
		r := s.rnd.Intn(100)
		mainV := s.find(s.mainID)
		switch style {
		case 1:
			switch {
			case r < 45:
				s.edit(mainV, true, 1+s.rnd.Intn(2))
			case r < 96:
				s.write()
			case r < 97 && i > nsteps/2:
				s.reopen()
			default:
				s.branch()
			}
		case 3: // reopen-heavy: the clock restarts at 0 while the chain keeps its length
			switch {
			case r < 40:
				s.edit(mainV, true, 1+s.rnd.Intn(3))
			case r < 75:
				s.write()
			case r < 95:
				s.reopen()
			default:
				s.branch()
			}
		case 2:
			switch {
			case r < 50:
				s.edit(mainV, true, 1+s.rnd.Intn(4))
			case r < 80:
				s.write()
			case r < 90:
				s.reopen()
			default:
				s.branch()
			}
		default:
			switch {
			case r < 40:
				s.edit(mainV, true, 1+s.rnd.Intn(4))
			case r < 60:
				s.branch()
			case r < 85:
				s.write()
			case r < 93:
				s.reopen()
			default:
				// finish an open side branch
				for _, v := range s.vers {
					if v.mut && !v.main {
						s.freeze(v)
						break
					}
				}
			}
		}
		s.forgetSome(4)
	}
}

func (s *hscen) branch() {
	frozen := []*hver{}
	for _, v := range s.vers {
		if !v.mut {
			frozen = append(frozen, v)
		}
	}
	s.edit(frozen[s.rnd.Intn(len(frozen))], false, 1+s.rnd.Intn(5))
}

// scripted scenario: the shape of F7 and its neighbours (every key dropped, then
// persisted at a flattening clock), so that each seed covers them
func (s *hscen) scripted(variant int) {
	mainV := func() *hver { return s.find(s.mainID) }
	putAll := func(keys []int, tomb bool) {
		m := &hver{id: s.nextID, h: mainV().h.Mutable(), mut: true, main: true}
		s.nextID++
		s.vers = append(s.vers, m)
		s.tr.Emit(vh.E("Mut", "src", s.mainID, "dst", m.id))
		for _, k := range keys {
			it := &item{key: k, val: 1, lm: s.chain.Clock}
			if tomb {
				it = &item{key: k, tomb: true, lm: s.chain.Clock}
			}
			m.h.Put(it)
			s.tr.Emit(vh.E("Put", "ver", m.id, "k", k, "v", it.val, "t", b2i(tomb), "lm", it.lm))
		}
		s.freeze(m)
		s.forgetSome(3)
	}
	keys := []int{1, 2, 3}[:1+variant%3]
	npre := variant / 3 // extra persists before the drop: 0..3
	putAll(keys, false)
	s.write()
	for i := 0; i < npre; i++ {
		putAll(keys[:1], false)
		s.write()
	}
	putAll(keys, true)
	s.write()
	s.write()
	s.reopen()
	putAll([]int{4}, false)
	s.write()
	s.reopen()
}

//-------------------------------------------------------------------
// part 2: meta level, through a real database

const NT = 6 // tables 1..NT
const NVW = 3

type dbscen struct {
	tr      *vh.Trace
	rnd     *rand.Rand
	store   *stor.Stor
	db      *db19.Database
	tname   [NT + 1]string
	vname   [NVW + 1]string
	tabs    map[int]*dbtab
	views   map[int]int
	nextKey int
	dead    bool
	ops     int
}

type dbtab struct{ nc, nr int }

// pickNames chooses table names; where possible with colliding hash prefixes
// (hash.String is seeded per process, so the names differ from run to run;
// the trace only contains the numbers)
func (s *dbscen) pickNames(collide bool) {
	used := map[string]bool{}
	want := hash.String("tab0") & 31
	n := 0
	for i := 1; i <= NT; i++ {
		for {
			n++
			name := "tab" + strconv.Itoa(n)
			if used[name] {
				continue
			}
			h := hash.String(name)
			if !collide || h&31 == want || (i > 4 && h&1023 == hash.String(s.tname[1])&1023) || n > 200000 {
				s.tname[i] = name
				used[name] = true
				break
			}
		}
	}
	for i := 1; i <= NVW; i++ {
		for {
			n++
			name := "vw" + strconv.Itoa(n)
			if !collide || hash.String("="+name)&31 == want || n > 400000 {
				s.vname[i] = name
				break
			}
		}
	}
}

func (s *dbscen) tnum(name string) int {
	for i := 1; i <= NT; i++ {
		if s.tname[i] == name {
			return i
		}
	}
	return 0
}

func (s *dbscen) vnum(name string) int {
	for i := 1; i <= NVW; i++ {
		if s.vname[i] == name {
			return i
		}
	}
	return 0
}

func (s *dbscen) admin(cmd string) bool {
	if e := catch(func() { query.DoAdmin(s.db, cmd, nil) }); e != nil {
		s.tr.Emit(vh.E("DbCrash", "what", strings.Fields(cmd)[0], "msg", fmt.Sprint(e)))
		s.dead = true
		return false
	}
	return true
}

// obs logs the tables / infos / views of a state. src: 0 live, 1 read back from
// the file after a persist, 2 after reopen
func (s *dbscen) obs(src int, st *db19.DbState) {
	tabs := [][]int{}
	for ts := range st.Meta.Tables() {
		nr := -1
		if ti := st.Meta.GetRoInfo(ts.Table); ti != nil {
			nr = ti.Nrows
		}
		ncols := 0
		for _, c := range ts.Columns {
			if c != "-" {
				ncols++
			}
		}
		tabs = append(tabs, []int{s.tnum(ts.Table), ncols, nr})
	}
	sort.Slice(tabs, func(i, j int) bool { return tabs[i][0] < tabs[j][0] })
	infos := [][]int{}
	for ti := range st.Meta.Infos() {
		infos = append(infos, []int{s.tnum(ti.Table), ti.Nrows})
	}
	sort.Slice(infos, func(i, j int) bool { return infos[i][0] < infos[j][0] })
	views := [][]int{}
	for name, def := range st.Meta.Views() {
		d := -1
		if i := strings.LastIndex(def, " is "); i >= 0 {
			d, _ = strconv.Atoi(def[i+4:])
		}
		views = append(views, []int{s.vnum(name), d})
	}
	sort.Slice(views, func(i, j int) bool { return views[i][0] < views[j][0] })
	s.tr.Emit(vh.E("DbObs", "src", src, "tabs", tabs, "infos", infos, "views", views))
}

func (s *dbscen) open(create bool) bool {
	if create {
		s.store = stor.HeapStor(8192)
		s.db = db19.CreateDb(s.store)
	} else {
		db, err := db19.OpenDbStor(s.store, stor.Update, true)
		if err != nil {
			s.tr.Emit(vh.E("DbCrash", "what", "open", "msg", err.Error()))
			s.dead = true
			return false
		}
		s.db = db
	}
	// no timer driven persists: only db.Persist() and Close persist
	db19.StartConcur(s.db, time.Hour)
	return true
}

func (s *dbscen) persist() {
	var st *db19.DbState
	if e := catch(func() { st = s.db.Persist() }); e != nil {
		s.tr.Emit(vh.E("DbCrash", "what", "persist", "msg", fmt.Sprint(e)))
		s.dead = true
		return
	}
	s.tr.Emit(vh.E("DbPersist"))
	s.obs(0, s.db.GetState())
	if st.Off == 0 {
		return // nothing has been written yet
	}
	// what would a reader of the file see now?
	var rs *db19.DbState
	if e := catch(func() { rs = db19.ReadState(s.store, st.Off) }); e != nil {
		s.tr.Emit(vh.E("DbCrash", "what", "readstate", "msg", fmt.Sprint(e)))
		s.dead = true
		return
	}
	s.obs(1, rs)
}

func (s *dbscen) reopen() {
	s.db.Close()
	if !s.open(false) {
		return
	}
	s.tr.Emit(vh.E("DbReopen"))
	s.obs(2, s.db.GetState())
}

// toggleView creates a view or drops it if it exists
func (s *dbscen) toggleView() {
	v := 1 + s.rnd.Intn(NVW)
	if _, ok := s.views[v]; ok {
		if !s.admin("drop " + s.vname[v]) {
			return
		}
		delete(s.views, v)
		s.tr.Emit(vh.E("DbDropView", "v", v))
	} else {
		d := 1 + s.rnd.Intn(50)
		if !s.admin("view " + s.vname[v] + " = tables where nrows is " + strconv.Itoa(d)) {
			return
		}
		s.views[v] = d
		s.tr.Emit(vh.E("DbView", "v", v, "d", d))
	}
}

func (s *dbscen) step() {
	r := s.rnd.Intn(100)
	live := []int{}
	free := []int{}
	for i := 1; i <= NT; i++ {
		if s.tabs[i] != nil {
			live = append(live, i)
		} else {
			free = append(free, i)
		}
	}
	pick := func(list []int) int { return list[s.rnd.Intn(len(list))] }
	switch {
	case r < 22 && len(free) > 0:
		t := pick(free)
		nc := 1 + s.rnd.Intn(2)
		cols := "k"
		for i := 1; i < nc; i++ {
			cols += ", c" + strconv.Itoa(i)
		}
		if !s.admin("create " + s.tname[t] + " (" + cols + ") key(k)") {
			return
		}
		s.tabs[t] = &dbtab{nc: nc}
		s.tr.Emit(vh.E("DbCreate", "t", t, "nc", nc))
	case r < 40 && len(live) > 0:
		t := pick(live)
		if !s.admin("drop " + s.tname[t]) {
			return
		}
		delete(s.tabs, t)
		s.tr.Emit(vh.E("DbDrop", "t", t))
	case r < 48 && len(live) > 0:
		t := pick(live)
		tb := s.tabs[t]
		if !s.admin("alter " + s.tname[t] + " create (c" + strconv.Itoa(tb.nc) + ")") {
			return
		}
		tb.nc++
		s.tr.Emit(vh.E("DbAlter", "t", t))
	case r < 54 && len(live) > 0 && len(free) > 0:
		t, to := pick(live), pick(free)
		if !s.admin("rename " + s.tname[t] + " to " + s.tname[to]) {
			return
		}
		s.tabs[to] = s.tabs[t]
		delete(s.tabs, t)
		s.tr.Emit(vh.E("DbRename", "t", t, "to", to))
	case r < 64 && len(live) > 0:
		t := pick(live)
		n := 1 + s.rnd.Intn(3)
		// sometimes a persist (of a schema change elsewhere) happens while the
		// transaction is open, so that it commits into a newer chain clock
		straddle := s.rnd.Intn(3) == 0
		var ut *db19.UpdateTran
		if e := catch(func() {
			ut = s.db.NewUpdateTran()
			for i := 0; i < n; i++ {
				s.nextKey++
				query.DoAction(nil, ut, "insert {k: "+strconv.Itoa(s.nextKey)+"} into "+s.tname[t])
			}
		}); e != nil {
			s.tr.Emit(vh.E("DbCrash", "what", "insert", "msg", fmt.Sprint(e)))
			s.dead = true
			return
		}
		if straddle {
			// a committed change of another table makes the info chain advance too
			for _, o := range live {
				if o != t {
					if e := catch(func() {
						ut2 := s.db.NewUpdateTran()
						s.nextKey++
						query.DoAction(nil, ut2, "insert {k: "+strconv.Itoa(s.nextKey)+"} into "+s.tname[o])
						ut2.Commit()
					}); e != nil {
						s.tr.Emit(vh.E("DbCrash", "what", "insert", "msg", fmt.Sprint(e)))
						s.dead = true
						return
					}
					s.tabs[o].nr++
					s.tr.Emit(vh.E("DbInsert", "t", o, "n", 1))
					break
				}
			}
			s.toggleView()
			if !s.dead {
				s.obs(0, s.db.GetState())
				s.persist()
			}
			if s.dead {
				return
			}
		}
		if e := catch(func() { ut.Commit() }); e != nil {
			s.tr.Emit(vh.E("DbCrash", "what", "commit", "msg", fmt.Sprint(e)))
			s.dead = true
			return
		}
		s.tabs[t].nr += n
		s.tr.Emit(vh.E("DbInsert", "t", t, "n", n))
	case r < 70:
		s.toggleView()
		if s.dead {
			return
		}
	case r < 92:
		s.persist()
		return
	default:
		s.reopen()
		return
	}
	s.ops++
	s.obs(0, s.db.GetState())
}

func runDb(tr *vh.Trace, rnd *rand.Rand, nsteps int, scripted int) int {
	s := &dbscen{tr: tr, rnd: rnd, tabs: map[int]*dbtab{}, views: map[int]int{}}
	s.pickNames(rnd.Intn(3) != 0)
	s.open(true)
	tr.Emit(vh.E("DbOpen"))
	s.obs(0, s.db.GetState())
	if e := catch(func() {
		switch scripted {
		case 1: // F7 at the database level: the only table dropped after a persist
			s.admin("create " + s.tname[1] + " (k) key(k)")
			s.tabs[1] = &dbtab{nc: 1}
			tr.Emit(vh.E("DbCreate", "t", 1, "nc", 1))
			s.obs(0, s.db.GetState())
			s.persist()
			s.admin("drop " + s.tname[1])
			delete(s.tabs, 1)
			tr.Emit(vh.E("DbDrop", "t", 1))
			s.obs(0, s.db.GetState())
			s.reopen()
		case 2: // the last view
			s.admin("view " + s.vname[1] + " = tables where nrows is 7")
			s.views[1] = 7
			tr.Emit(vh.E("DbView", "v", 1, "d", 7))
			s.obs(0, s.db.GetState())
			s.persist()
			s.admin("drop " + s.vname[1])
			delete(s.views, 1)
			tr.Emit(vh.E("DbDropView", "v", 1))
			s.obs(0, s.db.GetState())
			s.persist()
			s.reopen()
		case 3: // a view keeps the schema table alive, only the info table empties
			s.admin("view " + s.vname[1] + " = tables where nrows is 9")
			s.views[1] = 9
			tr.Emit(vh.E("DbView", "v", 1, "d", 9))
			s.obs(0, s.db.GetState())
			s.admin("create " + s.tname[2] + " (k) key(k)")
			s.tabs[2] = &dbtab{nc: 1}
			tr.Emit(vh.E("DbCreate", "t", 2, "nc", 1))
			s.obs(0, s.db.GetState())
			s.persist()
			s.admin("drop " + s.tname[2])
			delete(s.tabs, 2)
			tr.Emit(vh.E("DbDrop", "t", 2))
			s.obs(0, s.db.GetState())
			s.persist()
			s.reopen()
		}
	}); e != nil {
		tr.Emit(vh.E("DbCrash", "what", "scripted", "msg", fmt.Sprint(e)))
		return s.ops
	}
	if e := catch(func() {
		for i := 0; i < nsteps && !s.dead; i++ {
			s.step()
		}
		if !s.dead {
			s.db.Close()
		}
	}); e != nil {
		tr.Emit(vh.E("DbCrash", "what", "step", "msg", fmt.Sprint(e)))
	}
	return s.ops
}

//-------------------------------------------------------------------

func main() {
	db19.MakeSuTran = func(ut *db19.UpdateTran) *core.SuTran { return core.NewSuTran(nil, true) }
	out := os.Args[1]
	nh, _ := strconv.Atoi(os.Args[2])
	ndb, _ := strconv.Atoi(os.Args[3])
	rnd := rand.New(rand.NewSource(vh.Seed()))
	tr := vh.Create(out)
	defer tr.Close()
	first := true
	reset := func() {
		if !first {
			tr.Reset()
		}
		first = false
	}
	writes, puts, dels, maxclock, maxchain, scen := 0, 0, 0, 0, 0, 0
	runH := func(profile, nsteps, style, scripted int) {
		reset()
		setHashes(rnd, profile)
		s := newHscen(tr, rnd)
		tr.Emit(vh.E("Open", "profile", profile))
		s.obsAll()
		// a panic inside the hamt code (Put, Delete, Get, All, ...) is an outcome of the
		// code under test: it is recorded (and rejected by the trace spec), not a driver crash
		if e := catch(func() {
			if scripted >= 0 {
				s.scripted(scripted)
			}
			s.run(nsteps, style)
		}); e != nil {
			tr.Emit(vh.E("Crash", "what", "hamt", "msg", fmt.Sprint(e)))
		}
		writes += s.writes
		puts += s.puts
		dels += s.dels
		maxclock = max(maxclock, s.maxclock)
		maxchain = max(maxchain, s.maxchain)
		scen++
	}
	// scripted F7-shaped scenarios (12 variants) on rotating hash profiles
	for v := 0; v < 12; v++ {
		runH(v%7, 10, 0, v)
	}
	for i := 0; i < nh; i++ {
		profile := rnd.Intn(7)
		switch {
		case i%10 == 9: // long persist-heavy run: clock > 127 so that maxChain forces flattening
			runH(profile, 420, 1, -1)
		case i%3 == 1:
			runH(profile, 40+rnd.Intn(40), 2, -1)
		case i%3 == 2:
			runH(profile, 40+rnd.Intn(60), 3, -1)
		default:
			runH(profile, 30+rnd.Intn(60), 0, -1)
		}
	}
	dbops := 0
	for i := 0; i < ndb; i++ {
		reset()
		scripted := 0
		if i < 3 {
			scripted = i + 1
		}
		dbops += runDb(tr, rnd, 25+rnd.Intn(50), scripted)
		scen++
	}
	vh.Summary("scenarios", scen, "events", tr.N, "writes", writes, "puts", puts, "deletes", dels,
		"maxclock", maxclock, "maxchain", maxchain, "dbops", dbops)
}
