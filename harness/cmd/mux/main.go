// Driver for C40 (a): the REAL mux client and server connections
// (dbms/mux: ClientConn/ClientSession/WriteBuf, ServerConn.Run, Workers) over an
// in-memory pipe that cuts reads and writes into random pieces and records every
// frame on the wire.  Concurrent sessions exchange request/response messages of
// 0 B .. 1 MB (with the 4096-byte buffer boundaries), written through the real
// WriteBuf in random pieces.  Per direction the trace has
//
//	Send    message about to be written by a session (sequence no., length, checksums)
//	Frame   frame put on the wire (session, size, final, checksums of the payload)
//	Deliver message handed to the receiver of a session
//
// validated by spec/trace/TraceMux.tla (frame reassembly = MuxFrames.tla).
package main

import (
	"encoding/binary"
	"fmt"
	"math/rand"
	"os"
	"strconv"
	"sync"
	"sync/atomic"
	"time"

	"github.com/apmckinlay/gsuneido/core"
	"github.com/apmckinlay/gsuneido/dbms/mux"

	"verifharness/cs"
	"verifharness/vh"
)

const (
	bufSize = 4096 // mux.bufSize
	hdrSize = 9    // mux.HeaderSize
	maxSize = 1024 * 1024
)

type scen struct {
	tr      *vh.Trace
	id      int64
	respSeq sync.Map // (connection, session) -> *atomic.Int32
	conns   sync.Map // server connection id -> connection number (1, 2) of the scenario
	prog    atomic.Int64
	delay   int // handler delays responses (out of order across sessions)
}

var cur atomic.Pointer[scen]

func emitMsg(tr *vh.Trace, ev, dir string, c int, s uint32, seq int, data []byte) {
	d := cs.DigestOf(data)
	tr.Emit(vh.E(ev, "dir", dir, "c", c, "s", int(s), "seq", seq, "n", d.N, "h1", d.H1, "h2", d.H2))
}

func tap(tr *vh.Trace, dir string, c int) cs.FrameTap {
	return func(session uint32, size int, final byte, payload []byte) {
		d := cs.DigestOf(payload)
		tr.Emit(vh.E("Frame", "dir", dir, "c", c, "s", int(session), "seq", 0, "n", size, "h1", d.H1, "h2", d.H2, "fin", int(final)))
	}
}

// interesting message lengths: around the WriteBuf boundaries and the limit
func pickLen(r *rand.Rand, big bool, limit int) int {
	n := pickLen1(r, big)
	if limit > 0 && n > limit {
		n = n % limit
	}
	return n
}

func pickLen1(r *rand.Rand, big bool) int {
	edges := []int{0, 1, 2, bufSize - hdrSize - 1, bufSize - hdrSize, bufSize - hdrSize + 1,
		bufSize - 1, bufSize, bufSize + 1, 2*bufSize - hdrSize, 2*bufSize - hdrSize - 1, 2*bufSize - hdrSize + 1,
		2 * bufSize, 3*bufSize - 2*hdrSize}
	switch k := r.Intn(20); {
	case k < 7:
		return edges[r.Intn(len(edges))]
	case k < 12:
		return r.Intn(200)
	case k < 16:
		return r.Intn(3 * bufSize)
	case k < 19:
		return r.Intn(60000)
	default:
		if big {
			switch r.Intn(4) {
			case 0:
				return maxSize
			case 1:
				return maxSize - 1 - r.Intn(bufSize)
			}
			return 100000 + r.Intn(maxSize-100000)
		}
		return r.Intn(300000)
	}
}

// fill produces deterministic content from a seed
func fill(b []byte, seed uint32) {
	x := seed*2654435761 + 12345
	for i := range b {
		x ^= x << 13
		x ^= x >> 17
		x ^= x << 5
		b[i] = byte(x)
	}
}

// writePieces writes data through the REAL WriteBuf in random pieces, mixing
// Write, WriteString and Write1, with piece sizes around the buffer boundaries
func writePieces(wb *mux.WriteBuf, data []byte, r *rand.Rand) {
	for len(data) > 0 {
		var n int
		switch r.Intn(8) {
		case 0:
			n = 1
		case 1:
			n = bufSize - hdrSize
		case 2:
			n = bufSize
		case 3:
			n = bufSize - 1
		case 4:
			n = 1 + r.Intn(bufSize+10)
		case 5:
			n = len(data)
		default:
			n = 1 + r.Intn(600)
		}
		if n > len(data) {
			n = len(data)
		}
		switch {
		case n == 1 && r.Intn(2) == 0:
			wb.Write1(data[0])
		case r.Intn(2) == 0:
			wb.WriteString(string(data[:n]))
		default:
			wb.Write(data[:n])
		}
		data = data[n:]
	}
}

// request layout: [respLen uint32][seed uint32][filler...]  (short requests: all zero)
func parseReq(req []byte) (respLen int, seed uint32) {
	if len(req) < 8 {
		return len(req), uint32(len(req))
	}
	return int(binary.BigEndian.Uint32(req)), binary.BigEndian.Uint32(req[4:])
}

// handler is the server side: called by the REAL Workers for every message
func handler(wb *mux.WriteBuf, _ *core.Thread, id uint64, req []byte) {
	sc := cur.Load()
	if req == nil || sc == nil {
		return // connection closing
	}
	sid := uint32(id)
	cv, ok := sc.conns.Load(uint32(id >> 32))
	if !ok {
		return // a connection of an earlier scenario
	}
	c := cv.(int)
	emitMsg(sc.tr, "Deliver", "c2s", c, sid, 0, req)
	respLen, seed := parseReq(req)
	r := rand.New(rand.NewSource(int64(seed)))
	if sc.delay > 0 && r.Intn(3) == 0 {
		time.Sleep(time.Duration(r.Intn(sc.delay)) * time.Microsecond)
	}
	resp := make([]byte, 1+respLen)
	resp[0] = 1 // ClientSession.Request expects a leading true
	fill(resp[1:], seed)
	v, _ := sc.respSeq.LoadOrStore([2]uint32{uint32(c), sid}, new(atomic.Int32))
	seq := int(v.(*atomic.Int32).Add(1))
	emitMsg(sc.tr, "Send", "s2c", c, sid, seq, resp)
	wb.ResetWrite()
	writePieces(wb, resp, r)
	wb.EndMsg()
	sc.prog.Add(1)
}

var workers *mux.Workers

func main() {
	out := os.Args[1]
	nscen, _ := strconv.Atoi(os.Args[2])
	cs.Quiet()
	cs.InstallExit()
	seed := vh.Seed()
	rnd := rand.New(rand.NewSource(seed))
	tr := vh.Create(out)
	workers = mux.NewWorkers(handler)
	total, bytes, frames := 0, int64(0), 0
	for s := 0; s < nscen; s++ {
		if s > 0 {
			tr.Reset()
		}
		n, b, ok := scenario(tr, rnd, s, nscen)
		total += n
		bytes += b
		if !ok {
			break
		}
	}
	tr.Close()
	vh.Summary("scenarios", nscen, "messages", total, "bytes", bytes, "frames", frames, "events", tr.N)
}

func scenario(tr *vh.Trace, rnd *rand.Rand, s, nscen int) (int, int64, bool) {
	sc := &scen{tr: tr, id: int64(s)}
	if rnd.Intn(2) == 0 {
		sc.delay = 300
	}
	cur.Store(sc)
	// chunking: from byte-at-a-time to whole buffers
	maxes := []int{1, 2, 7, 9, 64, 1000, bufSize, bufSize + hdrSize, 70000, 0}
	chc := cs.Chunking{Seed: rnd.Int63(), MaxRead: maxes[rnd.Intn(len(maxes))], MaxWrite: maxes[rnd.Intn(len(maxes))], Yield: 50}
	chs := cs.Chunking{Seed: rnd.Int63(), MaxRead: maxes[rnd.Intn(len(maxes))], MaxWrite: maxes[rnd.Intn(len(maxes))], Yield: 50}
	big := s%5 == 4 || nscen < 5
	if big {
		// keep the 1 MB scenarios fast: no byte-at-a-time cutting
		for _, c := range []*cs.Chunking{&chc, &chs} {
			if c.MaxRead > 0 && c.MaxRead < 1000 {
				c.MaxRead = 5000
			}
			if c.MaxWrite > 0 && c.MaxWrite < 1000 {
				c.MaxWrite = 3000
			}
		}
	}
	// byte-at-a-time cutting only with moderate message sizes (time)
	limit := 0
	for _, m := range []int{chc.MaxRead, chc.MaxWrite, chs.MaxRead, chs.MaxWrite} {
		if m > 0 && m <= 9 {
			limit = 3*bufSize + 100
			chc.Yield, chs.Yield = 2000, 2000
		}
	}
	// one or two connections served by the same worker pool (session ids are per
	// connection, so the same ids are in use on both)
	nconn := 1
	if rnd.Intn(3) == 0 {
		nconn = 2
	}
	var pipes []*cs.Conn
	var clients []*mux.ClientConn
	for c := 1; c <= nconn; c++ {
		chc.Seed, chs.Seed = rnd.Int63(), rnd.Int63()
		cl, sv := cs.Pipe(fmt.Sprintf("10.1.0.%d:1", c), "10.9.9.9:3147", chc, chs)
		cl.SetTap(tap(tr, "c2s", c))
		sv.SetTap(tap(tr, "s2c", c))
		clients = append(clients, mux.NewClientConn(cl))
		msc := mux.NewServerConn(sv)
		sc.conns.Store(msc.Id(), c)
		go msc.Run(workers.Submit)
		pipes = append(pipes, cl)
	}

	nsess := 1 + rnd.Intn(8)
	nmsg := 3 + rnd.Intn(12)
	if big {
		nsess, nmsg = 2+rnd.Intn(3), 2+rnd.Intn(3)
	}
	var wg sync.WaitGroup
	var nbytes atomic.Int64
	for i := 0; i < nsess; i++ {
		c := 1 + i%nconn
		ses := clients[c-1].NewClientSession()
		r := rand.New(rand.NewSource(rnd.Int63()))
		wg.Add(1)
		go func() {
			defer wg.Done()
			sid := ses.Id()
			for m := 1; m <= nmsg; m++ {
				n := pickLen(r, big, limit)
				req := make([]byte, n)
				if n >= 8 {
					rl := pickLen(r, big, limit)
					if rl >= maxSize {
						rl = maxSize - 1 // response = 1 + rl bytes
					}
					binary.BigEndian.PutUint32(req, uint32(rl))
					binary.BigEndian.PutUint32(req[4:], r.Uint32())
					fill(req[8:], r.Uint32())
				}
				emitMsg(tr, "Send", "c2s", c, sid, m, req)
				ses.ResetWrite()
				writePieces(&ses.WriteBuf, req, r)
				ses.Request() // EndMsg, wait for the response, check its leading true
				rest := ses.GetN(ses.Remaining())
				resp := append([]byte{1}, rest...)
				emitMsg(tr, "Deliver", "s2c", c, sid, 0, resp)
				nbytes.Add(int64(n + len(resp)))
				sc.prog.Add(1)
				if r.Intn(4) == 0 {
					time.Sleep(time.Duration(r.Intn(200)) * time.Microsecond)
				}
			}
		}()
	}
	done := make(chan struct{})
	go func() { wg.Wait(); close(done) }()
	lost0 := cs.NClientLost.Load()
	last, lastChange := int64(-1), time.Now()
	tick := time.NewTicker(50 * time.Millisecond)
	defer tick.Stop()
	for {
		select {
		case <-done:
			tr.Emit(vh.E("Done", "nsent", 2*nsess*nmsg))
			for _, cl := range pipes {
				cl.Close()
			}
			// the real clients' readers end through core.Fatal("lost connection"):
			// wait for them so that they are not mistaken for a loss in the next scenario
			for i := 0; cs.NClientLost.Load() < lost0+int32(nconn); i++ {
				time.Sleep(200 * time.Microsecond)
				if i > 600000 {
					cs.Fatal("the mux client's reader did not end within 120 s after Close")
				}
			}
			return nsess * nmsg, nbytes.Load(), true
		case m := <-cs.ServerFatal:
			tr.Emit(vh.E("Fatal", "msg", m))
			return 0, nbytes.Load(), false
		case <-tick.C:
			if cs.NClientLost.Load() > lost0 {
				// the client's reader lost the connection (mux closed it) while
				// sessions were still exchanging messages
				tr.Emit(vh.E("ConnLost", "n", int(cs.NClientLost.Load()-lost0)))
				return 0, nbytes.Load(), false
			}
			if p := sc.prog.Load(); p != last {
				last, lastChange = p, time.Now()
			} else if time.Since(lastChange) > 30*time.Second {
				// no message completed for 30 s: sessions are stuck
				tr.Emit(vh.E("Stall", "progress", int(p)))
				return 0, nbytes.Load(), false
			}
		}
	}
}
