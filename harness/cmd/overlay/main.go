// Driver for C09: builds REAL index overlays (db19/index) through the public API
// that real commits use (btree.Builder in a heap stor, OverlayFor, Mutable,
// Insert/Update/Delete, UpdateWith, Merge/WithMerged, Save/WithSaved) and iterates
// them with the real OverIter / SimpleIter (through a stub transaction), the btree
// iterator and ixbuf iterators, interleaving iterator steps with modifications of
// the mutable layer and replacement of the overlay. Every operation and result is
// logged as ndjson for TraceOverlay.tla. Keys are logged as ranks (prefix-major
// (prefix, suffix) pairs); the rank -> concrete key tables are checked at start-up.
//
// usage: overlay <outdir> <nscenarios> <steps>
// writes <outdir>/overlay.ndjson  scenarios that never continue an OverIter on an
//                                 Overlay object that a commit changed in place
//        <outdir>/stale.ndjson    scenarios that do exactly that (cursor reuse after
//                                 the transaction's commit), see finding F17
package main

import (
	"fmt"
	"math/rand"
	"os"
	"path/filepath"
	"reflect"
	"sort"
	"strconv"
	"strings"

	"github.com/apmckinlay/gsuneido/db19/index"
	"github.com/apmckinlay/gsuneido/db19/index/btree"
	"github.com/apmckinlay/gsuneido/db19/index/iface"
	"github.com/apmckinlay/gsuneido/db19/index/ixbuf"
	"github.com/apmckinlay/gsuneido/db19/index/ixkey"
	"github.com/apmckinlay/gsuneido/db19/stor"

	"verifharness/vh"
)

var rnd *rand.Rand

//-------------------------------------------------------------------
// universe: rank <-> concrete key

type universe struct {
	np, ns    int
	skipStart int
	pre, suf  []string // 1-based: concrete prefix / suffix bound strings
	keys      []string // 1-based: concrete keys, prefix-major
	rank      map[string]int
	fam       int
}

func (u *universe) K() int { return u.np * u.ns }

// rankOf: the least rank whose key is >= x (K+1 if none)
func (u *universe) rankOf(x string) int {
	return 1 + sort.Search(u.K(), func(i int) bool { return u.keys[i+1] >= x })
}

// hiRank: the number of keys <= x (= the greatest rank whose key is <= x)
func (u *universe) hiRank(x string) int {
	return sort.Search(u.K(), func(i int) bool { return u.keys[i+1] > x })
}

func rankIn(list []string, x string) int { // list is 1-based
	n := len(list) - 1
	return 1 + sort.Search(n, func(i int) bool { return list[i+1] >= x })
}

func (u *universe) keyRank(key string) int {
	if r, ok := u.rank[key]; ok {
		return r
	}
	return -1
}

// bound returns a concrete string for the key-rank bound b in 0..K+1
func (u *universe) bound(b int) string {
	switch {
	case b <= 0:
		return ixkey.Min
	case b > u.K():
		return ixkey.Max
	}
	if b > 1 && rnd.Intn(4) == 0 {
		// the immediate successor of the previous key: a bound that is not a key
		s := u.keys[b-1] + "\x00"
		if u.rankOf(s) == b {
			return s
		}
	}
	return u.keys[b]
}

func (u *universe) preBound(b int) string {
	switch {
	case b <= 0:
		return ixkey.Min
	case b > u.np:
		return ixkey.Max
	}
	return u.pre[b]
}

func (u *universe) sufBound(b int) string {
	switch {
	case b <= 0:
		return ixkey.Min
	case b > u.ns:
		return ixkey.Max
	}
	return u.suf[b]
}

var nastyFields = []string{"", "\x00", "\x00\x00", "\x00\x01", "\x01", "\x01\x00", "0", "a", "a\x00",
	"a\x00\x00b", "a\x00b", "a\x01", "ab", "a\xff", "b", "\xfe", "\xff", "\xff\x00", "\xff\xff"}

func pick(cands [][]string, n int) [][]string {
	idx := rnd.Perm(len(cands))[:n]
	res := make([][]string, n)
	for i, j := range idx {
		res[i] = cands[j]
	}
	sort.Slice(res, func(i, j int) bool { return ixkey.CompKey(res[i]...) < ixkey.CompKey(res[j]...) })
	return res
}

func singles(list []string) [][]string {
	res := make([][]string, len(list))
	for i, s := range list {
		res[i] = []string{s}
	}
	return res
}

func genUniverse(np, ns int) *universe {
	u := &universe{np: np, ns: ns, skipStart: 1, fam: rnd.Intn(4)}
	var P, S [][]string
	switch u.fam {
	case 0: // plain
		for i := 0; i < np; i++ {
			P = append(P, []string{string(rune('a' + i))})
		}
		for j := 0; j < ns; j++ {
			S = append(S, []string{strconv.Itoa(10 + j)})
		}
	case 1: // nasty bytes: zeros, escapes, 0xff, empty prefix and suffix
		P = pick(singles(nastyFields), np)
		S = pick(singles(nastyFields), ns)
	case 2: // multi-field prefix (skipStart 2) and multi-field suffix
		u.skipStart = 2
		var pc, sc [][]string
		small := []string{"", "\x00", "a", "a\x00", "b", "\xff"}
		for _, a := range small {
			for _, b := range small {
				pc = append(pc, []string{a, b})
				sc = append(sc, []string{a, b})
			}
			sc = append(sc, []string{a})
		}
		// distinct as keys: drop tuples with equal encodings (trailing empty fields)
		pc = dedup(pc)
		sc = dedup(sc)
		P = pick(pc, np)
		S = pick(sc, ns)
	case 3: // long shared prefixes
		lp := strings.Repeat("p", 40+rnd.Intn(200))
		ls := strings.Repeat("s", 10+rnd.Intn(100))
		for i := 0; i < np; i++ {
			P = append(P, []string{lp + string(rune('a'+i))})
		}
		for j := 0; j < ns; j++ {
			S = append(S, []string{ls + strconv.Itoa(10+j)})
		}
	}
	u.pre = make([]string, np+1)
	u.suf = make([]string, ns+1)
	u.keys = make([]string, np*ns+1)
	u.rank = map[string]int{}
	for i := 1; i <= np; i++ {
		u.pre[i] = ixkey.CompKey(P[i-1]...)
	}
	for j := 1; j <= ns; j++ {
		u.suf[j] = ixkey.CompKey(S[j-1]...)
	}
	for i := 1; i <= np; i++ {
		for j := 1; j <= ns; j++ {
			flds := append([]string{}, P[i-1]...)
			for len(flds) < u.skipStart {
				flds = append(flds, "")
			}
			flds = append(flds, S[j-1]...)
			k := (i-1)*ns + j
			u.keys[k] = ixkey.CompKey(flds...)
			u.rank[u.keys[k]] = k
		}
	}
	// the rank tables must be strictly monotone and consistent with the split
	for k := 2; k <= u.K(); k++ {
		if !(u.keys[k-1] < u.keys[k]) {
			vh.Fatal("universe keys not increasing at %d: %q %q", k, u.keys[k-1], u.keys[k])
		}
	}
	for i := 2; i <= np; i++ {
		if !(u.pre[i-1] < u.pre[i]) {
			vh.Fatal("universe prefixes not increasing: %q %q", u.pre[i-1], u.pre[i])
		}
	}
	for j := 2; j <= ns; j++ {
		if !(u.suf[j-1] < u.suf[j]) {
			vh.Fatal("universe suffixes not increasing: %q %q", u.suf[j-1], u.suf[j])
		}
	}
	for k := 1; k <= u.K(); k++ {
		p, s := ixkey.SplitPrefixSuffix(u.keys[k], u.skipStart)
		i, j := (k-1)/ns+1, (k-1)%ns+1
		if p != u.pre[i] || s != u.suf[j] {
			vh.Fatal("universe split mismatch key %q: %q %q want %q %q", u.keys[k], p, s, u.pre[i], u.suf[j])
		}
		if !(u.suf[j] < ixkey.Max && u.pre[i] < ixkey.Max) {
			vh.Fatal("universe field >= Max")
		}
	}
	return u
}

func dedup(ts [][]string) [][]string {
	seen := map[string]bool{}
	var res [][]string
	for _, t := range ts {
		k := ixkey.CompKey(t...)
		if !seen[k] {
			seen[k] = true
			res = append(res, t)
		}
	}
	return res
}

//-------------------------------------------------------------------
// world

type slot struct {
	ov       *index.Overlay
	live     map[int]uint64 // shadow content: rank -> offset
	mutable  bool
	touched  map[int]bool // keys changed by this transaction
	snapshot int          // generation of `cur` this transaction started from
	inplace  int          // incremented when the object was changed in place by a commit onto a different state
	used     bool
}

type stubTran struct {
	w     *world
	view  int
	reads [][2]int
}

func (t *stubTran) GetIndexI(string, int) *index.Overlay { return t.w.slots[t.view].ov }
func (t *stubTran) Read(_ string, _ int, from, to string) {
	u := t.w.u
	t.reads = append(t.reads, [2]int{u.rankOf(from), u.hiRank(to)})
}
func (t *stubTran) Num() int { return 7 }

type iter struct {
	id      int
	kind    string
	oi      *index.OverIter
	si      index.IndexIter
	li      iface.Iter
	tran    *stubTran
	view    int
	lastObj *index.Overlay // the object the OverIter was last given
	lastGen int            // its in-place generation at that time
	skip    bool           // in skip-scan mode
	sk      [4]int         // porg, pend, sorg, send (ranks) in skip-scan mode
}

type world struct {
	u       *universe
	tr      *vh.Trace
	st      *stor.Stor
	slots   []*slot // 1-based
	cur     int
	curGen  int // incremented whenever cur changes (commit, merge, save)
	txs     []int
	iters   []*iter // 1-based
	ibs     []*ixbuf.T
	ibDone  []bool
	nextOff uint64
	stale   bool // stale mode: allow continuing an OverIter on an object changed in place
	nsteps  int
	nops    int
	byKind  map[string]int
	// pending merge / save computed on an earlier state (as the merger / persist do)
	pendMerge *ixbuf.T
	pendN     int
	pendSave  *btree.T
	pendGen   int // structural generation the pending result was computed for
	structGen int
}

const nslot, nit, nib = 10, 6, 4

func (w *world) off() uint64 { w.nextOff++; return w.nextOff }

func (w *world) emit(name string, kv ...any) { w.tr.Emit(vh.E(name, kv...)) }

// alloc returns a free slot id (recycling the oldest objects nobody needs)
func (w *world) alloc() int {
	busy := map[int]bool{w.cur: true}
	for _, t := range w.txs {
		busy[t] = true
	}
	for i := 1; i <= nslot; i++ {
		if !busy[i] && !w.slots[i].used {
			return i
		}
	}
	// prefer slots no iterator looks at
	viewed := map[int]bool{}
	for _, it := range w.iters[1:] {
		if it != nil && it.kind == "over" {
			viewed[it.view] = true
		}
	}
	var cands []int
	for i := 1; i <= nslot; i++ {
		if !busy[i] && !viewed[i] {
			cands = append(cands, i)
		}
	}
	if len(cands) == 0 {
		for i := 1; i <= nslot; i++ {
			if !busy[i] {
				cands = append(cands, i)
			}
		}
	}
	s := cands[rnd.Intn(len(cands))]
	for _, it := range w.iters[1:] {
		if it != nil && it.kind == "over" && it.view == s {
			it.view = w.cur
		}
	}
	return s
}

func cloneLive(m map[int]uint64) map[int]uint64 {
	r := make(map[int]uint64, len(m))
	for k, v := range m {
		r[k] = v
	}
	return r
}

func newWorld(tr *vh.Trace, np, ns int, stale bool) *world {
	w := &world{u: genUniverse(np, ns), tr: tr, stale: stale, nextOff: 1000, byKind: map[string]int{}}
	btree.SetSplit([]int{2, 3, 4, 100}[rnd.Intn(4)])
	w.st = stor.HeapStor(8192)
	w.st.Alloc(64) // node offset 0 means "no node": real files have a header there
	w.slots = make([]*slot, nslot+1)
	for i := range w.slots {
		w.slots[i] = &slot{}
	}
	w.iters = make([]*iter, nit+1)
	w.ibs = make([]*ixbuf.T, nib+1)
	w.ibDone = make([]bool, nib+1)
	w.emit("Init", "np", np, "ns", ns, "nslot", nslot, "nit", nit, "nib", nib)
	// initial stored btree
	b := btree.NewBuilder(w.st)
	live := map[int]uint64{}
	keys := [][2]int{}
	p := []float64{0, 0.3, 0.6, 0.9, 1}[rnd.Intn(5)]
	for k := 1; k <= w.u.K(); k++ {
		if rnd.Float64() < p {
			off := w.off()
			if !b.Add(w.u.keys[k], off) {
				vh.Fatal("builder refused key")
			}
			live[k] = off
			keys = append(keys, [2]int{k, int(off)})
		}
	}
	// OverlayFor: one empty base layer; OverlayForN (as after building a new index while
	// commits are pending): several empty layers
	nl := 1
	ov := index.OverlayFor(b.Finish())
	if rnd.Intn(5) == 0 {
		nl = 1 + rnd.Intn(3)
		bt, _, _ := ov.VerifParts()
		ov = index.OverlayForN(bt, nl)
	}
	w.slots[1] = &slot{ov: ov, live: live, used: true}
	w.cur = 1
	w.emit("Build", "ov", 1, "keys", keys, "nl", nl)
	return w
}

//-------------------------------------------------------------------
// content operations

func (w *world) startTx() {
	if len(w.txs) >= 2 {
		return
	}
	s := w.alloc()
	c := w.slots[w.cur]
	w.slots[s] = &slot{ov: c.ov.Mutable(), live: cloneLive(c.live), mutable: true,
		touched: map[int]bool{}, snapshot: w.curGen, used: true}
	w.txs = append(w.txs, s)
	w.emit("Mutable", "from", w.cur, "ov", s)
}

// keys a transaction may touch: not touched by the other live transaction, and (when the
// state moved on since its snapshot) not changed by commits since then -- the checker
// guarantees that concurrent committed transactions are independent
func (w *world) txOp(s int) {
	sl := w.slots[s]
	u := w.u
	for try := 0; try < 8; try++ {
		k := 1 + rnd.Intn(u.K())
		if rnd.Intn(3) == 0 { // near an iterator's current key
			for _, it := range w.iters[1:] {
				if it != nil && it.kind == "over" && it.oi.HasCur() && rnd.Intn(2) == 0 {
					ck, _ := it.oi.Cur()
					if r := u.keyRank(ck); r > 0 {
						k = r + rnd.Intn(3) - 1
					}
				}
			}
			if k < 1 || k > u.K() {
				continue
			}
		}
		if w.foreign(s, k) {
			continue
		}
		key := u.keys[k]
		if off, ok := sl.live[k]; ok {
			if rnd.Intn(2) == 0 {
				noff := w.off()
				sl.ov.Update(key, noff)
				sl.live[k] = noff
				w.emit("Upd", "ov", s, "k", k, "off", int(noff))
			} else {
				sl.ov.Delete(key, off)
				delete(sl.live, k)
				w.emit("Del", "ov", s, "k", k, "off", int(off))
			}
		} else {
			off := w.off()
			sl.ov.Insert(key, off)
			sl.live[k] = off
			w.emit("Ins", "ov", s, "k", k, "off", int(off))
		}
		sl.touched[k] = true
		return
	}
}

// foreign: key k may not be changed by transaction s (touched by another live
// transaction, or committed by another one since s started)
func (w *world) foreign(s, k int) bool {
	for _, t := range w.txs {
		if t != s && w.slots[t].touched[k] {
			return true
		}
	}
	return w.slots[s].touchedSince(k)
}

var committedSince = map[*slot]map[int]bool{}

func (sl *slot) touchedSince(k int) bool { return committedSince[sl][k] }

// updateWith calls Overlay.UpdateWith; if it returns a new Overlay (it modifies the
// receiver in place at the pinned commit) that one is the result
func updateWith(ov, latest *index.Overlay) *index.Overlay {
	res := reflect.ValueOf(ov).MethodByName("UpdateWith").Call([]reflect.Value{reflect.ValueOf(latest)})
	if len(res) == 1 {
		return res[0].Interface().(*index.Overlay)
	}
	return ov
}

func (w *world) commitTx(i int) {
	s := w.txs[i]
	sl := w.slots[s]
	c := w.slots[w.cur]
	if c.ov.Nlayers() >= 4 {
		return // let the merger catch up first
	}
	moved := sl.snapshot != w.curGen
	if moved && !w.stale && rnd.Intn(2) == 0 {
		// (in the main trace only half of these, to keep plain histories frequent)
		return
	}
	old := sl.ov
	sl.ov = updateWith(sl.ov, c.ov)
	w.emit("Commit", "ov", s, "latest", w.cur)
	// shadow: the latest state with this transaction's changes on top
	nl := cloneLive(c.live)
	for k := range sl.touched {
		if off, ok := sl.live[k]; ok {
			nl[k] = off
		} else {
			delete(nl, k)
		}
	}
	sl.live = nl
	sl.mutable = false
	if moved && sl.ov == old {
		sl.inplace++ // same object, but more than its own mutable layer changed
	}
	// the other live transactions must stay independent of what was committed
	for _, t := range w.txs {
		if t != s {
			m := committedSince[w.slots[t]]
			if m == nil {
				m = map[int]bool{}
				committedSince[w.slots[t]] = m
			}
			for k := range sl.touched {
				m[k] = true
			}
		}
	}
	w.txs = append(w.txs[:i], w.txs[i+1:]...)
	w.cur = s
	w.curGen++
	w.checkOv(s)
}

func (w *world) abortTx(i int) {
	s := w.txs[i]
	delete(committedSince, w.slots[s])
	w.txs = append(w.txs[:i], w.txs[i+1:]...)
	// the object stays around (iterators may still look at it) but is not modified any more
}

// merge: compute now or apply a result computed earlier (on an older state with
// the same leading layers), as the merger does
func (w *world) merge() {
	c := w.slots[w.cur]
	if w.pendMerge != nil {
		mr, n := w.pendMerge, w.pendN
		w.pendMerge = nil
		if w.pendGen == w.structGen {
			w.applyStruct("Merge", c.ov.WithMerged(mr, n), n)
			return
		}
	}
	nl := c.ov.Nlayers()
	if nl < 2 {
		return
	}
	n := 1 + rnd.Intn(nl-1)
	mr := c.ov.Merge(n)
	if rnd.Intn(2) == 0 {
		w.pendMerge, w.pendN, w.pendGen = mr, n, w.structGen // apply later
		return
	}
	w.applyStruct("Merge", c.ov.WithMerged(mr, n), n)
}

func (w *world) save() {
	c := w.slots[w.cur]
	if w.pendSave != nil {
		bt := w.pendSave
		w.pendSave = nil
		if w.pendGen == w.structGen {
			w.applyStruct("Save", c.ov.WithSaved(bt), 0)
			return
		}
	}
	if w.pendMerge != nil {
		return
	}
	bt := c.ov.Save()
	if rnd.Intn(2) == 0 {
		w.pendSave, w.pendGen = bt, w.structGen
		return
	}
	w.applyStruct("Save", c.ov.WithSaved(bt), 0)
}

func (w *world) applyStruct(name string, ov *index.Overlay, n int) {
	s := w.alloc()
	w.slots[s] = &slot{ov: ov, live: cloneLive(w.slots[w.cur].live), used: true}
	if name == "Merge" {
		w.emit(name, "from", w.cur, "ov", s, "n", n)
	} else {
		w.emit(name, "from", w.cur, "ov", s)
	}
	w.cur = s
	w.curGen++
	w.structGen++
	w.pendMerge, w.pendSave = nil, nil
	w.checkOv(s)
}

// checkOv: structural check of the layers the driver produced (keys in order, sizes);
// a failure here is a harness error, not a verdict. (Overlay.Check is not usable: it
// ignores the btree, so a delete of a stored key looks like "delete of non-existent key".)
func (w *world) checkOv(s int) {
	defer func() {
		if e := recover(); e != nil {
			w.tr.Close()
			vh.Fatal("ixbuf.Check failed on a driver-built overlay: %v", e)
		}
	}()
	if w.u.keys[1] == "" {
		return // ixbuf.Check cannot cope with the empty key (it reports a duplicate)
	}
	_, layers, mut := w.slots[s].ov.VerifParts()
	for _, l := range layers {
		l.Check()
	}
	if mut != nil {
		mut.Check()
	}
}

func (w *world) lookup() {
	s := w.anySlot()
	k := 1 + rnd.Intn(w.u.K())
	off := w.slots[s].ov.Lookup(w.u.keys[k])
	w.emit("Lookup", "ov", s, "k", k, "off", int(off))
}

func (w *world) anySlot() int {
	var c []int
	for i := 1; i <= nslot; i++ {
		if w.slots[i].used {
			c = append(c, i)
		}
	}
	return c[rnd.Intn(len(c))]
}

//-------------------------------------------------------------------
// iterators

func (w *world) newIter() {
	id := 1 + rnd.Intn(nit)
	it := &iter{id: id}
	r := rnd.Intn(12)
	if r >= 6 && r < 8 {
		// SimpleIter: only when the overlay has nothing but the btree (try all slots)
		r = 0
		for _, s0 := range rnd.Perm(nslot) {
			s := s0 + 1
			if !w.slots[s].used {
				continue
			}
			t := &stubTran{w: w, view: s}
			si := index.NewSimpleIter(t, w.slots[s].ov)
			if si == nil || reflect.ValueOf(si).IsNil() {
				continue
			}
			it.kind, it.si, it.tran, it.view = "simple", si, t, s
			w.emit("NewIter", "it", id, "kind", "simple", "ov", s, "li", 0)
			r = -1
			break
		}
	}
	switch {
	case r < 0:
	case r < 6:
		it.kind = "over"
		it.oi = index.NewOverIter("tbl", 0)
		it.view = w.pickView()
		it.tran = &stubTran{w: w}
		w.emit("NewIter", "it", id, "kind", "over", "ov", it.view, "li", 0)
	case r < 10:
		s := w.anySlot()
		it.kind, it.li = "bt", w.slots[s].ov.BtreeIter()
		w.emit("NewIter", "it", id, "kind", "bt", "ov", s, "li", 0)
	case r < 11:
		s := w.anySlot()
		_, layers, _ := w.slots[s].ov.VerifParts()
		j := 1 + rnd.Intn(len(layers))
		it.kind, it.li = "layer", layers[j-1].Iterator()
		w.emit("NewIter", "it", id, "kind", "layer", "ov", s, "li", j)
	default:
		j := w.buildIb()
		it.kind, it.li = "ib", w.ibs[j].Iterator()
		w.emit("NewIter", "it", id, "kind", "ib", "ov", 1, "li", j)
	}
	w.iters[id] = it
	if rnd.Intn(2) == 0 {
		w.setRange(it)
	}
}

// buildIb builds a standalone ixbuf, directly or by ixbuf.Merge of the other ones
// (built as consecutive layers: every key's entries form a valid change sequence),
// and returns its id
func (w *world) buildIb() int {
	u := w.u
	j := 1 + rnd.Intn(nib)
	present := map[int]int{} // 0 unknown, 1 present, 2 absent
	mk := func(id int) {
		ib := &ixbuf.T{}
		w.emit("IbNew", "ib", id)
		n := rnd.Intn(u.K() + 1)
		if rnd.Intn(3) == 0 {
			n = rnd.Intn(2*u.K() + 1)
		}
		for i := 0; i < n; i++ {
			k := 1 + rnd.Intn(u.K())
			off := w.off()
			var op string
			switch present[k] {
			case 0:
				op = []string{"add", "upd", "del"}[rnd.Intn(3)]
			case 1:
				op = []string{"upd", "del"}[rnd.Intn(2)]
			case 2:
				op = "add"
			}
			switch op {
			case "add":
				ib.Insert(u.keys[k], off)
			case "upd":
				ib.Update(u.keys[k], off)
			case "del":
				ib.Delete(u.keys[k], off)
			}
			w.emit("IbPut", "ib", id, "k", k, "op", op, "off", int(off))
			if op == "del" {
				present[k] = 2
			} else {
				present[k] = 1
			}
		}
		w.ibs[id] = ib
	}
	if rnd.Intn(3) > 0 {
		mk(j)
		return j
	}
	var from []int
	var ins []*ixbuf.T
	for id := 1; id <= nib; id++ {
		if id != j && (len(from) < 2 || rnd.Intn(2) == 0) {
			mk(id)
			from = append(from, id)
			ins = append(ins, w.ibs[id])
		}
	}
	w.ibs[j] = ixbuf.Merge(ins...)
	w.emit("IbMerge", "ib", j, "from", from)
	return j
}

func (w *world) pickView() int {
	r := rnd.Intn(10)
	switch {
	case r < 5 && len(w.txs) > 0:
		return w.txs[rnd.Intn(len(w.txs))]
	case r < 9:
		return w.cur
	}
	return w.anySlot()
}

func (w *world) setRange(it *iter) {
	u := w.u
	K := u.K()
	apply := func(f func(x index.IndexIter), g func(x iface.Iter)) {
		switch it.kind {
		case "over":
			f(it.oi)
		case "simple":
			f(it.si)
		default:
			g(it.li)
		}
	}
	if rnd.Intn(5) < 2 {
		// skip-scan: prefix range and suffix range
		porg, pend := rnd.Intn(u.np+1), 1+rnd.Intn(u.np+1)
		if rnd.Intn(3) == 0 {
			porg, pend = 0, u.np+1
		}
		sorg, send := rnd.Intn(u.ns+1), 1+rnd.Intn(u.ns+1)
		if rnd.Intn(4) == 0 {
			send = u.ns + 1
		}
		if u.preBound(pend) == ixkey.Min {
			// the degenerate empty prefix range ["", "") is not used: with an empty first
			// prefix the backward skip-scan does not treat it as empty (the initial
			// skipGroup "" collides with the empty prefix; only the forward direction
			// handles that), see the agent report
			pend++
		}
		pr := iface.Range{Org: u.preBound(porg), End: u.preBound(pend)}
		sr := iface.Range{Org: u.sufBound(sorg), End: u.sufBound(send)}
		apply(func(x index.IndexIter) { x.SkipScan(pr, sr, u.skipStart) },
			func(x iface.Iter) { x.SkipScan(pr, sr, u.skipStart) })
		it.skip = true
		it.sk = [4]int{rankIn(u.pre, pr.Org), rankIn(u.pre, pr.End), rankIn(u.suf, sr.Org), rankIn(u.suf, sr.End)}
		w.emit("Skip", "it", it.id, "porg", it.sk[0], "pend", it.sk[1], "sorg", it.sk[2], "send", it.sk[3])
		return
	}
	var rg iface.Range
	switch rnd.Intn(6) {
	case 0:
		rg = iface.All
	case 1: // one prefix group, as the query code does: [prefix, prefix Sep Max)
		i := 1 + rnd.Intn(u.np)
		rg = iface.Range{Org: u.pre[i], End: u.pre[i] + ixkey.Sep + ixkey.Max}
	default:
		a, b := rnd.Intn(K+2), rnd.Intn(K+2)
		if a > b && rnd.Intn(4) > 0 {
			a, b = b, a
		}
		rg = iface.Range{Org: u.bound(a), End: u.bound(b)}
	}
	apply(func(x index.IndexIter) { x.Range(rg) }, func(x iface.Iter) { x.Range(rg) })
	it.skip = false
	w.emit("Range", "it", it.id, "org", u.rankOf(rg.Org), "end", u.rankOf(rg.End))
}

func (w *world) atEof(it *iter) bool {
	switch it.kind {
	case "over":
		return it.oi.Eof()
	case "simple":
		return it.si.Eof()
	}
	return it.li.Eof()
}

func (w *world) rewind(it *iter) {
	switch it.kind {
	case "over":
		it.oi.Rewind()
	case "simple":
		it.si.Rewind()
	default:
		it.li.Rewind()
	}
	w.emit("Rewind", "it", it.id)
}

// hazard: the OverIter would be given the very object it saw last although a commit
// changed that object in place (bt and layers replaced): finding F17
func (w *world) hazard(it *iter, s int) bool {
	sl := w.slots[s]
	return it.lastObj != nil && sl.ov == it.lastObj && sl.inplace != it.lastGen
}

func (w *world) step(it *iter) {
	u := w.u
	op := "next"
	if rnd.Intn(100) < 35 {
		op = "prev"
	}
	switch it.kind {
	case "over", "simple":
		var x index.IndexIter = it.si
		if it.kind == "over" {
			x = it.oi
			if rnd.Intn(12) == 0 || it.skip && rnd.Intn(6) == 0 {
				it.view = w.pickView() // cursor style: another transaction
			}
			if !w.slots[it.view].used {
				it.view = w.cur
			}
			if w.hazard(it, it.view) {
				if !w.stale {
					// give it a different object first (any), which makes it re-seek
					for _, s := range rnd.Perm(nslot) {
						if w.slots[s+1].used && w.slots[s+1].ov != it.lastObj {
							it.view = s + 1
							break
						}
					}
					if w.hazard(it, it.view) {
						return
					}
				}
			}
			it.tran.view = it.view
			it.lastObj, it.lastGen = w.slots[it.view].ov, w.slots[it.view].inplace
		}
		it.tran.reads = [][2]int{}
		st, k, off := "panic", 0, 0
		func() {
			defer func() {
				if e := recover(); e != nil {
					st = "panic"
					fmt.Fprintln(os.Stderr, "iterator panic:", e)
				}
			}()
			if op == "next" {
				x.Next(it.tran)
			} else {
				x.Prev(it.tran)
			}
			switch {
			case x.Eof():
				st = "eof"
			case x.HasCur():
				key, o := x.Cur()
				if o != x.CurOff() {
					o = 0
				}
				st, k, off = "within", u.keyRank(key), int(o)
			default:
				st = "rewound"
			}
		}()
		w.emit("Step", "it", it.id, "op", op, "ov", it.view, "st", st, "k", k, "off", off, "reads", it.tran.reads)
	default:
		x := 0
		if rnd.Intn(5) == 0 {
			op = "seek"
			x = 1 + rnd.Intn(u.K())
			if it.skip {
				// in skip-scan mode only keys inside the prefix and suffix ranges are sought
				// (what OverIter does: it seeks its current key); for other keys the two
				// implementations do not promise the same position
				var vis []int
				for k := 1; k <= u.K(); k++ {
					p, sf := (k-1)/u.ns+1, (k-1)%u.ns+1
					if it.sk[0] <= p && p < it.sk[1] && it.sk[2] <= sf && sf < it.sk[3] {
						vis = append(vis, k)
					}
				}
				if len(vis) == 0 {
					op = "next"
				} else {
					x = vis[rnd.Intn(len(vis))]
				}
			}
		}
		st, k, opn, off := "panic", 0, "none", 0
		func() {
			defer func() {
				if e := recover(); e != nil {
					st = "panic"
					fmt.Fprintln(os.Stderr, "iterator panic:", e)
				}
			}()
			switch op {
			case "next":
				it.li.Next()
			case "prev":
				it.li.Prev()
			case "seek":
				it.li.Seek(u.keys[x])
			}
			switch {
			case it.li.Eof():
				st = "eof"
			case it.li.HasCur():
				key, o := it.li.Cur()
				st, k = "in", u.keyRank(key)
				switch {
				case o&ixbuf.Delete != 0:
					opn = "del"
				case o&ixbuf.Update != 0:
					opn = "upd"
				default:
					opn = "add"
				}
				off = int(o & ixbuf.Mask)
				if it.li.Key() != key || it.li.Offset() != o {
					k = -2
				}
			default:
				st = "rew"
			}
		}()
		w.emit("LStep", "it", it.id, "op", op, "x", x, "st", st, "k", k, "opn", opn, "off", off)
	}
	w.nsteps++
	w.byKind[it.kind]++
	if it.skip {
		w.byKind["skipscan"]++
	}
}

//-------------------------------------------------------------------

func (w *world) run(nops int) {
	for i := 0; i < nops; i++ {
		r := rnd.Intn(100)
		var live []*iter
		for _, it := range w.iters[1:] {
			if it != nil {
				live = append(live, it)
			}
		}
		switch {
		case r < 58:
			if len(live) == 0 {
				w.newIter()
			} else {
				it := live[rnd.Intn(len(live))]
				// runs of steps of the same iterator make the fast path and direction changes likely
				for n := 1 + rnd.Intn(4); n > 0; n-- {
					if w.atEof(it) {
						switch rnd.Intn(4) {
						case 0, 1:
							w.rewind(it)
						case 2:
							w.setRange(it)
						}
					}
					w.step(it)
				}
			}
		case r < 64:
			if len(live) > 0 {
				it := live[rnd.Intn(len(live))]
				if rnd.Intn(2) == 0 {
					w.rewind(it)
				} else {
					w.setRange(it)
				}
			}
		case r < 68:
			w.newIter()
		case r < 84:
			if len(w.txs) == 0 {
				w.startTx()
			}
			if len(w.txs) > 0 {
				t := w.txs[rnd.Intn(len(w.txs))]
				n := 1
				if rnd.Intn(4) == 0 {
					n = 2 + rnd.Intn(6) // a burst: several keys of a group end up in one layer
				}
				for ; n > 0; n-- {
					w.txOp(t)
				}
			}
		case r < 87:
			w.startTx()
		case r < 91:
			if len(w.txs) > 0 {
				i := rnd.Intn(len(w.txs))
				if rnd.Intn(5) == 0 {
					w.abortTx(i)
				} else {
					w.commitTx(i)
				}
			}
		case r < 94:
			w.merge()
		case r < 97:
			w.save()
		default:
			w.lookup()
		}
	}
	w.nops += nops
}

// staleScenario: a cursor's iterator is used by transaction A after A wrote, another
// transaction commits, A commits (UpdateWith onto a state that moved on), and the
// iterator is continued on A's overlay object
func (w *world) staleScenario() {
	w.startTx()
	a := w.txs[0]
	for i := 0; i < 1+rnd.Intn(3); i++ {
		w.txOp(a)
	}
	it := &iter{id: 1, kind: "over", oi: index.NewOverIter("tbl", 0), view: a, tran: &stubTran{w: w}}
	w.iters[1] = it
	w.emit("NewIter", "it", 1, "kind", "over", "ov", a, "li", 0)
	if rnd.Intn(3) == 0 {
		w.setRange(it)
	}
	for i := 0; i < 1+rnd.Intn(3); i++ {
		it.view = a
		w.stepNoSwitch(it)
	}
	w.startTx()
	if len(w.txs) < 2 {
		return
	}
	b := w.txs[1]
	for i := 0; i < 1+rnd.Intn(4); i++ {
		w.txOp(b)
	}
	w.commitTx(1)
	w.commitTx(0) // a, onto the state that now contains b's layer
	for i := 0; i < 3+rnd.Intn(6); i++ {
		it.view = a
		w.stepNoSwitch(it)
	}
	w.run(20)
}

func (w *world) stepNoSwitch(it *iter) {
	// like step but without the random change of view
	save := rnd
	defer func() { rnd = save }()
	for {
		v := it.view
		w.step(it)
		if it.view == v {
			return
		}
		it.view = v
		return
	}
}

func main() {
	if len(os.Args) < 4 {
		vh.Fatal("usage: overlay <outdir> <nscenarios> <ops per scenario>")
	}
	outdir := os.Args[1]
	nscen, _ := strconv.Atoi(os.Args[2])
	nops, _ := strconv.Atoi(os.Args[3])
	rnd = rand.New(rand.NewSource(vh.Seed()))
	defer btree.SetSplit(100)
	// main traces, in files of at most perFile scenarios (TLC reads a whole file at once)
	const perFile = 250
	nfiles, events, nsteps, totops := 0, 0, 0, 0
	fams := map[int]int{}
	kinds := map[string]int{}
	var tr *vh.Trace
	for s := 0; s < nscen; s++ {
		if s%perFile == 0 {
			if tr != nil {
				events += tr.N
				tr.Close()
			}
			nfiles++
			tr = vh.Create(filepath.Join(outdir, fmt.Sprintf("overlay-%d.ndjson", nfiles)))
		} else {
			tr.Reset()
		}
		np, ns := 2+rnd.Intn(2), 2+rnd.Intn(3)
		switch {
		case s%5 == 4:
			np, ns = 4+rnd.Intn(3), 5+rnd.Intn(4) // enough keys for multi-chunk ixbufs
		case vh.Thorough() && s%50 == 7:
			np, ns = 8, 10
		}
		w := newWorld(tr, np, ns, false)
		n := nops
		if w.u.K() > 16 {
			n = nops * 2
		}
		w.run(n)
		nsteps += w.nsteps
		totops += w.nops
		fams[w.u.fam]++
		for k, v := range w.byKind {
			kinds[k] += v
		}
	}
	events += tr.N
	tr.Close()
	ts := vh.Create(filepath.Join(outdir, "stale.ndjson"))
	nstale := nscen / 4
	if nstale < 5 {
		nstale = 5
	}
	if nstale > 100 {
		nstale = 100
	}
	sst := 0
	for s := 0; s < nstale; s++ {
		if s > 0 {
			ts.Reset()
		}
		w := newWorld(ts, 2+rnd.Intn(2), 2+rnd.Intn(3), true)
		w.staleScenario()
		sst += w.nsteps
	}
	ts.Close()
	vh.Summary("scenarios", nscen, "files", nfiles, "events", events, "iterator_steps", nsteps, "ops", totops,
		"stale_scenarios", nstale, "stale_events", ts.N, "stale_steps", sst,
		"fam_plain", fams[0], "fam_nasty", fams[1], "fam_multi", fams[2], "fam_long", fams[3],
		"steps_over", kinds["over"], "steps_simple", kinds["simple"], "steps_bt", kinds["bt"],
		"steps_layer", kinds["layer"], "steps_ib", kinds["ib"], "steps_skipscan", kinds["skipscan"])
}
