// Driver for C17: runs the REAL util/queue.PriorityQueue with concurrent producers
// and one consumer, recording the verif hook events (emitted under the queue lock)
// plus Send/Recv events, as an ndjson trace for TracePQueue.tla.
package main

import (
	"math/rand"
	"os"
	"strconv"
	"sync"
	"sync/atomic"
	"time"

	"github.com/apmckinlay/gsuneido/util/queue"

	"verifharness/vh"
)

type msg struct{ pri, tran, id int }

func main() {
	out := os.Args[1]
	nscen, _ := strconv.Atoi(os.Args[2])
	rnd := rand.New(rand.NewSource(vh.Seed()))
	tr := vh.Create(out)
	defer tr.Close()
	var cur atomic.Pointer[queue.PriorityQueue]
	vh.SetSink(func(seq int64, ev string, kv []any) {
		if ev != "PQPut" && ev != "PQGet" {
			return
		}
		e := vh.E(ev).AddKV(kv)
		if e.Get("q") != cur.Load() {
			return
		}
		tr.Emit(vh.E(ev, "pri", e.Get("pri"), "tran", e.Get("tran"), "val", e.Get("val"), "len", e.Get("len")))
	})
	total, stalls := 0, 0
	for s := 0; s < nscen; s++ {
		if s > 0 {
			tr.Reset()
		}
		scripts := genScripts(rnd, s)
		mode := rnd.Intn(3)
		seed := rnd.Int63()
		n, ok := scenario(tr, &cur, scripts, mode, seed)
		if !ok {
			// a stall only counts if it reproduces (DESIGN 2.5)
			tr.Reset()
			n, ok = scenario(tr, &cur, scripts, mode, seed)
			if !ok {
				stalls++
				tr.Emit(vh.E("Stall", "nsent", n))
				break
			}
		}
		total += n
	}
	vh.Summary("scenarios", nscen, "messages", total, "events", tr.N, "stalls", stalls)
}

func genScripts(rnd *rand.Rand, s int) [][]msg {
	np := 1 + rnd.Intn(5)
	id := 0
	scripts := make([][]msg, np)
	for p := range scripts {
		nm := 1 + rnd.Intn(12)
		if s%7 == 0 {
			nm = 20 + rnd.Intn(20)
		}
		ntr := 1 + rnd.Intn(3)
		for i := 0; i < nm; i++ {
			id++
			tran := (p+1)*10 + rnd.Intn(ntr)
			if rnd.Intn(5) == 0 {
				tran = 0 // shared (the code uses tran 0 for administrative messages)
			}
			scripts[p] = append(scripts[p], msg{pri: rnd.Intn(4), tran: tran, id: id})
		}
	}
	return scripts
}

// scenario returns the number of messages and whether it completed
func scenario(tr *vh.Trace, cur *atomic.Pointer[queue.PriorityQueue], scripts [][]msg, mode int, seed int64) (int, bool) {
	pq := queue.NewPriorityQueue()
	cur.Store(pq)
	nsent := 0
	for _, sc := range scripts {
		nsent += len(sc)
	}
	var progress atomic.Int64
	var wg sync.WaitGroup
	for p, sc := range scripts {
		wg.Add(1)
		go func(p int, sc []msg) {
			defer wg.Done()
			r := rand.New(rand.NewSource(seed + int64(p)))
			for _, m := range sc {
				if mode == 1 && r.Intn(4) == 0 {
					time.Sleep(time.Duration(r.Intn(200)) * time.Microsecond)
				}
				tr.Emit(vh.E("Send", "id", m.id, "pri", m.pri, "tran", m.tran, "p", p))
				pq.Put(m.pri, m.tran, m.id)
				progress.Add(1)
			}
		}(p, sc)
	}
	done := make(chan struct{})
	go func() {
		r := rand.New(rand.NewSource(seed - 1))
		if mode == 2 {
			// let the producers fill the queue first so that Get has to choose
			time.Sleep(2 * time.Millisecond)
		}
		for i := 0; i < nsent; i++ {
			if mode != 0 && r.Intn(3) == 0 {
				time.Sleep(time.Duration(r.Intn(300)) * time.Microsecond)
			}
			v := pq.Get()
			tr.Emit(vh.E("Recv", "id", v))
			progress.Add(1)
		}
		wg.Wait()
		close(done)
	}()
	last := int64(-1)
	for {
		select {
		case <-done:
			tr.Emit(vh.E("Done", "nsent", nsent))
			return nsent, true
		case <-time.After(10 * time.Second):
			if p := progress.Load(); p == last {
				return nsent, false
			} else {
				last = p
			}
		}
	}
}
