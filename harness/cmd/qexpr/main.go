// Driver for C25: query expressions evaluate like language expressions.
// For generated where/extend expressions over the fields a, b, c, d of generated rows it
// records what the REAL code answers on each path:
//
//	val   compile/ast Expr.Eval on the row's values (query engine, value evaluation)
//	raw   the same expression after CanEvalRaw: evaluation on the packed (stored) fields
//	fn    function (a, b, c, d) { return <expr> } compiled by the language compiler and
//	      run by the interpreter (the language semantics)
//
// and, on a real table in a heap database through dbms/query (parse + optimize + execute):
//
//	where   t where <expr>            -> keys of the rows returned (or the exception)
//	extend  t extend z = <expr>       -> z per row (or the exception)
//
// with the column a indexed, so that index ranges, raw filters and value filters all occur.
// spec/trace/TraceQExpr.tla compares all of them with Values.tla Eval.
//
// usage: qexpr <trace.ndjson>
package main

import (
	"fmt"
	"math/rand"
	"os"
	"strings"
	"time"

	_ "github.com/apmckinlay/gsuneido/builtin"
	"github.com/apmckinlay/gsuneido/compile"
	"github.com/apmckinlay/gsuneido/compile/ast"
	. "github.com/apmckinlay/gsuneido/core"
	"github.com/apmckinlay/gsuneido/db19"
	"github.com/apmckinlay/gsuneido/db19/stor"
	qry "github.com/apmckinlay/gsuneido/dbms/query"

	"verifharness/aval"
	"verifharness/vh"
)

// ---------------------------------------------------------------- expressions (as in cmd/fold)

type expr struct {
	op string
	v  int
	a  []*expr
}

type opinfo struct {
	name string
	tok  string
	prec int
}

// precedences as in compile/expression.go
var unary = []opinfo{{"neg", "-", 15}, {"pos", "+", 15}, {"not", "not ", 15}, {"bitnot", "~", 15}}
var binary = []opinfo{
	{"or", " or ", 4}, {"and", " and ", 5},
	{"bitor", " | ", 7}, {"bitxor", " ^ ", 8}, {"bitand", " & ", 9},
	{"is", " is ", 10}, {"isnt", " isnt ", 10},
	{"lt", " < ", 11}, {"lte", " <= ", 11}, {"gt", " > ", 11}, {"gte", " >= ", 11},
	{"lshift", " << ", 12}, {"rshift", " >> ", 12},
	{"add", " + ", 13}, {"sub", " - ", 13}, {"cat", " $ ", 13},
	{"mul", " * ", 14}, {"div", " / ", 14}, {"mod", " % ", 14},
}
var cmpOps = []string{"is", "isnt", "lt", "lte", "gt", "gte"}
var calls = []string{"isnum", "isstr", "isdate"}
var callName = map[string]string{"isnum": "Number?", "isstr": "String?", "isdate": "Date?"}
var opByName = map[string]opinfo{}
var isUnary = map[string]bool{}

func init() {
	for _, o := range unary {
		opByName[o.name] = o
		isUnary[o.name] = true
	}
	for _, o := range binary {
		opByName[o.name] = o
	}
}

func leaf(i int) *expr { return &expr{op: "x", v: i} }

func (e *expr) render(leafText func(int) string) (string, int) {
	switch e.op {
	case "x":
		return leafText(e.v), 20
	case "if":
		c, _ := e.a[0].render(leafText)
		t, _ := e.a[1].render(leafText)
		f, _ := e.a[2].render(leafText)
		return "(" + c + ") ? (" + t + ") : (" + f + ")", 1
	case "in":
		x, p := e.a[0].render(leafText)
		if p <= 6 {
			x = "(" + x + ")"
		}
		var sb strings.Builder
		for i, y := range e.a[1:] {
			if i > 0 {
				sb.WriteString(", ")
			}
			s, _ := y.render(leafText)
			sb.WriteString(s)
		}
		return x + " in (" + sb.String() + ")", 6
	case "isnum", "isstr", "isdate":
		s, _ := e.a[0].render(leafText)
		return callName[e.op] + "(" + s + ")", 20
	}
	o := opByName[e.op]
	if isUnary[e.op] {
		s, p := e.a[0].render(leafText)
		if p < 16 || strings.HasPrefix(s, "-") || strings.HasPrefix(s, "+") {
			s = "(" + s + ")"
		}
		return o.tok + s, 15
	}
	l, lp := e.a[0].render(leafText)
	r, rp := e.a[1].render(leafText)
	if lp < o.prec {
		l = "(" + l + ")"
	}
	if rp <= o.prec {
		r = "(" + r + ")"
	}
	return l + o.tok + r, o.prec
}

func (e *expr) json(sb *strings.Builder) {
	if e.op == "x" {
		fmt.Fprintf(sb, `{"op":"x","i":%d}`, e.v+1)
		return
	}
	fmt.Fprintf(sb, `{"op":%q,"a":[`, e.op)
	for i, x := range e.a {
		if i > 0 {
			sb.WriteByte(',')
		}
		x.json(sb)
	}
	sb.WriteString("]}")
}

type rawJSON string

func (r rawJSON) MarshalJSON() ([]byte, error) { return []byte(r), nil }

func (e *expr) JSON() rawJSON {
	var sb strings.Builder
	e.json(&sb)
	return rawJSON(sb.String())
}

// ---------------------------------------------------------------- results

type result struct {
	K string // v value, x exception, n not applicable
	V *aval.V
	C string
	M string
}

type resJSON struct{ r result }

func (r resJSON) MarshalJSON() ([]byte, error) {
	v := r.r.V
	if v == nil {
		v = aval.Bool(false)
	}
	return []byte(fmt.Sprintf(`{"k":%q,"v":%s,"c":%q}`, r.r.K, v.String(), r.r.C)), nil
}

func class(msg string) string {
	switch {
	case strings.Contains(msg, "cannot do math on"):
		return "static"
	case strings.Contains(msg, "can't convert"), strings.Contains(msg, "require"):
		return "type"
	case strings.Contains(msg, "divide by zero"), strings.Contains(msg, "negative shift"):
		return "arith"
	}
	return "other"
}

func errString(e any) string {
	if se, ok := e.(*SuExcept); ok {
		return string(se.SuStr)
	}
	return fmt.Sprint(e)
}

func valResult(v Value) result {
	if v == nil {
		return result{K: "v", C: "nil"}
	}
	if av, ok := aval.Of(v); ok {
		return result{K: "v", V: av}
	}
	return result{K: "v", C: "opaque:" + v.Type().String()}
}

func catch(f func() Value) (res result) {
	defer func() {
		if e := recover(); e != nil {
			m := errString(e)
			res = result{K: "x", C: class(m), M: m}
		}
	}()
	return valResult(f())
}

// ---------------------------------------------------------------- constants / rows

type konst struct {
	av  *aval.V
	lit string
	val Value
}

func K(av *aval.V) konst {
	lit := av.Lit()
	v := compile.Constant(lit)
	if back, ok := aval.Of(v); !ok || (av.T != "obj" && back.String() != av.String()) {
		vh.Fatal("literal %s does not denote %s but %v", lit, av, back)
	}
	return konst{av: av, lit: lit, val: v}
}

var fields = []string{"a", "b", "c", "d"}

var th *Thread

// parseQueryExpr parses an expression the way a where / extend does
func parseQueryExpr(src string) (e ast.Expr, err string) {
	defer func() {
		if r := recover(); r != nil {
			e, err = nil, errString(r)
		}
	}()
	p := compile.QueryParser(src)
	p.InitFuncInfo()
	p.EqToIs = true
	e = p.Expression()
	if p.Token.String() != "Eof" {
		panic("did not parse all input: " + src)
	}
	return e, ""
}

func main() {
	out := os.Args[1]
	th = NewThread(nil)
	rnd := rand.New(rand.NewSource(vh.Seed()))
	tr := vh.Create(out)
	defer tr.Close()

	var pool []konst
	for _, av := range []*aval.V{
		aval.Bool(true), aval.Bool(false),
		aval.Num("0"), aval.Num("1"), aval.Num("2"), aval.Num("3"), aval.Num("-1"), aval.Num("10"), aval.Num("255"),
		aval.Num(".5"), aval.Num("1.5"), aval.Num("-2.5"), aval.Num("100000"), aval.Num("1e20"),
		aval.Str(""), aval.Str("a"), aval.Str("abc"), aval.Str("1"), aval.Str("A"),
		aval.Date(20200101, 0, 0), aval.Date(20200101, 123000000, 0), aval.Date(19990101, 0, 0),
		aval.Obj(nil, nil), aval.Obj([]*aval.V{aval.Num("1"), aval.Num("2")}, nil),
		aval.Obj(nil, [][2]*aval.V{{aval.Str("a"), aval.Num("1")}}),
		// equal objects whose named members are written in different orders
		aval.Obj(nil, [][2]*aval.V{{aval.Str("a"), aval.Num("1")}, {aval.Str("b"), aval.Num("2")}}),
		aval.Obj(nil, [][2]*aval.V{{aval.Str("b"), aval.Num("2")}, {aval.Str("a"), aval.Num("1")}}),
		aval.Obj([]*aval.V{aval.Num("1")}, nil),
	} {
		pool = append(pool, K(av))
	}
	stats := map[string]int{}
	nrows := 10
	nsc := 1
	if vh.Thorough() {
		nsc = 4
	}
	debug := len(os.Args) > 3 && os.Args[2] == "-q"
	for sc := 0; sc < nsc; sc++ {
		if sc > 0 {
			tr.Reset()
		}
		scenario(tr, rnd, pool, nrows, stats, debug)
		if debug {
			return
		}
	}
	vh.Summary("expressions", stats["exprs"], "rows", nrows, "scenarios", nsc, "canraw", stats["canraw"],
		"where.v", stats["where.v"], "where.x", stats["where.x"], "extend.v", stats["extend.v"], "extend.x", stats["extend.x"],
		"unclassified", stats["unclassified"], "events", tr.N)
}

// scenario: one table of generated rows and a batch of generated expressions over it
func scenario(tr *vh.Trace, rnd *rand.Rand, pool []konst, nrows int, stats map[string]int, debug bool) {
	bools, nums, strs, dates := pool[0:2], pool[2:14], pool[14:19], pool[19:22]
	pickOf := func(ks []konst) konst { return ks[rnd.Intn(len(ks))] }
	pick := func() konst { return pool[rnd.Intn(len(pool))] }
	// ------------------------------------------------------------ rows and the table
	rows := make([][]konst, nrows)
	for i := range rows {
		r := make([]konst, 4)
		for j := range r {
			switch rnd.Intn(8) {
			case 0, 1, 2:
				r[j] = pickOf(nums)
			case 3, 4:
				r[j] = pickOf(strs)
			case 5:
				r[j] = pickOf(bools)
			case 6:
				r[j] = pickOf(dates)
			default:
				r[j] = pick()
			}
		}
		rows[i] = r
	}
	// the empty string in every column somewhere (the documented exception)
	rows[0][0], rows[1][1], rows[2][2] = pool[14], pool[14], pool[14]
	rows[3][3], rows[4][3] = pool[25], pool[26]
	// every column holds a value of every kind (negative number, date, string, boolean, "")
	for j := 0; j < 4; j++ {
		for k, sp := range []konst{pool[11] /* -2.5 */, pool[19+rnd.Intn(3)], pool[15+rnd.Intn(4)], pool[rnd.Intn(2)], pool[6] /* -1 */} {
			r := (3*j + 2*k + 5) % nrows
			if rows[r][j].lit != `""` && rows[r][j].av.T != "obj" {
				rows[r][j] = sp
			}
		}
	}

	st := stor.HeapStor(8192)
	db := db19.CreateDb(st)
	db19.StartConcur(db, 50*time.Millisecond)
	db19.MakeSuTran = func(ut *db19.UpdateTran) *SuTran { return NewSuTran(nil, true) }
	qry.MakeSuTran = func(qt qry.QueryTran) *SuTran { return nil }
	defer db.Close()
	qry.DoAdmin(db, "create t (k, a, b, c, d) key(k) index(a) index(b, c)", nil)
	for i, r := range rows {
		ut := db.NewUpdateTran()
		qry.DoAction(th, ut, fmt.Sprintf("insert { k: %d, a: %s, b: %s, c: %s, d: %s } into t",
			i+1, r[0].lit, r[1].lit, r[2].lit, r[3].lit))
		ut.Commit()
	}
	rowVals := make([][]*aval.V, nrows)
	for i, r := range rows {
		rowVals[i] = []*aval.V{r[0].av, r[1].av, r[2].av, r[3].av}
	}
	tr.Emit(vh.E("Rows", "rows", rowVals))

	if debug { // debugging aid: run given queries, print strategy and keys
		for _, q := range os.Args[3:] {
			func() {
				defer func() {
					if e := recover(); e != nil {
						fmt.Println(q, "=> EXCEPTION", errString(e))
					}
				}()
				tran := db.NewReadTran()
				pq := qry.ParseQuery(q, tran, nil)
				pq, _, _ = qry.Setup(pq, qry.ReadMode, tran)
				h := pq.Header()
				var ks []int
				for row := pq.Get(th, Next); row != nil; row = pq.Get(th, Next) {
					ks = append(ks, ToInt(row.GetVal(h, "k", th, nil)))
				}
				fmt.Println(q, "=>", ks, "\n     ", qry.Strategy(pq))
			}()
		}
		return
	}
	hdr := SimpleHeader(fields)

	// one test: expression e over leaves; leaf i is field col[i] (0..3) or a constant (col -1)
	test := func(e *expr, col []int, consts []konst) {
		leafText := func(i int) string {
			if col[i] >= 0 {
				return fields[col[i]]
			}
			return consts[i].lit
		}
		src, _ := e.render(leafText)
		cols := make([]int, len(col))
		cvals := make([]*aval.V, len(col))
		for i := range col {
			cols[i] = col[i] + 1 // 0 = constant
			cvals[i] = aval.Bool(false)
			if col[i] < 0 {
				cvals[i] = consts[i].av
			}
		}
		// language: function of the fields
		fnSrc := "function (a, b, c, d) {\nreturn " + src + "\n}"
		var fn Value
		fnErr := catch(func() Value { fn = compile.NamedConstant("", "f", fnSrc, nil); return True })
		if fnErr.K == "x" {
			fnErr.K = "ce"
		}
		// query engine: value evaluation and raw evaluation, row by row
		vals, raws, fns := make([]any, nrows), make([]any, nrows), make([]any, nrows)
		canRaw := false
		for ri, r := range rows {
			var rb RecordBuilder
			args := make([]Value, 4)
			for j := range r {
				rb.Add(r[j].val.(Packable))
				args[j] = r[j].val
			}
			ctx := &ast.RowContext{Th: th, Hdr: hdr, Row: []DbRec{{Record: rb.Build()}}}
			qe, perr := parseQueryExpr(src)
			if qe == nil {
				res := result{K: "ce", C: class(perr), M: perr}
				vals[ri], raws[ri] = resJSON{res}, resJSON{result{K: "n"}}
			} else {
				vals[ri] = resJSON{catch(func() Value { return qe.Eval(ctx) })}
				raws[ri] = resJSON{result{K: "n"}}
				can := false
				func() {
					defer func() { recover() }()
					can = qe.CanEvalRaw(fields)
				}()
				if can {
					canRaw = true
					raws[ri] = resJSON{catch(func() Value { return qe.Eval(ctx) })}
				}
			}
			if fn == nil {
				fns[ri] = resJSON{fnErr}
			} else {
				r := catch(func() Value { return th.PushCall(fn, nil, &ArgSpec{Nargs: 4}, args...) })
				fns[ri] = resJSON{r}
				th.Reset()
			}
		}
		// real queries
		runQuery := func(q string, get func(hdr *Header, row Row) any) (res []any, exc result) {
			defer func() {
				if e := recover(); e != nil {
					m := errString(e)
					res, exc = nil, result{K: "x", C: class(m), M: m}
				}
			}()
			tran := db.NewReadTran()
			pq := qry.ParseQuery(q, tran, nil)
			pq, _, _ = qry.Setup(pq, qry.ReadMode, tran)
			h := pq.Header()
			res = []any{}
			for row := pq.Get(th, Next); row != nil; row = pq.Get(th, Next) {
				res = append(res, get(h, row))
			}
			return res, result{K: "v"}
		}
		keys, wexc := runQuery("t where "+src, func(h *Header, row Row) any {
			return ToInt(row.GetVal(h, "k", th, nil))
		})
		if keys == nil {
			keys = []any{}
		}
		// the same restriction over other sources: an extended copy of the columns (not stored,
		// so never raw), renamed columns, and a second where on top of a first one
		alt := func(prefix string) string {
			s, _ := e.render(func(i int) string {
				if col[i] >= 0 {
					return prefix + fields[col[i]]
				}
				return consts[i].lit
			})
			return s
		}
		getK := func(h *Header, row Row) any { return ToInt(row.GetVal(h, "k", th, nil)) }
		var others []any
		for _, q := range []struct{ form, q string }{
			{"where-extend", "t extend xa = a, xb = b, xc = c, xd = d where " + alt("x")},
			{"where-rename", "t rename a to ra, b to rb, c to rc, d to rd where " + alt("r")},
			{"where-where", "t where k > 0 where " + src},
			{"where-sort", "t where " + src + " sort b"},
		} {
			ks, exc := runQuery(q.q, getK)
			if ks == nil {
				ks = []any{}
			}
			others = append(others, map[string]any{"form": q.form, "r": resJSON{exc}, "keys": ks, "msg": exc.M})
			if exc.C == "other" {
				stats["unclassified"]++
				fmt.Fprintf(os.Stderr, "unclassified query exception for %s: %s\n", q.q, exc.M)
			}
		}
		zs, xexc := runQuery("t extend z = "+src+" sort k", func(h *Header, row Row) any {
			return resJSON{catch(func() Value { return row.GetVal(h, "z", th, nil) })}
		})
		if zs == nil {
			zs = []any{}
		}
		tr.Emit(vh.E("QExpr", "src", src, "x", e.JSON(), "col", cols, "cv", cvals,
			"val", vals, "raw", raws, "fn", fns,
			"where", resJSON{wexc}, "keys", keys, "extend", resJSON{xexc}, "zs", zs, "others", others,
			"msg", []string{wexc.M, xexc.M}))
		stats["exprs"]++
		if canRaw {
			stats["canraw"]++
		}
		stats["where."+wexc.K]++
		stats["extend."+xexc.K]++
		for _, r := range []result{wexc, xexc} {
			if r.C == "other" {
				stats["unclassified"]++
				fmt.Fprintf(os.Stderr, "unclassified query exception for %s: %s\n", src, r.M)
			}
		}
	}

	// ------------------------------------------------------------ generation
	bin := func(op string, l, r *expr) *expr { return &expr{op: op, a: []*expr{l, r}} }
	un := func(op string, x *expr) *expr { return &expr{op: op, a: []*expr{x}} }
	nrand := 250
	if vh.Thorough() {
		nrand = 1500
	}
	// 1. field <cmp> constant, constant <cmp> field, field <cmp> field: every comparison
	//    operator, every column, constants of every type
	for _, op := range cmpOps {
		for c := 0; c < 4; c++ {
			for _, k := range pool {
				if !vh.Thorough() && rnd.Intn(100) >= 30 {
					continue
				}
				test(bin(op, leaf(0), leaf(1)), []int{c, -1}, []konst{{}, k})
				if rnd.Intn(3) == 0 {
					test(bin(op, leaf(0), leaf(1)), []int{-1, c}, []konst{k, {}})
				}
			}
			test(bin(op, leaf(0), leaf(1)), []int{c, (c + 1) % 4}, []konst{{}, {}})
		}
	}
	// 1b. type tests on every column, plain and negated
	for c := 0; c < 4; c++ {
		for _, f := range calls {
			test(un(f, leaf(0)), []int{c}, []konst{{}})
			test(un("not", un(f, leaf(0))), []int{c}, []konst{{}})
		}
	}
	// 2. ranges, in, logical combinations of comparisons, ternary, type tests, arithmetic in comparisons
	cmpLeaf := func(next *int, col *[]int, ks *[]konst) *expr {
		op := cmpOps[rnd.Intn(len(cmpOps))]
		c := rnd.Intn(4)
		var k konst
		switch rnd.Intn(6) {
		case 0:
			k = pick()
		case 1:
			k = pool[14] // ""
		default:
			k = rows[rnd.Intn(nrows)][c] // a value that occurs in the column
		}
		i := *next
		*next += 2
		*col = append(*col, c, -1)
		*ks = append(*ks, konst{}, k)
		if rnd.Intn(5) == 0 { // field against field
			(*col)[i+1] = rnd.Intn(4)
		}
		return bin(op, leaf(i), leaf(i+1))
	}
	for i := 0; i < nrand; i++ {
		next := 0
		var col []int
		var ks []konst
		var e *expr
		switch rnd.Intn(10) {
		case 9: // alternatives on the same column (index spans are merged)
			c := rnd.Intn(4)
			n := 2 + rnd.Intn(2)
			for j := 0; j < n; j++ {
				col = append(col, c, -1)
				k := rows[rnd.Intn(nrows)][c]
				if rnd.Intn(5) == 0 {
					k = pick()
				}
				ks = append(ks, konst{}, k)
				t := bin(cmpOps[rnd.Intn(len(cmpOps))], leaf(2*j), leaf(2*j+1))
				if e == nil {
					e = t
				} else {
					e = bin("or", e, t)
				}
			}
		case 0, 1: // a > x and a < y  (folded to a range)
			c := rnd.Intn(4)
			lo, hi := rows[rnd.Intn(nrows)][c], rows[rnd.Intn(nrows)][c]
			if rnd.Intn(4) == 0 {
				lo = pick()
			}
			col, ks = []int{c, -1, c, -1}, []konst{{}, lo, {}, hi}
			e = bin("and", bin([]string{"gt", "gte"}[rnd.Intn(2)], leaf(0), leaf(1)), bin([]string{"lt", "lte"}[rnd.Intn(2)], leaf(2), leaf(3)))
		case 2: // in
			c := rnd.Intn(4)
			col, ks = []int{c, -1, -1, -1}, []konst{{}, rows[rnd.Intn(nrows)][c], pick(), rows[rnd.Intn(nrows)][c]}
			e = &expr{op: "in", a: []*expr{leaf(0), leaf(1), leaf(2), leaf(3)}}
		case 3, 4: // and / or of comparisons
			l := cmpLeaf(&next, &col, &ks)
			r := cmpLeaf(&next, &col, &ks)
			e = bin([]string{"and", "or"}[rnd.Intn(2)], l, r)
			if rnd.Intn(3) == 0 {
				e = bin([]string{"and", "or"}[rnd.Intn(2)], e, cmpLeaf(&next, &col, &ks))
			}
			if rnd.Intn(4) == 0 {
				e = un("not", e)
			}
		case 5: // ternary
			c := cmpLeaf(&next, &col, &ks)
			t := cmpLeaf(&next, &col, &ks)
			f := cmpLeaf(&next, &col, &ks)
			e = &expr{op: "if", a: []*expr{c, t, f}}
		case 6: // type tests
			c := rnd.Intn(4)
			col, ks = []int{c}, []konst{{}}
			e = un(calls[rnd.Intn(3)], leaf(0))
			if rnd.Intn(2) == 0 {
				e = bin("and", e, cmpLeaf(&[]int{1}[0], &col, &ks))
			}
		case 7: // arithmetic / concatenation inside a comparison
			c := rnd.Intn(4)
			k1, k2 := pickOf(nums), pickOf(nums)
			op := []string{"add", "sub", "mul", "div", "mod", "bitand", "bitor", "cat"}[rnd.Intn(8)]
			if op == "cat" {
				k1 = pickOf(strs)
			}
			col, ks = []int{c, -1, -1}, []konst{{}, k1, k2}
			e = bin(cmpOps[rnd.Intn(len(cmpOps))], bin(op, leaf(0), leaf(1)), leaf(2))
		default: // arbitrary binary operator on field and constant
			o := binary[rnd.Intn(len(binary))]
			col, ks = []int{rnd.Intn(4), -1}, []konst{{}, pick()}
			e = bin(o.name, leaf(0), leaf(1))
			if rnd.Intn(2) == 0 {
				e = bin(o.name, leaf(1), leaf(0))
			}
		}
		test(e, col, ks)
	}
}
