package main

import (
	"math/rand"

	. "github.com/apmckinlay/gsuneido/core"
	qry "github.com/apmckinlay/gsuneido/dbms/query"

	"verifharness/vh"
)

// runC22: every query is executed under many configurations (physical schemas x setup
// variants x optimizer knobs x directions); every distinct outcome becomes one Query event
// that TraceRelational compares with Denote(ast, db).
func runC22(tr *vh.Trace, rnd *rand.Rand, nscen, nq int) {
	if nq == 0 {
		nq = 30
	}
	nschemas, nvariants := 3, 6
	if vh.Thorough() {
		nschemas, nvariants = 4, 10
	}
	nview := 0
	var nqueries, nexec, nskipped, nout, nerr, nrows int
	for s := 0; s < nscen; s++ {
		if s > 0 {
			tr.Reset()
		}
		sc := genScenario(rnd, 6)
		tr.Emit(dbEvent(sc))
		g := &Gen{rnd: rnd, sc: sc, nview: &nview}
		var qs []*Q
		musts := map[string][][]string{}
		wants := map[string][][]string{}
		for i := 0; i < nq; i++ {
			d := 1 + rnd.Intn(3)
			if rnd.Intn(10) == 0 {
				d = 4
			}
			q := g.genTop(d)
			if q.size() > 14 {
				i--
				continue
			}
			qs = append(qs, q)
			addWants(wants, q)
			q.needs(func(t string, k []string) {
				for _, k2 := range musts[t] {
					if sameSet(k, k2) {
						return
					}
				}
				musts[t] = append(musts[t], k)
			})
		}
		type res struct {
			first map[string]*Outcome
			count map[string]int
			conf  map[string]string
			order []string
		}
		results := make([]*res, len(qs))
		for i := range results {
			results[i] = &res{first: map[string]*Outcome{}, count: map[string]int{}, conf: map[string]string{}}
		}
		for c := 0; c < nschemas; c++ {
			d := buildDB(rnd, sc, musts, wants)
			for i, q := range qs {
				d.defineViews(q)
				text := q.text()
				for k := 0; k < nvariants; k++ {
					v := randVariant(rnd, q.Op == "sort")
					if k == 0 {
						v = variant{kind: "setup", mode: qry.ReadMode, dir: Next} // the plain production path
					}
					outs, skipped := d.exec(text, v, rnd)
					nexec++
					if skipped {
						nskipped++
						continue
					}
					for j := range outs {
						o := &outs[j]
						_, _, key := o.canon()
						r := results[i]
						if r.first[key] == nil {
							r.first[key] = o
							r.conf[key] = d.label + " | " + v.String()
							r.order = append(r.order, key)
						}
						r.count[key]++
					}
				}
			}
			d.close()
		}
		for i, q := range qs {
			nqueries++
			r := results[i]
			for _, key := range r.order {
				o := r.first[key]
				cols, rows, _ := o.canon()
				if rows == nil {
					rows = [][]Val{}
				}
				if cols == nil {
					cols = []string{}
				}
				nout++
				nrows += len(rows)
				if o.Err != "" {
					nerr++
				}
				tr.Emit(vh.E("Query", "text", q.text(), "views", viewDefs(q), "ast", q.json(), "cols", cols, "rows", rows,
					"err", o.Err, "nconf", r.count[key], "conf", r.conf[key], "plan", o.Plan))
			}
		}
	}
	vh.Summary("scenarios", nscen, "queries", nqueries, "executions", nexec, "skipped", nskipped,
		"outcomes", nout, "error_outcomes", nerr, "rows", nrows, "events", tr.N)
}

func viewDefs(q *Q) []string {
	var vs []*Q
	q.views(&vs)
	r := []string{}
	for _, v := range vs {
		r = append(r, v.Name+" = "+v.Def.text())
	}
	return r
}

func addWants(wants map[string][][]string, q *Q) {
	w := map[string][]string{}
	q.wants(w)
	for t, ix := range w {
		if len(wants[t]) < 2 {
			wants[t] = append(wants[t], ix)
		}
	}
}
