package main

import (
	"fmt"
	"math/rand"

	. "github.com/apmckinlay/gsuneido/core"
	qry "github.com/apmckinlay/gsuneido/dbms/query"

	"verifharness/vh"
)

// runC23: random Rewind / Get / Select / Lookup sequences on the optimised query, consistent
// with the Require it was set up with (require.go: ReqNone: Get; ReqOrder/ReqGroup: Get and
// Select; ReqUnique: Get and Lookup). Every call and result is logged.
//
// The forward sequence of the current selection is needed by the trace spec to follow a
// random walk; the driver learns it from the full forward scan that ends each phase and
// logs it as a Seq event BEFORE the events of the phase (a prophecy: the spec checks that it
// is the selected set in a legal order, and that every Get of the phase - including that
// final scan itself - agrees with it).
func runC23(tr *vh.Trace, rnd *rand.Rand, nscen, nq int) {
	if nq == 0 {
		nq = 12
	}
	nschemas := 2
	nview := 0
	var nopen, nget, nsel, nlook, nskip, nerr int
	uses := map[string]int{}
	for s := 0; s < nscen; s++ {
		if s > 0 {
			tr.Reset()
		}
		sc := genScenario(rnd, 6)
		tr.Emit(dbEvent(sc))
		g := &Gen{rnd: rnd, sc: sc, nview: &nview}
		var qs []*Q
		musts := map[string][][]string{}
		wants := map[string][][]string{}
		for i := 0; i < nq; i++ {
			q := g.gen(1 + rnd.Intn(3))
			if rnd.Intn(6) == 0 {
				q = g.sortOf(q)
			}
			if rnd.Intn(12) == 0 {
				q = g.fixedOrder()
			}
			if rnd.Intn(12) == 0 {
				// fixed values below an extend: Select values that conflict with them
				t := g.anyTable()
				q = g.extend(g.fixOn(t, t.cols[rnd.Intn(len(t.cols))]), 1+rnd.Intn(2), rnd.Intn(2) == 0)
			}
			if rnd.Intn(8) == 0 {
				q = g.diffSetOp()
			}
			addWants(wants, q)
			if q.size() > 12 {
				i--
				continue
			}
			qs = append(qs, q)
		}
		for c := 0; c < nschemas; c++ {
			d := buildDB(rnd, sc, musts, wants)
			for _, q := range qs {
				d.defineViews(q)
				v := randVariant(rnd, q.Op == "sort")
				if diffCols(q) {
					// sources with different columns: Lookup / Select with values for columns one
					// source lacks
					v.kind, v.mode = "req", qry.ReadMode
					v.use = []string{"unique", "order", "group"}[rnd.Intn(3)]
				} else if q.Op != "sort" && rnd.Intn(2) == 0 {
					// favour explicit requirements: they allow Select and Lookup
					v.kind = "req"
					v.use = []string{"order", "group", "unique"}[rnd.Intn(3)]
				}
				cs := &cursorSession{tr: tr, rnd: rnd, d: d, q: q, v: v}
				cs.run()
				if cs.skipped {
					nskip++
					continue
				}
				nopen++
				uses[cs.use]++
				nget += cs.nget
				nsel += cs.nsel
				nlook += cs.nlook
				if cs.failed {
					nerr++
				}
			}
			d.close()
		}
	}
	vh.Summary("scenarios", nscen, "opens", nopen, "gets", nget, "selects", nsel, "lookups", nlook,
		"skipped", nskip, "errors", nerr, "use_none", uses["none"], "use_order", uses["order"],
		"use_group", uses["group"], "use_unique", uses["unique"], "use_sort", uses["sort"], "events", tr.N)
}

type cursorSession struct {
	tr   *vh.Trace
	rnd  *rand.Rand
	d    *DB
	q    *Q
	v    variant
	qq   qry.Query
	hdr  *Header
	st   *SuTran
	use  string
	cols []string // requirement columns

	buf     []*vh.Ev
	full    [][]Val // the full result (phase 0), for choosing selection values
	skipped bool
	failed  bool
	nget    int
	nsel    int
	nlook   int
}

type selJSON struct {
	C string `json:"c"`
	V Val    `json:"v"`
}

func (cs *cursorSession) emit(e *vh.Ev) { cs.buf = append(cs.buf, e) }

func (cs *cursorSession) flush(seq [][]Val) {
	if seq != nil {
		cs.tr.Emit(vh.E("Seq", "rows", seq))
	}
	for _, e := range cs.buf {
		cs.tr.Emit(e)
	}
	cs.buf = nil
}

// guard runs f; a panic of the query layer becomes the error of event ev
func (cs *cursorSession) guard(ev *vh.Ev, f func()) (ok bool) {
	defer func() {
		if e := recover(); e != nil {
			cs.failed = true
			cs.emit(ev.Add("err", fmt.Sprint(e)))
			ok = false
		}
	}()
	f()
	return true
}

func (cs *cursorSession) run() {
	setKnobs(cs.v)
	defer resetKnobs()
	var tran qry.QueryTran
	if cs.v.mode == qry.UpdateMode {
		ut := cs.d.db.NewUpdateTran()
		defer ut.Abort()
		tran = ut
	} else {
		tran = cs.d.db.NewReadTran()
	}
	text := cs.q.text()
	open := vh.E("Open", "text", text, "views", viewDefs(cs.q), "ast", cs.q.json())
	var req reqInfo
	ok := func() (ok bool) {
		defer func() {
			if e := recover(); e != nil {
				cs.failed = true
				cs.tr.Emit(open.Add("use", "none").Add("ocols", []string{}).Add("rev", false).
					Add("cols", []string{}).Add("keys", [][]string{}).Add("fixed", []any{}).
					Add("err", fmt.Sprint(e)).Add("conf", cs.d.label+" | "+cs.v.String()).Add("plan", ""))
				ok = false
			}
		}()
		cs.qq, req, cs.skipped = cs.d.prepare(text, cs.v, tran, cs.rnd)
		return true
	}()
	if !ok || cs.skipped {
		return
	}
	cs.hdr = cs.qq.Header()
	cs.st = qry.MakeSuTran(tran)
	cs.use, cs.cols = req.use, req.cols
	rev := false
	if cs.q.Op == "sort" {
		cs.use, cs.cols, rev = "sort", cs.q.Cols, cs.q.Rev
	}
	if cs.cols == nil {
		cs.cols = []string{}
	}
	keys := cs.qq.Keys()
	if keys == nil {
		keys = [][]string{}
	}
	for i := range keys {
		if keys[i] == nil {
			keys[i] = []string{}
		}
	}
	fixed := []any{}
	fcols, fvals := qry.VerifFixed(cs.qq)
	for i, c := range fcols {
		vs := []Val{}
		okv := true
		for _, p := range fvals[i] {
			v, ok := toVal(Unpack(p))
			if !ok {
				okv = false
			}
			vs = append(vs, v)
		}
		if okv {
			fixed = append(fixed, (&vh.Ev{}).Add("c", c).Add("vs", vs))
		}
	}
	hcols := cs.hdr.Columns
	if hcols == nil {
		hcols = []string{}
	}
	cs.tr.Emit(open.Add("use", cs.use).Add("ocols", cs.cols).Add("rev", rev).Add("cols", hcols).
		Add("keys", keys).Add("fixed", fixed).Add("err", "").
		Add("conf", cs.d.label+" | "+cs.v.String()).Add("plan", qry.String(cs.qq)))

	// phase 0: no selection
	if !cs.phase(true) {
		return
	}
	switch cs.use {
	case "order", "group":
		n := 2 + cs.rnd.Intn(3)
		for i := 0; i < n; i++ {
			// clearing the selection: sometimes in between, often at the end (the whole result
			// must be back)
			clear := cs.rnd.Intn(6) == 0 || (i == n-1 && cs.rnd.Intn(2) == 0) ||
				(i > 0 && diffCols(cs.q) && cs.rnd.Intn(2) == 0)
			// (Select gets exactly the requirement columns, as joins and the repository's fuzz test do)
			sels := cs.randSels(false)
			if diffCols(cs.q) {
				// union/intersect/minus take selection values for columns a source lacks
				// (Union.Select: selConflict / removeNonexistentEmpty): add all other columns
				sels = cs.allColsSels(sels)
			}
			ev := vh.E("Select", "clear", clear, "sels", selsJSON(sels, clear))
			cs.nsel++
			if !cs.guard(ev, func() {
				if clear {
					cs.qq.Select(nil)
				} else {
					cs.qq.Select(cs.packSels(sels))
				}
			}) {
				cs.flush(nil)
				return
			}
			// Select events go out before the Seq of their phase
			cs.tr.Emit(ev.Add("err", ""))
			if !cs.phase(false) {
				return
			}
		}
	}
}

func selsJSON(sels []selJSON, clear bool) []selJSON {
	if clear || sels == nil {
		return []selJSON{}
	}
	return sels
}

func (cs *cursorSession) packSels(sels []selJSON) qry.Sels {
	var r qry.Sels
	for _, s := range sels {
		r = append(r, qry.NewSel(s.C, Pack(gsValue(s.V).(Packable))))
	}
	return r
}

// randSels: values for all requirement columns (shuffled), taken from a row of the result or
// replaced by other values (absent combinations), sometimes with extra columns
func (cs *cursorSession) randSels(extra bool) []selJSON {
	cols := shuffled(cs.rnd, cs.cols)
	if extra && cs.rnd.Intn(4) == 0 {
		for _, c := range shuffled(cs.rnd, cs.hdr.Columns) {
			if !contains(cols, c) {
				cols = append(cols, c)
				break
			}
		}
	}
	var base []Val
	if len(cs.full) > 0 {
		base = cs.full[cs.rnd.Intn(len(cs.full))]
	}
	var sels []selJSON
	for _, c := range cols {
		var v Val
		if base != nil {
			for i, hc := range cs.hdr.Columns {
				if hc == c {
					v = base[i]
				}
			}
		} else {
			v = cs.anyVal()
		}
		sels = append(sels, selJSON{c, v})
	}
	if len(sels) > 0 && cs.rnd.Intn(3) == 0 {
		// another value: from another row, or any value of the universe (possibly absent)
		i := cs.rnd.Intn(len(sels))
		if len(cs.full) > 0 && cs.rnd.Intn(2) == 0 {
			r := cs.full[cs.rnd.Intn(len(cs.full))]
			for j, hc := range cs.hdr.Columns {
				if hc == sels[i].C {
					sels[i].V = r[j]
				}
			}
		} else {
			sels[i].V = cs.anyVal()
		}
	}
	return sels
}

func (cs *cursorSession) anyVal() Val {
	all := []Val{vEmpty, vTrue, vNum(0), vNum(1), vNum(2), vNum(3), vNum(7), vStr(1 + cs.rnd.Intn(len(strs)-1))}
	return all[cs.rnd.Intn(len(all))]
}

func (cs *cursorSession) get(dir Dir) (row []Val, has bool, ok bool) {
	d := "next"
	if dir == Prev {
		d = "prev"
	}
	ev := vh.E("Get", "dir", d)
	cs.nget++
	ok = cs.guard(ev.Add("has", false).Add("row", []Val{}), func() {
		r := cs.qq.Get(th, dir)
		if r != nil {
			vals, e := readRow(cs.qq, cs.hdr, r, cs.st)
			if e != "" {
				panic(e)
			}
			row, has = vals, true
		}
	})
	if ok {
		e2 := vh.E("Get", "dir", d, "has", has)
		if has {
			e2.Add("row", row)
		} else {
			e2.Add("row", []Val{})
		}
		cs.emit(e2.Add("err", ""))
	}
	return
}

// phase: a random walk, then a full forward scan (which also tells the sequence), then a
// full backward scan
func (cs *cursorSession) phase(first bool) bool {
	nsteps := 2 + cs.rnd.Intn(10)
	for i := 0; i < nsteps; i++ {
		switch r := cs.rnd.Intn(20); {
		case r < 9:
			if _, _, ok := cs.get(Next); !ok {
				cs.flush(nil)
				return false
			}
		case r < 16:
			if _, _, ok := cs.get(Prev); !ok {
				cs.flush(nil)
				return false
			}
		case r < 18 && cs.use == "unique" && len(cs.cols) > 0:
			if !cs.lookup() {
				cs.flush(nil)
				return false
			}
		default:
			cs.qq.Rewind()
			cs.emit(vh.E("Rewind"))
		}
	}
	scan := func(dir Dir) ([][]Val, bool) {
		cs.qq.Rewind()
		cs.emit(vh.E("Rewind"))
		var rows [][]Val
		for n := 0; ; n++ {
			row, has, ok := cs.get(dir)
			if !ok {
				return nil, false
			}
			if !has {
				break
			}
			rows = append(rows, row)
			if n > 3000 {
				cs.failed = true
				cs.emit(vh.E("Get", "dir", "next", "has", true, "row", row, "err", "runaway: more rows than any possible result"))
				return nil, false
			}
		}
		// sticks at eof
		if cs.rnd.Intn(2) == 0 {
			if _, _, ok := cs.get(dir); !ok {
				return nil, false
			}
		}
		if cs.rnd.Intn(3) == 0 {
			if _, _, ok := cs.get(dir.Reverse()); !ok {
				return nil, false
			}
		}
		return rows, true
	}
	fwd, ok := scan(Next)
	if !ok {
		cs.flush(nil)
		return false
	}
	if fwd == nil {
		fwd = [][]Val{}
	}
	if first {
		cs.full = fwd
	}
	if _, ok := scan(Prev); !ok {
		cs.flush(fwd)
		return false
	}
	if cs.use == "unique" && len(cs.cols) > 0 {
		// lookups of every row now that the result is known, and some absent ones
		for i := 0; i < 2+cs.rnd.Intn(3); i++ {
			if !cs.lookup() {
				cs.flush(fwd)
				return false
			}
			if cs.rnd.Intn(3) == 0 {
				if _, _, ok := cs.get([]Dir{Next, Prev}[cs.rnd.Intn(2)]); !ok {
					cs.flush(fwd)
					return false
				}
			}
		}
		// a Lookup may be implemented by Select + Get + Select(nil): the whole result must
		// still be there afterwards, in both directions
		for _, dir := range shuffledDirs(cs.rnd) {
			if _, ok := scan(dir); !ok {
				cs.flush(fwd)
				return false
			}
		}
	}
	cs.flush(fwd)
	return true
}

func (cs *cursorSession) lookup() bool {
	sels := cs.randSels(true)
	cs.nlook++
	var row []Val
	has := false
	ev := vh.E("Lookup", "sels", selsJSON(sels, false))
	ok := cs.guard(vh.E("Lookup", "sels", selsJSON(sels, false), "has", false, "row", []Val{}), func() {
		r := cs.qq.Lookup(th, cs.packSels(sels))
		if r != nil {
			vals, e := readRow(cs.qq, cs.hdr, r, cs.st)
			if e != "" {
				panic(e)
			}
			row, has = vals, true
		}
	})
	if !ok {
		return false
	}
	if !has {
		row = []Val{}
	}
	cs.emit(ev.Add("has", has).Add("row", row).Add("err", ""))
	// the position after a Lookup is not part of the property: always Rewind before reading on
	cs.qq.Rewind()
	cs.emit(vh.E("Rewind"))
	return true
}

func shuffledDirs(rnd *rand.Rand) []Dir {
	if rnd.Intn(2) == 0 {
		return []Dir{Next, Prev}
	}
	return []Dir{Prev, Next}
}

// diffCols: the query is a union/intersect/minus of sources with different column sets
func diffCols(q *Q) bool {
	switch q.Op {
	case "union", "intersect", "minus":
		return len(q.L.cols) != len(q.R.cols)
	}
	return false
}

// allColsSels adds values for the columns not yet in sels, from the row sels was taken from
// when there is one (else any values)
func (cs *cursorSession) allColsSels(sels []selJSON) []selJSON {
	var base []Val
	for _, r := range cs.full {
		ok := true
		for _, s := range sels {
			for i, hc := range cs.hdr.Columns {
				if hc == s.C && r[i] != s.V {
					ok = false
				}
			}
		}
		if ok {
			base = r
			break
		}
	}
	for i, c := range cs.hdr.Columns {
		has := false
		for _, s := range sels {
			has = has || s.C == c
		}
		if has {
			continue
		}
		if base != nil {
			sels = append(sels, selJSON{c, base[i]})
		} else {
			sels = append(sels, selJSON{c, cs.anyVal()})
		}
	}
	return sels
}
