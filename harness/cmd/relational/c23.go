package main

import (
	"math/rand"

	"verifharness/vh"
)

func runC23(tr *vh.Trace, rnd *rand.Rand, nscen, nq int) {}
func runC24(tr *vh.Trace, rnd *rand.Rand, nscen, nq int) {}
