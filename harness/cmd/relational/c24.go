package main

import (
	"fmt"
	"math/rand"
	"strings"

	. "github.com/apmckinlay/gsuneido/core"
	"github.com/apmckinlay/gsuneido/db19"
	qry "github.com/apmckinlay/gsuneido/dbms/query"

	"verifharness/vh"
)

// runC24: insert record / insert query / update / delete statements through the real
// DoAction, each in its own update transaction; the returned count and all tables afterwards
// are logged; TraceRelational compares with the statement's meaning on Denote.
func runC24(tr *vh.Trace, rnd *rand.Rand, nscen, nact int) {
	if nact == 0 {
		nact = 12
	}
	nview := 0
	var nok, nfail int
	kinds := map[string]int{}
	for s := 0; s < nscen; s++ {
		if s > 0 {
			tr.Reset()
		}
		sc := genScenario(rnd, 5)
		tr.Emit(dbEvent(sc))
		d := buildDB(rnd, sc, nil, nil)
		g := &Gen{rnd: rnd, sc: sc, nview: &nview, noViews: true, keysOf: map[string][][]string{}}
		for name, schm := range d.schemas {
			g.keysOf[name] = schm.Keys
		}
		// one third of the scenarios run all their statements in ONE transaction, so each
		// statement reads the uncommitted writes of the previous ones
		var shared *db19.UpdateTran
		if rnd.Intn(3) == 0 {
			shared = d.db.NewUpdateTran()
		}
		for i := 0; i < nact; i++ {
			a := g.genAction()
			if a == nil {
				continue
			}
			kinds[a.kind]++
			n, err := d.doAction(a.text, shared)
			if err == "" {
				nok++
			} else {
				nfail++
			}
			rolled := shared != nil && err != ""
			if rolled {
				shared = nil // the failed statement aborted the whole transaction
			}
			after := d.readTables(shared)
			var keys [][]string
			keys = append(keys, d.schemas[a.table].Keys...)
			for i := range keys {
				if keys[i] == nil {
					keys[i] = []string{}
				}
			}
			tr.Emit(vh.E("Action", "kind", a.kind, "text", a.text, "table", a.table, "keys", keys,
				"rcols", strsJSON(a.rcols), "rvals", valsJSON(a.rvals), "ast", a.astJSON(), "set", a.setJSON(),
				"n", n, "err", err, "rolled", rolled, "after", after, "conf", d.label))
			// keep the scenario (and the column kinds the generator relies on) in step with
			// what the database now holds
			d.adopt(after2tables(sc, after))
			if tooBig(sc) {
				break // numbers grown by repeated updates: stay far away from 32-bit
			}
			if rolled {
				// everything the transaction did is gone: start the model again from what is there
				tr.Reset()
				tr.Emit(dbEvent(sc))
			}
		}
		if shared != nil {
			if s := shared.Complete(); s != "" {
				vh.Fatal("commit of shared transaction: %s", s)
			}
		}
		d.close()
	}
	vh.Summary("scenarios", nscen, "actions", nok+nfail, "succeeded", nok, "failed", nfail,
		"insert", kinds["insert"], "insertq", kinds["insertq"], "update", kinds["update"],
		"delete", kinds["delete"], "events", tr.N)
}

func valsJSON(v []Val) []Val {
	if v == nil {
		return []Val{}
	}
	return v
}

type action struct {
	kind  string // insert insertq update delete
	table string
	text  string
	rcols []string
	rvals []Val
	q     *Q
	setc  []string
	sete  []*Ex
}

func (a *action) astJSON() any {
	if a.q == nil {
		return (&vh.Ev{}).Add("op", "none")
	}
	return a.q.json()
}

func (a *action) setJSON() []any {
	r := []any{}
	for i := range a.setc {
		r = append(r, (&vh.Ev{}).Add("c", a.setc[i]).Add("e", a.sete[i].json()))
	}
	return r
}

// updateable query: the table with zero or more where, sometimes below a project that keeps a
// key (projects that contain a key stay updateable: the other columns must be left alone)
func (g *Gen) targetQuery(t *Table) *Q {
	q := g.tableQ(t.Name)
	for n := g.rnd.Intn(3); n > 0; n-- {
		q = g.where(q)
	}
	if keys := g.keysOf[t.Name]; len(keys) > 0 && len(t.Cols) > 1 && g.rnd.Intn(5) == 0 {
		cols := append([]string{}, keys[g.rnd.Intn(len(keys))]...)
		for _, c := range shuffled(g.rnd, t.Cols) {
			if !contains(cols, c) && g.rnd.Intn(2) == 0 {
				cols = append(cols, c)
			}
		}
		if len(cols) > 0 && len(cols) < len(t.Cols) {
			q = g.project(q, shuffled(g.rnd, cols))
			if g.rnd.Intn(3) == 0 {
				q = g.where(q)
			}
		}
	}
	return q
}

// selfInsert: the source of an insert query that reads the TARGET table - directly, or through
// an operator whose result is not updateable (minus, union, intersect, join, leftjoin, semijoin,
// project, summarize) - and gives its rows new key values (a key column shifted by a constant,
// or replaced by a constant), so that the inserted rows are new rows which a scan of the
// target that is still running would come across. The statement's meaning is defined on the
// table as it was before the statement: each source row is inserted once.
func (g *Gen) selfInsert(t *Table) *Q {
	tq := func() *Q { return g.tableQ(t.Name) }
	var key []string
	if keys := g.keysOf[t.Name]; len(keys) > 0 {
		key = keys[g.rnd.Intn(len(keys))]
	}
	if len(key) == 0 {
		key = t.Cols[:1]
	}
	other := func() *Q { // a source with the target's columns
		if g.rnd.Intn(2) == 0 {
			return g.where(tq())
		}
		return g.makeSame(tq(), g.anyTable())
	}
	var q *Q
	switch g.rnd.Intn(10) {
	case 0:
		q = tq()
	case 1, 2:
		q = g.binary("minus", tq(), other())
	case 3:
		q = g.binary("union", tq(), other())
	case 4:
		q = g.binary("intersect", tq(), g.where(tq()))
	case 5:
		q = g.binary("join", tq(), g.project(tq(), shuffled(g.rnd, key)))
	case 6:
		q = g.binary("leftjoin", tq(), g.project(g.where(tq()), shuffled(g.rnd, key)))
	case 7:
		q = g.binary("semijoin", tq(), g.makeCommon(tq(), g.anyTable()))
	case 8:
		q = g.project(tq(), shuffled(g.rnd, t.Cols))
	default:
		q = &Q{Op: "summarize", Src: tq(), By: shuffled(g.rnd, t.Cols), Cols: []string{"count"}, Ops: []string{"count"},
			Ons: []string{""}, SumNames: []string{""}, cols: append(append([]string{}, t.Cols...), "count"),
			kinds: copyKinds(g.sc.kinds[t.Name])}
		q.kinds["count"] = kN
	}
	if g.rnd.Intn(3) == 0 {
		q = g.where(q)
	}
	var num []string
	for _, c := range key {
		if q.kinds[c] == kN {
			num = append(num, c)
		}
	}
	ext := func(src *Q, c string, e *Ex, k Kind) *Q {
		x := &Q{Op: "extend", Src: src, Cols: []string{c}, Exprs: []*Ex{e},
			cols: append(append([]string{}, src.cols...), c), kinds: copyKinds(src.kinds)}
		x.kinds[c] = k
		return x
	}
	if len(num) > 0 && g.rnd.Intn(5) > 0 {
		// <c> shifted: rename c to c0 extend c = c0 + n [remove c0]
		c := num[g.rnd.Intn(len(num))]
		c0 := g.fresh(q.cols)
		n := []int{1, 2, 3, 10, 10, -1, -10}[g.rnd.Intn(7)]
		q = g.rename(q, []string{c}, []string{c0})
		q = ext(q, c, &Ex{K: "arith", O: "add", A: &Ex{K: "col", C: c0}, B: &Ex{K: "const", V: vNum(n)}}, kN)
		if g.rnd.Intn(2) == 0 {
			q = g.remove(q, []string{c0})
		}
	} else if len(q.cols) > 1 {
		// <c> replaced by a constant
		c := key[g.rnd.Intn(len(key))]
		v := g.constFor(g.sc.kinds[t.Name][c])
		q = g.remove(q, []string{c})
		q = ext(q, c, &Ex{K: "const", V: v}, kindOf(v))
	}
	return q
}

func (g *Gen) genAction() *action {
	t := g.sc.Tables[g.rnd.Intn(len(g.sc.Tables))]
	kinds := g.sc.kinds[t.Name]
	switch r := g.rnd.Intn(20); {
	case r < 5: // insert record
		a := &action{kind: "insert", table: t.Name}
		var base []Val
		if len(t.Rows) > 0 && g.rnd.Intn(3) == 0 {
			base = t.Rows[g.rnd.Intn(len(t.Rows))] // likely duplicate key
		}
		var parts []string
		for i, c := range t.Cols {
			var v Val
			if base != nil && g.rnd.Intn(3) > 0 {
				v = base[i]
			} else {
				d := g.sc.dom[c]
				v = d[g.rnd.Intn(len(d))]
			}
			if v == vEmpty && g.rnd.Intn(2) == 0 {
				continue // omitted field
			}
			a.rcols = append(a.rcols, c)
			a.rvals = append(a.rvals, v)
			parts = append(parts, c+": "+v.lit())
		}
		a.text = "insert {" + strings.Join(parts, ", ") + "} into " + t.Name
		return a
	case r < 8: // insert query
		if len(t.Rows) > 0 && g.rnd.Intn(3) == 0 {
			src := g.selfInsert(t)
			return &action{kind: "insertq", table: t.Name, q: src,
				text: "insert " + src.text() + " into " + t.Name}
		}
		for try := 0; try < 20; try++ {
			src := g.gen(1 + g.rnd.Intn(2))
			tabs := map[string]bool{}
			src.tables(tabs)
			if tabs[t.Name] && g.rnd.Intn(3) > 0 {
				continue // reading the target table itself: less often
			}
			src = g.makeSame(g.tableQ(t.Name), src)
			if len(src.cols) > 1 && g.rnd.Intn(4) == 0 {
				src = g.remove(src, g.subset(src.cols, 1, 1)) // missing column: stored as ""
			}
			if g.rnd.Intn(4) == 0 {
				src = g.extend(src, 1, true) // extra column: ignored
			}
			if src.size() > 10 {
				continue
			}
			return &action{kind: "insertq", table: t.Name, q: src,
				text: "insert " + src.text() + " into " + t.Name}
		}
		return nil
	case r < 15: // update
		q := g.targetQuery(t)
		a := &action{kind: "update", table: t.Name, q: q}
		n := 1 + g.rnd.Intn(2)
		var parts []string
		for _, c := range g.subset(q.cols, n, n) {
			e, _ := g.genVal(q.cols, kinds, 1)
			a.setc = append(a.setc, c)
			a.sete = append(a.sete, e)
			parts = append(parts, c+" = "+e.text())
		}
		a.text = "update " + q.text() + " set " + strings.Join(parts, ", ")
		return a
	default: // delete
		q := g.targetQuery(t)
		return &action{kind: "delete", table: t.Name, q: q, text: "delete " + q.text()}
	}
}

// doAction runs one statement in its own update transaction, or in the shared one
func (d *DB) doAction(text string, shared *db19.UpdateTran) (n int, err string) {
	ut := shared
	if ut == nil {
		ut = d.db.NewUpdateTran()
	}
	defer func() {
		if e := recover(); e != nil {
			ut.Abort()
			n, err = 0, fmt.Sprint(e)
		}
	}()
	n = qry.DoAction(th, ut, text)
	if shared == nil {
		if s := ut.Complete(); s != "" {
			return 0, "commit: " + s
		}
	}
	return n, ""
}

// readTables reads every table through a fresh read transaction
// (or through the shared update transaction, which sees its own uncommitted writes)
func (d *DB) readTables(shared *db19.UpdateTran) []any {
	var tabs []any
	var rt qry.QueryTran = d.db.NewReadTran()
	if shared != nil {
		rt = shared
	}
	for _, t := range d.sc.Tables {
		rows := [][]Val{}
		func() {
			defer func() {
				if e := recover(); e != nil {
					vh.Fatal("reading back %s: %v", t.Name, e)
				}
			}()
			q := qry.ParseQuery(t.Name, rt, nil)
			q, _, _ = qry.Setup(q, qry.ReadMode, rt)
			hdr := q.Header()
			st := qry.MakeSuTran(rt)
			for row := q.Get(th, Next); row != nil; row = q.Get(th, Next) {
				vals := make([]Val, len(t.Cols))
				for i, c := range t.Cols {
					v, ok := toVal(row.GetVal(hdr, c, th, st))
					if !ok {
						vh.Fatal("value outside universe in %s.%s: %v", t.Name, c, row.GetVal(hdr, c, th, st))
					}
					vals[i] = v
				}
				rows = append(rows, vals)
			}
		}()
		tabs = append(tabs, (&vh.Ev{}).Add("name", t.Name).Add("cols", t.Cols).Add("rows", rows))
	}
	return tabs
}

func after2tables(sc *Scenario, after []any) map[string][][]Val {
	m := map[string][][]Val{}
	for _, x := range after {
		e := x.(*vh.Ev)
		m[e.Get("name").(string)] = e.Get("rows").([][]Val)
	}
	return m
}

// adopt makes the scenario reflect the current contents (rows and column kinds)
func (d *DB) adopt(m map[string][][]Val) {
	for _, t := range d.sc.Tables {
		t.Rows = m[t.Name]
		for _, r := range t.Rows {
			for i, c := range t.Cols {
				d.sc.kinds[t.Name][c] |= kindOf(r[i])
			}
		}
	}
}

func tooBig(sc *Scenario) bool {
	for _, t := range sc.Tables {
		for _, r := range t.Rows {
			for _, v := range r {
				if v.T == 2 && (v.N > 100000 || v.N < -100000) {
					return true
				}
			}
		}
	}
	return false
}
