package main

import (
	"fmt"
	"math/rand"
	"strings"

	. "github.com/apmckinlay/gsuneido/core"
	"github.com/apmckinlay/gsuneido/db19"
	qry "github.com/apmckinlay/gsuneido/dbms/query"

	"verifharness/vh"
)

// runC24: insert record / insert query / update / delete statements through the real
// DoAction, each in its own update transaction; the returned count and all tables afterwards
// are logged; TraceRelational compares with the statement's meaning on Denote.
func runC24(tr *vh.Trace, rnd *rand.Rand, nscen, nact int) {
	if nact == 0 {
		nact = 12
	}
	nview := 0
	var nok, nfail int
	kinds := map[string]int{}
	for s := 0; s < nscen; s++ {
		if s > 0 {
			tr.Reset()
		}
		sc := genScenario(rnd, 5)
		tr.Emit(dbEvent(sc))
		d := buildDB(rnd, sc, nil, nil)
		g := &Gen{rnd: rnd, sc: sc, nview: &nview, noViews: true, keysOf: map[string][][]string{}}
		for name, schm := range d.schemas {
			g.keysOf[name] = schm.Keys
		}
		// one third of the scenarios run all their statements in ONE transaction, so each
		// statement reads the uncommitted writes of the previous ones
		var shared *db19.UpdateTran
		if rnd.Intn(3) == 0 {
			shared = d.db.NewUpdateTran()
		}
		for i := 0; i < nact; i++ {
			a := g.genAction()
			if a == nil {
				continue
			}
			kinds[a.kind]++
			n, err := d.doAction(a.text, shared)
			if err == "" {
				nok++
			} else {
				nfail++
			}
			rolled := shared != nil && err != ""
			if rolled {
				shared = nil // the failed statement aborted the whole transaction
			}
			after := d.readTables(shared)
			var keys [][]string
			keys = append(keys, d.schemas[a.table].Keys...)
			for i := range keys {
				if keys[i] == nil {
					keys[i] = []string{}
				}
			}
			tr.Emit(vh.E("Action", "kind", a.kind, "text", a.text, "table", a.table, "keys", keys,
				"rcols", strsJSON(a.rcols), "rvals", valsJSON(a.rvals), "ast", a.astJSON(), "set", a.setJSON(),
				"n", n, "err", err, "rolled", rolled, "after", after, "conf", d.label))
			// keep the scenario (and the column kinds the generator relies on) in step with
			// what the database now holds
			d.adopt(after2tables(sc, after))
			if tooBig(sc) {
				break // numbers grown by repeated updates: stay far away from 32-bit
			}
			if rolled {
				// everything the transaction did is gone: start the model again from what is there
				tr.Reset()
				tr.Emit(dbEvent(sc))
			}
		}
		if shared != nil {
			if s := shared.Complete(); s != "" {
				vh.Fatal("commit of shared transaction: %s", s)
			}
		}
		d.close()
	}
	vh.Summary("scenarios", nscen, "actions", nok+nfail, "succeeded", nok, "failed", nfail,
		"insert", kinds["insert"], "insertq", kinds["insertq"], "update", kinds["update"],
		"delete", kinds["delete"], "events", tr.N)
}

func valsJSON(v []Val) []Val {
	if v == nil {
		return []Val{}
	}
	return v
}

type action struct {
	kind  string // insert insertq update delete
	table string
	text  string
	rcols []string
	rvals []Val
	q     *Q
	setc  []string
	sete  []*Ex
}

func (a *action) astJSON() any {
	if a.q == nil {
		return (&vh.Ev{}).Add("op", "none")
	}
	return a.q.json()
}

func (a *action) setJSON() []any {
	r := []any{}
	for i := range a.setc {
		r = append(r, (&vh.Ev{}).Add("c", a.setc[i]).Add("e", a.sete[i].json()))
	}
	return r
}

// updateable query: the table with zero or more where, sometimes below a project that keeps a
// key (projects that contain a key stay updateable: the other columns must be left alone)
func (g *Gen) targetQuery(t *Table) *Q {
	q := g.tableQ(t.Name)
	for n := g.rnd.Intn(3); n > 0; n-- {
		q = g.where(q)
	}
	if keys := g.keysOf[t.Name]; len(keys) > 0 && len(t.Cols) > 1 && g.rnd.Intn(5) == 0 {
		cols := append([]string{}, keys[g.rnd.Intn(len(keys))]...)
		for _, c := range shuffled(g.rnd, t.Cols) {
			if !contains(cols, c) && g.rnd.Intn(2) == 0 {
				cols = append(cols, c)
			}
		}
		if len(cols) > 0 && len(cols) < len(t.Cols) {
			q = g.project(q, shuffled(g.rnd, cols))
			if g.rnd.Intn(3) == 0 {
				q = g.where(q)
			}
		}
	}
	return q
}

func (g *Gen) genAction() *action {
	t := g.sc.Tables[g.rnd.Intn(len(g.sc.Tables))]
	kinds := g.sc.kinds[t.Name]
	switch r := g.rnd.Intn(20); {
	case r < 5: // insert record
		a := &action{kind: "insert", table: t.Name}
		var base []Val
		if len(t.Rows) > 0 && g.rnd.Intn(3) == 0 {
			base = t.Rows[g.rnd.Intn(len(t.Rows))] // likely duplicate key
		}
		var parts []string
		for i, c := range t.Cols {
			var v Val
			if base != nil && g.rnd.Intn(3) > 0 {
				v = base[i]
			} else {
				d := g.sc.dom[c]
				v = d[g.rnd.Intn(len(d))]
			}
			if v == vEmpty && g.rnd.Intn(2) == 0 {
				continue // omitted field
			}
			a.rcols = append(a.rcols, c)
			a.rvals = append(a.rvals, v)
			parts = append(parts, c+": "+v.lit())
		}
		a.text = "insert {" + strings.Join(parts, ", ") + "} into " + t.Name
		return a
	case r < 8: // insert query
		for try := 0; try < 20; try++ {
			src := g.gen(1 + g.rnd.Intn(2))
			tabs := map[string]bool{}
			src.tables(tabs)
			if tabs[t.Name] && g.rnd.Intn(3) > 0 {
				continue // reading the target table itself: less often
			}
			src = g.makeSame(g.tableQ(t.Name), src)
			if len(src.cols) > 1 && g.rnd.Intn(4) == 0 {
				src = g.remove(src, g.subset(src.cols, 1, 1)) // missing column: stored as ""
			}
			if g.rnd.Intn(4) == 0 {
				src = g.extend(src, 1, true) // extra column: ignored
			}
			if src.size() > 10 {
				continue
			}
			return &action{kind: "insertq", table: t.Name, q: src,
				text: "insert " + src.text() + " into " + t.Name}
		}
		return nil
	case r < 15: // update
		q := g.targetQuery(t)
		a := &action{kind: "update", table: t.Name, q: q}
		n := 1 + g.rnd.Intn(2)
		var parts []string
		for _, c := range g.subset(q.cols, n, n) {
			e, _ := g.genVal(q.cols, kinds, 1)
			a.setc = append(a.setc, c)
			a.sete = append(a.sete, e)
			parts = append(parts, c+" = "+e.text())
		}
		a.text = "update " + q.text() + " set " + strings.Join(parts, ", ")
		return a
	default: // delete
		q := g.targetQuery(t)
		return &action{kind: "delete", table: t.Name, q: q, text: "delete " + q.text()}
	}
}

// doAction runs one statement in its own update transaction, or in the shared one
func (d *DB) doAction(text string, shared *db19.UpdateTran) (n int, err string) {
	ut := shared
	if ut == nil {
		ut = d.db.NewUpdateTran()
	}
	defer func() {
		if e := recover(); e != nil {
			ut.Abort()
			n, err = 0, fmt.Sprint(e)
		}
	}()
	n = qry.DoAction(th, ut, text)
	if shared == nil {
		if s := ut.Complete(); s != "" {
			return 0, "commit: " + s
		}
	}
	return n, ""
}

// readTables reads every table through a fresh read transaction
// (or through the shared update transaction, which sees its own uncommitted writes)
func (d *DB) readTables(shared *db19.UpdateTran) []any {
	var tabs []any
	var rt qry.QueryTran = d.db.NewReadTran()
	if shared != nil {
		rt = shared
	}
	for _, t := range d.sc.Tables {
		rows := [][]Val{}
		func() {
			defer func() {
				if e := recover(); e != nil {
					vh.Fatal("reading back %s: %v", t.Name, e)
				}
			}()
			q := qry.ParseQuery(t.Name, rt, nil)
			q, _, _ = qry.Setup(q, qry.ReadMode, rt)
			hdr := q.Header()
			st := qry.MakeSuTran(rt)
			for row := q.Get(th, Next); row != nil; row = q.Get(th, Next) {
				vals := make([]Val, len(t.Cols))
				for i, c := range t.Cols {
					v, ok := toVal(row.GetVal(hdr, c, th, st))
					if !ok {
						vh.Fatal("value outside universe in %s.%s: %v", t.Name, c, row.GetVal(hdr, c, th, st))
					}
					vals[i] = v
				}
				rows = append(rows, vals)
			}
		}()
		tabs = append(tabs, (&vh.Ev{}).Add("name", t.Name).Add("cols", t.Cols).Add("rows", rows))
	}
	return tabs
}

func after2tables(sc *Scenario, after []any) map[string][][]Val {
	m := map[string][][]Val{}
	for _, x := range after {
		e := x.(*vh.Ev)
		m[e.Get("name").(string)] = e.Get("rows").([][]Val)
	}
	return m
}

// adopt makes the scenario reflect the current contents (rows and column kinds)
func (d *DB) adopt(m map[string][][]Val) {
	for _, t := range d.sc.Tables {
		t.Rows = m[t.Name]
		for _, r := range t.Rows {
			for i, c := range t.Cols {
				d.sc.kinds[t.Name][c] |= kindOf(r[i])
			}
		}
	}
}

func tooBig(sc *Scenario) bool {
	for _, t := range sc.Tables {
		for _, r := range t.Rows {
			for _, v := range r {
				if v.T == 2 && (v.N > 100000 || v.N < -100000) {
					return true
				}
			}
		}
	}
	return false
}
