// Execution of generated queries on a REAL heap database through the public API of
// dbms/query under many configurations.
package main

import (
	"fmt"
	"math/big"
	"math/rand"
	randv2 "math/rand/v2"
	"os"
	"runtime/debug"
	"sort"
	"strings"
	"time"

	. "github.com/apmckinlay/gsuneido/core"
	"github.com/apmckinlay/gsuneido/db19"
	"github.com/apmckinlay/gsuneido/db19/stor"
	_ "github.com/apmckinlay/gsuneido/dbms" // installs MakeSuTran
	qry "github.com/apmckinlay/gsuneido/dbms/query"

	"verifharness/vh"
)

var th = &Thread{}

// ---------------------------------------------------------------- values

var rankOf = map[string]int{}

func init() {
	for i, s := range strs {
		rankOf[s] = i
	}
}

// toVal converts a gSuneido value to the abstract value. ok=false: outside the value
// universe of the harness (reported as an error outcome, never silently dropped)
func toVal(v Value) (Val, bool) {
	if v == True {
		return vTrue, true
	}
	if v == False {
		return vFalse, true
	}
	if n, ok := v.IfInt(); ok {
		return vNum(n), true
	}
	if _, ok := v.(SuDnum); ok {
		return ratOf(ToDnum(v).String())
	}
	if s, ok := v.ToStr(); ok {
		if s == "" {
			return vEmpty, true
		}
		r, ok := rankOf[s]
		return vStr(r), ok
	}
	return Val{}, false
}

// ratOf reconstructs the rational n/d (d <= 100000) a 16 digit decimal stands for
func ratOf(s string) (Val, bool) {
	x, ok := new(big.Rat).SetString(s)
	if !ok {
		return Val{}, false
	}
	if x.IsInt() && x.Num().IsInt64() && x.Num().Int64() < 1<<30 && x.Num().Int64() > -(1<<30) {
		return vNum(int(x.Num().Int64())), true
	}
	// continued fraction convergents
	tol := new(big.Rat).SetFrac64(1, 1e13)
	ax := new(big.Rat).Abs(x)
	if ax.Cmp(big.NewRat(1, 1)) > 0 {
		tol.Mul(tol, ax)
	}
	h0, h1 := big.NewInt(0), big.NewInt(1)
	k0, k1 := big.NewInt(1), big.NewInt(0)
	y := new(big.Rat).Set(x)
	for i := 0; i < 40; i++ {
		fl := new(big.Int)
		fl.Div(y.Num(), y.Denom()) // floor for positive denom (Euclidean)
		h2 := new(big.Int).Add(new(big.Int).Mul(fl, h1), h0)
		k2 := new(big.Int).Add(new(big.Int).Mul(fl, k1), k0)
		h0, h1, k0, k1 = h1, h2, k1, k2
		if k1.Cmp(big.NewInt(100000)) > 0 {
			return Val{}, false
		}
		c := new(big.Rat).SetFrac(h1, k1)
		d := new(big.Rat).Sub(x, c)
		if d.Abs(d).Cmp(tol) <= 0 {
			if !h1.IsInt64() || h1.Int64() > 1<<30 || h1.Int64() < -(1<<30) {
				return Val{}, false
			}
			return Val{2, int(h1.Int64()), int(k1.Int64())}, true
		}
		fr := new(big.Rat).Sub(y, new(big.Rat).SetInt(fl))
		if fr.Sign() == 0 {
			break
		}
		y = fr.Inv(fr)
	}
	return Val{}, false
}

// gsValue converts an abstract value to a gSuneido value (for Select/Lookup)
func gsValue(v Val) Value {
	switch v.T {
	case 0:
		return EmptyStr
	case 1:
		if v.N == 1 {
			return True
		}
		return False
	case 2:
		if v.D == 1 {
			return IntVal(v.N)
		}
		return OpDiv(IntVal(v.N), IntVal(v.D))
	}
	return SuStr(strs[v.N])
}

// ---------------------------------------------------------------- database

type DB struct {
	db      *db19.Database
	sc      *Scenario
	schemas map[string]Schema
	label   string
	views   map[string]bool
}

func admin(db *db19.Database, s string) {
	defer func() {
		if e := recover(); e != nil {
			vh.Fatal("admin %q: %v", s, e)
		}
	}()
	qry.DoAdmin(db, s, nil)
}

func recLit(t *Table, row []Val) string {
	var parts []string
	for i, c := range t.Cols {
		if row[i] != vEmpty {
			parts = append(parts, c+": "+row[i].lit())
		}
	}
	return "{" + strings.Join(parts, ", ") + "}"
}

// buildDB creates a heap database with the scenario's tables in one physical configuration
func buildDB(rnd *rand.Rand, sc *Scenario, musts, wants map[string][][]string) *DB {
	db := db19.CreateDb(stor.HeapStor(8192))
	db19.StartConcur(db, time.Hour)
	d := &DB{db: db, sc: sc, schemas: map[string]Schema{}, views: map[string]bool{}}
	persist := rnd.Intn(3) // 0: all rows in memory layers, 1: all persisted to btrees, 2: mixed
	var labels []string
	for _, t := range sc.Tables {
		schm := genSchema(rnd, t, musts[t.Name], wants[t.Name])
		d.schemas[t.Name] = schm
		admin(db, "create "+t.Name+" ("+strings.Join(t.Cols, ",")+")"+schm.String())
		labels = append(labels, t.Name+schm.String())
	}
	order := func(t *Table) [][]Val {
		rows := append([][]Val{}, t.Rows...)
		rnd.Shuffle(len(rows), func(i, j int) { rows[i], rows[j] = rows[j], rows[i] })
		return rows
	}
	insert := func(t *Table, rows [][]Val) {
		if len(rows) == 0 {
			return
		}
		func() {
			defer func() {
				if e := recover(); e != nil {
					vh.Fatal("loading %s: %v", t.Name, e)
				}
			}()
			ut := db.NewUpdateTran()
			for _, r := range rows {
				qry.DoAction(th, ut, "insert "+recLit(t, r)+" into "+t.Name)
			}
			ut.Commit()
		}()
	}
	for _, t := range sc.Tables {
		rows := order(t)
		switch persist {
		case 0, 1:
			insert(t, rows)
		case 2:
			h := len(rows) / 2
			insert(t, rows[:h])
			db.Persist()
			insert(t, rows[h:])
		}
	}
	if persist == 1 {
		db.Persist()
	}
	d.label = fmt.Sprintf("p%d %s", persist, strings.Join(labels, "; "))
	return d
}

func (d *DB) close() { d.db.Close() }

// defineViews creates the views a query uses (named uniquely per query)
func (d *DB) defineViews(q *Q) {
	var vs []*Q
	q.views(&vs)
	for _, v := range vs {
		if !d.views[v.Name] {
			d.views[v.Name] = true
			admin(d.db, "view "+v.Name+" = "+v.Def.text())
		}
	}
}

// ---------------------------------------------------------------- outcomes

type Outcome struct {
	Cols []string
	Rows [][]Val // in the order returned
	Err  string
	Plan string
}

// canon returns the rows with columns in sorted order, sorted, and a key for comparison
func (o *Outcome) canon() (cols []string, rows [][]Val, key string) {
	cols = sortedCopy(o.Cols)
	idx := make([]int, len(cols))
	for i, c := range cols {
		for j, c2 := range o.Cols {
			if c2 == c {
				idx[i] = j
			}
		}
	}
	for _, r := range o.Rows {
		nr := make([]Val, len(cols))
		for i := range cols {
			nr[i] = r[idx[i]]
		}
		rows = append(rows, nr)
	}
	sort.Slice(rows, func(i, j int) bool { return lessRow(rows[i], rows[j]) })
	key = fmt.Sprint(cols, rows, "|", o.Err)
	return
}

func lessRow(a, b []Val) bool {
	for i := range a {
		if a[i] != b[i] {
			return a[i].less(b[i])
		}
	}
	return false
}

func readRow(q qry.Query, hdr *Header, row Row, st *SuTran) ([]Val, string) {
	vals := make([]Val, len(hdr.Columns))
	for i, c := range hdr.Columns {
		v, ok := toVal(row.GetVal(hdr, c, th, st))
		if !ok {
			return nil, fmt.Sprintf("value outside universe: %s=%v", c, row.GetVal(hdr, c, th, st))
		}
		vals[i] = v
	}
	return vals, ""
}

// ---------------------------------------------------------------- variants

type variant struct {
	kind string // setup setup1 setupkey setupidx req
	mode qry.Mode
	use  string // for kind req: order group unique
	pick int    // index choice
	dir  Dir    // first pass direction (the second pass is the opposite)
	rb   uint64 // randomBest seed (0 = cost based)
	ti   int    // ticostAdj
	jr   int    // joinRev
}

func (v variant) String() string {
	return fmt.Sprintf("%s/%v/%s%d/%c/rb%d/ti%d/jr%d", v.kind, v.mode, v.use, v.pick, v.dir, v.rb, v.ti, v.jr)
}

func setKnobs(v variant) {
	if v.rb != 0 {
		qry.VerifSetRandomBest(randv2.New(randv2.NewPCG(v.rb, 77)))
	} else {
		qry.VerifSetRandomBest(nil)
	}
	qry.VerifSetTicostAdj(v.ti)
	qry.VerifSetJoinRev(v.jr)
}

func resetKnobs() {
	qry.VerifSetRandomBest(nil)
	qry.VerifSetTicostAdj(0)
	qry.VerifSetJoinRev(0)
}

func randVariant(rnd *rand.Rand, isSort bool) variant {
	v := variant{kind: "setup", mode: qry.ReadMode, dir: Next}
	switch r := rnd.Intn(20); {
	case r < 6:
	case r < 8:
		v.kind = "setup1"
	case r < 10:
		v.kind = "setupkey"
	case r < 13:
		v.kind = "setupidx"
	default:
		v.kind = "req"
		v.use = []string{"order", "group", "unique"}[rnd.Intn(3)]
	}
	if isSort {
		if v.kind != "setup1" {
			v.kind = "setup"
		}
	}
	switch rnd.Intn(6) {
	case 0:
		v.mode = qry.UpdateMode
	case 1:
		v.mode = qry.CursorMode
	}
	v.pick = rnd.Intn(1000)
	if rnd.Intn(2) == 0 {
		v.dir = Prev
	}
	if rnd.Intn(3) > 0 {
		v.rb = 1 + uint64(rnd.Int63n(1<<40))
	}
	if rnd.Intn(3) == 0 {
		v.ti = 9999999
	}
	switch rnd.Intn(5) {
	case 0:
		v.jr = qry.VerifImpossible
	case 1:
		v.jr = -10
	}
	return v
}

// prepare parses and sets up the query as the variant says.
// skipped: the requirement has no strategy (legitimate "invalid query")
func (d *DB) prepare(text string, v variant, tran qry.QueryTran, rnd *rand.Rand) (q qry.Query, req reqInfo, skipped bool) {
	q = qry.ParseQuery(text, tran, nil)
	invalidOK := v.mode == qry.CursorMode || v.kind == "setupkey" || v.kind == "setupidx"
	defer func() {
		if e := recover(); e != nil {
			if s, ok := e.(string); ok && invalidOK && strings.HasPrefix(s, "invalid query") {
				q, skipped = nil, true
				return
			}
			panic(e)
		}
	}()
	switch v.kind {
	case "setup":
		q, _, _ = qry.Setup(q, v.mode, tran)
		req.use = "none"
	case "setup1":
		q, _, _ = qry.Setup1(q, v.mode, tran)
		req.use = "none"
	case "setupkey":
		q = qry.SetupKey(q, v.mode, tran)
		req.use = "none"
	case "setupidx":
		q = q.Transform()
		idxs := q.Indexes()
		if len(idxs) == 0 {
			return nil, req, true
		}
		idx := idxs[v.pick%len(idxs)]
		q = qry.SetupIdx(q, v.mode, tran, idx)
		req.use = "order"
		req.cols = idx
		if len(idx) == 0 {
			req.use = "none"
		}
	case "req":
		q = q.Transform()
		idxs := q.Indexes()
		var index []string
		use := v.use
		if len(idxs) == 0 || (len(idxs) == 1 && len(idxs[0]) == 0) {
			use = "none"
		} else if use == "unique" {
			var keyIdxs [][]string
			for _, ix := range idxs {
				for _, k := range q.Keys() {
					if sameSet(ix, k) {
						keyIdxs = append(keyIdxs, ix)
					}
				}
			}
			if len(keyIdxs) > 0 {
				index = keyIdxs[v.pick%len(keyIdxs)]
			} else {
				index = q.Columns()
			}
			index = append([]string{}, index...)
			// extra columns (Lookup with sels beyond the index)
			cols := q.Columns()
			for n := (v.pick / 7) % 3; n > 0 && len(cols) > 0; n-- {
				c := cols[(v.pick/3+n)%len(cols)]
				if !contains(index, c) {
					index = append(index, c)
				}
			}
		} else {
			index = idxs[v.pick%len(idxs)]
			if len(index) == 0 {
				use = "none"
			}
		}
		var r qry.Require
		switch use {
		case "none":
			r = qry.NoneReq(1)
		case "order":
			index = index[:1+(v.pick/11)%len(index)]
			r = qry.OrderReq(index, 1)
		case "group":
			index = append([]string{}, index...)
			r = qry.GroupReq(index, float32(1)/float32(1+v.pick%4), int32(1+v.pick%10))
		case "unique":
			r = qry.UniqueReq(index, int32(1+v.pick%10))
		}
		f, vc := qry.Optimize(q, v.mode, r)
		if f+vc >= qry.VerifImpossible {
			use, index = "none", nil
			r = qry.NoneReq(1)
			f, vc = qry.Optimize(q, v.mode, r)
			if f+vc >= qry.VerifImpossible {
				if v.mode == qry.CursorMode {
					return nil, req, true
				}
				panic("invalid query (NoneReq impossible)")
			}
		}
		q = qry.SetApproach(q, r, tran)
		q.SetTran(tran)
		req.use, req.cols = use, index
	}
	return q, req, false
}

type reqInfo struct {
	use  string // none order group unique
	cols []string
}

func sameSet(a, b []string) bool {
	if len(a) != len(b) {
		return false
	}
	for _, x := range a {
		if !contains(b, x) {
			return false
		}
	}
	return true
}

func getAll(q qry.Query, hdr *Header, st *SuTran, dir Dir, limit int) (rows [][]Val, err string) {
	for n := 0; ; n++ {
		row := q.Get(th, dir)
		if row == nil {
			return
		}
		if n > limit {
			return rows, "more rows than any possible result (runaway)"
		}
		vals, e := readRow(q, hdr, row, st)
		if e != "" {
			return rows, e
		}
		rows = append(rows, vals)
	}
}

// exec runs the query in one variant: a full pass in v.dir, Rewind, a full pass in the other
// direction. Each pass is one outcome.
func (d *DB) exec(text string, v variant, rnd *rand.Rand) (outs []Outcome, skipped bool) {
	setKnobs(v)
	defer resetKnobs()
	var tran qry.QueryTran
	if v.mode == qry.UpdateMode {
		ut := d.db.NewUpdateTran()
		defer ut.Abort()
		tran = ut
	} else {
		tran = d.db.NewReadTran()
	}
	var q qry.Query
	plan := ""
	fail := func(e any) {
		outs = append(outs, Outcome{Err: fmt.Sprint(e), Plan: plan})
	}
	defer func() {
		if e := recover(); e != nil {
			if os.Getenv("VERIF_STACKS") != "" {
				fmt.Fprintf(os.Stderr, "PANIC %v in %s [%s]\n%s\n", e, text, v, debug.Stack())
			}
			fail(e)
		}
	}()
	q, _, skipped = d.prepare(text, v, tran, rnd)
	if skipped {
		return nil, true
	}
	plan = qry.String(q)
	hdr := q.Header()
	st := qry.MakeSuTran(tran)
	for pass := 0; pass < 2; pass++ {
		dir := v.dir
		if pass == 1 {
			dir = dir.Reverse()
			q.Rewind()
		}
		rows, err := getAll(q, hdr, st, dir, 5000)
		outs = append(outs, Outcome{Cols: hdr.Columns, Rows: rows, Err: err, Plan: plan})
	}
	return outs, false
}
