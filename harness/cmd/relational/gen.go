// Data model, value domain and random generator of query ASTs for C22/C23/C24.
// The generator is the only source of queries: the oracle (Relational.tla) gets the
// AST as JSON, gSuneido gets the rendered text - so the oracle never trusts
// gSuneido's parser or Transform.
package main

import (
	"fmt"
	"math/rand"
	"sort"
	"strings"

	"verifharness/vh"
)

// ---------------------------------------------------------------- values

// Val is the abstract value sent to TLA+: [tag, n, d]
// tag 0 = "", 1 = bool, 2 = number n/d, 3 = string with rank n
type Val struct{ T, N, D int }

func (v Val) MarshalJSON() ([]byte, error) {
	return []byte(fmt.Sprintf("[%d,%d,%d]", v.T, v.N, v.D)), nil
}

var (
	vEmpty = Val{0, 0, 1}
	vTrue  = Val{1, 1, 1}
	vFalse = Val{1, 0, 1}
)

func vNum(n int) Val { return Val{2, n, 1} }
func vStr(rank int) Val { return Val{3, rank, 1} }

// rank -> concrete string; strictly increasing under byte order (asserted at start-up)
var strs = []string{"", "A", "a", "a\x00b", "a b", "ab", "b"}

func checkRanks() {
	for i := 1; i < len(strs); i++ {
		if strings.Compare(strs[i-1], strs[i]) >= 0 {
			vh.Fatal("rank table not monotone at %d", i)
		}
	}
}

// less is the order of the stored encoding (= Relational.tla VLt)
func (v Val) less(w Val) bool {
	if v.T != w.T {
		return v.T < w.T
	}
	if v.T == 2 {
		return v.N*w.D < w.N*v.D
	}
	return v.N < w.N
}

// lit renders a value as a literal of the query language
func (v Val) lit() string {
	switch v.T {
	case 0:
		return `""`
	case 1:
		if v.N == 1 {
			return "true"
		}
		return "false"
	case 2:
		if v.D == 1 {
			return fmt.Sprint(v.N)
		}
		// only exact decimals are generated as constants (d = 2)
		return fmt.Sprintf("%g", float64(v.N)/float64(v.D))
	case 3:
		return fmt.Sprintf("%q", strs[v.N])
	}
	panic("bad value")
}

// Kind = set of value classes a column may hold (conservative, static)
type Kind uint8

const (
	kE Kind = 1 << iota // ""
	kB                  // boolean
	kN                  // integer
	kS                  // non-empty string
	kF                  // possibly non-integer number (from average): no arithmetic on it
)

func kindOf(v Val) Kind {
	switch v.T {
	case 0:
		return kE
	case 1:
		return kB
	case 2:
		if v.D != 1 {
			return kF
		}
		return kN
	}
	return kS
}

// ambiguous: a range comparison between these could compare "" with a boolean/number,
// where the language order and the stored order differ (documented exception, C25)
func ambiguous(a, b Kind) bool {
	const num = kB | kN | kF
	return a&kE != 0 && b&num != 0 || b&kE != 0 && a&num != 0
}

// arithmetic only on columns that hold integers and nothing else ("" * 2 is an error)
func arithable(k Kind) bool { return k == kN }

// total/average skip "" and strings; generated on number-or-empty columns
func summable(k Kind) bool { return k != 0 && k&^(kE|kN) == 0 }

// ---------------------------------------------------------------- database

type Table struct {
	Name string
	Cols []string
	Rows [][]Val // distinct
}

type Scenario struct {
	Tables []*Table
	kinds  map[string]map[string]Kind // table -> col -> kind
	dom    map[string][]Val           // column -> domain used for this scenario
}

func (s *Scenario) table(name string) *Table {
	for _, t := range s.Tables {
		if t.Name == name {
			return t
		}
	}
	return nil
}

// table shapes: t1/t3 same columns (union/intersect/minus), t1-t2 share c, t2-t4 share d,
// t1-t4 disjoint (times)
var shapes = []struct {
	name string
	cols []string
}{
	{"t1", []string{"a", "b", "c"}},
	{"t2", []string{"c", "d", "e"}},
	{"t3", []string{"a", "b", "c"}},
	{"t4", []string{"d", "f"}},
}

func genScenario(rnd *rand.Rand, maxRows int) *Scenario {
	s := &Scenario{kinds: map[string]map[string]Kind{}, dom: map[string][]Val{}}
	// per column domain (about 4-5 values so that joins and unions collide)
	nums := []Val{vNum(0), vNum(1), vNum(2), vNum(3)}
	switch rnd.Intn(4) {
	case 0:
		nums[3] = vNum(-1)
	case 1:
		nums[0] = vNum(10)
	}
	pick := func(n int) []Val { // n distinct non-empty string ranks
		p := rnd.Perm(len(strs) - 1)
		var r []Val
		for _, i := range p[:n] {
			r = append(r, vStr(i+1))
		}
		return r
	}
	sv := pick(3)
	s.dom["a"] = append([]Val{}, nums...)
	s.dom["d"] = append([]Val{}, nums...)
	s.dom["f"] = append([]Val{}, nums[:3]...)
	s.dom["b"] = append([]Val{vEmpty}, sv...)
	s.dom["e"] = append([]Val{vEmpty}, sv[:2]...)
	s.dom["c"] = []Val{nums[1], nums[2], sv[0], sv[1]} // mixed, no ""
	if rnd.Intn(3) == 0 {
		s.dom["d"] = append(s.dom["d"], vEmpty) // nullable number column
	}
	if rnd.Intn(4) == 0 {
		s.dom["c"] = append(s.dom["c"], vTrue)
	}
	for _, sh := range shapes {
		if sh.name == wideShape.name {
			continue
		}
		t := &Table{Name: sh.name, Cols: sh.cols}
		n := rnd.Intn(maxRows + 1)
		if rnd.Intn(8) == 0 || cornerEmptyKey && rnd.Intn(2) == 0 {
			n = rnd.Intn(2) // empty and single row tables (key() becomes possible)
		}
		uniq := -1
		if rnd.Intn(2) == 0 {
			uniq = rnd.Intn(len(sh.cols)) // make one column unique so a 1-column key exists
		}
		seen := map[string]bool{}
		for tries := 0; len(t.Rows) < n && tries < 100; tries++ {
			row := make([]Val, len(sh.cols))
			for i, c := range sh.cols {
				d := s.dom[c]
				row[i] = d[rnd.Intn(len(d))]
			}
			k := fmt.Sprint(row)
			if uniq >= 0 {
				uk := fmt.Sprint("u", row[uniq])
				if seen[uk] {
					continue
				}
				seen[uk] = true
			}
			if seen[k] {
				continue
			}
			seen[k] = true
			t.Rows = append(t.Rows, row)
		}
		km := map[string]Kind{}
		for _, c := range sh.cols {
			var k Kind
			for _, v := range s.dom[c] {
				k |= kindOf(v)
			}
			km[c] = k
		}
		s.kinds[sh.name] = km
		s.Tables = append(s.Tables, t)
	}
	if cornerWide {
		s.addWide(rnd)
	}
	return s
}

// wideShape: the table of the "wide" profile: five columns, so that keys and indexes of four
// and five columns exist (composite index ranges over more than three columns); shares columns
// with t1 (a, b), t2 (d, e) and t4 (d, f). Its rows are drawn from two or three values per
// column, so that many rows agree on the leading columns of any index and differ later.
var wideShape = struct {
	name string
	cols []string
}{"t5", []string{"a", "b", "d", "e", "f"}}

func (s *Scenario) addWide(rnd *rand.Rand) {
	sh := wideShape
	t := &Table{Name: sh.name, Cols: sh.cols}
	sub := make([][]Val, len(sh.cols))
	for i, c := range sh.cols {
		d := s.dom[c]
		p := rnd.Perm(len(d))
		n := 2 + rnd.Intn(2)
		if i == rnd.Intn(len(sh.cols)) {
			n = len(d)
		}
		for _, j := range p[:min(n, len(d))] {
			sub[i] = append(sub[i], d[j])
		}
	}
	n := 6 + rnd.Intn(9)
	seen := map[string]bool{}
	for tries := 0; len(t.Rows) < n && tries < 200; tries++ {
		row := make([]Val, len(sh.cols))
		for i := range sh.cols {
			row[i] = sub[i][rnd.Intn(len(sub[i]))]
		}
		if k := fmt.Sprint(row); !seen[k] {
			seen[k] = true
			t.Rows = append(t.Rows, row)
		}
	}
	km := map[string]Kind{}
	for _, c := range sh.cols {
		var k Kind
		for _, v := range s.dom[c] {
			k |= kindOf(v)
		}
		km[c] = k
	}
	s.kinds[sh.name] = km
	s.Tables = append(s.Tables, t)
}

// Corner profiles (off in the core profile, see checks/C22.py):
//   cornerEmptyKey: tables with at most one row may be declared with the empty key "key()"
//   cornerWhole:    the whole-row min/max summarize may appear below other operators
//   cornerWide:     an additional five column table t5 and mostly wheres that constrain the
//                   columns of a composite index one by one (Gen.spanWhere)
var cornerEmptyKey, cornerWhole, cornerWide bool

// candidate keys: minimal column subsets that are unique in the data
func (t *Table) candidateKeys() [][]string {
	keys := t.candidateKeys0()
	if len(keys) == 1 && len(keys[0]) == 0 && !cornerEmptyKey {
		// at most one row: every single column is a key
		keys = nil
		for _, c := range t.Cols {
			keys = append(keys, []string{c})
		}
	}
	return keys
}

func (t *Table) candidateKeys0() [][]string {
	n := len(t.Cols)
	var keys [][]int
	var res [][]string
	for size := 0; size <= n; size++ {
		for mask := 0; mask < 1<<n; mask++ {
			var idx []int
			for i := 0; i < n; i++ {
				if mask&(1<<i) != 0 {
					idx = append(idx, i)
				}
			}
			if len(idx) != size {
				continue
			}
			super := false
			for _, k := range keys {
				all := true
				for _, i := range k {
					if mask&(1<<i) == 0 {
						all = false
					}
				}
				if all {
					super = true
				}
			}
			if super {
				continue
			}
			seen := map[string]bool{}
			uniq := true
			for _, r := range t.Rows {
				var kv []Val
				for _, i := range idx {
					kv = append(kv, r[i])
				}
				s := fmt.Sprint(kv)
				if seen[s] {
					uniq = false
					break
				}
				seen[s] = true
			}
			if uniq {
				keys = append(keys, idx)
				var cs []string
				for _, i := range idx {
					cs = append(cs, t.Cols[i])
				}
				res = append(res, cs)
			}
		}
	}
	return res
}

// Schema is one physical configuration of a table
type Schema struct {
	Keys    [][]string
	Indexes [][]string
}

func (sc Schema) String() string {
	var sb strings.Builder
	for _, k := range sc.Keys {
		sb.WriteString(" key(" + strings.Join(k, ",") + ")")
	}
	for _, ix := range sc.Indexes {
		sb.WriteString(" index(" + strings.Join(ix, ",") + ")")
	}
	return sb.String()
}

func shuffled(rnd *rand.Rand, s []string) []string {
	r := append([]string{}, s...)
	rnd.Shuffle(len(r), func(i, j int) { r[i], r[j] = r[j], r[i] })
	return r
}

// genSchema picks keys (from the candidate keys, possibly widened) and extra indexes.
// must: keys that have to be present
func genSchema(rnd *rand.Rand, t *Table, must [][]string, want [][]string) Schema {
	cands := t.candidateKeys()
	var sc Schema
	has := func(list [][]string, x []string) bool {
		for _, y := range list {
			if strings.Join(y, ",") == strings.Join(x, ",") {
				return true
			}
		}
		return false
	}
	sc.Keys = append(sc.Keys, must...)
	if len(cands) == 1 && len(cands[0]) == 0 && len(must) == 0 && rnd.Intn(3) > 0 {
		// a singleton table: usually just key()
		sc.Keys = [][]string{{}}
		return sc
	}
	// (see below: access paths starting with the second column of a wanted index are avoided)
	var avoid1 []string
	for _, ix := range want {
		if len(ix) > 1 {
			avoid1 = append(avoid1, ix[1])
		}
	}
	var cands2 [][]string
	for _, k := range cands {
		if !(len(k) == 1 && contains(avoid1, k[0])) {
			cands2 = append(cands2, k)
		}
	}
	if len(cands2) > 0 {
		cands = cands2
	}
	nk := 1 + rnd.Intn(2)
	for i := 0; i < nk || len(sc.Keys) == 0; i++ {
		k := shuffled(rnd, cands[rnd.Intn(len(cands))])
		if rnd.Intn(4) == 0 { // widen the key with another column (still unique)
			for _, c := range shuffled(rnd, t.Cols) {
				if !contains(k, c) {
					k = append(k, c)
					break
				}
			}
		}
		if !has(sc.Keys, k) {
			sc.Keys = append(sc.Keys, k)
		}
	}
	// a wanted index (c1, c2) is there to tempt the optimizer into reading it for "sort c2":
	// keep other access paths that start with c2 out of the way where possible
	var avoid []string
	for _, ix := range want {
		if len(ix) > 1 {
			avoid = append(avoid, ix[1])
		}
	}
	var keys [][]string
	for _, k := range sc.Keys {
		if len(k) > 1 && contains(avoid, k[0]) {
			k = append([]string{}, k...)
			k[0], k[len(k)-1] = k[len(k)-1], k[0]
		}
		if !has(keys, k) {
			keys = append(keys, k)
		}
	}
	sc.Keys = keys
	for _, ix := range want {
		if !has(sc.Keys, ix) && !has(sc.Indexes, ix) {
			sc.Indexes = append(sc.Indexes, ix)
		}
	}
	ni := rnd.Intn(3)
	for i := 0; i < ni; i++ {
		ix := shuffled(rnd, t.Cols)[:1+rnd.Intn(min(2, len(t.Cols)))]
		if contains(avoid, ix[0]) {
			continue
		}
		if !has(sc.Keys, ix) && !has(sc.Indexes, ix) {
			sc.Indexes = append(sc.Indexes, ix)
		}
	}
	return sc
}

func contains(s []string, x string) bool {
	for _, y := range s {
		if y == x {
			return true
		}
	}
	return false
}

// ---------------------------------------------------------------- AST

type Ex struct {
	K  string // const col cmp and or not in arith if
	V  Val
	C  string
	O  string
	A  *Ex
	B  *Ex
	Cd *Ex
	Es []*Ex
	Vs []Val
}

type Q struct {
	Op    string
	Name  string
	Src   *Q
	L, R  *Q
	Def   *Q
	E     *Ex
	Cols  []string
	From  []string
	To    []string
	Exprs []*Ex
	By    []string
	Ops   []string
	Ons   []string
	Whole bool
	Rev   bool
	// names the user wrote for summarize outputs ("" = default name)
	SumNames []string
	ByAssert bool // render "by (...)" on joins

	cols  []string        // output columns
	kinds map[string]Kind // per output column
	// need: table -> key that must exist for this query's meaning (whole-row min/max)
	need map[string][]string
	// want: table -> index that every configuration should have (to steer the optimizer
	// towards an interesting plan; no influence on the meaning)
	want map[string][]string
}

func (q *Q) size() int {
	n := 1
	for _, s := range []*Q{q.Src, q.L, q.R, q.Def} {
		if s != nil {
			n += s.size()
		}
	}
	return n
}

func (q *Q) wants(m map[string][]string) {
	for t, k := range q.want {
		m[t] = k
	}
	for _, s := range []*Q{q.Src, q.L, q.R, q.Def} {
		if s != nil {
			s.wants(m)
		}
	}
}

// needs reports every (table, key) a node of q needs. One query can need several keys of the
// same table (two whole-row min/max summarizes on different columns of one table).
func (q *Q) needs(add func(table string, key []string)) {
	for t, k := range q.need {
		add(t, k)
	}
	for _, s := range []*Q{q.Src, q.L, q.R, q.Def} {
		if s != nil {
			s.needs(add)
		}
	}
}

// views returns the view nodes in q (inner first)
func (q *Q) views(list *[]*Q) {
	for _, s := range []*Q{q.Src, q.L, q.R, q.Def} {
		if s != nil {
			s.views(list)
		}
	}
	if q.Op == "view" {
		*list = append(*list, q)
	}
}

func (q *Q) tables(m map[string]bool) {
	if q.Op == "table" {
		m[q.Name] = true
	}
	for _, s := range []*Q{q.Src, q.L, q.R, q.Def} {
		if s != nil {
			s.tables(m)
		}
	}
}

// ---------------------------------------------------------------- generator

type Gen struct {
	rnd    *rand.Rand
	sc     *Scenario
	nview  *int
	nfresh int
	// options
	noViews bool
	// one wanted index per table and scenario (several would get in each other's way)
	wantOf map[string][]string
	// C24: the keys of the tables as created (the database exists before the statements)
	keysOf map[string][][]string
}

var colPool = []string{"a", "b", "c", "d", "e", "f", "x", "y", "z"}

func (g *Gen) fresh(used []string) string {
	// prefer names from the pool (creates accidental compatibility), else numbered
	p := g.rnd.Perm(len(colPool))
	for _, i := range p {
		if !contains(used, colPool[i]) {
			return colPool[i]
		}
	}
	g.nfresh++
	return fmt.Sprintf("w%d", g.nfresh)
}

func (g *Gen) tableQ(name string) *Q {
	t := g.sc.table(name)
	q := &Q{Op: "table", Name: name, cols: append([]string{}, t.Cols...), kinds: map[string]Kind{}}
	for c, k := range g.sc.kinds[name] {
		q.kinds[c] = k
	}
	return q
}

func (g *Gen) anyTable() *Q {
	return g.tableQ(g.sc.Tables[g.rnd.Intn(len(g.sc.Tables))].Name)
}

func copyKinds(m map[string]Kind) map[string]Kind {
	r := make(map[string]Kind, len(m))
	for k, v := range m {
		r[k] = v
	}
	return r
}

func (g *Gen) subset(cols []string, min, max int) []string {
	if max > len(cols) {
		max = len(cols)
	}
	if min > max {
		min = max
	}
	n := min + g.rnd.Intn(max-min+1)
	return shuffled(g.rnd, cols)[:n]
}

// constant of a kind compatible with k (mostly), from the scenario's domains
func (g *Gen) constFor(k Kind) Val {
	var cands []Val
	for _, c := range colPool { // (fixed order: runs with the same seed are identical)
		for _, v := range g.sc.dom[c] {
			if kindOf(v)&k != 0 {
				cands = append(cands, v)
			}
		}
	}
	if k&kN != 0 {
		cands = append(cands, vNum(g.rnd.Intn(5)-1), vNum(6))
	}
	if k&kB != 0 {
		cands = append(cands, vTrue, vFalse)
	}
	if k&kS != 0 {
		cands = append(cands, vStr(1+g.rnd.Intn(len(strs)-1)))
	}
	if k&kF != 0 {
		cands = append(cands, Val{2, 1, 2}, Val{2, 3, 2}, vNum(1), vNum(2))
	}
	if len(cands) == 0 || g.rnd.Intn(12) == 0 {
		// any value (type mismatch is legal for equality)
		all := []Val{vEmpty, vTrue, vNum(1), vStr(2)}
		return all[g.rnd.Intn(len(all))]
	}
	return cands[g.rnd.Intn(len(cands))]
}

var rangeOps = []string{"lt", "lte", "gt", "gte"}

func (g *Gen) genCmp(cols []string, kinds map[string]Kind) *Ex {
	c := cols[g.rnd.Intn(len(cols))]
	kc := kinds[c]
	var rhs *Ex
	var kr Kind
	if g.rnd.Intn(5) == 0 && len(cols) > 1 {
		c2 := cols[g.rnd.Intn(len(cols))]
		rhs, kr = &Ex{K: "col", C: c2}, kinds[c2]
	} else {
		v := g.constFor(kc)
		rhs, kr = &Ex{K: "const", V: v}, kindOf(v)
	}
	op := "is"
	switch r := g.rnd.Intn(10); {
	case r < 4:
		op = "is"
	case r < 5:
		op = "isnt"
	default:
		op = rangeOps[g.rnd.Intn(4)]
	}
	if op != "is" && op != "isnt" && ambiguous(kc, kr) {
		op = "is"
		if g.rnd.Intn(3) == 0 {
			op = "isnt"
		}
	}
	lhs := &Ex{K: "col", C: c}
	if rhs.K == "const" && g.rnd.Intn(6) == 0 {
		// constant on the left
		flip := map[string]string{"is": "is", "isnt": "isnt", "lt": "gt", "lte": "gte", "gt": "lt", "gte": "lte"}
		return &Ex{K: "cmp", O: flip[op], A: rhs, B: lhs}
	}
	return &Ex{K: "cmp", O: op, A: lhs, B: rhs}
}

func (g *Gen) genBool(cols []string, kinds map[string]Kind, depth int) *Ex {
	if len(cols) == 0 {
		return &Ex{K: "const", V: vTrue}
	}
	r := g.rnd.Intn(100)
	switch {
	case depth > 0 && r < 22:
		n := 2 + g.rnd.Intn(2)
		e := &Ex{K: "and"}
		for i := 0; i < n; i++ {
			e.Es = append(e.Es, g.genBool(cols, kinds, depth-1))
		}
		return e
	case depth > 0 && r < 32:
		n := 2 + g.rnd.Intn(2)
		e := &Ex{K: "or"}
		for i := 0; i < n; i++ {
			e.Es = append(e.Es, g.genBool(cols, kinds, depth-1))
		}
		return e
	case depth > 0 && r < 38:
		return &Ex{K: "not", A: g.genBool(cols, kinds, depth-1)}
	case r < 50:
		c := cols[g.rnd.Intn(len(cols))]
		e := &Ex{K: "in", A: &Ex{K: "col", C: c}}
		n := 1 + g.rnd.Intn(3)
		for i := 0; i < n; i++ {
			e.Vs = append(e.Vs, g.constFor(kinds[c]))
		}
		return e
	case r < 53:
		// a boolean column used directly
		for _, c := range shuffled(g.rnd, cols) {
			if kinds[c] == kB {
				return &Ex{K: "col", C: c}
			}
		}
	case r < 55:
		if g.rnd.Intn(2) == 0 {
			return &Ex{K: "const", V: vTrue}
		}
		return &Ex{K: "const", V: vFalse}
	case r < 62:
		// range on one column: lo <= c and c < hi
		c := cols[g.rnd.Intn(len(cols))]
		lo, hi := g.constFor(kinds[c]), g.constFor(kinds[c])
		if !ambiguous(kinds[c], kindOf(lo)) && !ambiguous(kinds[c], kindOf(hi)) {
			return &Ex{K: "and", Es: []*Ex{
				{K: "cmp", O: []string{"gte", "gt"}[g.rnd.Intn(2)], A: &Ex{K: "col", C: c}, B: &Ex{K: "const", V: lo}},
				{K: "cmp", O: []string{"lte", "lt"}[g.rnd.Intn(2)], A: &Ex{K: "col", C: c}, B: &Ex{K: "const", V: hi}}}}
		}
	}
	return g.genCmp(cols, kinds)
}

// genVal: value expression for extend / update set
func (g *Gen) genVal(cols []string, kinds map[string]Kind, depth int) (*Ex, Kind) {
	r := g.rnd.Intn(100)
	var num []string
	for _, c := range cols {
		if arithable(kinds[c]) {
			num = append(num, c)
		}
	}
	switch {
	case r < 30:
		all := []Val{vEmpty, vTrue, vFalse, vNum(0), vNum(1), vNum(2), vNum(5), vStr(1 + g.rnd.Intn(len(strs)-1))}
		v := all[g.rnd.Intn(len(all))]
		return &Ex{K: "const", V: v}, kindOf(v)
	case r < 50 && len(cols) > 0:
		c := cols[g.rnd.Intn(len(cols))]
		return &Ex{K: "col", C: c}, kinds[c]
	case r < 75 && len(num) > 0:
		c := num[g.rnd.Intn(len(num))]
		var b *Ex
		if g.rnd.Intn(3) == 0 {
			b = &Ex{K: "col", C: num[g.rnd.Intn(len(num))]}
		} else {
			b = &Ex{K: "const", V: vNum(g.rnd.Intn(4))}
		}
		op := []string{"add", "add", "sub", "mul"}[g.rnd.Intn(4)]
		if op == "mul" && b.K == "col" {
			op = "add" // keep repeated updates far away from TLC's 32-bit integers
		}
		a := &Ex{K: "col", C: c}
		if g.rnd.Intn(5) == 0 {
			a, b = b, a
		}
		return &Ex{K: "arith", O: op, A: a, B: b}, kN
	case r < 88 && len(cols) > 0:
		return g.genBool(cols, kinds, depth), kB
	case depth > 0 && len(cols) > 0:
		a, ka := g.genVal(cols, kinds, depth-1)
		b, kb := g.genVal(cols, kinds, depth-1)
		return &Ex{K: "if", Cd: g.genBool(cols, kinds, 0), A: a, B: b}, ka | kb
	}
	v := vNum(g.rnd.Intn(3))
	return &Ex{K: "const", V: v}, kN
}

// whereOn: a where whose comparisons are on the given columns (a subset of src's)
func (g *Gen) whereOn(src *Q, cols []string) *Q {
	kinds := map[string]Kind{}
	for _, c := range cols {
		kinds[c] = src.kinds[c]
	}
	return &Q{Op: "where", Src: src, E: g.genBool(cols, kinds, 1), cols: src.cols, kinds: src.kinds}
}

// fixOn: a where that fixes column c to one or two constants (feeds the Fixed machinery:
// copying of fixed values across joins / intersect / minus, disjoint unions, conflicts)
func (g *Gen) fixOn(src *Q, c string) *Q {
	// values that occur in the data when the source is a table (non-empty results)
	val := func() Val {
		if src.Op == "table" && g.rnd.Intn(4) > 0 {
			t := g.sc.table(src.Name)
			for i, tc := range t.Cols {
				if tc == c && len(t.Rows) > 0 {
					return t.Rows[g.rnd.Intn(len(t.Rows))][i]
				}
			}
		}
		return g.constFor(src.kinds[c])
	}
	var e *Ex
	if g.rnd.Intn(3) == 0 {
		e = &Ex{K: "in", A: &Ex{K: "col", C: c}, Vs: []Val{val(), val()}}
	} else {
		e = &Ex{K: "cmp", O: "is", A: &Ex{K: "col", C: c}, B: &Ex{K: "const", V: val()}}
	}
	return &Q{Op: "where", Src: src, E: e, cols: src.cols, kinds: src.kinds}
}

func (g *Gen) where(src *Q) *Q {
	return &Q{Op: "where", Src: src, E: g.genBool(src.cols, src.kinds, 2), cols: src.cols, kinds: src.kinds}
}

func (g *Gen) project(src *Q, cols []string) *Q {
	q := &Q{Op: "project", Src: src, Cols: cols, cols: cols, kinds: map[string]Kind{}}
	for _, c := range cols {
		q.kinds[c] = src.kinds[c]
	}
	return q
}

func (g *Gen) remove(src *Q, rm []string) *Q {
	q := &Q{Op: "remove", Src: src, Cols: rm, kinds: map[string]Kind{}}
	for _, c := range src.cols {
		if !contains(rm, c) {
			q.cols = append(q.cols, c)
			q.kinds[c] = src.kinds[c]
		}
	}
	return q
}

func (g *Gen) rename(src *Q, from, to []string) *Q {
	q := &Q{Op: "rename", Src: src, From: from, To: to, kinds: map[string]Kind{}}
	cols := append([]string{}, src.cols...)
	kinds := copyKinds(src.kinds)
	for i := range from {
		for j := range cols {
			if cols[j] == from[i] {
				cols[j] = to[i]
			}
		}
		kinds[to[i]] = kinds[from[i]]
		delete(kinds, from[i])
	}
	q.cols, q.kinds = cols, kinds
	return q
}

func (g *Gen) extend(src *Q, n int, constOnly bool) *Q {
	q := &Q{Op: "extend", Src: src, cols: append([]string{}, src.cols...), kinds: copyKinds(src.kinds)}
	for i := 0; i < n; i++ {
		name := g.fresh(q.cols)
		var e *Ex
		var k Kind
		if constOnly {
			v := []Val{vNum(2), vStr(2), vEmpty, vTrue}[g.rnd.Intn(4)]
			e, k = &Ex{K: "const", V: v}, kindOf(v)
		} else {
			e, k = g.genVal(q.cols, q.kinds, 1)
		}
		q.Cols = append(q.Cols, name)
		q.Exprs = append(q.Exprs, e)
		q.cols = append(q.cols, name)
		q.kinds[name] = k
	}
	return q
}

func defaultSumName(op, on string) string {
	if op == "count" {
		return "count"
	}
	return op + "_" + on
}

func (g *Gen) summarize(src *Q) *Q {
	q := &Q{Op: "summarize", Src: src, kinds: map[string]Kind{}}
	nby := 0
	switch r := g.rnd.Intn(10); {
	case r < 3:
		nby = 0
	case r < 8:
		nby = 1
	default:
		nby = 2
	}
	// a by column called like a summarize function cannot be written (parsed as the function)
	var byable []string
	for _, c := range src.cols {
		if c != "count" {
			byable = append(byable, c)
		}
	}
	q.By = g.subset(byable, nby, nby)
	var rest []string
	for _, c := range src.cols {
		if !contains(q.By, c) {
			rest = append(rest, c)
		}
	}
	nops := 1 + g.rnd.Intn(3)
	used := append([]string{}, q.By...)
	for i := 0; i < nops; i++ {
		op := []string{"count", "total", "average", "min", "max", "min", "max"}[g.rnd.Intn(7)]
		on := ""
		var k Kind = kN
		if op != "count" {
			if len(rest) == 0 {
				op = "count"
			} else {
				on = rest[g.rnd.Intn(len(rest))]
				k = src.kinds[on]
				if op == "total" || op == "average" {
					if !summable(src.kinds[on]) {
						op = []string{"min", "max"}[g.rnd.Intn(2)]
					} else if op == "total" {
						k = kN
					} else {
						k = kN | kF
					}
				}
			}
		}
		name := ""
		out := defaultSumName(op, on)
		shadow := false
		if g.rnd.Intn(4) == 0 {
			name = g.fresh(append(append([]string{}, used...), src.cols...))
			if g.rnd.Intn(3) == 0 && len(rest) > 0 {
				// legal and nasty: an output named like a source column that is neither a by
				// nor an on column
				name = rest[g.rnd.Intn(len(rest))]
				shadow = true
			}
			out = name
		}
		// output names must not clash with by, other outputs, or any on column
		if contains(used, out) || (!shadow && contains(rest, out)) || contains(q.Ons, out) || out == on {
			continue
		}
		clash := false
		for _, o := range q.Cols {
			if o == on {
				clash = true
			}
		}
		if clash {
			continue
		}
		used = append(used, out)
		q.SumNames = append(q.SumNames, name)
		q.Cols = append(q.Cols, out)
		q.Ops = append(q.Ops, op)
		q.Ons = append(q.Ons, on)
		q.kinds[out] = k
	}
	if len(q.Cols) == 0 || (len(q.By) == 0 && len(q.Ops) == 1 && (q.Ops[0] == "min" || q.Ops[0] == "max")) {
		// a single overall min/max returns the whole row when the column is a key:
		// that corner is generated separately (sumWhole); here add a count
		if !contains(used, "count") && !contains(rest, "count") {
			q.SumNames = append(q.SumNames, "")
			q.Cols = append(q.Cols, "count")
			q.Ops = append(q.Ops, "count")
			q.Ons = append(q.Ons, "")
			q.kinds["count"] = kN
		} else {
			return g.where(src)
		}
	}
	q.cols = append(append([]string{}, q.By...), q.Cols...)
	for _, c := range q.By {
		q.kinds[c] = src.kinds[c]
	}
	return q
}

// sumWhole: "<table> [where] summarize min|max k" with k a key of the table in every
// configuration: the result is the whole row plus the min/max column (documented special case)
func (g *Gen) sumWhole() *Q {
	for try := 0; try < 10; try++ {
		t := g.sc.Tables[g.rnd.Intn(len(g.sc.Tables))]
		var single []string
		for _, k := range t.candidateKeys() {
			if len(k) == 1 {
				single = append(single, k[0])
			}
		}
		if len(single) == 0 {
			continue
		}
		on := single[g.rnd.Intn(len(single))]
		src := g.tableQ(t.Name)
		src.need = map[string][]string{t.Name: {on}}
		var s *Q = src
		if g.rnd.Intn(2) == 0 {
			s = g.where(src)
		}
		op := []string{"min", "max"}[g.rnd.Intn(2)]
		out := op + "_" + on
		q := &Q{Op: "summarize", Src: s, Whole: true, Cols: []string{out}, Ops: []string{op}, Ons: []string{on},
			SumNames: []string{""}, kinds: copyKinds(s.kinds)}
		q.cols = append(append([]string{}, s.cols...), out)
		q.kinds[out] = s.kinds[on]
		return q
	}
	return nil
}

// --- binary operators: adapt the right side to what the operator requires

func common(a, b []string) []string {
	var r []string
	for _, c := range a {
		if contains(b, c) {
			r = append(r, c)
		}
	}
	return r
}

// makeCommon returns r adapted so that it shares at least one column with l
func (g *Gen) makeCommon(l, r *Q) *Q {
	if len(common(l.cols, r.cols)) > 0 {
		return r
	}
	c1 := l.cols[g.rnd.Intn(len(l.cols))]
	c2 := r.cols[g.rnd.Intn(len(r.cols))]
	return g.rename(r, []string{c2}, []string{c1})
}

// makeDisjoint returns r adapted so that it shares no column with l
func (g *Gen) makeDisjoint(l, r *Q) *Q {
	com := common(r.cols, l.cols)
	if len(com) == 0 {
		return r
	}
	if len(com) < len(r.cols) && g.rnd.Intn(2) == 0 {
		return g.remove(r, com)
	}
	used := append(append([]string{}, l.cols...), r.cols...)
	var to []string
	for range com {
		n := g.fresh(used)
		used = append(used, n)
		to = append(to, n)
	}
	return g.rename(r, com, to)
}

// makeDiff: union / intersect / minus compare all columns of both sources, a column one source
// lacks counts as "". Starting from two sources with the same columns, give ONE side (either)
// a column the other lacks, often fixed by where/extend to "" or to a set containing "" -
// then the sources are not disjoint although a fixed column exists on one side only.
func (g *Gen) makeDiff(l, r *Q) (*Q, *Q) {
	side, other := &r, &l
	if g.rnd.Intn(2) == 0 {
		side, other = &l, &r
	}
	emptyish := func(k Kind) []Val { // value sets containing ""
		v := g.constFor(k)
		switch g.rnd.Intn(4) {
		case 0:
			return []Val{vEmpty, v}
		case 1:
			return []Val{v, vEmpty}
		}
		return []Val{vEmpty}
	}
	if len((*other).cols) >= 2 && g.rnd.Intn(2) == 0 {
		// drop a column (preferably one that can be "") from the other side ...
		cols := shuffled(g.rnd, (*other).cols)
		c := cols[0]
		for _, x := range cols {
			if (*other).kinds[x]&kE != 0 {
				c = x
				break
			}
		}
		*other = g.remove(*other, []string{c})
		// ... and fix it on this side
		s := *side
		switch g.rnd.Intn(4) {
		case 0: // not fixed
		case 1: // fixed to a non-empty value: really disjoint
			*side = g.fixOn(s, c)
		default:
			vs := emptyish(s.kinds[c])
			var e *Ex
			if len(vs) == 1 {
				e = &Ex{K: "cmp", O: "is", A: &Ex{K: "col", C: c}, B: &Ex{K: "const", V: vs[0]}}
			} else {
				e = &Ex{K: "in", A: &Ex{K: "col", C: c}, Vs: vs}
			}
			*side = &Q{Op: "where", Src: s, E: e, cols: s.cols, kinds: s.kinds}
		}
		return l, r
	}
	// a new column on this side, computed by extend
	s := *side
	name := g.fresh(append(append([]string{}, l.cols...), r.cols...))
	v := vEmpty
	if g.rnd.Intn(4) == 0 {
		v = g.constFor(kN | kS)
	}
	e := &Q{Op: "extend", Src: s, Cols: []string{name}, Exprs: []*Ex{{K: "const", V: v}},
		cols: append(append([]string{}, s.cols...), name), kinds: copyKinds(s.kinds)}
	e.kinds[name] = kindOf(v)
	*side = e
	if g.rnd.Intn(3) == 0 {
		// and a where on top (fixed by where instead of only by extend)
		vs := emptyish(kindOf(v) | kE)
		*side = &Q{Op: "where", Src: e, E: &Ex{K: "in", A: &Ex{K: "col", C: name}, Vs: vs}, cols: e.cols, kinds: e.kinds}
	}
	return l, r
}

// diffSetOp: a union (mostly) / intersect / minus, as the whole query, of two simple sources of
// which one lacks a column the other has (with real, mostly non-empty values): Select and
// Lookup values for that column conflict with the source that lacks it
func (g *Gen) diffSetOp() *Q {
	simple := func() *Q {
		q := g.anyTable()
		if g.rnd.Intn(3) == 0 {
			q = g.where(q)
		}
		return q
	}
	l := simple()
	r := g.makeSame(l, simple())
	if len(l.cols) < 2 {
		return g.binary("union", l, r)
	}
	c := l.cols[g.rnd.Intn(len(l.cols))]
	// an index on a shared column in both tables, so the union can be read in order (merge)
	// without a temp index
	if g.wantOf == nil {
		g.wantOf = map[string][]string{}
	}
	for _, side := range []*Q{l, r} {
		t := side
		for t.Op == "where" {
			t = t.Src
		}
		if t.Op == "table" && g.wantOf[t.Name] == nil {
			var shared []string
			for _, x := range t.cols {
				if x != c && contains(l.cols, x) && contains(r.cols, x) {
					shared = append(shared, x)
				}
			}
			if len(shared) >= 2 {
				sh := shuffled(g.rnd, shared)
				g.wantOf[t.Name] = sh[:2]
				t.want = map[string][]string{t.Name: sh[:2]}
			}
		}
	}
	if g.rnd.Intn(2) == 0 {
		l = g.remove(l, []string{c})
	} else {
		r = g.remove(r, []string{c})
	}
	op := []string{"union", "union", "union", "intersect", "minus"}[g.rnd.Intn(5)]
	return g.binary(op, l, r)
}

// makeSame returns r adapted to have exactly the columns of l
func (g *Gen) makeSame(l, r *Q) *Q {
	var missing, surplus []string
	for _, c := range l.cols {
		if !contains(r.cols, c) {
			missing = append(missing, c)
		}
	}
	for _, c := range r.cols {
		if !contains(l.cols, c) {
			surplus = append(surplus, c)
		}
	}
	var from, to []string
	for len(missing) > 0 && len(surplus) > 0 {
		from = append(from, surplus[0])
		to = append(to, missing[0])
		missing, surplus = missing[1:], surplus[1:]
	}
	if len(from) > 0 {
		r = g.rename(r, from, to)
	}
	if len(missing) > 0 {
		e := &Q{Op: "extend", Src: r, cols: append([]string{}, r.cols...), kinds: copyKinds(r.kinds)}
		for _, c := range missing {
			v := g.constFor(l.kinds[c])
			e.Cols = append(e.Cols, c)
			e.Exprs = append(e.Exprs, &Ex{K: "const", V: v})
			e.cols = append(e.cols, c)
			e.kinds[c] = kindOf(v)
		}
		r = e
	}
	if len(surplus) > 0 {
		if g.rnd.Intn(2) == 0 {
			r = g.project(r, shuffled(g.rnd, l.cols))
		} else {
			r = g.remove(r, surplus)
		}
	}
	return r
}

func (g *Gen) binary(op string, l, r *Q) *Q {
	q := &Q{Op: op, L: l, R: r, kinds: map[string]Kind{}}
	switch op {
	case "join", "leftjoin", "times", "union":
		q.cols = append([]string{}, l.cols...)
		for _, c := range r.cols {
			if !contains(q.cols, c) {
				q.cols = append(q.cols, c)
			}
		}
		for _, c := range q.cols {
			kl, inl := l.kinds[c]
			kr, inr := r.kinds[c]
			k := kl | kr
			if op == "join" && inl && inr {
				k = kl | kr // values that match are in both, the union is a safe over-approximation
			}
			if op == "leftjoin" && !inl {
				k |= kE
			}
			if op == "union" && (!inl || !inr) {
				k |= kE
			}
			q.kinds[c] = k
		}
		q.ByAssert = (op == "join" || op == "leftjoin") && g.rnd.Intn(4) == 0
	case "intersect": // the common columns of rows of the left side
		q.cols = common(l.cols, r.cols)
		for _, c := range q.cols {
			q.kinds[c] = l.kinds[c]
		}
	default: // semijoin minus: rows of the left side
		q.cols = l.cols
		q.kinds = l.kinds
	}
	return q
}

var unaryOps = []string{"where", "where", "where", "project", "project", "remove", "rename", "extend", "extend", "summarize", "summarize", "f10"}
var binaryOps = []string{"join", "join", "leftjoin", "leftjoin", "semijoin", "times", "union", "union", "intersect", "minus"}

func (g *Gen) unary(src *Q) *Q {
	op := unaryOps[g.rnd.Intn(len(unaryOps))]
	switch op {
	case "where":
		return g.where(src)
	case "project":
		return g.project(src, g.subset(src.cols, 1, len(src.cols)))
	case "remove":
		if len(src.cols) < 2 {
			return g.where(src)
		}
		return g.remove(src, g.subset(src.cols, 1, len(src.cols)-1))
	case "rename":
		n := 1 + g.rnd.Intn(min(2, len(src.cols)))
		from := g.subset(src.cols, n, n)
		used := append([]string{}, src.cols...)
		var to []string
		for range from {
			t := g.fresh(used)
			used = append(used, t)
			to = append(to, t)
		}
		if n == 1 && g.rnd.Intn(4) == 0 {
			// chained: a to t, t to u
			u := g.fresh(used)
			from = append(from, to[0])
			to = append(to, u)
		}
		return g.rename(src, from, to)
	case "extend":
		return g.extend(src, 1+g.rnd.Intn(2), false)
	case "summarize":
		return g.summarize(src)
	case "f10":
		// project onto columns an extend computes from constants only
		e := g.extend(src, 1+g.rnd.Intn(2), true)
		return g.project(e, g.subset(e.Cols, 1, len(e.Cols)))
	}
	panic(op)
}

// gen generates a query of nesting depth <= d (without sort)
func (g *Gen) gen(d int) *Q {
	if d <= 0 {
		return g.anyTable()
	}
	var q *Q
	switch r := g.rnd.Intn(100); {
	case r < 55:
		q = g.unary(g.gen(d - 1))
	case r < 58 || cornerWhole && r < 70:
		if !cornerWhole {
			q = g.anyTable()
		} else if q = g.sumWhole(); q == nil {
			q = g.anyTable()
		}
	default:
		l := g.gen(d - 1)
		r := g.gen(g.rnd.Intn(d))
		if g.rnd.Intn(2) == 0 {
			l, r = r, l
		}
		op := binaryOps[g.rnd.Intn(len(binaryOps))]
		switch op {
		case "join", "leftjoin", "semijoin":
			r = g.makeCommon(l, r)
		case "times":
			r = g.makeDisjoint(l, r)
		default:
			r = g.makeSame(l, r)
			if g.rnd.Intn(4) == 0 {
				l, r = g.makeDiff(l, r)
			}
		}
		if com := common(l.cols, r.cols); len(com) > 0 && g.rnd.Intn(4) == 0 {
			// fixed values on a common column, on one or both sides
			c := com[g.rnd.Intn(len(com))]
			switch g.rnd.Intn(3) {
			case 0:
				l = g.fixOn(l, c)
			case 1:
				r = g.fixOn(r, c)
			default:
				l, r = g.fixOn(l, c), g.fixOn(r, c)
			}
		}
		q = g.binary(op, l, r)
		switch x := g.rnd.Intn(10); {
		case x < 3:
			// a where on columns of one side only (Transform pushes it into that side,
			// or - leftjoin - must not)
			var only []string
			side := r
			if g.rnd.Intn(3) == 0 {
				side = l
			}
			other := l
			if side == l {
				other = r
			}
			for _, c := range side.cols {
				if !contains(other.cols, c) && contains(q.cols, c) {
					only = append(only, c)
				}
			}
			if len(only) > 0 {
				q = g.whereOn(q, only)
			}
		case x < 4 && len(q.cols) > 1:
			// a project that keeps only some of the common (join) columns
			q = g.project(q, g.subset(q.cols, 1, len(q.cols)-1))
		}
	}
	if !g.noViews && g.rnd.Intn(12) == 0 && q.Op != "table" {
		*g.nview++
		q = &Q{Op: "view", Name: fmt.Sprintf("vw%d", *g.nview), Def: q, cols: q.cols, kinds: q.kinds}
	}
	return q
}

// fixedOrder: "<table> where c1 in (v1, v2) [where ...] sort c2" with an index (c1, c2) in every
// configuration: an index whose leading column is fixed to SEVERAL values does not give the
// order of the next column
func (g *Gen) fixedOrder() *Q {
	t := g.sc.Tables[g.rnd.Intn(len(g.sc.Tables))]
	for try := 0; try < 5 && len(t.Rows) < 3; try++ {
		t = g.sc.Tables[g.rnd.Intn(len(g.sc.Tables))]
	}
	cols := shuffled(g.rnd, t.Cols)
	// c2: preferably a column that is not unique (so it cannot be a key on its own)
	single := map[string]bool{}
	for _, k := range t.candidateKeys() {
		if len(k) == 1 {
			single[k[0]] = true
		}
	}
	for i, c := range cols {
		if !single[c] {
			cols[0], cols[i] = cols[i], cols[0]
			break
		}
	}
	c2, c1 := cols[0], cols[1]
	if g.wantOf == nil {
		g.wantOf = map[string][]string{}
	}
	if w := g.wantOf[t.Name]; w != nil {
		c1, c2 = w[0], w[1]
	} else {
		g.wantOf[t.Name] = []string{c1, c2}
	}
	src := g.tableQ(t.Name)
	src.want = map[string][]string{t.Name: {c1, c2}}
	// several DISTINCT values of c1, taken from the data where possible
	i1 := 0
	for i, c := range t.Cols {
		if c == c1 {
			i1 = i
		}
	}
	var vs []Val
	for _, ri := range g.rnd.Perm(len(t.Rows)) {
		v := t.Rows[ri][i1]
		dup := false
		for _, x := range vs {
			dup = dup || x == v
		}
		if !dup && len(vs) < 3 {
			vs = append(vs, v)
		}
	}
	for len(vs) < 2 {
		d := g.sc.dom[c1]
		vs = append(vs, d[g.rnd.Intn(len(d))])
	}
	var q *Q = &Q{Op: "where", Src: src, E: &Ex{K: "in", A: &Ex{K: "col", C: c1}, Vs: vs}, cols: src.cols, kinds: src.kinds}
	if g.rnd.Intn(3) == 0 {
		q = g.where(q)
	}
	if g.rnd.Intn(4) == 0 {
		q = g.extend(q, 1, false)
	}
	return &Q{Op: "sort", Src: q, Rev: g.rnd.Intn(3) == 0, Cols: []string{c2}, cols: q.cols, kinds: q.kinds}
}

// spanWhere: "<table> where c1 is v1 and c2 in (v2, w2) and c3 is v3 and c4 in (...) ..." where
// (c1, c2, ...) is an index every configuration has (all or all but one of the table's columns in
// some order): each index column in turn is constrained to a point, to several points (in),
// to everything but a point (isnt), to a range, or left open - the where turns this into the
// cross product of the per-column spans (point lookups and ranges on the composite index). The
// values come from rows of the table, so that the ranges are not empty. On top sometimes another
// where, a sort on index columns, or a join / semijoin / intersect that passes its own Select
// or Lookup down to the where.
func (g *Gen) spanWhere() *Q {
	t := g.sc.Tables[len(g.sc.Tables)-1] // (wide profile: t5)
	if !cornerWide || g.rnd.Intn(5) == 0 || len(t.Rows) == 0 {
		for try := 0; try < 8; try++ {
			t = g.sc.Tables[g.rnd.Intn(len(g.sc.Tables))]
			if len(t.Rows) >= 3 {
				break
			}
		}
	}
	if len(t.Rows) == 0 {
		return g.gen(2)
	}
	if g.wantOf == nil {
		g.wantOf = map[string][]string{}
	}
	ix := g.wantOf[t.Name]
	if ix == nil {
		ix = shuffled(g.rnd, t.Cols)
		if len(ix) > 2 && g.rnd.Intn(3) == 0 {
			ix = ix[:len(ix)-1]
		}
		g.wantOf[t.Name] = ix
	}
	src := g.tableQ(t.Name)
	src.want = map[string][]string{t.Name: ix}
	at := func(c string) int {
		for i, tc := range t.Cols {
			if tc == c {
				return i
			}
		}
		panic("no column " + c)
	}
	r0 := t.Rows[g.rnd.Intn(len(t.Rows))]
	col := func(c string) *Ex { return &Ex{K: "col", C: c} }
	var terms []*Ex
	for _, c := range ix {
		i := at(c)
		k := src.kinds[c]
		some := func(n int) []Val { // r0's value and values of other rows / other constants
			vs := []Val{r0[i]}
			for tries := 0; len(vs) < n && tries < 20; tries++ {
				v := t.Rows[g.rnd.Intn(len(t.Rows))][i]
				if tries > 8 || g.rnd.Intn(6) == 0 {
					v = g.constFor(k)
				}
				dup := false
				for _, x := range vs {
					dup = dup || x == v
				}
				if !dup {
					vs = append(vs, v)
				}
			}
			g.rnd.Shuffle(len(vs), func(a, b int) { vs[a], vs[b] = vs[b], vs[a] })
			return vs
		}
		switch r := g.rnd.Intn(100); {
		case r < 40:
			terms = append(terms, &Ex{K: "in", A: col(c), Vs: some(2 + g.rnd.Intn(2))})
		case r < 75:
			terms = append(terms, &Ex{K: "cmp", O: "is", A: col(c), B: &Ex{K: "const", V: r0[i]}})
		case r < 83:
			terms = append(terms, &Ex{K: "cmp", O: "isnt", A: col(c), B: &Ex{K: "const", V: some(2)[0]}})
		case r < 93:
			vs := some(2)
			lo, hi := vs[0], vs[len(vs)-1]
			if hi.less(lo) {
				lo, hi = hi, lo
			}
			if ambiguous(k, kindOf(lo)) || ambiguous(k, kindOf(hi)) {
				terms = append(terms, &Ex{K: "in", A: col(c), Vs: vs})
				break
			}
			if g.rnd.Intn(2) == 0 {
				terms = append(terms, &Ex{K: "cmp", O: []string{"gte", "gt"}[g.rnd.Intn(2)], A: col(c), B: &Ex{K: "const", V: lo}})
			}
			if g.rnd.Intn(3) > 0 {
				terms = append(terms, &Ex{K: "cmp", O: []string{"lte", "lt"}[g.rnd.Intn(2)], A: col(c), B: &Ex{K: "const", V: hi}})
			}
		}
	}
	if len(terms) == 0 {
		terms = append(terms, &Ex{K: "cmp", O: "is", A: col(ix[0]), B: &Ex{K: "const", V: r0[at(ix[0])]}})
	}
	if g.rnd.Intn(2) == 0 {
		g.rnd.Shuffle(len(terms), func(a, b int) { terms[a], terms[b] = terms[b], terms[a] })
	}
	e := terms[0]
	if len(terms) > 1 {
		e = &Ex{K: "and", Es: terms}
	}
	var q *Q = &Q{Op: "where", Src: src, E: e, cols: src.cols, kinds: src.kinds}
	switch r := g.rnd.Intn(12); {
	case r < 2:
		q = g.where(q)
	case r < 4:
		// the other source's Select / Lookup (on the common columns) arrives at the where
		l := g.anyTable()
		for try := 0; try < 5 && l.Name == t.Name; try++ {
			l = g.anyTable()
		}
		op := []string{"join", "join", "leftjoin", "semijoin", "intersect"}[g.rnd.Intn(5)]
		if op == "intersect" {
			q = g.binary(op, l, g.makeSame(l, q))
		} else {
			q = g.binary(op, l, g.makeCommon(l, q))
		}
	case r < 5:
		q = g.project(q, g.subset(q.cols, 1, len(q.cols)))
	case r < 6:
		q = g.summarize(q)
	}
	if g.rnd.Intn(4) == 0 {
		n := 1 + g.rnd.Intn(len(ix))
		var by []string
		for _, c := range ix[g.rnd.Intn(len(ix)):] {
			if contains(q.cols, c) && len(by) < n {
				by = append(by, c)
			}
		}
		if len(by) > 0 {
			q = &Q{Op: "sort", Src: q, Rev: g.rnd.Intn(3) == 0, Cols: by, cols: q.cols, kinds: q.kinds}
		}
	}
	return q
}

// genTop: a query, possibly with a sort on top
func (g *Gen) genTop(d int) *Q {
	if cornerWide && g.rnd.Intn(3) > 0 {
		return g.spanWhere()
	}
	if g.rnd.Intn(30) == 0 {
		return g.fixedOrder()
	}
	if g.rnd.Intn(25) == 0 {
		// the documented use of the whole-row min/max: the whole query
		if q := g.sumWhole(); q != nil {
			return q
		}
	}
	q := g.gen(d)
	if g.rnd.Intn(5) == 0 {
		q = g.sortOf(q)
	}
	return q
}

func (g *Gen) sortOf(q *Q) *Q {
	return &Q{Op: "sort", Src: q, Rev: g.rnd.Intn(3) == 0, Cols: g.subset(q.cols, 1, 2), cols: q.cols, kinds: q.kinds}
}

func sortedCopy(s []string) []string {
	r := append([]string{}, s...)
	sort.Strings(r)
	return r
}
