// Driver for C22/C23/C24 (dbms/query): generates query ASTs, renders them, runs them on a
// real heap database through ParseQuery -> Setup*/Optimize+SetApproach -> Get/Select/Lookup
// (C22, C23) or DoAction (C24) and records an ndjson trace for TraceRelational.tla.
//
// usage: relational c22|c23|c24 <trace.ndjson> <nscenarios> [queries-per-scenario]
package main

import (
	"io"
	"log"
	"math/rand"
	"os"
	"strconv"

	"verifharness/vh"
)

func main() {
	if os.Getenv("VERIF_STACKS") == "" {
		log.SetOutput(io.Discard) // assert failures log a stack trace; the panic value is what we record
	}
	mode := os.Args[1]
	out := os.Args[2]
	nscen, _ := strconv.Atoi(os.Args[3])
	nq := 0
	if len(os.Args) > 4 {
		nq, _ = strconv.Atoi(os.Args[4])
	}
	cornerEmptyKey = os.Getenv("VERIF_CORNER") == "emptykey"
	cornerWhole = os.Getenv("VERIF_CORNER") == "wholerow"
	cornerWide = os.Getenv("VERIF_CORNER") == "wide"
	checkRanks()
	rnd := rand.New(rand.NewSource(vh.Seed()*7919 + int64(len(mode))))
	tr := vh.Create(out)
	defer tr.Close()
	switch mode {
	case "c22":
		runC22(tr, rnd, nscen, nq)
	case "c23":
		runC23(tr, rnd, nscen, nq)
	case "c24":
		runC24(tr, rnd, nscen, nq)
	default:
		vh.Fatal("unknown mode %s", mode)
	}
}

func dbEvent(sc *Scenario) *vh.Ev {
	var tabs []any
	for _, t := range sc.Tables {
		rows := t.Rows
		if rows == nil {
			rows = [][]Val{}
		}
		tabs = append(tabs, (&vh.Ev{}).Add("name", t.Name).Add("cols", t.Cols).Add("rows", rows))
	}
	return vh.E("Db", "tables", tabs)
}
