// Rendering of generated ASTs: query text for gSuneido, JSON for Relational.tla.
package main

import (
	"strings"

	"verifharness/vh"
)

var opText = map[string]string{"is": "is", "isnt": "isnt", "lt": "<", "lte": "<=", "gt": ">", "gte": ">=",
	"add": "+", "sub": "-", "mul": "*"}

// text renders an expression with as few parentheses as the grammar allows at the top level
// (the optimizer derives fixed values and index ranges from the top-level "and" terms; it does
// not look through parentheses), nested operators are parenthesised
func (e *Ex) text() string { return e.render(true) }

func (e *Ex) atom() bool { return e.K == "const" || e.K == "col" }

func (e *Ex) render(top bool) string {
	wrap := func(s string) string {
		if top {
			return s
		}
		return "(" + s + ")"
	}
	switch e.K {
	case "const":
		return e.V.lit()
	case "col":
		return e.C
	case "cmp", "arith":
		return wrap(e.A.render(false) + " " + opText[e.O] + " " + e.B.render(false))
	case "and":
		var parts []string
		for _, x := range e.Es {
			// simple terms of a top-level "and" stay bare
			parts = append(parts, x.render(top && (x.K == "cmp" || x.K == "in" || x.K == "not")))
		}
		return wrap(strings.Join(parts, " and "))
	case "or":
		var parts []string
		for _, x := range e.Es {
			parts = append(parts, x.render(top && (x.K == "cmp" || x.K == "in")))
		}
		return wrap(strings.Join(parts, " or "))
	case "not":
		return wrap("not " + e.A.render(false))
	case "in":
		var parts []string
		for _, v := range e.Vs {
			parts = append(parts, v.lit())
		}
		return wrap(e.A.render(false) + " in (" + strings.Join(parts, ", ") + ")")
	case "if":
		return "(" + e.Cd.render(false) + " ? " + e.A.render(false) + " : " + e.B.render(false) + ")"
	}
	panic("bad expr " + e.K)
}

func (e *Ex) json() *vh.Ev {
	j := &vh.Ev{}
	j.Add("k", e.K)
	switch e.K {
	case "const":
		j.Add("v", e.V)
	case "col":
		j.Add("c", e.C)
	case "cmp", "arith":
		j.Add("o", e.O).Add("a", e.A.json()).Add("b", e.B.json())
	case "and", "or":
		var es []any
		for _, x := range e.Es {
			es = append(es, x.json())
		}
		j.Add("es", es)
	case "not":
		j.Add("a", e.A.json())
	case "in":
		j.Add("a", e.A.json()).Add("vs", e.Vs)
	case "if":
		j.Add("c", e.Cd.json()).Add("a", e.A.json()).Add("b", e.B.json())
	}
	return j
}

func (e *Ex) cols(m map[string]bool) {
	if e == nil {
		return
	}
	if e.K == "col" {
		m[e.C] = true
	}
	e.A.cols(m)
	e.B.cols(m)
	e.Cd.cols(m)
	for _, x := range e.Es {
		x.cols(m)
	}
}

func paren(q *Q) string {
	if q.Op == "table" || q.Op == "view" {
		return q.Name
	}
	return "(" + q.text() + ")"
}

// text renders the query; views are rendered by name (the driver defines them in the database)
func (q *Q) text() string {
	switch q.Op {
	case "table", "view":
		return q.Name
	case "where":
		return paren(q.Src) + " where " + q.E.text()
	case "project":
		return paren(q.Src) + " project " + strings.Join(q.Cols, ", ")
	case "remove":
		return paren(q.Src) + " remove " + strings.Join(q.Cols, ", ")
	case "rename":
		var parts []string
		for i := range q.From {
			parts = append(parts, q.From[i]+" to "+q.To[i])
		}
		return paren(q.Src) + " rename " + strings.Join(parts, ", ")
	case "extend":
		var parts []string
		for i := range q.Cols {
			parts = append(parts, q.Cols[i]+" = "+q.Exprs[i].text())
		}
		return paren(q.Src) + " extend " + strings.Join(parts, ", ")
	case "summarize":
		var parts []string
		parts = append(parts, q.By...)
		for i := range q.Ops {
			s := ""
			if q.SumNames[i] != "" {
				s = q.SumNames[i] + " = "
			}
			s += q.Ops[i]
			if q.Ops[i] != "count" {
				s += " " + q.Ons[i]
			}
			parts = append(parts, s)
		}
		return paren(q.Src) + " summarize " + strings.Join(parts, ", ")
	case "sort":
		s := paren(q.Src) + " sort "
		if q.Src.Op != "table" && q.Src.Op != "view" {
			s = q.Src.text() + " sort " // sort binds to the whole query
		}
		if q.Rev {
			s += "reverse "
		}
		return s + strings.Join(q.Cols, ", ")
	case "join", "leftjoin", "semijoin", "times", "union", "intersect", "minus":
		by := ""
		if q.ByAssert {
			by = " by(" + strings.Join(shuffledDet(common(q.L.cols, q.R.cols)), ",") + ")"
		}
		return paren(q.L) + " " + q.Op + by + " " + paren(q.R)
	}
	panic("bad op " + q.Op)
}

func shuffledDet(s []string) []string {
	// deterministic "other" order: reversed
	r := make([]string, len(s))
	for i := range s {
		r[len(s)-1-i] = s[i]
	}
	return r
}

func strsJSON(s []string) []string {
	if s == nil {
		return []string{}
	}
	return s
}

func (q *Q) json() *vh.Ev {
	j := &vh.Ev{}
	j.Add("op", q.Op)
	switch q.Op {
	case "table":
		j.Add("name", q.Name)
	case "view":
		j.Add("name", q.Name).Add("def", q.Def.json())
	case "where":
		j.Add("src", q.Src.json()).Add("e", q.E.json())
	case "project", "remove":
		j.Add("src", q.Src.json()).Add("cols", q.Cols)
	case "rename":
		j.Add("src", q.Src.json()).Add("from", q.From).Add("to", q.To)
	case "extend":
		var es []any
		for _, e := range q.Exprs {
			es = append(es, e.json())
		}
		j.Add("src", q.Src.json()).Add("cols", q.Cols).Add("exprs", es)
	case "summarize":
		j.Add("src", q.Src.json()).Add("by", strsJSON(q.By)).Add("cols", q.Cols).Add("ops", q.Ops).
			Add("ons", q.Ons).Add("whole", q.Whole)
	case "sort":
		j.Add("src", q.Src.json()).Add("cols", q.Cols).Add("rev", q.Rev)
	default:
		j.Add("l", q.L.json()).Add("r", q.R.json())
	}
	return j
}
