package main

import (
	"fmt"
	"os"
	"time"

	. "github.com/apmckinlay/gsuneido/core"
	"github.com/apmckinlay/gsuneido/db19"
	"github.com/apmckinlay/gsuneido/db19/stor"
	_ "github.com/apmckinlay/gsuneido/dbms"
	qry "github.com/apmckinlay/gsuneido/dbms/query"
)

// usage: relexp 'admin;admin' 'action;action' 'query' ...
func main() {
	db := db19.CreateDb(stor.HeapStor(8192))
	db19.StartConcur(db, 10*time.Second)
	defer db.Close()
	th := &Thread{}
	split := func(s string) []string {
		var r []string
		cur := ""
		for _, c := range s {
			if c == ';' {
				r = append(r, cur)
				cur = ""
			} else {
				cur += string(c)
			}
		}
		if cur != "" {
			r = append(r, cur)
		}
		return r
	}
	for _, a := range split(os.Args[1]) {
		qry.DoAdmin(db, a, nil)
	}
	act := func(s string) {
		defer func() {
			if e := recover(); e != nil {
				fmt.Println("PANIC:", s, e)
			}
		}()
		ut := db.NewUpdateTran()
		defer func() {
			if e := recover(); e != nil {
				ut.Abort()
				panic(e)
			}
		}()
		n := qry.DoAction(th, ut, s)
		ut.Commit()
		fmt.Println(s, "=>", n)
	}
	for _, a := range split(os.Args[2]) {
		act(a)
	}
	run := func(src string) {
		defer func() {
			if e := recover(); e != nil {
				fmt.Println("PANIC:", e)
			}
		}()
		if src[0] == '!' {
			act(src[1:])
			return
		}
		rt := db.NewReadTran()
		q := qry.ParseQuery(src, rt, nil)
		q, _, _ = qry.Setup(q, qry.ReadMode, rt)
		fmt.Println(src, "\n  PLAN:", qry.String(q))
		hdr := q.Header()
		st := qry.MakeSuTran(rt)
		for row := q.Get(th, Next); row != nil; row = q.Get(th, Next) {
			fmt.Print("    ")
			for _, c := range hdr.Columns {
				fmt.Print(c, "=", row.GetVal(hdr, c, th, st), " ")
			}
			fmt.Println()
		}
	}
	for _, q := range os.Args[3:] {
		run(q)
	}
}
