// Driver for C21 (schema changes keep metadata consistent).
//
// Runs sequences of admin requests through the REAL query.DoAdmin on a heap-stor
// database that holds rows, and records an ndjson trace for TraceSchema.tla:
// per request the structured request, the outcome class (ok / error; panics of
// DoAdmin are outcomes, not crashes), a projection of GetRoSchema of every table
// (columns, every index with columns, mode, BestKey, Fk table/columns/mode/IIndex,
// the FkToHere list - both directions), a scan of every index (the rows as
// integers), the views, and the projection of a second, fresh database into which
// the Schema text of every table was re-parsed (loader path + reopen).
//
// Scenarios (separated by {"e":"Reset"}) are (a) systematic: fixed base setups
// (cross references, self references, multi column keys, unique indexes, views)
// followed by every request of a neighbourhood computed from the schema, and
// (b) seeded random walks (VERIF_SEED) with state-aware generation of mostly valid
// and some invalid requests.
//
// usage: schema <trace.ndjson> <nrandom> <probe-percent> [pairs]
package main

import (
	"encoding/json"
	"fmt"
	"math/rand"
	"os"
	"os/exec"
	"runtime/debug"
	"slices"
	"sort"
	"strconv"
	"strings"
	"time"

	"github.com/apmckinlay/gsuneido/core"
	"github.com/apmckinlay/gsuneido/db19"
	dbindex "github.com/apmckinlay/gsuneido/db19/index"
	"github.com/apmckinlay/gsuneido/db19/index/btree"
	"github.com/apmckinlay/gsuneido/db19/meta"
	"github.com/apmckinlay/gsuneido/db19/meta/schema"
	"github.com/apmckinlay/gsuneido/db19/stor"
	"github.com/apmckinlay/gsuneido/dbms/query"

	"verifharness/vh"
)

// ---------------------------------------------------------------- requests

type fkSpec struct {
	Tbl  string   `json:"tbl"`
	Cols []string `json:"cols"`
	Mode int      `json:"mode"`
}

type idxSpec struct {
	Mode string   `json:"mode"`
	Cols []string `json:"cols"`
	Fk   fkSpec   `json:"fk"`
}

type request struct {
	Op   string    `json:"op"`
	T    string    `json:"t"`
	T2   string    `json:"t2"`
	Cols []string  `json:"cols"`
	Idxs []idxSpec `json:"idxs"`
	From []string  `json:"from"`
	To   []string  `json:"to"`
	Def  string    `json:"def"`
	Row  []int     `json:"row"`
	// how the request is written (not part of its meaning)
	short bool // write "in t" instead of "in t(cols)" where possible
	must  bool // systematic part: always run this probe (not only in the seeded sample)
}

func (r request) norm() request {
	if r.Cols == nil {
		r.Cols = []string{}
	}
	if r.Idxs == nil {
		r.Idxs = []idxSpec{}
	}
	for i := range r.Idxs {
		if r.Idxs[i].Cols == nil {
			r.Idxs[i].Cols = []string{}
		}
		if r.Idxs[i].Fk.Cols == nil {
			r.Idxs[i].Fk.Cols = []string{}
		}
	}
	if r.From == nil {
		r.From = []string{}
	}
	if r.To == nil {
		r.To = []string{}
	}
	if r.Row == nil {
		r.Row = []int{}
	}
	return r
}

func key(cols ...string) idxSpec   { return idxSpec{Mode: "k", Cols: cols} }
func index(cols ...string) idxSpec { return idxSpec{Mode: "i", Cols: cols} }
func uniq(cols ...string) idxSpec  { return idxSpec{Mode: "u", Cols: cols} }
func (x idxSpec) in(tbl string, mode int, cols ...string) idxSpec {
	if len(cols) == 0 {
		cols = x.Cols
	}
	x.Fk = fkSpec{Tbl: tbl, Cols: cols, Mode: mode}
	return x
}

func cl(cols ...string) []string { return cols }

func create(t string, cols []string, idxs ...idxSpec) request {
	return request{Op: "Create", T: t, Cols: cols, Idxs: idxs}
}
func ensure(t string, cols []string, idxs ...idxSpec) request {
	return request{Op: "Ensure", T: t, Cols: cols, Idxs: idxs}
}
func alterCreate(t string, cols []string, idxs ...idxSpec) request {
	return request{Op: "AlterCreate", T: t, Cols: cols, Idxs: idxs}
}
func alterDrop(t string, cols []string, idxs ...idxSpec) request {
	return request{Op: "AlterDrop", T: t, Cols: cols, Idxs: idxs}
}
func alterRename(t string, from, to []string) request {
	return request{Op: "AlterRename", T: t, From: from, To: to}
}
func renameTable(from, to string) request { return request{Op: "RenameTable", T: from, T2: to} }
func view(name, def string) request       { return request{Op: "View", T: name, Def: def} }
func drop(name string) request            { return request{Op: "Drop", T: name} }
func ins(t string, row ...int) request    { return request{Op: "Ins", T: t, Row: row} }

func (x idxSpec) render(short bool) string {
	s := map[string]string{"k": "key", "i": "index", "u": "index unique"}[x.Mode]
	s += "(" + strings.Join(x.Cols, ",") + ")"
	if x.Fk.Tbl != "" {
		s += " in " + x.Fk.Tbl
		if !(short && slices.Equal(x.Fk.Cols, x.Cols)) {
			s += "(" + strings.Join(x.Fk.Cols, ",") + ")"
		}
		switch x.Fk.Mode {
		case schema.Cascade:
			s += " cascade"
		case schema.CascadeUpdates:
			s += " cascade update"
		}
	}
	return s
}

func renderSchema(cols []string, idxs []idxSpec, short, always bool) string {
	s := ""
	if len(cols) > 0 || always {
		s += " (" + strings.Join(cols, ",") + ")"
	}
	for _, x := range idxs {
		s += " " + x.render(short)
	}
	return s
}

// render gives the admin request text for DoAdmin
func (r request) render() string {
	switch r.Op {
	case "Create":
		return "create " + r.T + renderSchema(r.Cols, r.Idxs, r.short, true)
	case "Ensure":
		return "ensure " + r.T + renderSchema(r.Cols, r.Idxs, r.short, false)
	case "AlterCreate":
		return "alter " + r.T + " create" + renderSchema(r.Cols, r.Idxs, r.short, false)
	case "AlterDrop":
		return "alter " + r.T + " drop" + renderSchema(r.Cols, r.Idxs, r.short, false)
	case "AlterRename":
		parts := []string{}
		for i := range r.From {
			parts = append(parts, r.From[i]+" to "+r.To[i])
		}
		return "alter " + r.T + " rename " + strings.Join(parts, ", ")
	case "RenameTable":
		return "rename " + r.T + " to " + r.T2
	case "View":
		return "view " + r.T + " = " + r.Def
	case "Drop":
		return "drop " + r.T
	}
	panic("render: " + r.Op)
}

// ---------------------------------------------------------------- projection

type fkProj struct {
	Tbl  string   `json:"tbl"`
	Cols []string `json:"cols"`
	Mode int      `json:"mode"`
	IIdx int      `json:"iidx"` // 1-based, 0 = no foreign key
}

type idxProj struct {
	Mode string   `json:"mode"`
	Cols []string `json:"cols"`
	Bk   []string `json:"bk"`
	Fk   fkProj   `json:"fk"`
	Fth  []fkProj `json:"fth"`
	Sok  bool     `json:"sok"`  // the scan of this index completed
	Rows [][]int  `json:"rows"` // rows in index order, values aligned with the table's cols
}

type tblProj struct {
	T    string    `json:"t"`
	Cols []string  `json:"cols"`
	Idxs []idxProj `json:"idxs"`
}

type viewProj struct {
	N string `json:"n"`
	D string `json:"d"`
}

func nn(s []string) []string {
	if s == nil {
		return []string{}
	}
	return slices.Clone(s)
}

func projFk(fk *schema.Fkey) fkProj {
	if fk.Table == "" {
		return fkProj{Cols: []string{}}
	}
	return fkProj{Tbl: fk.Table, Cols: nn(fk.Columns), Mode: int(fk.Mode), IIdx: fk.IIndex + 1}
}

func valInt(v core.Value) (n int) {
	defer func() {
		if e := recover(); e != nil {
			n = -1
		}
	}()
	if v == nil || v == core.EmptyStr {
		return 0
	}
	if s, ok := v.ToStr(); ok && s == "" {
		return 0
	}
	return core.ToInt(v)
}

// project returns the schema (and with rows: a scan of every index) of all tables
func project(db *db19.Database, rows bool) ([]tblProj, []viewProj) {
	state := db.GetState()
	tables := []tblProj{}
	var rt *db19.ReadTran
	if rows {
		rt = db.NewReadTran()
	}
	for ts := range state.Meta.Tables() {
		tp := tblProj{T: ts.Table, Cols: []string{}, Idxs: []idxProj{}}
		pos := []int{}
		for i, c := range ts.Columns {
			if c != "-" {
				tp.Cols = append(tp.Cols, c)
				pos = append(pos, i)
			}
		}
		for i := range ts.Indexes {
			ix := &ts.Indexes[i]
			ip := idxProj{Mode: string(ix.Mode), Cols: nn(ix.Columns), Bk: nn(ix.BestKey),
				Fk: projFk(&ix.Fk), Fth: []fkProj{}, Sok: true, Rows: [][]int{}}
			if ix.Mode == 'k' {
				ip.Bk = []string{}
			}
			for j := range ix.FkToHere {
				ip.Fth = append(ip.Fth, projFk(&ix.FkToHere[j]))
			}
			if rows {
				ip.Rows, ip.Sok = scan(rt, ts.Table, i, pos)
			}
			tp.Idxs = append(tp.Idxs, ip)
		}
		tables = append(tables, tp)
	}
	sort.Slice(tables, func(i, j int) bool { return tables[i].T < tables[j].T })
	views := []viewProj{}
	for n, d := range state.Meta.Views() {
		views = append(views, viewProj{N: n, D: d})
	}
	sort.Slice(views, func(i, j int) bool { return views[i].N < views[j].N })
	return tables, views
}

func scan(rt *db19.ReadTran, table string, iIndex int, pos []int) (rows [][]int, ok bool) {
	rows = [][]int{}
	defer func() {
		if e := recover(); e != nil {
			ok = false
		}
	}()
	it := rt.IndexIter(table, iIndex)
	for it.Next(rt); !it.Eof(); it.Next(rt) {
		rec := rt.GetRecord(it.CurOff())
		row := make([]int, len(pos))
		for k, p := range pos {
			row[k] = valInt(rec.GetVal(p))
		}
		rows = append(rows, row)
		if len(rows) > 1000 {
			return rows, false
		}
	}
	return rows, true
}

// reparse builds a second, fresh database from the Schema text of every table
// (parser -> AddNewTable as the loader does -> persist -> reopen, which links the
// foreign keys) and returns its projection
func reparse(db *db19.Database) (tables []tblProj, ok bool, msg string) {
	defer func() {
		if e := recover(); e != nil {
			tables, ok, msg = []tblProj{}, false, fmt.Sprint(e)
		}
	}()
	store := stor.HeapStor(8192)
	db2 := db19.CreateDb(store)
	for ts := range db.GetState().Meta.Tables() {
		text := ts.Schema.String()
		sch := query.NewAdminParser(text).Schema()
		ts2 := &meta.Schema{Schema: sch}
		ts2.Schema.Check()
		ts2.SetupIndexes()
		ovs := make([]*dbindex.Overlay, len(ts2.Indexes))
		for i := range ovs {
			ovs[i] = dbindex.OverlayFor(btree.CreateBtree(store))
		}
		db2.AddNewTable(ts2, meta.NewInfo(ts2.Table, ovs, 0, 0))
	}
	db2.CheckAllFkeys()
	db2.PersistClose()
	db3, err := db19.OpenDbStor(store, stor.Read, false)
	if err != nil {
		return []tblProj{}, false, err.Error()
	}
	tables, _ = project(db3, false)
	db3.Close()
	return tables, true, ""
}

// ---------------------------------------------------------------- running

// trace is an unbuffered, appending ndjson writer: every event is on disk before the
// next request runs, so a crash of the code under test (log.Fatal in the merger
// goroutine cannot be recovered) loses nothing
type trace struct {
	f *os.File
	n int
}

func (t *trace) emit(e *vh.Ev) {
	b, err := json.Marshal(e)
	if err != nil {
		vh.Fatal("marshal: %v", err)
	}
	if _, err := t.f.Write(append(b, '\n')); err != nil {
		vh.Fatal("write trace: %v", err)
	}
	t.n++
}

type counts struct {
	Scen   int            `json:"scen"` // index of the scenario being run
	Done   int            `json:"done"`
	Events int            `json:"events"`
	Req    int            `json:"req"`
	Ok     int            `json:"ok"`
	Err    int            `json:"err"`
	Ins    int            `json:"ins"`
	PerOp  map[string]int `json:"perop"`
}

type runner struct {
	tr      *trace // nil: planning run, nothing is recorded
	db      *db19.Database
	c       counts
	verbose bool
	inScen  bool
}

func (rn *runner) start() {
	if rn.inScen {
		rn.finish()
	}
	if rn.tr != nil {
		rn.tr.emit(vh.E("Reset"))
	}
	st := stor.HeapStor(8192)
	rn.db = db19.CreateDb(st)
	db19.StartConcur(rn.db, time.Hour)
	rn.inScen = true
}

func (rn *runner) finish() {
	if rn.inScen {
		rn.db.Close()
		rn.inScen = false
	}
}

func try(fn func()) (ok bool, msg string) {
	defer func() {
		if e := recover(); e != nil {
			ok, msg = false, fmt.Sprint(e)
			if os.Getenv("VERIF_STACK") != "" {
				debug.PrintStack()
			}
		}
	}()
	fn()
	return true, ""
}

// do executes one request against the real code and logs request, outcome and state
func (rn *runner) do(r request) bool {
	r = r.norm()
	var ok bool
	var msg, text string
	if r.Op == "Ins" {
		ok, msg = rn.insert(r)
		text = "insert"
		rn.c.Ins++
	} else {
		text = r.render()
		// all earlier commits merged and persisted: an index build must not race
		// with the background merge (that race is the subject of C06/C16, not C21)
		rn.db.Persist()
		ok, msg = try(func() { query.DoAdmin(rn.db, text, nil) })
		rn.c.Req++
		rn.c.PerOp[r.Op]++
		if ok {
			rn.c.Ok++
		} else {
			rn.c.Err++
		}
	}
	if rn.tr == nil {
		return ok
	}
	if r.Op == "Ins" {
		// the environment stored a row: no admin request, the next request reports the state
		if rn.verbose {
			fmt.Printf("insert %s %v %v %s\n", r.T, r.Row, ok, msg)
		}
		rn.tr.emit(vh.E("Ins", "req", r, "ok", ok, "msg", short(msg)))
		return ok
	}
	tables, views := project(rn.db, true)
	re, reok, remsg := reparse(rn.db)
	// the re-parsed schema is logged in full only when it differs (BestKey aside,
	// the loader recomputes it) from the reported one
	resame := reok && sameSchema(tables, re)
	if resame {
		re = []tblProj{}
	}
	if rn.verbose {
		fmt.Printf("%-70s %v %s %s\n", text, ok, msg, remsg)
	}
	rn.tr.emit(vh.E("Req", "req", r, "txt", text, "ok", ok, "msg", short(msg), "sch", tables, "views", views,
		"reok", reok, "resame", resame, "re", re))
	return ok
}

// sameSchema compares two projections ignoring rows and BestKey
func sameSchema(a, b []tblProj) bool {
	strip := func(ts []tblProj) string {
		c := make([]tblProj, len(ts))
		for i, t := range ts {
			c[i] = tblProj{T: t.T, Cols: t.Cols, Idxs: make([]idxProj, len(t.Idxs))}
			for j, x := range t.Idxs {
				x.Bk, x.Rows, x.Sok = nil, nil, true
				x.Fth = slices.Clone(x.Fth)
				sort.Slice(x.Fth, func(i, j int) bool { return fmt.Sprint(x.Fth[i]) < fmt.Sprint(x.Fth[j]) })
				c[i].Idxs[j] = x
			}
		}
		b, _ := json.Marshal(c)
		return string(b)
	}
	return strip(a) == strip(b)
}

func short(s string) string {
	if len(s) > 120 {
		s = s[:120]
	}
	return s
}

func (rn *runner) insert(r request) (bool, string) {
	ts := rn.db.GetState().Meta.GetRoSchema(r.T)
	if ts == nil {
		return false, "no table"
	}
	if rn.db.GetView(r.T) != "" {
		// a query on this name means the view, the row would go elsewhere
		return false, "shadowed by a view"
	}
	cols := []string{}
	for _, c := range ts.Columns {
		if c != "-" {
			cols = append(cols, c)
		}
	}
	if len(cols) != len(r.Row) {
		return false, "row shape"
	}
	fields := []string{}
	for i, v := range r.Row {
		if v != 0 {
			fields = append(fields, cols[i]+": "+strconv.Itoa(v))
		}
	}
	act := "insert { " + strings.Join(fields, ", ") + " } into " + r.T
	ut := rn.db.NewUpdateTran()
	ok, msg := try(func() { query.DoAction(nil, ut, act) })
	if !ok {
		ut.Abort()
		return false, msg
	}
	if s := ut.Complete(); s != "" {
		return false, s
	}
	return true, ""
}

// ---------------------------------------------------------------- systematic part

var tnames = []string{"ta", "tb", "tc"}
var cnames = []string{"a", "b", "c", "d", "e"}

type setup struct {
	name string
	reqs []request
	only func(request) bool // nil: the whole neighbourhood, else the probes to keep
}

// for the chain setups: requests that are refused late (after the links of the table
// have been taken out) or that remove / re-create links
func linkProbes(r request) bool {
	switch r.Op {
	case "RenameTable", "Drop":
		return true
	case "AlterDrop":
		return len(r.Idxs) == 1
	}
	return false
}

func setups() []setup {
	return []setup{
		{"cross", []request{
			create("ta", cl("a", "b", "c"), key("a"), index("b")),
			ins("ta", 1, 1, 1), ins("ta", 2, 1, 2), ins("ta", 3, 2, 0),
			create("tb", cl("a", "b", "c"), key("a"), index("b").in("ta", 0, "a"), index("c").in("ta", 3, "a")),
			ins("tb", 1, 1, 2), ins("tb", 2, 3, 0), ins("tb", 3, 0, 1),
		}, nil},
		{"self", []request{ // F9's shape: the referencing index comes after the key
			create("tc", cl("a", "b", "c"), key("a"), key("c").in("tc", 0, "a")),
			ins("tc", 1, 5, 0), ins("tc", 2, 6, 1), ins("tc", 3, 7, 2),
		}, nil},
		{"self2", []request{ // referencing indexes before and after the key, another table too
			create("ta", cl("a", "b", "c", "d"), index("b").in("ta", 0, "a"), key("a"), index("c").in("ta", 3, "a"), key("d")),
			ins("ta", 1, 0, 0, 1), ins("ta", 2, 1, 1, 2), ins("ta", 3, 1, 2, 3),
			create("tb", cl("a", "b"), key("a"), index("b").in("ta", 1, "a")),
			ins("tb", 1, 1), ins("tb", 2, 3),
		}, nil},
		{"mutual", []request{
			create("tb", cl("a", "b"), key("a")),
			create("ta", cl("a", "b", "c"), key("a"), index("b").in("tb", 0, "a")),
			alterCreate("tb", nil, index("b").in("ta", 0, "a")),
			ins("tb", 1, 0), ins("ta", 1, 1, 7), ins("tb", 2, 1), ins("ta", 2, 2, 8),
		}, nil},
		{"multi", []request{ // multi column keys, same columns on both sides ("in ta")
			create("ta", cl("a", "b", "c"), key("a", "b"), index("c")),
			ins("ta", 1, 1, 1), ins("ta", 1, 2, 2), ins("ta", 2, 1, 3),
			{Op: "Create", T: "tb", Cols: cl("a", "b", "c", "d"), short: true,
				Idxs: []idxSpec{key("d"), index("a", "b").in("ta", 1), index("b", "c").in("ta", 0, "a", "b")}},
			ins("tb", 1, 1, 1, 1), ins("tb", 1, 2, 1, 2), ins("tb", 0, 0, 0, 3),
		}, nil},
		{"twofk", []request{ // two indexes of one table reference the same key
			create("ta", cl("a", "b"), key("a"), key("b")),
			ins("ta", 1, 1), ins("ta", 2, 2), ins("ta", 3, 3),
			create("tb", cl("a", "b", "c", "d"), index("d"), key("a"), index("b").in("ta", 0, "a"), index("c").in("ta", 3, "a"), uniq("b", "c")),
			ins("tb", 1, 1, 2, 0), ins("tb", 2, 2, 3, 5), ins("tb", 3, 0, 0, 5),
		}, nil},
		{"chain", []request{ // ta <- tb, ta <- tc (added later), tb <- td, tb also references itself:
			// rename / drop of tb is refused only after its links to ta have been taken out
			create("ta", cl("a", "b"), key("a")),
			create("tb", cl("a", "b", "c"), key("a"), index("b").in("ta", 0, "a"), index("c").in("tb", 0, "a")),
			create("tc", cl("a", "b"), key("a"), index("b").in("ta", 3, "a")),
			create("td", cl("a", "b"), key("a"), index("b").in("tb", 0, "a")),
			ins("ta", 1, 0), ins("tb", 1, 1, 0), ins("tc", 1, 1), ins("td", 1, 1),
		}, linkProbes},
		{"chain2", []request{ // the same without the self reference (refusal by the final validation),
			// three referencers of ta.key(a), the refused one in the middle
			create("ta", cl("a", "b"), key("a"), key("b")),
			create("tc", cl("a", "b"), key("a"), index("b").in("ta", 0, "a")),
			create("tb", cl("a", "b", "c"), key("a"), index("b").in("ta", 0, "a"), index("c").in("ta", 1, "b")),
			create("td", cl("a", "b"), key("a"), index("b").in("tb", 0, "a")),
			alterCreate("ta", nil, index("b").in("ta", 0, "a")),
			alterCreate("td", cl("c"), index("c").in("ta", 3, "a")),
			ins("ta", 1, 1), ins("tb", 1, 1, 1), ins("tc", 1, 1), ins("td", 1, 1, 1),
		}, linkProbes},
		{"uniq", []request{ // unique indexes, several keys (BestKey), a view of a table's name
			create("ta", cl("a", "b", "c", "d"), key("a"), uniq("b"), index("c", "d"), key("d", "a")),
			ins("ta", 1, 0, 1, 1), ins("ta", 2, 0, 1, 2), ins("ta", 3, 4, 2, 1),
			view("ta", "ta where a > 1"),
			view("v1", "ta join tb"),
			create("tb", cl("a", "c"), key("c"), index("a").in("ta", 1, "a")),
			ins("tb", 1, 1), ins("tb", 3, 2),
		}, nil},
	}
}

type tinfo struct {
	name string
	cols []string
	idxs []idxProj
}

func (rn *runner) tables() []tinfo {
	tp, _ := project(rn.db, false)
	res := []tinfo{}
	for _, t := range tp {
		res = append(res, tinfo{t.T, t.Cols, t.Idxs})
	}
	return res
}

func keysOf(t tinfo) [][]string {
	res := [][]string{}
	for _, ix := range t.idxs {
		if ix.Mode == "k" {
			res = append(res, ix.Cols)
		}
	}
	return res
}

func fresh(used []string) string {
	for _, c := range []string{"z", "y", "x", "w"} {
		if !slices.Contains(used, c) {
			return c
		}
	}
	return "zz"
}

// probes returns the neighbourhood of requests for the current schema
func probes(ts []tinfo) []request {
	res := []request{}
	add := func(r request) { res = append(res, r) }
	addm := func(r request) { r.must = true; res = append(res, r) }
	names := []string{}
	for _, t := range ts {
		names = append(names, t.name)
	}
	other := ""
	for _, n := range tnames {
		if !slices.Contains(names, n) {
			other = n
			break
		}
	}
	for _, t := range ts {
		nc := fresh(t.cols)
		// alter drop
		for _, ix := range t.idxs {
			addm(alterDrop(t.name, nil, index(ix.Cols...)))
			if len(ix.Cols) > 0 {
				addm(alterDrop(t.name, cl(ix.Cols[0]), index(ix.Cols...)))
			}
		}
		for i := range t.idxs {
			for j := i + 1; j < len(t.idxs); j++ {
				add(alterDrop(t.name, nil, index(t.idxs[i].Cols...), key(t.idxs[j].Cols...)))
			}
		}
		for _, c := range t.cols {
			add(alterDrop(t.name, cl(c)))
		}
		add(alterDrop(t.name, cl(nc)))
		add(alterDrop(t.name, nil, index(nc)))
		add(alterDrop(t.name, nil, index(t.cols[0], nc)))
		// alter rename
		for _, c := range t.cols {
			addm(alterRename(t.name, cl(c), cl(nc)))
		}
		add(alterRename(t.name, cl(t.cols[0]), cl(t.cols[len(t.cols)-1])))
		add(alterRename(t.name, cl(nc), cl("w")))
		if len(t.cols) >= 2 {
			a, b := t.cols[0], t.cols[1]
			add(alterRename(t.name, cl(a, b, nc), cl(nc, a, b))) // swap
			addm(alterRename(t.name, cl(a, b), cl(nc, a)))
			add(alterRename(t.name, cl(a, nc), cl(nc, "w")))
			add(alterRename(t.name, cl(a, b), cl(nc, nc)))
		}
		// rename table, drop
		if other != "" {
			addm(renameTable(t.name, other))
		}
		addm(renameTable(t.name, "tz"))
		add(renameTable(t.name, names[0]))
		addm(drop(t.name))
		// alter create
		add(alterCreate(t.name, cl(nc)))
		add(alterCreate(t.name, cl(t.cols[0])))
		add(alterCreate(t.name, cl(nc), index(nc)))
		add(alterCreate(t.name, cl(nc), key(nc)))
		add(alterCreate(t.name, nil, index(nc)))
		for _, c := range t.cols {
			for _, m := range []string{"k", "i", "u"} {
				add(alterCreate(t.name, nil, idxSpec{Mode: m, Cols: cl(c)}))
			}
			for _, t2 := range ts {
				for _, k := range keysOf(t2) {
					if len(k) == 1 {
						add(alterCreate(t.name, nil, index(c).in(t2.name, 0, k...)))
						add(alterCreate(t.name, nil, key(c).in(t2.name, 3, k...)))
					}
				}
			}
		}
		if len(t.cols) >= 2 {
			a, b := t.cols[len(t.cols)-1], t.cols[0]
			add(alterCreate(t.name, nil, index(a, b)))
			add(alterCreate(t.name, nil, key(a, b), uniq(b, a)))
			for _, t2 := range ts {
				for _, k := range keysOf(t2) {
					if len(k) == 2 {
						add(alterCreate(t.name, nil, index(a, b).in(t2.name, 1, k...)))
					}
					if len(k) == 1 {
						add(alterCreate(t.name, nil, index(a, b).in(t2.name, 0, k...)))
					}
				}
			}
		}
		add(alterCreate(t.name, nil, index(t.cols[0]).in("nonex", 0, "a")))
		add(alterCreate(t.name, nil, index(t.cols[0]).in(t.name, 0, nc)))
		for _, ix := range t.idxs {
			if ix.Mode != "k" {
				add(alterCreate(t.name, cl(nc), index(nc).in(t.name, 0, ix.Cols...))) // fk to non-key
				break
			}
		}
		// ensure
		add(ensure(t.name, cl(t.cols[0], nc)))
		add(ensure(t.name, t.cols))
		add(ensure(t.name, cl(nc), index(nc), index(t.idxs[0].Cols...)))
		add(ensure(t.name, nil, idxSpec{Mode: t.idxs[0].Mode, Cols: t.idxs[0].Cols,
			Fk: fkSpec{Tbl: t.idxs[0].Fk.Tbl, Cols: t.idxs[0].Fk.Cols, Mode: t.idxs[0].Fk.Mode}}))
		add(ensure(t.name, nil, idxSpec{Mode: map[string]string{"k": "i", "i": "u", "u": "k"}[t.idxs[0].Mode], Cols: t.idxs[0].Cols}))
		add(ensure(t.name, cl(nc), key(nc).in(t.name, 0, keysOf(t)[0]...), index(t.idxs[0].Cols...)))
		for _, t2 := range ts {
			if k := keysOf(t2)[0]; len(k) == 1 {
				addm(ensure(t.name, nil, index(t.cols[len(t.cols)-1]).in(t2.name, 0, k...)))
				add(ensure(t.name, cl(nc), uniq(nc).in(t2.name, 3, k...)))
			}
		}
		// create existing
		add(create(t.name, cl("a"), key("a")))
	}
	if other != "" {
		add(create(other, cl("a", "b"), key("a")))
		add(create(other, cl("a", "b"), index("a")))
		add(create(other, cl("a", "b"), key("c")))
		add(create(other, cl("a", "b"), key("a"), index("a")))
		add(create(other, cl("a", "b"), key("a"), index("b").in(other, 0, "a")))
		add(create(other, cl("a", "b"), key("a"), index("b").in(other, 0, "b")))
		add(create(other, cl("a", "b"), key("a").in(other, 3, "a")))
		add(ensure(other, cl("a", "b"), key("b"), uniq("a")))
		add(ensure(other, cl("a", "b"), index("b")))
		for _, t2 := range ts {
			k := keysOf(t2)[0]
			if len(k) <= 2 {
				add(create(other, cl("a", "b"), key("a"), index(cl("b", "a")[:len(k)]...).in(t2.name, 1, k...)))
				add(ensure(other, cl("a", "b"), key("a"), index(cl("b", "a")[:len(k)]...).in(t2.name, 3, k...)))
			}
		}
		add(alterCreate(other, cl("z")))
		add(alterDrop(other, cl("a")))
		add(alterRename(other, cl("a"), cl("z")))
		add(renameTable(other, "tz"))
		add(drop(other))
	}
	if len(names) == 0 {
		names = []string{"ta"}
	}
	add(create("tables", cl("a"), key("a")))
	add(drop("views"))
	add(renameTable(names[0], "columns"))
	add(view("v1", "ta"))
	add(view(names[0], "x"))
	add(view("indexes", "x"))
	add(drop("v1"))
	return res
}

func (rn *runner) runSetup(s setup) {
	rn.start()
	for _, r := range s.reqs {
		rn.do(r)
	}
}

// ---------------------------------------------------------------- random part

type gen struct {
	rnd *rand.Rand
	rn  *runner
}

func (g *gen) pick(s []string) string { return s[g.rnd.Intn(len(s))] }
func (g *gen) chance(pct int) bool    { return g.rnd.Intn(100) < pct }

func (g *gen) subseq(s []string, n int) []string {
	p := g.rnd.Perm(len(s))
	res := []string{}
	for _, i := range p[:min(n, len(s))] {
		res = append(res, s[i])
	}
	return res
}

func (g *gen) fkMode() int { return []int{0, 0, 1, 3}[g.rnd.Intn(4)] }

// newIdx generates an index spec over cols, often with a foreign key to a key of
// some table (self references with preference)
func (g *gen) newIdx(self tinfo, ts []tinfo, cols []string) idxSpec {
	n := 1
	if g.chance(25) {
		n = 2
	}
	x := idxSpec{Mode: g.pick([]string{"k", "i", "i", "u"}), Cols: g.subseq(cols, n)}
	if g.chance(55) {
		cands := []tinfo{}
		if g.chance(50) {
			cands = append(cands, self)
		} else {
			cands = append(cands, ts...)
			cands = append(cands, self)
		}
		t2 := cands[g.rnd.Intn(len(cands))]
		keys := keysOf(t2)
		if len(keys) > 0 {
			k := keys[g.rnd.Intn(len(keys))]
			if len(k) > 0 && len(k) <= 2 {
				if len(k) > len(x.Cols) || (len(k) == len(x.Cols) && g.chance(80)) {
					x.Cols = g.subseq(cols, len(k))
				}
				if len(x.Cols) >= len(k) {
					x.Fk = fkSpec{Tbl: t2.name, Cols: k, Mode: g.fkMode()}
				}
			}
		}
		if g.chance(4) {
			x.Fk = fkSpec{Tbl: g.pick(tnames), Cols: cl(g.pick(cnames)), Mode: 0}
		}
	}
	return x
}

func (g *gen) newTable(name string, ts []tinfo) request {
	cols := g.subseq(cnames, 2+g.rnd.Intn(3))
	self := tinfo{name: name, cols: cols}
	idxs := []idxSpec{}
	k := key(g.subseq(cols, 1+g.rnd.Intn(2)/1%2)...)
	if g.chance(15) {
		k = key(g.subseq(cols, 2)...)
	}
	idxs = append(idxs, k)
	self.idxs = []idxProj{{Mode: "k", Cols: k.Cols}}
	for n := g.rnd.Intn(4); n > 0; n-- {
		x := g.newIdx(self, ts, cols)
		if x.Mode == "k" && x.Fk.Tbl == "" {
			self.idxs = append(self.idxs, idxProj{Mode: "k", Cols: x.Cols})
		}
		idxs = append(idxs, x)
	}
	if g.chance(40) {
		g.rnd.Shuffle(len(idxs), func(i, j int) { idxs[i], idxs[j] = idxs[j], idxs[i] })
	}
	if g.chance(5) {
		idxs[0].Mode = "i" // maybe no key
	}
	return request{Op: "Create", T: name, Cols: cols, Idxs: idxs, short: g.chance(50)}
}

func (g *gen) row(t tinfo, ts []tinfo) request {
	row := make([]int, len(t.cols))
	for i := range row {
		row[i] = g.rnd.Intn(4) // 0 = empty
		if g.chance(10) {
			row[i] = 4 + g.rnd.Intn(3)
		}
	}
	return ins(t.name, row...)
}

func (g *gen) step(ts []tinfo) request {
	names := []string{}
	for _, t := range ts {
		names = append(names, t.name)
	}
	missing := []string{}
	for _, n := range tnames {
		if !slices.Contains(names, n) {
			missing = append(missing, n)
		}
	}
	if len(ts) == 0 || (len(missing) > 0 && g.chance(25)) {
		if len(missing) == 0 {
			missing = tnames
		}
		r := g.newTable(g.pick(missing), ts)
		if g.chance(25) {
			r.Op = "Ensure"
		}
		return r
	}
	t := ts[g.rnd.Intn(len(ts))]
	anyT := func() string {
		if g.chance(8) {
			return g.pick(append(slices.Clone(tnames), "tables", "views"))
		}
		return t.name
	}
	anyC := func() string {
		if g.chance(10) {
			return g.pick(cnames)
		}
		return g.pick(t.cols)
	}
	switch k := g.rnd.Intn(100); {
	case k < 22: // insert
		return g.row(t, ts)
	case k < 40: // alter create
		r := request{Op: "AlterCreate", T: anyT(), short: g.chance(50)}
		cols := slices.Clone(t.cols)
		if g.chance(45) {
			nc := g.pick(cnames)
			r.Cols = cl(nc)
			if !slices.Contains(cols, nc) {
				cols = append(cols, nc)
			}
		}
		for n := 1 + g.rnd.Intn(10)/8; n > 0 && (len(r.Cols) == 0 || g.chance(70)); n-- {
			self := t
			self.cols = cols
			r.Idxs = append(r.Idxs, g.newIdx(self, ts, cols))
		}
		if g.chance(20) {
			r.Op = "Ensure"
		}
		if len(r.Cols) == 0 && len(r.Idxs) == 0 {
			r.Cols = cl(g.pick(cnames))
		}
		return r
	case k < 62: // alter drop
		r := request{Op: "AlterDrop", T: anyT()}
		if g.chance(75) {
			ix := t.idxs[g.rnd.Intn(len(t.idxs))]
			r.Idxs = append(r.Idxs, index(ix.Cols...))
			if g.chance(15) {
				ix2 := t.idxs[g.rnd.Intn(len(t.idxs))]
				if !slices.Equal(ix.Cols, ix2.Cols) {
					r.Idxs = append(r.Idxs, key(ix2.Cols...))
				}
			}
			if g.chance(5) {
				r.Idxs[0].Cols = g.subseq(cnames, 1+g.rnd.Intn(2))
			}
			if g.chance(25) && len(ix.Cols) > 0 {
				r.Cols = cl(g.pick(ix.Cols))
			}
		} else {
			r.Cols = cl(anyC())
		}
		return r
	case k < 80: // alter rename
		r := request{Op: "AlterRename", T: anyT()}
		n := 1
		if g.chance(25) {
			n = 2 + g.rnd.Intn(2)
		}
		cols := slices.Clone(t.cols)
		for ; n > 0; n-- {
			f := g.pick(cols)
			to := g.pick(cnames)
			if g.chance(85) { // valid target
				cand := []string{}
				for _, c := range append(slices.Clone(cnames), "z") {
					if !slices.Contains(cols, c) {
						cand = append(cand, c)
					}
				}
				if len(cand) > 0 {
					to = g.pick(cand)
				}
			}
			if g.chance(5) {
				f = g.pick(cnames)
			}
			r.From = append(r.From, f)
			r.To = append(r.To, to)
			if i := slices.Index(cols, f); i >= 0 {
				cols[i] = to
			}
		}
		return r
	case k < 88: // rename table
		to := g.pick(append(slices.Clone(tnames), "td"))
		if len(missing) > 0 && g.chance(70) {
			to = g.pick(missing)
		}
		return renameTable(anyT(), to)
	case k < 94: // drop
		if g.chance(25) {
			return drop(g.pick([]string{"v1", "v2", "ta"}))
		}
		return drop(anyT())
	default: // view
		return view(g.pick([]string{"v1", "v2", "ta", "tables"}), g.pick([]string{"ta", "tb where a = 1", "ta join tb"}))
	}
}

func (g *gen) walk(nsteps int) {
	g.rn.start()
	for i := 0; i < nsteps; i++ {
		g.rn.do(g.step(g.rn.tables()))
	}
}

// ---------------------------------------------------------------- main

// scen describes one scenario; everything random in it derives from (seed, index)
type scen struct {
	kind  string // "setup", "probe", "pair", "walk"
	setup int
	probe int
}

// plan lists the scenarios of a run (deterministic for seed and arguments)
func plan(nrandom, pct int, pairs bool) ([]scen, [][]request) {
	rnd := rand.New(rand.NewSource(vh.Seed()*7919 + 17))
	scens := []scen{}
	allProbes := [][]request{}
	for si, s := range setups() {
		prn := &runner{c: counts{PerOp: map[string]int{}}}
		prn.runSetup(s)
		ps := probes(prn.tables())
		prn.finish()
		allProbes = append(allProbes, ps)
		scens = append(scens, scen{kind: "setup", setup: si})
		for pi, p := range ps {
			if s.only != nil && !s.only(p) {
				continue
			}
			// the probes around the link bookkeeping always, a seeded sample of the others
			if !p.must && s.only == nil && rnd.Intn(100) >= pct {
				continue
			}
			scens = append(scens, scen{kind: "probe", setup: si, probe: pi})
		}
		if pairs {
			for i := 0; i < 3*len(ps); i++ {
				scens = append(scens, scen{kind: "pair", setup: si, probe: rnd.Intn(len(ps))})
			}
		}
	}
	for i := 0; i < nrandom; i++ {
		scens = append(scens, scen{kind: "walk"})
	}
	return scens, allProbes
}

func (rn *runner) runScen(idx int, sc scen, allProbes [][]request) {
	rnd := rand.New(rand.NewSource(vh.Seed()*1000003 + int64(idx)))
	switch sc.kind {
	case "setup":
		rn.runSetup(setups()[sc.setup])
	case "probe", "pair":
		rn.runSetup(setups()[sc.setup])
		p := allProbes[sc.setup][sc.probe]
		p.short = rnd.Intn(2) == 0
		if rn.do(p) && (sc.kind == "pair" || rnd.Intn(100) < 50) {
			// a second request from the neighbourhood of the new schema
			ps2 := probes(rn.tables())
			rn.do(ps2[rnd.Intn(len(ps2))])
		}
	case "walk":
		g := &gen{rnd: rnd, rn: rn}
		g.walk(6 + rnd.Intn(10))
	}
}

// child runs the scenarios from index `from` on, appending to the trace; the progress
// file always names the scenario being run and the counts so far
func child(out string, from, nrandom, pct int, pairs bool) {
	db19.MakeSuTran = func(ut *db19.UpdateTran) *core.SuTran { return core.NewSuTran(nil, true) }
	scens, allProbes := plan(nrandom, pct, pairs)
	f, err := os.OpenFile(out, os.O_WRONLY|os.O_APPEND|os.O_CREATE, 0o644)
	if err != nil {
		vh.Fatal("open trace: %v", err)
	}
	rn := &runner{tr: &trace{f: f}, c: counts{PerOp: map[string]int{}}, verbose: os.Getenv("VERIF_VERBOSE") != ""}
	progress := func(i int) {
		rn.c.Scen, rn.c.Events = i, rn.tr.n
		b, _ := json.Marshal(rn.c)
		if err := os.WriteFile(out+".progress", b, 0o644); err != nil {
			vh.Fatal("progress: %v", err)
		}
	}
	for i := from; i < len(scens); i++ {
		progress(i)
		rn.runScen(i, scens[i], allProbes)
		rn.c.Done++
	}
	rn.finish()
	progress(len(scens))
	f.Close()
}

func main() {
	if len(os.Args) < 4 {
		vh.Fatal("usage: schema <trace> <nrandom> <probe-percent> [pairs]")
	}
	out := os.Args[1]
	nrandom, _ := strconv.Atoi(os.Args[2])
	pct, _ := strconv.Atoi(os.Args[3])
	pairs := len(os.Args) > 4 && os.Args[4] == "pairs"
	if from := os.Getenv("SCHEMA_CHILD_FROM"); from != "" {
		n, _ := strconv.Atoi(from)
		child(out, n, nrandom, pct, pairs)
		return
	}
	// parent: the scenarios run in a child process; if the code under test kills the
	// process (FATAL in a background goroutine) the next child goes on behind that scenario
	os.Remove(out)
	os.Remove(out + ".progress")
	total := counts{PerOp: map[string]int{}}
	crashes, from := 0, 0
	crashMsgs := []string{}
	for {
		cmd := exec.Command(os.Args[0], os.Args[1:]...)
		cmd.Env = append(os.Environ(), "SCHEMA_CHILD_FROM="+strconv.Itoa(from))
		var errb strings.Builder
		cmd.Stderr = &errb
		if os.Getenv("VERIF_VERBOSE") != "" {
			cmd.Stdout = os.Stdout
		}
		err := cmd.Run()
		if ee, ok := err.(*exec.ExitError); ok && ee.ExitCode() == 97 {
			os.Stderr.WriteString(errb.String())
			os.Exit(97)
		}
		var c counts
		b, rerr := os.ReadFile(out + ".progress")
		if rerr != nil || json.Unmarshal(b, &c) != nil {
			vh.Fatal("no progress from child: %v %v\n%s", err, rerr, tail(errb.String(), 2000))
		}
		total.Done += c.Done
		total.Events += c.Events
		total.Req += c.Req
		total.Ok += c.Ok
		total.Err += c.Err
		total.Ins += c.Ins
		for k, v := range c.PerOp {
			total.PerOp[k] += v
		}
		if err == nil {
			total.Scen = c.Scen
			break
		}
		// the child died in scenario c.Scen (its events so far are in the trace)
		crashes++
		crashMsgs = append(crashMsgs, fmt.Sprintf("scenario %d: %s", c.Scen, lastLine(errb.String())))
		from = c.Scen + 1
		if crashes > 200 {
			vh.Fatal("too many crashes of the code under test: %v", crashMsgs[:5])
		}
	}
	os.Remove(out + ".progress")
	nev := 0
	if b, err := os.ReadFile(out); err == nil {
		nev = strings.Count(string(b), "\n")
	}
	if len(crashMsgs) > 5 {
		crashMsgs = crashMsgs[:5]
	}
	vh.Summary("scenarios", total.Scen, "completed", total.Done, "crashes", crashes, "crash_msgs", crashMsgs,
		"requests", total.Req, "ok", total.Ok, "error", total.Err, "inserts", total.Ins,
		"events", nev, "create", total.PerOp["Create"], "ensure", total.PerOp["Ensure"],
		"altercreate", total.PerOp["AlterCreate"], "alterdrop", total.PerOp["AlterDrop"],
		"alterrename", total.PerOp["AlterRename"], "renametable", total.PerOp["RenameTable"],
		"view", total.PerOp["View"], "drop", total.PerOp["Drop"])
}

func tail(s string, n int) string {
	if len(s) > n {
		return s[len(s)-n:]
	}
	return s
}

func lastLine(s string) string {
	lines := strings.Split(strings.TrimSpace(s), "\n")
	for i := len(lines) - 1; i >= 0; i-- {
		if strings.Contains(lines[i], "FATAL") || strings.Contains(lines[i], "panic") {
			return short(lines[i])
		}
	}
	return short(lines[len(lines)-1])
}
