// Driver for C41: a database WITH users; the REAL server (newServerConn: hello,
// TLS, DbmsUnauth wrapper, mux, the real command table) is driven over an
// in-memory pipe
//   - by protocol-level clients that send EVERY command code with generated
//     (well formed, hostile and malformed) arguments while not authorised,
//   - interleaved with a legitimate client (the real DbmsClient) that
//     authenticates with the password and works on the data.
//
// After every request the logical database digest and the server's list of the
// other connections' sessions are recorded.  The ndjson trace is validated by
// spec/trace/TraceSession.tla against Session.tla.
package main

import (
	"fmt"
	"math/rand"
	"os"
	"strconv"
	"strings"
	"time"

	_ "github.com/apmckinlay/gsuneido/builtin"
	"github.com/apmckinlay/gsuneido/core"
	"github.com/apmckinlay/gsuneido/db19"
	"github.com/apmckinlay/gsuneido/dbms"
	"github.com/apmckinlay/gsuneido/dbms/commands"

	"verifharness/cs"
	"verifharness/vh"
)

const frameAttack = 1000 // pseudo command code: a hand-made mux frame

const (
	goodUser = "fred"
	goodHash = "ph-5e1f-secret"
	timeout  = 20 * time.Second
)

var cmdNames = []string{"Abort", "Admin", "Auth", "Check", "Close", "Commit", "Connections",
	"Cursor", "Cursors", "Erase", "Exec", "Strategy", "Final", "Get", "GetOne", "Header", "Info",
	"Keys", "Kill", "LibGet", "Libraries", "Log", "Nonce", "Order", "Output", "Query",
	"ReadCount", "Action", "Rewind", "Run", "SessionId", "Size", "Timestamp", "Token",
	"Transaction", "Transactions", "Update", "WriteCount", "EndSession", "Asof"}

func cmdName(code int) string {
	if code < len(cmdNames) {
		return cmdNames[code]
	}
	return "Invalid"
}

type cred struct {
	k    string
	n    int
	good bool
	t    int
}

var noCred = cred{k: "junk"}

func (c cred) js() map[string]any {
	return map[string]any{"k": c.k, "n": c.n, "good": c.good, "t": c.t}
}

type world struct {
	rnd     *rand.Rand
	tr      *vh.Trace
	db      *db19.Database
	d       *dbms.DbmsLocal
	th      *core.Thread
	nonces  map[string]int
	tokens  map[string]int
	nonceS  []string // id-1 -> string
	tokenS  []string
	lastDb  int
	lastCon map[string][]string
	naddr   int
	nmark   int
	// the legitimate client (connection 1)
	vic *victim
	// protocol-level clients (connections 2..)
	raw []*rawc
	// statistics
	nreq, nunauth int
	codes         map[int]int
	codesUnauth   map[int]int
	suspects      map[string]int
}

type victim struct {
	addr    string
	pipe    *cs.Conn
	ses     []core.IDbms
	th      *core.Thread
	authed  bool
	nextKey int
}

type rawc struct {
	idx    int
	r      *cs.Raw
	knows  bool
	authed bool              // as the server answered (not as the model says)
	nonce  string            // last nonce received
	stale  []string          // earlier nonces of this connection
	sessId map[uint32]string // session ids set by this client
	trans  []int             // transaction numbers it obtained (when authorised)
}

func main() {
	out := os.Args[1]
	nscen, _ := strconv.Atoi(os.Args[2])
	steps, _ := strconv.Atoi(os.Args[3])
	cs.Quiet()
	cs.Init()
	dbms.VerifNoAuthLimit()
	tr := vh.Create(out)
	// core.Fatal must not end the driver: the real mux client's reader calls it when
	// its connection is closed (end of scenario, killed); a Fatal on the SERVER side
	// while serving a request is recorded as the outcome of that request ("fatal")
	cs.InstallExit()
	seed := vh.Seed()
	setupDb()
	tot := &world{codes: map[int]int{}, codesUnauth: map[int]int{}, suspects: map[string]int{}}
	for s := 0; s < nscen; s++ {
		if s > 0 {
			tr.Reset()
		}
		w := newWorld(tr, seed*1000+int64(s))
		w.scenario(steps, s)
		w.shutdown()
		tot.nreq += w.nreq
		tot.nunauth += w.nunauth
		for k, v := range w.codes {
			tot.codes[k] += v
		}
		for k, v := range w.codesUnauth {
			tot.codesUnauth[k] += v
		}
		for k, v := range w.suspects {
			tot.suspects[k] += v
		}
	}
	tr.Close()
	var sus []string
	for k, v := range tot.suspects {
		sus = append(sus, fmt.Sprintf("%s:%d", k, v))
	}
	vh.Summary("scenarios", nscen, "requests", tot.nreq, "unauth_requests", tot.nunauth,
		"codes_covered", len(tot.codes), "codes_unauth", len(tot.codesUnauth), "events", tr.N, "suspects", strings.Join(sus, " "))
}

// one database and one dbms for the life of the process, as in the real server
// (the server's worker threads cache the dbms)
var theDb *db19.Database
var theDbms *dbms.DbmsLocal
var nextKey int

func setupDb() {
	db := cs.NewDb(
		"create users (user, passhash) key(user)",
		"create t1 (k, v) key(k)",
		"create stdlib (name, group, text, num) key(name, group) key(num)")
	cs.Action(db, "insert { user: '"+goodUser+"', passhash: '"+goodHash+"' } into users")
	cs.Action(db, "insert { user: 'wilma', passhash: 'other-hash' } into users")
	for i := 0; i < 5; i++ {
		cs.Action(db, fmt.Sprintf("insert { k: %d, v: 'row%d' } into t1", i, i))
	}
	cs.Action(db, "insert { name: 'Foo', group: -1, text: 'function () { 123 }', num: 1 } into stdlib")
	theDb = db
	theDbms = dbms.NewDbmsLocal(db)
	cs.SetGlobalDbms(theDbms)
}

func newWorld(tr *vh.Trace, seed int64) *world {
	db, d := theDb, theDbms
	w := &world{rnd: rand.New(rand.NewSource(seed)), tr: tr, db: db, d: d, th: core.NewThread(nil),
		nonces: map[string]int{}, tokens: map[string]int{},
		codes: map[int]int{}, codesUnauth: map[int]int{}, suspects: map[string]int{}}
	w.observe()
	tr.Emit(vh.E("Start", "db", w.lastDb, "nconn", 3))
	w.connectVictim()
	w.raw = []*rawc{nil, nil}
	w.connectRaw(2)
	w.connectRaw(3)
	return w
}

func (w *world) addr() string {
	w.naddr++
	return fmt.Sprintf("10.0.%d.%d:40%02d", w.naddr/200, w.naddr%200+1, w.naddr%100)
}

func (w *world) observe() {
	dig, err := cs.DbDigest(w.d, w.th)
	if err != nil {
		cs.Fatal("db digest: %v", err)
	}
	w.lastDb = dig
	w.lastCon = cs.ServerConns()
}

// waitConns waits until the server's connection table satisfies pred (asynchronous
// effects such as session end and connection teardown must settle before the next
// request so that they are not attributed to it)
func (w *world) waitConns(pred func(m map[string][]string) bool) {
	for i := 0; i < 4000; i++ {
		if pred(cs.ServerConns()) {
			return
		}
		time.Sleep(500 * time.Microsecond)
	}
	cs.Fatal("server connection table did not settle")
}

func (w *world) connectVictim() {
	addr := w.addr()
	tc, pipe, err := cs.Serve(w.d, addr, cs.Chunking{Seed: w.rnd.Int63(), MaxRead: 3000, MaxWrite: 2000},
		cs.Chunking{Seed: w.rnd.Int63(), MaxRead: 5000, MaxWrite: 1500})
	if err != nil {
		cs.Fatal("connect victim: %v", err)
	}
	dc := dbms.NewDbmsClient(tc)
	v := &victim{addr: addr, pipe: pipe, th: core.NewThread(nil)}
	v.ses = append(v.ses, dc.NewSession(), dc.NewSession())
	w.vic = v
	w.tr.Emit(vh.E("Connect", "c", 1))
	w.waitConns(func(m map[string][]string) bool { _, ok := m[strings.Split(addr, ":")[0]]; return ok })
	w.observe()
}

func (w *world) connectRaw(idx int) {
	addr := w.addr()
	r := cs.NewRaw(w.d, addr, w.rnd.Int63())
	w.raw[idx-2] = &rawc{idx: idx, r: r, knows: idx == 3 && w.rnd.Intn(2) == 0, sessId: map[uint32]string{}}
	w.tr.Emit(vh.E("Connect", "c", idx))
	w.waitConns(func(m map[string][]string) bool { _, ok := m[strings.Split(addr, ":")[0]]; return ok })
	w.observe()
}

func (w *world) shutdown() {
	w.vic.pipe.Close()
	for _, rc := range w.raw {
		rc.r.Close()
	}
	w.waitConns(func(m map[string][]string) bool { return len(m) == 0 })
}

func hostOf(addr string) string { return strings.Split(addr, ":")[0] }

// emit records one request with the observations made after it
func (w *world) emit(c int, addr string, sid int, code int, variant string, garbled bool,
	cr cred, target []int, cls string, res int, errmsg string) {
	prev := w.lastCon
	w.observe()
	if target == nil {
		target = []int{}
	}
	w.nreq++
	w.codes[code]++
	if c > 1 && !w.raw[c-2].authed {
		w.nunauth++
		w.codesUnauth[code]++
	}
	w.tr.Emit(vh.E("Req", "c", c, "s", sid, "cmd", cmdName(code), "code", code, "var", variant,
		"garbled", garbled, "cred", cr.js(), "target", target, "cls", cls, "res", res,
		"db", w.lastDb, "oth0", cs.OthersDigest(prev, hostOf(addr)), "oth1", cs.OthersDigest(w.lastCon, hostOf(addr)),
		"msg", trunc(errmsg)))
}

func trunc(s string) string {
	s = strings.ToValidUTF8(s, "?")
	if len(s) > 60 {
		s = s[:60]
	}
	return s
}

func (w *world) nonceId(s string) int {
	if id, ok := w.nonces[s]; ok {
		return id
	}
	w.nonceS = append(w.nonceS, s)
	w.nonces[s] = len(w.nonceS)
	return len(w.nonceS)
}

func (w *world) tokenId(s string) int {
	if id, ok := w.tokens[s]; ok {
		return id
	}
	w.tokenS = append(w.tokenS, s)
	w.tokens[s] = len(w.tokenS)
	return len(w.tokenS)
}

// ---------------------------------------------------------------- the legitimate client

// vcall runs one DbmsClient call and classifies the outcome
func vcall(f func()) (cls, msg string) {
	done := make(chan struct{})
	go func() {
		defer close(done)
		defer func() {
			if e := recover(); e != nil {
				cls, msg = "err", fmt.Sprint(e)
			}
		}()
		cls = "ok"
		f()
	}()
	select {
	case <-done:
	case m := <-cs.ServerFatal:
		return "fatal", m
	case <-time.After(timeout):
		cs.Fatal("legitimate client: no response within %v", timeout)
	}
	return
}

func (w *world) victimStep() {
	if _, ok := w.lastCon[hostOf(w.vic.addr)]; !ok {
		// the legitimate client's connection was killed: reconnect
		w.vic.pipe.Close()
		w.connectVictim()
		return
	}
	v := w.vic
	si := w.rnd.Intn(len(v.ses))
	ses := v.ses[si]
	switch k := w.rnd.Intn(10); {
	case !v.authed && k < 6 || k == 0:
		// authenticate with the password over a fresh nonce
		var nonce string
		cls, msg := vcall(func() { nonce = ses.Nonce(v.th) })
		nid := 0
		if cls == "ok" {
			nid = w.nonceId(nonce)
		}
		w.emit(1, v.addr, si+1, int(commands.Nonce), "legit", false, noCred, nil, cls, nid, msg)
		if cls != "ok" {
			return
		}
		// sometimes on another session of the same connection (the nonce is per connection)
		si2 := w.rnd.Intn(len(v.ses))
		ok := false
		cls, msg = vcall(func() { ok = v.ses[si2].Auth(v.th, cs.AuthString(goodUser, goodHash, nonce)) })
		w.emit(1, v.addr, si2+1, int(commands.Auth), "legit-pw", false,
			cred{k: "hash", n: nid, good: true}, nil, cls, b2i(ok), msg)
		if ok {
			v.authed = true
		}
	case k < 3:
		cls, msg := vcall(func() { ses.Final() })
		w.emit(1, v.addr, si+1, int(commands.Final), "probe", false, noCred, nil, cls, 0, msg)
	case k < 5:
		// token for handing to another connection
		var tok string
		cls, msg := vcall(func() { tok = ses.Token() })
		tid := 0
		if cls == "ok" {
			tid = w.tokenId(tok)
		}
		w.emit(1, v.addr, si+1, int(commands.Token), "legit", false, noCred, nil, cls, tid, msg)
	default:
		// work on the data: one update transaction
		var t core.ITran
		cls, msg := vcall(func() { t = ses.Transaction(true) })
		w.emit(1, v.addr, si+1, int(commands.Transaction), "work", false, noCred, nil, cls, 0, msg)
		if cls != "ok" {
			return
		}
		nextKey++
		var q core.IQuery
		cls, msg = vcall(func() { q = t.Query("t1", nil) })
		w.emit(1, v.addr, si+1, int(commands.Query), "work", false, noCred, nil, cls, 0, msg)
		if cls == "ok" {
			var rb core.RecordBuilder
			rb.Add(core.IntVal(1000 + nextKey))
			rb.Add(core.SuStr("legit"))
			cls, msg = vcall(func() { q.Output(v.th, rb.Build()) })
			w.emit(1, v.addr, si+1, int(commands.Output), "work", false, noCred, nil, cls, 0, msg)
		}
		if w.rnd.Intn(4) == 0 {
			cls, msg = vcall(func() { t.Abort() })
			w.emit(1, v.addr, si+1, int(commands.Abort), "work", false, noCred, nil, cls, 0, msg)
		} else {
			cls, msg = vcall(func() { t.Complete() })
			w.emit(1, v.addr, si+1, int(commands.Commit), "work", false, noCred, nil, cls, 0, msg)
		}
	}
}

func b2i(b bool) int {
	if b {
		return 1
	}
	return 0
}

// ---------------------------------------------------------------- protocol-level clients

type req struct {
	code    int
	variant string
	garbled bool
	cr      cred
	target  []int
	body    []byte
	noResp  bool
	marker  string
	frame   string // "" = a normal message; otherwise a hand-made mux frame
}

// do sends one request on rc and records it
func (w *world) do(rc *rawc, sid uint32, q req) (cls string, body []byte) {
	if rc.r.Dead {
		w.emit(rc.idx, rc.r.Addr, int(sid), q.code, q.variant, q.garbled, q.cr, q.target, "closed", 0, "")
		return "closed", nil
	}
	msg := append([]byte{byte(q.code)}, q.body...)
	res := 0
	errmsg := ""
	var err error
	switch q.frame {
	case "":
		err = rc.r.Send(sid, msg)
	case "empty": // a message of 0 bytes
		err = rc.r.SendFrame(sid, nil, 1, 0)
	case "badfinal": // final byte neither 0 nor 1
		err = rc.r.SendFrame(sid, msg, 2, len(msg))
	case "oversize": // header announces more than the 1 MB limit
		err = rc.r.SendFrame(sid, msg, 1, 1024*1024+1+w.rnd.Intn(1000))
	case "partial-then-final": // two frames, the first not final and empty
		if err = rc.r.SendFrame(sid, nil, 0, 0); err == nil {
			err = rc.r.SendFrame(sid, msg, 1, len(msg))
		}
	}
	if err != nil {
		cls = "closed"
	} else if q.noResp {
		cls = "none"
		// no response by design: wait until the server has removed the session
		// (its id was set to a unique marker just before) so that the removal is
		// not attributed to a later request
		host := hostOf(rc.r.Addr)
		w.waitConns(func(m map[string][]string) bool {
			for _, s := range m[host] {
				if s == q.marker {
					return false
				}
			}
			return true
		})
	} else {
		type rr struct {
			resp []byte
			err  error
		}
		ch := make(chan rr, 1)
		go func() {
			resp, err := rc.r.Recv(sid, timeout)
			ch <- rr{resp, err}
		}()
		var resp []byte
		fatal := false
		select {
		case x := <-ch:
			resp, err = x.resp, x.err
		case m := <-cs.ServerFatal:
			// the server called core.Fatal while serving this request: the real
			// server process would have exited
			fatal = true
			errmsg = m
			rc.r.Close()
			<-ch
		}
		switch {
		case fatal:
			cls = "fatal"
			host := hostOf(rc.r.Addr)
			w.waitConns(func(m map[string][]string) bool { _, ok := m[host]; return !ok })
		case err != nil && os.IsTimeout(err):
			cs.Fatal("no response to command %d (%s) within %v", q.code, q.variant, timeout)
		case err != nil:
			cls = "closed"
		case len(resp) == 0:
			cls, errmsg = "err", "(empty response)"
		case resp[0] == 1:
			cls, body = "ok", resp[1:]
		default:
			cls = "err"
			d := cs.Dec{B: resp[1:]}
			errmsg = d.Str()
		}
	}
	if cls == "closed" {
		// wait until the server has dropped the connection
		host := hostOf(rc.r.Addr)
		w.waitConns(func(m map[string][]string) bool { _, ok := m[host]; return !ok })
	}
	if cls == "ok" {
		d := cs.Dec{B: body}
		switch cmdName(q.code) {
		case "Auth":
			res = b2i(d.Bool())
		case "Nonce":
			s := d.Str()
			res = w.nonceId(s)
			if rc.nonce != "" {
				rc.stale = append(rc.stale, rc.nonce)
			}
			rc.nonce = s
		case "Token":
			res = w.tokenId(d.Str())
		}
	}
	w.emit(rc.idx, rc.r.Addr, int(sid), q.code, q.variant, q.garbled, q.cr, q.target, cls, res, errmsg)
	return cls, body
}

func enc() *cs.Enc { return &cs.Enc{} }

func (w *world) pick(ss ...string) string { return ss[w.rnd.Intn(len(ss))] }

// someTran / someQuery: numbers that exist on the server (in other sessions) or not
func (w *world) someNum() int64 {
	switch w.rnd.Intn(5) {
	case 0:
		return 0
	case 1:
		return int64(1 + w.rnd.Intn(40))
	case 2:
		return int64(w.rnd.Intn(1 << 20))
	case 3:
		return -int64(w.rnd.Intn(100))
	}
	return int64(2 * (1 + w.rnd.Intn(30)))
}

func (w *world) qc() byte { return w.pick("q", "c", "x")[0] }

func (w *world) rec() string {
	var rb core.RecordBuilder
	rb.Add(core.IntVal(w.rnd.Intn(2000)))
	rb.Add(core.SuStr("evil"))
	return string(rb.Build())
}

func (w *world) queryOb(q string) core.Value {
	ob := core.SuObjectOf(core.SuStr(q))
	if w.rnd.Intn(2) == 0 {
		ob.Set(core.SuStr("user"), core.SuStr(goodUser))
	}
	return ob
}

// wellFormed generates a well formed (and hostile) request body for a command code
func (w *world) wellFormed(rc *rawc, code int) req {
	q := req{code: code, variant: "wf", cr: noCred}
	e := enc()
	tables := []string{"users", "t1", "tables", "stdlib", "columns", "nonexistent"}
	tbl := tables[w.rnd.Intn(len(tables))]
	switch cmdName(code) {
	case "Abort", "Commit", "ReadCount", "WriteCount":
		e.Int(w.someNum())
	case "Admin":
		if rc.authed {
			e.Str(w.pick("create evil (a) key(a)", "drop evil", "ensure evil2 (a, b) key(a)"))
		} else {
			e.Str(w.pick("drop users", "create evil (a) key(a)", "alter t1 create (z)", "drop t1", "rename t1 to t2", "ensure users (extra)"))
		}
	case "Check":
		e.Bool(w.rnd.Intn(2) == 0)
	case "Close", "Header", "Keys", "Order", "Rewind":
		e.Int(w.someNum()).Byte(w.qc())
	case "Strategy":
		e.Int(w.someNum()).Byte(w.qc()).Bool(w.rnd.Intn(2) == 0)
	case "Connections", "Cursors", "Final", "Info", "Libraries", "Size", "Timestamp", "Transactions":
	case "Cursor":
		e.Str(w.pick("users", "t1", "tables", "users join t1"))
	case "Erase":
		e.Int(w.someNum()).Str(tbl).Int(w.someNum())
	case "Exec":
		e.Val(core.SuObjectOf(core.SuStr(w.pick("Database.Schema", "Suneido.Foo", "Query1", "Database.Transactions", "Display")), core.SuStr(tbl)))
	case "Get":
		e.Byte(w.pick("+", "-")[0]).Int(w.someNum()).Int(w.someNum())
	case "GetOne":
		e.Byte(w.pick("+", "-", "1", "@", "?", "x")[0]).Int(w.someNum()).Val(w.queryOb(w.pick("users", "t1", "tables", "users sort user")))
	case "Kill":
		// another connection's session id (default: its address without the port)
		tgt, idx := w.killTarget(rc.idx)
		e.Str(tgt)
		q.target = idx
	case "LibGet":
		e.Str(w.pick("Foo", "Bar", "Init", ""))
	case "Log":
		e.Str(w.pick("", "x", "hello from nobody", strings.Repeat("L", 200)))
	case "Output":
		e.Int(w.someNum()).Str(w.rec())
	case "Query":
		e.Int(w.someNum()).Str(w.pick("users", "t1", "delete users", "tables"))
	case "Action":
		if rc.authed {
			e.Int(w.someNum()).Str(w.pick("update t1 set v = 'x'", "insert { k: 77, v: 'a' } into t1"))
		} else {
			e.Int(w.someNum()).Str(w.pick("delete users", "insert { user: 'evil', passhash: '' } into users", "update t1 set v = 'x'", "delete t1"))
		}
	case "Run":
		if rc.authed {
			e.Str(w.pick("1 + 1", "QueryFirst('users sort user')", "Suneido.evil = 1", "Database('ensure evil3 (a) key(a)')"))
		} else {
			e.Str(w.pick("1 + 1", "Database('drop users')", "QueryFirst('users sort user')", "Suneido.evil = 1", "QueryDo('delete users')"))
		}
	case "SessionId":
		s := w.pick("", "", "sess-"+strconv.Itoa(w.rnd.Intn(5)), "intruder")
		e.Str(s)
	case "Transaction":
		e.Bool(w.rnd.Intn(2) == 0)
	case "Update":
		e.Int(w.someNum()).Str(tbl).Int(w.someNum()).Str(w.rec())
	case "Asof":
		e.Int(w.someNum()).Int(w.someNum())
	case "Token", "Nonce", "EndSession":
	case "Auth":
		return w.authReq(rc)
	default: // beyond the table
	}
	q.body = e.B
	if cmdName(code) == "EndSession" {
		q.noResp = true
	}
	return q
}

// killTarget picks a session id string and says which connections have it
func (w *world) killTarget(self int) (string, []int) {
	type cand struct {
		s   string
		idx []int
	}
	var cands []cand
	cands = append(cands, cand{hostOf(w.vic.addr), []int{1}})
	for _, o := range w.raw {
		if o.idx != self || w.rnd.Intn(4) == 0 {
			cands = append(cands, cand{hostOf(o.r.Addr), []int{o.idx}})
		}
	}
	cands = append(cands, cand{"nobody", nil}, cand{"", nil})
	c := cands[w.rnd.Intn(len(cands))]
	// the target list must say who REALLY has a session with that id right now
	var idx []int
	has := func(addr string) bool {
		for _, s := range w.lastCon[hostOf(addr)] {
			if s == c.s {
				return true
			}
		}
		return false
	}
	if has(w.vic.addr) {
		idx = append(idx, 1)
	}
	for _, o := range w.raw {
		if !o.r.Dead && has(o.r.Addr) {
			idx = append(idx, o.idx)
		}
	}
	return c.s, idx
}

// authReq generates the credential variants
func (w *world) authReq(rc *rawc) req {
	q := req{code: int(commands.Auth)}
	nid := func(s string) int {
		if s == "" {
			return 0
		}
		return w.nonceId(s)
	}
	var s string
	pickTok := func() (string, int) {
		if len(w.tokenS) == 0 {
			return "", 0
		}
		i := w.rnd.Intn(len(w.tokenS))
		return w.tokenS[i], i + 1
	}
	k := w.rnd.Intn(12)
	switch {
	case k == 0 && rc.knows:
		q.variant = "good-hash"
		s = cs.AuthString(goodUser, goodHash, rc.nonce)
		q.cr = cred{k: "hash", n: nid(rc.nonce), good: true}
	case k == 1 && rc.knows && len(rc.stale) > 0:
		q.variant = "good-hash-stale-nonce"
		n := rc.stale[w.rnd.Intn(len(rc.stale))]
		s = cs.AuthString(goodUser, goodHash, n)
		q.cr = cred{k: "hash", n: nid(n), good: true}
	case k == 2 && rc.knows && len(w.nonceS) > 0:
		q.variant = "good-hash-any-nonce" // e.g. another connection's nonce
		n := w.nonceS[w.rnd.Intn(len(w.nonceS))]
		s = cs.AuthString(goodUser, goodHash, n)
		q.cr = cred{k: "hash", n: nid(n), good: true}
	case k == 3:
		q.variant = "wrong-password"
		s = cs.AuthString(goodUser, "guess", rc.nonce)
		q.cr = cred{k: "hash", n: nid(rc.nonce), good: false}
	case k == 4:
		q.variant = "unknown-user-empty-passhash"
		s = cs.AuthString("nosuchuser", "", rc.nonce)
		q.cr = cred{k: "hash", n: nid(rc.nonce), good: false}
	case k == 5:
		q.variant = "other-users-hash"
		s = cs.AuthString(goodUser, "other-hash", rc.nonce)
		q.cr = cred{k: "hash", n: nid(rc.nonce), good: false}
	case k == 6:
		q.variant = "empty-nonce-hash"
		s = cs.AuthString(goodUser, goodHash, "")
		q.cr = cred{k: "hash", n: 0, good: rc.knows}
		if !rc.knows {
			s = cs.AuthString(goodUser, "", "")
		}
	case k <= 8:
		tok, tid := pickTok()
		if tid == 0 {
			tok = "0123456789abcdef"
		}
		q.variant = "token"
		s = tok
		q.cr = cred{k: "tok", t: tid}
	case k <= 10:
		q.variant = "junk"
		s = w.pick("", "x", goodUser, goodUser+"\x00", "\x00", strings.Repeat("\xff", 16), "nosuchuser\x00")
		q.cr = noCred
	default:
		q.variant = "user-only"
		s = goodUser + "\x00" + goodHash
		q.cr = noCred
	}
	if q.variant == "" {
		q.variant = "junk"
		s = "zzz"
		q.cr = noCred
	}
	q.body = enc().Str(s).B
	return q
}

// garble makes a request malformed: truncated or with trailing bytes
func (w *world) garble(q req) req {
	q.garbled = true
	switch w.rnd.Intn(3) {
	case 0:
		if len(q.body) > 0 {
			q.body = q.body[:w.rnd.Intn(len(q.body))]
			q.variant += "+trunc"
			break
		}
		fallthrough
	case 1:
		q.body = append(append([]byte{}, q.body...), byte(w.rnd.Intn(256)))
		q.variant += "+extra"
	default:
		b := make([]byte, w.rnd.Intn(12))
		w.rnd.Read(b)
		q.body = b
		q.variant += "+random"
	}
	return q
}

func (w *world) expire() {
	dbms.VerifExpire()
	w.tr.Emit(vh.E("Expire"))
}

// expiryEpisode: two-phase expiry of a nonce (and of the tokens around): a client
// that knows the password gets a nonce, one or two expiry rounds pass, then it
// authenticates with the right password over that nonce
func (w *world) expiryEpisode() {
	rc := w.raw[1] // connection 3
	if rc.r.Dead || rc.authed || !rc.knows {
		w.disconnect(rc)
		w.connectRaw(3)
		rc = w.raw[1]
		rc.knows = true
	}
	sid := uint32(1 + w.rnd.Intn(3))
	if cls, _ := w.do(rc, sid, req{code: int(commands.Nonce), variant: "episode", cr: noCred}); cls != "ok" {
		return
	}
	for n := 1 + w.rnd.Intn(2); n > 0; n-- {
		w.expire()
	}
	q := req{code: int(commands.Auth), variant: "good-hash-after-expiry",
		cr:   cred{k: "hash", n: w.nonceId(rc.nonce), good: true},
		body: enc().Str(cs.AuthString(goodUser, goodHash, rc.nonce)).B}
	cls, body := w.do(rc, sid, q)
	if cls == "ok" && len(body) > 0 && body[0] == 1 {
		rc.authed = true
	}
	w.do(rc, sid, req{code: int(commands.Final), variant: "probe", cr: noCred})
}

// disconnect closes a protocol-level connection from the client side
func (w *world) disconnect(rc *rawc) {
	if rc.r.Dead {
		return
	}
	host := hostOf(rc.r.Addr)
	rc.r.Close()
	w.waitConns(func(m map[string][]string) bool { _, ok := m[host]; return !ok })
	w.tr.Emit(vh.E("Disconnect", "c", rc.idx))
	w.observe()
}

// unauthRaw returns a protocol-level connection that is not authorised
// (reconnecting one if all are)
func (w *world) unauthRaw() *rawc {
	var cand []*rawc
	for _, rc := range w.raw {
		if !rc.authed && !rc.r.Dead {
			cand = append(cand, rc)
		}
	}
	if len(cand) > 0 {
		return cand[w.rnd.Intn(len(cand))]
	}
	rc := w.raw[w.rnd.Intn(len(w.raw))]
	w.disconnect(rc)
	w.connectRaw(rc.idx)
	return w.raw[rc.idx-2]
}

func (w *world) rawStep(rc *rawc, code int) {
	if rc.r.Dead {
		// reconnect as a fresh (unauthorised) connection
		w.connectRaw(rc.idx)
		return
	}
	sid := uint32(1 + w.rnd.Intn(3))
	if code == frameAttack {
		fr := w.pick("empty", "badfinal", "oversize", "partial-then-final")
		q := req{code: 255, variant: "frame-" + fr, cr: noCred, frame: fr}
		if fr == "partial-then-final" {
			q.code, q.variant = int(commands.Final), "frame-"+fr
		}
		w.do(rc, sid, q)
		return
	}
	q := w.wellFormed(rc, code)
	if w.rnd.Intn(6) == 0 && code != int(commands.EndSession) {
		q = w.garble(q)
	}
	if q.noResp {
		// give the session a unique id first (allowed request), see do()
		w.nmark++
		q.marker = fmt.Sprintf("ending-%d", w.nmark)
		if cls, _ := w.do(rc, sid, req{code: int(commands.SessionId), variant: "mark", cr: noCred,
			body: enc().Str(q.marker).B}); cls != "ok" {
			return
		}
	}
	cls, body := w.do(rc, sid, q)
	if cmdName(q.code) == "Auth" && cls == "ok" && len(body) > 0 && body[0] == 1 {
		rc.authed = true
	}
	// probe: is the connection authorised now?  (Final goes through the wrapper)
	// always after a malformed Auth: it may have been executed before the error
	if w.rnd.Intn(3) == 0 || (cmdName(q.code) == "Auth" && cls != "ok") {
		if pc, _ := w.do(rc, sid, req{code: int(commands.Final), variant: "probe", cr: noCred}); pc == "ok" {
			rc.authed = true
		}
	}
}

func (w *world) scenario(steps, s int) {
	// every command code (and some beyond the table) at least once per scenario
	// on protocol-level connections, in random order, mixed with auth attempts
	var sweep []int
	for c := 0; c < len(cmdNames)+1; c++ {
		sweep = append(sweep, c)
	}
	sweep = append(sweep, 41+w.rnd.Intn(200), frameAttack, frameAttack)
	w.rnd.Shuffle(len(sweep), func(i, j int) { sweep[i], sweep[j] = sweep[j], sweep[i] })
	for i := 0; i < steps; i++ {
		switch k := w.rnd.Intn(20); {
		case k < 5:
			w.victimStep()
		case k == 5 && s%3 == 2:
			if w.rnd.Intn(2) == 0 {
				w.expire()
			} else {
				w.expiryEpisode()
			}
		default:
			rc := w.raw[w.rnd.Intn(len(w.raw))]
			if rc.authed && w.rnd.Intn(6) == 0 {
				// an authorised protocol-level connection does not stay for ever
				w.disconnect(rc)
				continue
			}
			var code int
			switch m := w.rnd.Intn(10); {
			case len(sweep) > 0 && m < 5:
				// the sweep over the command table is for unauthorised connections
				code, sweep = sweep[0], sweep[1:]
				rc = w.unauthRaw()
			case m < 7:
				code = int(commands.Auth)
			case m == 7:
				code = int(commands.Nonce)
			case m == 8:
				code = int(commands.Token)
			default:
				code = w.rnd.Intn(len(cmdNames))
			}
			w.rawStep(rc, code)
		}
	}
	for _, c := range sweep {
		w.rawStep(w.unauthRaw(), c)
	}
}
