// Driver for C34: the REAL server side db19.Timestamp() with the REAL ticker
// (db19.StartTimestamps) is called concurrently by direct callers and by the REAL
// client side core.Thread.Timestamp() (through a DbmsLocal).
//
// phase A: several threads share the process's one client batch state (as Suneido
//
//	threads do), concurrently with direct server callers
//
// phase B: several logical clients are multiplexed over the one client state with the
//
//	verif accessor core.VerifTsSwap, interleaved with direct server callers
//
// slow phases let the real ticker overtake the server timestamp (effective ticks); bursts
// put the server timestamp ahead of the wall clock (ticks must then not move it back).
//
// Trace: the hook events (server, ticker, client state: emitted under the respective
// locks, i.e. in linearisation order) in real-time order, then every value every caller
// received, sorted by value, each with the caller's own sequence number.
// Values are sent as (ms offset from a base second, extra byte).
//
// usage: timestamp <out.ndjson> <seconds>
package main

import (
	"math/rand"
	"os"
	"sort"
	"strconv"
	"sync"
	"sync/atomic"
	"time"

	"github.com/apmckinlay/gsuneido/core"
	"github.com/apmckinlay/gsuneido/db19"
	"github.com/apmckinlay/gsuneido/dbms"

	"verifharness/vh"
)

type got struct {
	c, k int   // caller, caller's own sequence number
	ms   int64 // absolute ms
	x    int   // extra byte
	cmp  int   // real Compare(previous value of this caller, this value), -1 for the first
}

var base int64 // absolute ms of the base second

// absMs maps the date/time FIELDS to a linear ms count (no time zone involved)
func absMs(d core.SuDate) int64 {
	days := time.Date(d.Year(), time.Month(d.Month()), d.Day(), 0, 0, 0, 0, time.UTC).Unix() / 86400
	return days*86400000 + int64(((d.Hour()*60+d.Minute())*60+d.Second())*1000+d.Millisecond())
}

// split returns (ms, extra) of a value returned by a Timestamp function
func split(v core.Value) (int64, int) {
	switch t := v.(type) {
	case core.SuTimestamp:
		s := t.String() // #yyyymmdd.hhmmssmmmccc
		x, err := strconv.Atoi(s[len(s)-3:])
		if err != nil {
			vh.Fatal("cannot parse extra from %s", s)
		}
		return absMs(t.SuDate), x
	case core.SuDate:
		return absMs(t), 0
	}
	vh.Fatal("unexpected timestamp type %T", v)
	return 0, 0
}

type caller struct {
	id   int
	k    int
	prev core.Value
	res  []got
}

func (c *caller) record(v core.Value) {
	ms, x := split(v)
	cmp := -1
	if c.prev != nil {
		cmp = c.prev.Compare(v)
		if cmp < -1 {
			cmp = -1
		} else if cmp > 1 {
			cmp = 1
		}
	}
	c.prev = v
	c.k++
	c.res = append(c.res, got{c: c.id, k: c.k, ms: ms, x: x, cmp: cmp})
}

func off(ms int64) int64 {
	o := ms - base
	if o < 0 || o > 1<<30 {
		vh.Fatal("timestamp offset out of range: %d", o)
	}
	return o
}

func main() {
	out := os.Args[1]
	seconds, _ := strconv.ParseFloat(os.Args[2], 64)
	rnd := rand.New(rand.NewSource(vh.Seed()))
	tr := vh.Create(out)
	defer tr.Close()

	base = absMs(core.Now().WithoutMs()) - 2000
	var curClient atomic.Int64 // logical client whose state is installed
	curClient.Store(0)
	var nsrv, ntick, nticksEff, ncl atomic.Int64
	var lastNext atomic.Int64
	vh.SetSink(func(seq int64, ev string, kv []any) {
		e := vh.E(ev).AddKV(kv)
		switch ev {
		case "TsServer":
			nsrv.Add(1)
			next := absMs(e.Get("next").(core.SuDate))
			lastNext.Store(next)
			tr.Emit(vh.E("Srv", "ms", off(absMs(e.Get("ret").(core.SuDate))), "next", off(next)))
		case "TsTick":
			ntick.Add(1)
			ts := absMs(e.Get("ts").(core.SuDate))
			if ln := lastNext.Load(); ln != 0 && ts > ln {
				nticksEff.Add(1)
			}
			lastNext.Store(ts)
			tr.Emit(vh.E("Tick", "t", off(absMs(e.Get("t").(core.SuDate))), "ms", off(ts)))
		case "TsClient":
			ncl.Add(1)
			tr.Emit(vh.E("Cl", "c", curClient.Load(), "last", off(absMs(e.Get("last").(core.SuDate))),
				"count", e.Get("count"), "limit", e.Get("limit")))
		}
	})
	tr.Emit(vh.E("Start", "batch", core.TsInitialBatch, "threshold", core.TsThreshold))

	local := dbms.NewDbmsLocal(nil)
	core.GetDbms = func() core.IDbms { return local }
	db19.StartTimestamps() // server timestamp = now + 990 ms, starts the real ticker
	t0 := time.Now()
	deadline := t0.Add(time.Duration(seconds * float64(time.Second)))

	var mu sync.Mutex
	var all []*caller
	newCaller := func(id int) *caller {
		c := &caller{id: id}
		mu.Lock()
		all = append(all, c)
		mu.Unlock()
		return c
	}
	nextId := 0
	id := func(kind int) int { nextId++; return kind*1000 + nextId }

	// ---- slow start: very few server calls during the first second, so that the first
	// tick is effective (server timestamp starts 990 ms ahead of the clock); the client
	// fetches in the extra-byte half and exhausts the extra byte (> 255 calls)
	{
		th := core.NewThread(nil)
		c := newCaller(id(1))
		d := newCaller(id(2))
		for i := 0; i < 300; i++ {
			c.record(th.Timestamp())
		}
		d.record(db19.Timestamp())
		for i := 0; i < 3 && time.Since(t0) < 1050*time.Millisecond; i++ {
			time.Sleep(time.Duration(150+rnd.Intn(100)) * time.Millisecond)
			if i%2 == 0 {
				c.record(th.Timestamp())
			} else {
				d.record(db19.Timestamp())
			}
		}
		if w := 1060*time.Millisecond - time.Since(t0); w > 0 {
			time.Sleep(w)
		}
		for i := 0; i < 8; i++ {
			c.record(th.Timestamp())
			d.record(db19.Timestamp())
		}
	}

	// ---- push: put the server timestamp well ahead of the wall clock, so that the next
	// ticks find it ahead (and must leave it alone)
	{
		d := newCaller(id(2))
		for i := 0; i < 1500; i++ {
			d.record(db19.Timestamp())
		}
	}
	lead := func() int64 { return lastNext.Load() - absMs(core.Now()) }
	leadMax := int64(1 << 40)
	if seconds > 5 {
		leadMax = 2500 // long runs: let the clock catch up again and again (effective ticks)
	}
	round := 0
	for time.Now().Before(deadline) {
		if lead() > leadMax {
			// slow phase: sparse calls until the wall clock has overtaken the server timestamp
			th := core.NewThread(nil)
			c := newCaller(id(1))
			d := newCaller(id(2))
			for lead() > -200 && time.Now().Before(deadline) {
				time.Sleep(time.Duration(50+rnd.Intn(100)) * time.Millisecond)
				c.record(th.Timestamp())
				if rnd.Intn(3) == 0 {
					d.record(db19.Timestamp())
				}
			}
			continue
		}
		round++
		// ---- phase A: threads sharing the process client state + direct callers, burst
		{
			curClient.Store(0)
			nth := 2 + rnd.Intn(3)
			nd := 1 + rnd.Intn(3)
			per := 100 + rnd.Intn(200)
			var wg sync.WaitGroup
			start := make(chan struct{})
			for i := 0; i < nth; i++ {
				c := newCaller(id(1))
				seed := rnd.Int63()
				wg.Add(1)
				go func() {
					defer wg.Done()
					r := rand.New(rand.NewSource(seed))
					th := core.NewThread(nil)
					<-start
					for j := 0; j < per; j++ {
						c.record(th.Timestamp())
						if r.Intn(40) == 0 {
							time.Sleep(time.Duration(r.Intn(300)) * time.Microsecond)
						}
					}
				}()
			}
			for i := 0; i < nd; i++ {
				c := newCaller(id(2))
				seed := rnd.Int63()
				wg.Add(1)
				go func() {
					defer wg.Done()
					r := rand.New(rand.NewSource(seed))
					<-start
					for j := 0; j < per/4; j++ {
						c.record(db19.Timestamp())
						if r.Intn(10) == 0 {
							time.Sleep(time.Duration(r.Intn(300)) * time.Microsecond)
						}
					}
				}()
			}
			close(start)
			wg.Wait()
		}
		// ---- phase B: logical clients multiplexed over the one client state
		{
			saved := core.VerifTsSwap(core.VerifTsState{})
			nlc := 2 + rnd.Intn(4)
			states := make([]core.VerifTsState, nlc)
			lcs := make([]*caller, nlc)
			for i := range lcs {
				lcs[i] = newCaller(id(3))
				tr.Emit(vh.E("ClNew", "c", i+1))
			}
			d := newCaller(id(2))
			th := core.NewThread(nil)
			n := 200 + rnd.Intn(400)
			for j := 0; j < n; j++ {
				if rnd.Intn(5) == 0 {
					d.record(db19.Timestamp())
					continue
				}
				i := rnd.Intn(nlc)
				burst := 1 + rnd.Intn(7)
				curClient.Store(int64(i + 1))
				core.VerifTsSwap(states[i])
				for b := 0; b < burst; b++ {
					lcs[i].record(th.Timestamp())
				}
				states[i] = core.VerifTsSwap(core.VerifTsState{})
			}
			curClient.Store(0)
			core.VerifTsSwap(saved)
		}
		// ---- boundary probes: bring the server to an exact millisecond (batch threshold,
		// last batch before it, last ms of a second, first of the next), then let a fresh
		// logical client fetch there and use its batch while a direct caller takes the
		// server's next values
		for _, target := range []int64{495, 500, 999, 0} {
			d := newCaller(id(2))
			for i := 0; i < 3000 && lastNext.Load()%1000 != target; i++ {
				d.record(db19.Timestamp())
			}
			saved := core.VerifTsSwap(core.VerifTsState{})
			tr.Emit(vh.E("ClNew", "c", 1))
			curClient.Store(1)
			c := newCaller(id(3))
			th := core.NewThread(nil)
			c.record(th.Timestamp())
			d.record(db19.Timestamp())
			for i := 0; i < 7; i++ {
				c.record(th.Timestamp())
				if i%3 == 0 {
					d.record(db19.Timestamp())
				}
			}
			curClient.Store(0)
			core.VerifTsSwap(saved)
		}
		time.Sleep(time.Duration(40+rnd.Intn(80)) * time.Millisecond)
	}
	// make sure something is handed out after the last tick that happened
	{
		th := core.NewThread(nil)
		c := newCaller(id(1))
		d := newCaller(id(2))
		for i := 0; i < 20; i++ {
			c.record(th.Timestamp())
			d.record(db19.Timestamp())
		}
	}
	vh.SetSink(nil)

	// ---- everything every caller received, sorted by value
	var res []got
	for _, c := range all {
		res = append(res, c.res...)
	}
	sort.SliceStable(res, func(i, j int) bool {
		if res[i].ms != res[j].ms {
			return res[i].ms < res[j].ms
		}
		if res[i].x != res[j].x {
			return res[i].x < res[j].x
		}
		if res[i].c != res[j].c {
			return res[i].c < res[j].c
		}
		return res[i].k < res[j].k
	})
	tr.Emit(vh.E("Sorted", "n", len(res)))
	for _, g := range res {
		tr.Emit(vh.E("Got", "c", g.c, "k", g.k, "ms", off(g.ms), "x", g.x, "cmp", g.cmp))
	}
	tr.Emit(vh.E("Done", "n", len(res), "callers", len(all)))
	nx := 0
	for _, g := range res {
		if g.x > 0 {
			nx++
		}
	}
	vh.Summary("values", len(res), "callers", len(all), "with_extra", nx, "server_calls", nsrv.Load(),
		"client_calls", ncl.Load(), "ticks", ntick.Load(), "effective_ticks", nticksEff.Load(),
		"rounds", round, "events", tr.N, "hooks", nsrv.Load() > 0)
}
