// Driver for C42: renders every combination of a transaction block body to Suneido
// source and executes it with the REAL compiler and interpreter against a heap
// database:
//
//	function () {
//	    r = Transaction(update:) {|t|
//	        <up to 3 steps: insert | delete | t.Complete() | t.Rollback()>, each followed by VhMark(i)
//	        <terminator: end | return | return from a nested block | throw | throw in a called
//	                     function | break | continue>
//	    }
//	    return r + 100
//	}
//
// For every program the trace records the steps that were executed (VhMark reached or
// not), whether the terminator was reached, the class of the exception that propagated
// out of the function, its return value, and the contents of the table afterwards.
// The trace is validated by spec/trace/TraceTranBlock.tla.
//
// usage: tranblock <out.ndjson> <nrandom>
package main

import (
	"fmt"
	"math/rand"
	"os"
	"sort"
	"strconv"
	"strings"
	"time"

	_ "github.com/apmckinlay/gsuneido/builtin"
	"github.com/apmckinlay/gsuneido/compile"
	"github.com/apmckinlay/gsuneido/core"
	"github.com/apmckinlay/gsuneido/db19"
	"github.com/apmckinlay/gsuneido/db19/stor"
	"github.com/apmckinlay/gsuneido/dbms"
	"github.com/apmckinlay/gsuneido/dbms/query"

	"verifharness/vh"
)

var terms = []string{"end", "return", "returnNested", "throw", "throwNested", "break", "continue"}
var kinds = []string{"W", "D", "C", "R"}

var marks []int

type prog struct {
	steps []string
	term  string
	outer int // the block uses a variable of the enclosing function (closure)
	form  int // 0: Transaction(update:) {|t| }   1: block stored in a variable, passed as block:
}

type env struct {
	th      *core.Thread
	db      *db19.Database
	tr      *vh.Trace
	nextKey int
	nprogs  int
}

func main() {
	out := os.Args[1]
	nrandom, _ := strconv.Atoi(os.Args[2])
	rnd := rand.New(rand.NewSource(vh.Seed()))
	tr := vh.Create(out)
	defer tr.Close()
	core.Global.TestDef("VhMark", &core.SuBuiltinRaw{
		Fn: func(th *core.Thread, as *core.ArgSpec, args []core.Value) core.Value {
			marks = append(marks, core.ToInt(args[0]))
			return nil
		},
		BuiltinParams: core.BuiltinParams{ParamSpec: core.ParamSpecAt}})
	core.Global.TestDef("VhBoom", compile.Constant(`function () { throw "boom" }`))

	// exhaustive part: every step sequence of length <= 3, every terminator, closure or not,
	// both call forms; split over several databases so that scenarios stay short
	var all []prog
	var seqs [][]string
	var gen func(prefix []string, n int)
	gen = func(prefix []string, n int) {
		seqs = append(seqs, append([]string{}, prefix...))
		if n == 0 {
			return
		}
		for _, k := range kinds {
			gen(append(prefix, k), n-1)
		}
	}
	gen(nil, 3)
	for _, s := range seqs {
		for _, t := range terms {
			for outer := 0; outer < 2; outer++ {
				for form := 0; form < 2; form++ {
					all = append(all, prog{steps: s, term: t, outer: outer, form: form})
				}
			}
		}
	}
	// seed dependent order so that the database contents seen by each program vary
	rnd.Shuffle(len(all), func(i, j int) { all[i], all[j] = all[j], all[i] })
	e := (*env)(nil)
	nscen := 0
	for i, p := range all {
		if i%100 == 0 {
			e = newEnv(tr, nscen > 0)
			nscen++
		}
		e.run(p)
	}
	// random longer bodies
	for i := 0; i < nrandom; i++ {
		if i%100 == 0 {
			e = newEnv(tr, nscen > 0)
			nscen++
		}
		n := 4 + rnd.Intn(4)
		p := prog{term: terms[rnd.Intn(len(terms))], outer: rnd.Intn(2), form: rnd.Intn(2)}
		for j := 0; j < n; j++ {
			k := kinds[rnd.Intn(2)] // mostly writes
			if rnd.Intn(5) == 0 {
				k = kinds[2+rnd.Intn(2)]
			}
			p.steps = append(p.steps, k)
		}
		e.run(p)
	}
	vh.Summary("scenarios", nscen, "programs", len(all)+nrandom, "events", tr.N)
}

func newEnv(tr *vh.Trace, reset bool) *env {
	if reset {
		tr.Reset()
	}
	db := db19.CreateDb(stor.HeapStor(8192))
	db19.StartConcur(db, time.Minute)
	query.DoAdmin(db, "create tb (a) key(a)", nil)
	d := dbms.NewDbmsLocal(db)
	core.GetDbms = func() core.IDbms { return d }
	e := &env{th: core.NewThread(nil), db: db, tr: tr, nextKey: 1}
	// seed rows through plain (non-block) transactions
	e.eval(`t = Transaction(update:)
		for i in ..3
			t.QueryDo("insert { a: " $ (i + 1) $ " } into tb")
		t.Complete()`)
	e.nextKey = 4
	tr.Emit(vh.E("Seed", "db", e.contents()))
	return e
}

func (e *env) eval(src string) core.Value {
	return compile.EvalString(e.th, src)
}

// contents reads the table with a plain read transaction (not the block form)
func (e *env) contents() []int {
	v := e.eval(`ob = Object()
		t = Transaction(read:)
		q = t.Query("tb")
		while false isnt x = q.Next()
			ob.Add(x.a)
		q.Close()
		t.Complete()
		return ob`)
	ob := v.(*core.SuObject)
	res := []int{}
	for i := 0; i < ob.ListSize(); i++ {
		res = append(res, core.ToInt(ob.ListGet(i)))
	}
	sort.Ints(res)
	return res
}

func classify(x any) string {
	s := fmt.Sprint(x)
	switch {
	case strings.Contains(s, "boom"):
		return "user"
	case strings.Contains(s, "block:break"):
		return "break"
	case strings.Contains(s, "block:continue"):
		return "continue"
	}
	return "other"
}

func (e *env) run(p prog) {
	have := e.contents()
	used := map[int]bool{}
	var body strings.Builder
	type st struct {
		kind string
		k    int
	}
	steps := []st{}
	for i, k := range p.steps {
		s := st{kind: k}
		switch k {
		case "W":
			s.k = e.nextKey
			e.nextKey++
			fmt.Fprintf(&body, "\t\tt.QueryDo(\"insert { a: %d } into tb\")\n", s.k)
		case "D":
			// delete a committed row that this program has not deleted yet
			s.k = 0
			for _, h := range have {
				if !used[h] {
					s.k = h
					used[h] = true
					break
				}
			}
			if s.k == 0 {
				s.kind = "W"
				s.k = e.nextKey
				e.nextKey++
				fmt.Fprintf(&body, "\t\tt.QueryDo(\"insert { a: %d } into tb\")\n", s.k)
			} else {
				fmt.Fprintf(&body, "\t\tt.QueryDo(\"delete tb where a is %d\")\n", s.k)
			}
		case "C":
			body.WriteString("\t\tt.Complete()\n")
		case "R":
			body.WriteString("\t\tt.Rollback()\n")
		}
		fmt.Fprintf(&body, "\t\tVhMark(%d)\n", i+1)
		if p.outer == 1 {
			body.WriteString("\t\tn++\n")
		}
		steps = append(steps, s)
	}
	fmt.Fprintf(&body, "\t\tVhMark(99)\n")
	switch p.term {
	case "end":
		body.WriteString("\t\t77\n")
	case "return":
		body.WriteString("\t\treturn 5\n")
	case "returnNested":
		body.WriteString("\t\tb2 = { return 5 }\n\t\tb2()\n\t\t77\n")
	case "throw":
		body.WriteString("\t\tthrow \"boom\"\n")
	case "throwNested":
		body.WriteString("\t\tVhBoom()\n\t\t77\n")
	case "break":
		body.WriteString("\t\tbreak\n")
	case "continue":
		body.WriteString("\t\tcontinue\n")
	}
	var src strings.Builder
	src.WriteString("function () {\n")
	if p.outer == 1 {
		src.WriteString("\tn = 0\n")
	}
	if p.form == 0 {
		src.WriteString("\tr = Transaction(update:) {|t|\n" + body.String() + "\t}\n")
	} else {
		src.WriteString("\tb = {|t|\n" + body.String() + "\t}\n\tr = Transaction(update:, block: b)\n")
	}
	src.WriteString("\treturn r + 100\n}")

	marks = marks[:0]
	exc := "none"
	ret := -1
	func() {
		defer func() {
			if x := recover(); x != nil {
				exc = classify(x)
			}
		}()
		fn := compile.Constant(src.String())
		v := e.th.Call(fn)
		if n, ok := v.ToInt(); ok {
			ret = n
		} else {
			ret = -2
		}
	}()
	e.nprogs++
	e.tr.Emit(vh.E("Begin", "outer", p.outer, "form", p.form, "src", src.String()))
	reached := map[int]bool{}
	for _, m := range marks {
		reached[m] = true
	}
	for i, s := range steps {
		if reached[i+1] {
			e.tr.Emit(vh.E("Step", "kind", s.kind, "k", s.k, "ok", 1))
		} else {
			// the first step whose mark was not reached is the one that threw
			e.tr.Emit(vh.E("Step", "kind", s.kind, "k", s.k, "ok", 0))
			break
		}
	}
	r99 := 0
	if reached[99] {
		r99 = 1
	}
	e.tr.Emit(vh.E("End", "term", p.term, "reached", r99, "exc", exc, "ret", ret, "db", e.contents()))
}
