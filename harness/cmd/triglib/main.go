// Driver for C44 (library-defined triggers): runs the REAL trigger lookup path
//
//	db19 UpdateTran.Output/update/Delete -> triggers.CallTrigger -> core.Global.FindName
//	  -> core.Libload -> dbms.DbmsLocal.LibGet (library tables, Libraries() order)
//	  -> compile.NamedConstant
//
// against a heap database with a local dbms, three library tables (stdlib, applib,
// extlib) and three data tables. The triggers are Suneido source stored in library
// records named Trigger_<table>; every definition reports the library and the version
// of the record it was compiled from to a Go-visible log (builtin TrigLibLog). Seeded
// random sequences of: library record add / update / delete (with or without the
// Unload(name) a library editor issues), Unload(name), Unload(), Use, Unuse (the real
// builtins, called from Suneido code), loading an unrelated library global, nested
// DisableTrigger / EnableTrigger, DoWithoutTriggers, and inserts / updates / deletes of
// single rows (query actions or the record interface, 1-3 per transaction).
// Every action is logged with its observable result as one ndjson event; the trace is
// validated by spec/trace/TraceTrigLib.tla.
//
// core.Libload is a copy of libload in gsuneido.go (package main, not importable)
// without overrides and library tags.
//
// usage: triglib <out.ndjson> <nscenarios>
package main

import (
	"fmt"
	"math/rand"
	"os"
	"strconv"
	"strings"
	"time"

	_ "github.com/apmckinlay/gsuneido/builtin"
	"github.com/apmckinlay/gsuneido/compile"
	"github.com/apmckinlay/gsuneido/core"
	"github.com/apmckinlay/gsuneido/db19"
	"github.com/apmckinlay/gsuneido/db19/stor"
	"github.com/apmckinlay/gsuneido/dbms"
	"github.com/apmckinlay/gsuneido/dbms/query"

	"verifharness/vh"
)

const libSchema = " (name, text, group, num) key(name, group) key(num)"

var tables = []string{"t1", "t2", "t3"}
var libsAll = []string{"stdlib", "applib", "extlib"}

const nkeys = 4

// ---------------------------------------------------------------- Go-visible trigger log

type tcall struct {
	t, lib    string
	ver       int
	k, ov, nv int
	intran    int
	op        int
}

var (
	tcalls  []tcall
	curTran string
	curOp   int
)

func recVals(th *core.Thread, v core.Value) (k, val int) {
	if v == core.False {
		return 0, 0
	}
	return core.ToInt(v.Get(th, core.SuStr("k"))), core.ToInt(v.Get(th, core.SuStr("v")))
}

func raw(fn func(th *core.Thread, args []core.Value) core.Value) core.Value {
	return &core.SuBuiltinRaw{
		Fn: func(th *core.Thread, as *core.ArgSpec, args []core.Value) core.Value {
			return fn(th, args)
		},
		BuiltinParams: core.BuiltinParams{ParamSpec: core.ParamSpecAt}}
}

// TrigLibLog(table, lib, ver, t, oldrec, newrec) is called by every trigger definition
var _ = core.Global.Builtin("TrigLibLog", raw(func(th *core.Thread, args []core.Value) core.Value {
	c := tcall{t: core.ToStr(args[0]), lib: core.ToStr(args[1]), ver: core.ToInt(args[2]), op: curOp}
	if args[3].String() == curTran && curTran != "" {
		c.intran = 1
	}
	ko, ov := recVals(th, args[4])
	kn, nv := recVals(th, args[5])
	c.k, c.ov, c.nv = ko, ov, nv
	if ko == 0 {
		c.k = kn
	}
	tcalls = append(tcalls, c)
	return nil
}))

// TrigLibEnter(t) records the transaction the row changes are made in
var _ = core.Global.Builtin("TrigLibEnter", raw(func(th *core.Thread, args []core.Value) core.Value {
	curTran = args[0].String()
	return nil
}))

// TrigLibOp(i) separates the row changes of one transaction
var _ = core.Global.Builtin("TrigLibOp", raw(func(th *core.Thread, args []core.Value) core.Value {
	curOp = core.ToInt(args[0])
	return nil
}))

// same as libload in gsuneido.go, without overrides and tags
func libload(th *core.Thread, name string) (result core.Value, e any) {
	defer func() {
		if e = recover(); e != nil {
			result = nil
		}
	}()
	defs := th.Dbms().LibGet(name)
	for i := 0; i < len(defs); i += 2 {
		if defs[i+1] != "" {
			result = compile.NamedConstant(defs[i], name, defs[i+1], result)
		}
	}
	return result, nil
}

// ---------------------------------------------------------------- scenario

type env struct {
	r    *rand.Rand
	tr   *vh.Trace
	db   *db19.Database
	d    *dbms.DbmsLocal
	th   *core.Thread
	recs map[string]map[string]int // lib -> table -> version (0 none)
	rows map[string][]int          // table -> value per key (0 absent)
	dis  map[string]int
	nerr int
}

var (
	nextVer  = 0
	nextNum  = 0
	nActions = 0
	nRows    = 0
	nCalls   = 0
	nErrors  = 0
	lastErr  = ""
)

func (e *env) eval(src string) (v core.Value, err any) {
	defer func() {
		if x := recover(); x != nil {
			err = x
			nErrors++
			lastErr = fmt.Sprint(x)
		}
	}()
	return compile.EvalString(e.th, src), nil
}

func (e *env) must(src string) core.Value {
	v, err := e.eval(src)
	if err != nil {
		vh.Fatal("setup: %v\n%s", err, src)
	}
	return v
}

func trigText(table, lib string, ver int) string {
	return fmt.Sprintf("function (t, oldrec, newrec) { TrigLibLog(#%s, #%s, %d, t, oldrec, newrec) }", table, lib, ver)
}

func newEnv(r *rand.Rand, tr *vh.Trace) *env {
	db := db19.CreateDb(stor.HeapStor(8192))
	db19.StartConcur(db, 50*time.Millisecond)
	for _, l := range libsAll {
		query.DoAdmin(db, "create "+l+libSchema, nil)
	}
	for _, t := range tables {
		query.DoAdmin(db, "create "+t+" (k, v) key(k)", nil)
	}
	d := dbms.NewDbmsLocal(db)
	core.GetDbms = func() core.IDbms { return d }
	e := &env{r: r, tr: tr, db: db, d: d, th: core.NewThread(nil),
		recs: map[string]map[string]int{}, rows: map[string][]int{}, dis: map[string]int{}}
	for _, l := range libsAll {
		e.recs[l] = map[string]int{}
	}
	for _, t := range tables {
		e.rows[t] = make([]int, nkeys+1)
	}
	nextNum++
	e.must(fmt.Sprintf(`Transaction(update:) {|t| t.QueryDo('insert { name: "TrigLibHelper", group: -1, num: %d, text: "function () { return 1 }" } into stdlib') }`, nextNum))
	// initial library contents
	type ini struct {
		lib, t string
		ver    int
	}
	var inis []ini
	for _, l := range libsAll {
		for _, t := range tables {
			if r.Intn(3) == 0 {
				nextVer++
				nextNum++
				e.must(fmt.Sprintf(`Transaction(update:) {|t| t.QueryDo('insert { name: "Trigger_%s", group: -1, num: %d, text: "%s" } into %s') }`,
					t, nextNum, trigText(t, l, nextVer), l))
				e.recs[l][t] = nextVer
				inis = append(inis, ini{l, t, nextVer})
			}
		}
	}
	// start of session (the events are emitted below, in this order): nothing is cached (the global table is process wide; the names used
	// here are unloaded one by one so that a scenario never depends on the previous one)
	for _, n := range append(append([]string{"TrigLibHelper"}, tables...), libsAll...) {
		if n != "TrigLibHelper" {
			n = "Trigger_" + n
		}
		core.Global.Unload(n)
	}
	e.must("Unload()")
	for _, x := range inis {
		tr.Emit(vh.E("AddRec", "lib", x.lib, "t", x.t, "ver", x.ver, "unload", 0))
	}
	tr.Emit(vh.E("UnloadAll"))
	return e
}

func (e *env) close() {
	e.db.Close()
}

func (e *env) libs() []string {
	return append([]string{}, e.d.Libraries()...)
}

func b2i(b bool) int {
	if b {
		return 1
	}
	return 0
}

func (e *env) editRec() {
	l := libsAll[e.r.Intn(len(libsAll))]
	t := tables[e.r.Intn(len(tables))]
	unload := e.r.Intn(2)
	name := "Trigger_" + t
	switch {
	case e.recs[l][t] == 0:
		nextVer++
		nextNum++
		_, err := e.eval(fmt.Sprintf(`Transaction(update:) {|t| t.QueryDo('insert { name: "%s", group: -1, num: %d, text: "%s" } into %s') }`,
			name, nextNum, trigText(t, l, nextVer), l))
		if err != nil {
			vh.Fatal("AddRec: %v", err)
		}
		e.recs[l][t] = nextVer
		if unload == 1 {
			e.must(fmt.Sprintf(`Unload("%s")`, name))
		}
		e.tr.Emit(vh.E("AddRec", "lib", l, "t", t, "ver", nextVer, "unload", unload))
	case e.r.Intn(3) == 0:
		var src string
		if e.r.Intn(2) == 0 {
			src = fmt.Sprintf(`Transaction(update:) {|t| t.QueryDo('delete %s where name is "%s" and group is -1') }`, l, name)
		} else {
			src = fmt.Sprintf(`Transaction(update:) {|t| t.Query1('%s where name is "%s" and group is -1').Delete() }`, l, name)
		}
		if _, err := e.eval(src); err != nil {
			vh.Fatal("DelRec: %v", err)
		}
		e.recs[l][t] = 0
		if unload == 1 {
			e.must(fmt.Sprintf(`Unload("%s")`, name))
		}
		e.tr.Emit(vh.E("DelRec", "lib", l, "t", t, "unload", unload))
	default:
		nextVer++
		var src string
		if e.r.Intn(2) == 0 {
			src = fmt.Sprintf(`Transaction(update:) {|t| t.QueryDo('update %s where name is "%s" and group is -1 set text = "%s"') }`,
				l, name, trigText(t, l, nextVer))
		} else {
			src = fmt.Sprintf(`Transaction(update:) {|t| x = t.Query1('%s where name is "%s" and group is -1'); x.text = '%s'; x.Update() }`,
				l, name, trigText(t, l, nextVer))
		}
		if _, err := e.eval(src); err != nil {
			vh.Fatal("UpdRec: %v", err)
		}
		e.recs[l][t] = nextVer
		if unload == 1 {
			e.must(fmt.Sprintf(`Unload("%s")`, name))
		}
		e.tr.Emit(vh.E("UpdRec", "lib", l, "t", t, "ver", nextVer, "unload", unload))
	}
}

func (e *env) use() {
	l := libsAll[e.r.Intn(len(libsAll))]
	v := e.must(fmt.Sprintf(`Use("%s")`, l))
	e.tr.Emit(vh.E("Use", "lib", l, "ok", b2i(v == core.True), "libs", e.libs()))
}

func (e *env) unuse() {
	l := libsAll[e.r.Intn(len(libsAll))]
	v := e.must(fmt.Sprintf(`Unuse("%s")`, l))
	e.tr.Emit(vh.E("Unuse", "lib", l, "ok", b2i(v == core.True), "libs", e.libs()))
}

type rowop struct {
	t         string
	op        string
	k, ov, nv int
	without   bool // inside DoWithoutTriggers
}

// rowSrc renders one row change; form 0 = query action, 1 = record interface
func rowSrc(o rowop, form int) string {
	var s string
	switch o.op {
	case "ins":
		if form == 0 {
			s = fmt.Sprintf(`t.QueryDo('insert { k: %d, v: %d } into %s')`, o.k, o.nv, o.t)
		} else {
			s = fmt.Sprintf(`q = t.Query('%s'); q.Output(Record(k: %d, v: %d)); q.Close()`, o.t, o.k, o.nv)
		}
	case "upd":
		if form == 0 {
			s = fmt.Sprintf(`t.QueryDo('update %s where k is %d set v = %d')`, o.t, o.k, o.nv)
		} else {
			s = fmt.Sprintf(`x = t.Query1('%s where k is %d'); x.v = %d; x.Update()`, o.t, o.k, o.nv)
		}
	case "del":
		if form == 0 {
			s = fmt.Sprintf(`t.QueryDo('delete %s where k is %d')`, o.t, o.k)
		} else {
			s = fmt.Sprintf(`x = t.Query1('%s where k is %d'); x.Delete()`, o.t, o.k)
		}
	}
	if o.without {
		s = fmt.Sprintf("DoWithoutTriggers(#(%s)) { %s }", o.t, s)
	}
	return s
}

func (e *env) readRow(t string, k int) int {
	v := e.must(fmt.Sprintf(`x = Query1('%s where k is %d'); return x is false ? 0 : x.v`, t, k))
	return core.ToInt(v)
}

// rowChanges runs 1..3 single-row changes in one transaction
func (e *env) rowChanges() {
	n := 1
	if e.r.Intn(4) == 0 {
		n = 2 + e.r.Intn(2)
	}
	tmp := map[string][]int{}
	for _, t := range tables {
		tmp[t] = append([]int{}, e.rows[t]...)
	}
	var ops []rowop
	var body strings.Builder
	body.WriteString("Transaction(update:)\n\t{|t|\n\tTrigLibEnter(t)\n")
	for i := 0; i < n; i++ {
		o := rowop{t: tables[e.r.Intn(len(tables))], k: 1 + e.r.Intn(nkeys), without: e.r.Intn(10) == 0}
		o.ov = tmp[o.t][o.k]
		switch {
		case o.ov == 0:
			o.op, o.nv = "ins", 1+e.r.Intn(9)
		case e.r.Intn(3) == 0:
			o.op, o.nv = "del", 0
		default:
			o.op = "upd"
			o.nv = 1 + e.r.Intn(9)
			if o.nv == o.ov {
				o.nv = o.ov%9 + 1
			}
		}
		tmp[o.t][o.k] = o.nv
		ops = append(ops, o)
		fmt.Fprintf(&body, "\tTrigLibOp(%d)\n\t%s\n", i, rowSrc(o, e.r.Intn(2)))
	}
	body.WriteString("\t}\n")
	tcalls, curTran, curOp = nil, "", -1
	_, err := e.eval(body.String())
	curTran = ""
	committed := 1
	for _, o := range ops {
		if e.readRow(o.t, o.k) != tmp[o.t][o.k] {
			committed = 0
		}
	}
	if committed == 1 {
		e.rows = tmp
	} else if err == nil {
		vh.Fatal("row changes neither failed nor visible:\n%s", body.String())
	}
	for i, o := range ops {
		cs := []any{}
		for _, c := range tcalls {
			if c.op == i {
				cs = append(cs, map[string]any{"t": c.t, "lib": c.lib, "ver": c.ver, "k": c.k, "ov": c.ov, "nv": c.nv, "intran": c.intran})
				nCalls++
			}
		}
		if o.without {
			e.tr.Emit(vh.E("Disable", "t", o.t))
		}
		e.tr.Emit(vh.E("Row", "t", o.t, "op", o.op, "k", o.k, "ov", o.ov, "nv", o.nv, "calls", cs, "committed", committed))
		if o.without {
			e.tr.Emit(vh.E("Enable", "t", o.t))
		}
		nRows++
	}
}

func (e *env) step() {
	nActions++
	switch x := e.r.Intn(100); {
	case x < 30:
		e.rowChanges()
	case x < 48:
		e.editRec()
	case x < 60:
		e.use()
	case x < 70:
		e.unuse()
	case x < 78:
		e.must("Unload()")
		e.tr.Emit(vh.E("UnloadAll"))
	case x < 84:
		t := tables[e.r.Intn(len(tables))]
		e.must(fmt.Sprintf(`Unload("Trigger_%s")`, t))
		e.tr.Emit(vh.E("Unload", "t", t))
	case x < 88:
		if v := e.must("TrigLibHelper()"); core.ToInt(v) != 1 {
			vh.Fatal("TrigLibHelper returned %v", v)
		}
		e.tr.Emit(vh.E("LoadOther"))
	case x < 94:
		t := tables[e.r.Intn(len(tables))]
		if e.dis[t] < 3 {
			e.th.Dbms().DisableTrigger(t)
			e.dis[t]++
			e.tr.Emit(vh.E("Disable", "t", t))
		}
	default:
		t := tables[e.r.Intn(len(tables))]
		if e.dis[t] > 0 {
			e.th.Dbms().EnableTrigger(t)
			e.dis[t]--
			e.tr.Emit(vh.E("Enable", "t", t))
		}
	}
}

func main() {
	out := os.Args[1]
	nscen, _ := strconv.Atoi(os.Args[2])
	r := rand.New(rand.NewSource(vh.Seed()))
	tr := vh.Create(out)
	defer tr.Close()
	core.Libload = libload
	for s := 0; s < nscen; s++ {
		if s > 0 {
			tr.Reset()
		}
		e := newEnv(r, tr)
		n := 20 + r.Intn(60)
		for i := 0; i < n; i++ {
			e.step()
		}
		e.close()
	}
	vh.Summary("scenarios", nscen, "actions", nActions, "rowchanges", nRows, "trigger_calls", nCalls,
		"errors", nErrors, "last_error", lastErr, "events", tr.N)
}
