// Driver for C39: drives the REAL util/ranges, util/ordset, util/sortlist, util/bloom,
// util/roaring, util/shmap, util/cache and util/lrucache with seeded random and boundary
// biased operation sequences and records every call (arguments + results) as ndjson for
// spec/trace/TraceRanges.tla. One scenario = one instance of one data type.
//
// Keys of ranges / ordset are logged as ranks of a strictly monotone key table (asserted),
// including the empty string, embedded zero bytes, shared long prefixes. Capacity is
// reached with bulk scenarios (> 128 * 96 entries).
//
// usage: utilsets <trace.ndjson> <scale>      (scale 1 = quick, larger = more scenarios)
package main

import (
	"fmt"
	"math/rand"
	"os"
	"runtime/debug"
	"sort"
	"strconv"
	"strings"

	"github.com/apmckinlay/gsuneido/util/bloom"
	"github.com/apmckinlay/gsuneido/util/cache"
	"github.com/apmckinlay/gsuneido/util/lrucache"
	"github.com/apmckinlay/gsuneido/util/ordset"
	"github.com/apmckinlay/gsuneido/util/ranges"
	"github.com/apmckinlay/gsuneido/util/roaring"
	"github.com/apmckinlay/gsuneido/util/shmap"
	"github.com/apmckinlay/gsuneido/util/sortlist"

	"verifharness/nastykeys"
	"verifharness/vh"
)

var stats = map[string]int{}
var tr *vh.Trace
var rnd *rand.Rand
var first = true

func safely(f func()) (ok int, msg string) {
	defer func() {
		if r := recover(); r != nil {
			ok = 0
			msg = fmt.Sprint(r)
			if len(msg) > 160 {
				msg = msg[:160]
			}
			stats["panics"]++
			if os.Getenv("VERIF_DEBUG") != "" {
				fmt.Fprintf(os.Stderr, "PANIC %s\n%s\n", msg, debug.Stack())
			}
		}
	}()
	f()
	return 1, ""
}

func b2i(b bool) int {
	if b {
		return 1
	}
	return 0
}

func scn(adt string, K, cap int, kind string) {
	if !first {
		tr.Reset()
	}
	first = false
	tr.Emit(vh.E("Scn", "adt", adt, "K", K, "cap", cap, "kind", kind))
	stats["scenarios"]++
	stats["scn_"+adt]++
}

func universe(K int, style nastykeys.Style) []string {
	keys := nastykeys.Universe(rnd, K, style)
	if K < 100 && keys[0] != "" {
		keys = append([]string{""}, keys...) // small universes always contain the empty key
	}
	if msg := nastykeys.Check(keys); msg != "" {
		vh.Fatal("%s", msg)
	}
	return keys
}

// ------------------------------------------------------------------ ranges

func rIns(rs *ranges.Ranges, keys []string, f, t int) {
	var ret int
	ok, msg := safely(func() { ret = rs.Insert(keys[f-1], keys[t-1]) })
	full := 0
	if ret == ranges.Full {
		full, ret = 1, 0
	}
	tr.Emit(vh.E("RIns", "f", f, "t", t, "ret", ret, "full", full, "ok", ok, "msg", msg))
	stats["ranges_ops"]++
}

func rHas(rs *ranges.Ranges, keys []string, x int) {
	var res bool
	ok, msg := safely(func() { res = rs.Contains(keys[x-1]) })
	tr.Emit(vh.E("RHas", "x", x, "res", b2i(res), "ok", ok, "msg", msg))
	stats["ranges_ops"]++
}

func rangesScenario(K int, style nastykeys.Style, nops int, flavour int) {
	keys := universe(K, style)
	K = len(keys)
	scn("ranges", K, 0, fmt.Sprintf("%s/f%d", style, flavour))
	rs := &ranges.Ranges{}
	var nilrs *ranges.Ranges
	if ok, _ := safely(func() { _ = nilrs.Contains("x") }); ok == 0 {
		tr.Emit(vh.E("RHas", "x", 1, "res", 1, "ok", 0, "msg", "nil receiver panicked"))
	}
	pt := func() int { return 1 + rnd.Intn(K) }
	rHas(rs, keys, 1) // empty structure, least key (the empty string in small universes)
	rHas(rs, keys, K)
	for i := 0; i < nops; i++ {
		switch x := rnd.Intn(10); {
		case x < 6:
			f, t := pt(), 0
			switch flavour {
			case 0: // short ranges: many intervals, adjacent / touching / overlapping
				t = min(K, f+rnd.Intn(3))
			case 1: // points and occasionally a wide range swallowing many (merges across leaves)
				t = f
				if rnd.Intn(25) == 0 {
					t = min(K, f+rnd.Intn(K/2+1))
				}
			default: // anything, nested and overlapping
				t = pt()
				if f > t {
					f, t = t, f
				}
			}
			rIns(rs, keys, f, t)
		case x < 7: // re-insert something nested in a previous insert or adjacent to it
			f := pt()
			t := min(K, f+rnd.Intn(4))
			rIns(rs, keys, f, t)
			if f < t {
				rIns(rs, keys, f+rnd.Intn(t-f+1), t)
			}
			if t < K {
				rIns(rs, keys, t, t+1) // touching at the end point: must merge
			}
			if t+2 <= K {
				rIns(rs, keys, t+2, t+2) // rank-adjacent but not touching: must stay apart
			}
		default:
			rHas(rs, keys, pt())
		}
	}
	// the whole universe (or a sample of it)
	step := max(1, K/300)
	for x := 1; x <= K; x += step {
		rHas(rs, keys, x)
	}
}

// capacity: distinct points in ascending / descending / random order until well beyond
// 128 leaves, then ordinary operations on the full structure
func rangesBulk(order int) {
	K := 26000
	keys := universe(K, nastykeys.Numeric)
	K = len(keys)
	scn("ranges", K, 0, fmt.Sprintf("bulk/order%d", order))
	rs := &ranges.Ranges{}
	xs := bulkOrder(K, order, 2)
	rets := make([]int, len(xs))
	nfull := 0
	ok, msg := safely(func() {
		for i, x := range xs {
			switch r := rs.Insert(keys[x-1], keys[x-1]); r {
			case ranges.Added:
				rets[i] = 1
			case ranges.Full:
				rets[i] = 2
				nfull++
			default:
				rets[i] = 100 + r
			}
		}
	})
	tr.Emit(vh.E("RBulk", "xs", xs, "rets", rets, "ok", ok, "msg", msg))
	stats["ranges_ops"] += len(xs)
	stats["ranges_full"] += nfull
	for i := 0; i < 60; i++ {
		switch rnd.Intn(4) {
		case 0:
			f := 1 + rnd.Intn(K)
			rIns(rs, keys, f, min(K, f+rnd.Intn(6)))
		case 1:
			f := 1 + rnd.Intn(K)
			rIns(rs, keys, f, f)
		default:
			rHas(rs, keys, 1+rnd.Intn(K))
		}
	}
}

// bulkOrder returns distinct ranks step apart in ascending (0), descending (1) or random (2) order
func bulkOrder(K int, order int, step int) []int {
	var xs []int
	for x := 1; x <= K; x += step {
		xs = append(xs, x)
	}
	switch order {
	case 1:
		for i, j := 0, len(xs)-1; i < j; i, j = i+1, j-1 {
			xs[i], xs[j] = xs[j], xs[i]
		}
	case 2:
		rnd.Shuffle(len(xs), func(i, j int) { xs[i], xs[j] = xs[j], xs[i] })
	}
	return xs
}

// ------------------------------------------------------------------ ordset

func oIns(s *ordset.Set, keys []string, k int) {
	var res bool
	ok, msg := safely(func() { res = s.Insert(keys[k-1]) })
	tr.Emit(vh.E("OIns", "k", k, "res", b2i(res), "ok", ok, "msg", msg))
	stats["ordset_ops"]++
}

func oQueries(s *ordset.Set, keys []string, n int) {
	K := len(keys)
	for i := 0; i < n; i++ {
		switch rnd.Intn(3) {
		case 0:
			k := 1 + rnd.Intn(K)
			var res bool
			ok, msg := safely(func() { res = s.Contains(keys[k-1]) })
			tr.Emit(vh.E("OHas", "k", k, "res", b2i(res), "ok", ok, "msg", msg))
		default:
			f, t := 1+rnd.Intn(K), 1+rnd.Intn(K)
			switch rnd.Intn(4) {
			case 0:
				t = f
			case 1:
				t = min(K, f+rnd.Intn(3))
			case 2:
				if f > t {
					f, t = t, f
				}
			}
			var res bool
			ok, msg := safely(func() { res = s.AnyInRange(keys[f-1], keys[t-1]) })
			tr.Emit(vh.E("OAny", "f", f, "t", t, "res", b2i(res), "ok", ok, "msg", msg))
		}
		stats["ordset_ops"]++
	}
}

func oEmpty(s *ordset.Set) {
	var res bool
	ok, msg := safely(func() { res = s.Empty() })
	tr.Emit(vh.E("OEmpty", "res", b2i(res), "ok", ok, "msg", msg))
}

var nOrdset = 0

func ordsetScenario(K int, style nastykeys.Style, nins int) {
	nOrdset++
	keys := universe(K, style)
	K = len(keys)
	scn("ordset", K, 0, style.String())
	s := &ordset.Set{}
	oEmpty(s)
	for _, k := range []int{1, K} { // empty structure, least key (the empty string in small universes)
		var res bool
		ok, msg := safely(func() { res = s.Contains(keys[k-1]) })
		tr.Emit(vh.E("OHas", "k", k, "res", b2i(res), "ok", ok, "msg", msg))
		ok, msg = safely(func() { res = s.AnyInRange(keys[0], keys[k-1]) })
		tr.Emit(vh.E("OAny", "f", 1, "t", k, "res", b2i(res), "ok", ok, "msg", msg))
	}
	oQueries(s, keys, 4)
	if nOrdset%2 == 1 {
		oIns(s, keys, 1) // the least key first: the empty string in small universes
		oEmpty(s)
		oQueries(s, keys, 3)
	}
	for i := 0; i < nins; i++ {
		k := 1 + rnd.Intn(K)
		if rnd.Intn(8) == 0 {
			k = 1 + rnd.Intn(min(K, 3)) // hammer the low end (and duplicates)
		}
		oIns(s, keys, k)
		if rnd.Intn(3) == 0 {
			oQueries(s, keys, 2)
		}
	}
	oEmpty(s)
	// boundary queries around every k-th key
	step := max(1, K/120)
	for k := 1; k <= K; k += step {
		var res bool
		ok, msg := safely(func() { res = s.Contains(keys[k-1]) })
		tr.Emit(vh.E("OHas", "k", k, "res", b2i(res), "ok", ok, "msg", msg))
		for _, ft := range [][2]int{{k, k}, {k, min(K, k+1)}, {max(1, k-1), k}, {max(1, k-1), max(1, k-1)}} {
			ok, msg := safely(func() { res = s.AnyInRange(keys[ft[0]-1], keys[ft[1]-1]) })
			tr.Emit(vh.E("OAny", "f", ft[0], "t", ft[1], "res", b2i(res), "ok", ok, "msg", msg))
		}
		stats["ordset_ops"] += 5
	}
}

func ordsetBulk(order int) {
	K := 26000
	keys := universe(K, nastykeys.Numeric)
	K = len(keys)
	scn("ordset", K, 0, fmt.Sprintf("bulk/order%d", order))
	s := &ordset.Set{}
	ks := bulkOrder(K, order, 2)
	rets := make([]int, len(ks))
	nfull := 0
	ok, msg := safely(func() {
		for i, k := range ks {
			if s.Insert(keys[k-1]) {
				rets[i] = 1
			} else {
				nfull++
			}
		}
	})
	tr.Emit(vh.E("OBulk", "ks", ks, "rets", rets, "ok", ok, "msg", msg))
	stats["ordset_ops"] += len(ks)
	stats["ordset_full"] += nfull
	oQueries(s, keys, 60)
	for i := 0; i < 20; i++ {
		oIns(s, keys, 1+rnd.Intn(K))
	}
	oQueries(s, keys, 30)
}

// ------------------------------------------------------------------ sortlist

const seqBits = 20

func slKey(x uint64) int { return int(x >> seqBits) }

func sortlistScenario(n int, nkeys int, mode string) {
	scn("sortlist", n, 0, fmt.Sprintf("%s/n%d/keys%d", mode, n, nkeys))
	zero := func(x uint64) bool { return x == 0 }
	asc := func(x, y uint64) bool { return slKey(x) < slKey(y) }
	desc := func(x, y uint64) bool { return slKey(x) > slKey(y) }
	in := make([]int, n)
	items := make([]uint64, n)
	skew := strings.HasSuffix(mode, "/skew")
	mode = strings.TrimSuffix(mode, "/skew")
	// "resorted/unsorted": NewUnsorted + Finish + Sort (load, compact);
	// "resorted/desc": NewSorting(other order) + Finish + Sort (alter create of several indexes)
	flavour := ""
	if strings.HasPrefix(mode, "resorted/") {
		flavour = strings.TrimPrefix(mode, "resorted/")
		mode = "resorted"
	}
	for i := range items {
		k := 1 + rnd.Intn(nkeys)
		if skew && (i/4096)%2 == 0 {
			// every other block only holds keys from a low band: the sorted runs overlap partially
			k = nkeys/10 + 1 + rnd.Intn(max(1, nkeys/10))
		}
		items[i] = uint64(k)<<seqBits | uint64(i+1)
		in[i] = int(items[i])
	}
	if n > 3 && flavour == "" && rnd.Intn(3) == 0 { // already sorted input (merge short cut: "nothing to do")
		sort.Slice(items, func(i, j int) bool { return items[i] < items[j] })
		for i := range items {
			in[i] = int(items[i])
		}
	}
	out := make([]int, 0, n)
	var list sortlist.List[uint64]
	var b *sortlist.Builder[uint64]
	haveList := false
	ok, msg := safely(func() {
		switch mode {
		case "sorted":
			b = sortlist.NewSorting(zero, asc)
		case "resorted":
			if flavour == "desc" || (flavour == "" && rnd.Intn(2) == 0) {
				b = sortlist.NewSorting(zero, desc)
			} else {
				b = sortlist.NewUnsorted(zero)
			}
		default:
			b = sortlist.NewUnsorted(zero)
		}
		for _, x := range items {
			b.Add(x)
		}
		list = b.Finish()
		switch mode {
		case "sorted":
			haveList = true
			it := list.Iter(iterLess)
			for it.Next(); !it.Eof() && len(out) <= n; it.Next() {
				out = append(out, int(it.Cur()))
			}
		case "resorted":
			b.Sort(asc)
			fallthrough
		default:
			it := b.Iter()
			for x := it(); x != 0 && len(out) <= n; x = it() {
				out = append(out, int(x))
			}
		}
	})
	tr.Emit(vh.E("SLBuild", "mode", mode, "in", in, "out", out, "ok", ok, "msg", msg))
	stats["sortlist_items"] += n
	if ok == 1 && mode == "resorted" {
		// the re-sorted list is read through Builder.Iter (as load / index building do): a second
		// pass must give the same list
		again := make([]int, 0, n)
		ok, msg = safely(func() {
			it := b.Iter()
			for x := it(); x != 0 && len(again) <= n; x = it() {
				again = append(again, int(x))
			}
		})
		tr.Emit(vh.E("SLAll", "rev", 0, "out", again, "ok", ok, "msg", msg))
		stats["sortlist_resorts"]++
	}
	if ok == 0 || !haveList {
		return
	}
	// second passes: Builder.Iter and backwards
	all := make([]int, 0, n)
	ok, msg = safely(func() {
		it := b.Iter()
		for x := it(); x != 0 && len(all) <= n; x = it() {
			all = append(all, int(x))
		}
	})
	tr.Emit(vh.E("SLAll", "rev", 0, "out", all, "ok", ok, "msg", msg))
	rev := make([]int, 0, n)
	ok, msg = safely(func() {
		it := list.Iter(iterLess)
		for it.Prev(); !it.Eof() && len(rev) <= n; it.Prev() {
			rev = append(rev, int(it.Cur()))
		}
	})
	tr.Emit(vh.E("SLAll", "rev", 1, "out", rev, "ok", ok, "msg", msg))
	// cursor walk
	it := list.Iter(iterLess)
	it.Rewind()
	for i := 0; i < 40; i++ {
		op, k := "", 0
		switch x := rnd.Intn(10); {
		case x < 4:
			op = "next"
		case x < 7:
			op = "prev"
		case x < 9:
			op, k = "seek", rnd.Intn(nkeys+2)
		default:
			op = "rewind"
		}
		eof, item := 0, 0
		ok, msg := safely(func() {
			switch op {
			case "next":
				it.Next()
			case "prev":
				it.Prev()
			case "seek":
				it.Seek([]string{strconv.Itoa(k)})
			case "rewind":
				it.Rewind()
			}
			if it.Eof() {
				eof = 1
			} else if op != "rewind" {
				item = int(it.Cur())
			}
		})
		tr.Emit(vh.E("SLIt", "op", op, "k", k, "eof", eof, "item", item, "ok", ok, "msg", msg))
		stats["sortlist_iterops"]++
		if op == "rewind" && ok == 1 {
			// Cur() is not defined when rewound; move on so that the model and the code agree on a position
			continue
		}
	}
}

func iterLess(x uint64, key []string) bool {
	k, _ := strconv.Atoi(key[0])
	return slKey(x) < k
}

// ------------------------------------------------------------------ bloom

func bloomScenario(n int) {
	p := []float64{0.5, 0.1, 0.01}[rnd.Intn(3)]
	m, k := bloom.Calc(n, p)
	scn("bloom", n, 0, fmt.Sprintf("m%d/k%d", m, k))
	hs := make([]uint64, 3*n+8)
	for i := range hs {
		hs[i] = rnd.Uint64()
	}
	copy(hs, []uint64{0, 1, 1 << 32, ^uint64(0), 1<<32 - 1, uint64(m) * 64, 0xffffffff00000000, 1<<63 | 1})
	var b *bloom.Bloom
	if ok, msg := safely(func() { b = bloom.New(m, k) }); ok == 0 {
		tr.Emit(vh.E("BAdd", "h", 0, "ok", 0, "msg", msg))
		return
	}
	added := []int{}
	for i := 0; i < 3*n; i++ {
		if rnd.Intn(3) == 0 && len(added) < n {
			h := 1 + rnd.Intn(len(hs))
			ok, msg := safely(func() { b.Add(hs[h-1]) })
			tr.Emit(vh.E("BAdd", "h", h, "ok", ok, "msg", msg))
			added = append(added, h)
		} else {
			h := 1 + rnd.Intn(len(hs))
			if len(added) > 0 && rnd.Intn(2) == 0 {
				h = added[rnd.Intn(len(added))]
			}
			var res bool
			ok, msg := safely(func() { res = b.Test(hs[h-1]) })
			tr.Emit(vh.E("BTest", "h", h, "res", b2i(res), "ok", ok, "msg", msg))
		}
		stats["bloom_ops"]++
	}
	for _, h := range added {
		var res bool
		ok, msg := safely(func() { res = b.Test(hs[h-1]) })
		tr.Emit(vh.E("BTest", "h", h, "res", b2i(res), "ok", ok, "msg", msg))
		stats["bloom_ops"]++
	}
}

// ------------------------------------------------------------------ roaring

func roaringScenario(dense int) {
	// value table: id -> value; a dense block crossing the array -> bitmap conversion (4096),
	// sparse values in many containers, and the extremes
	var vals []uint64
	base := uint64(rnd.Intn(1000)) << 16
	for j := 0; j < dense; j++ {
		vals = append(vals, base+uint64(j*13%65536))
	}
	for j := 0; j < 300; j++ {
		vals = append(vals, uint64(rnd.Int63n(1<<48)))
	}
	vals = append(vals, 0, 1, 65535, 65536, 65537, 1<<48-1, 1<<32, 1<<32-1, base+65535, base+65536)
	seen := map[uint64]bool{}
	uniq := vals[:0]
	for _, v := range vals {
		if !seen[v] {
			seen[v] = true
			uniq = append(uniq, v)
		}
	}
	vals = uniq
	scn("roaring", len(vals), 0, fmt.Sprintf("dense%d", dense))
	var bm roaring.Bitmap
	perm := rnd.Perm(len(vals))
	npick := len(vals) * 2 / 3
	for at := 0; at < npick; {
		n := min(npick-at, 1+rnd.Intn(900))
		xs := make([]int, n)
		ok, msg := safely(func() {
			for i := 0; i < n; i++ {
				id := perm[at+i] + 1
				xs[i] = id
				bm.Add(vals[id-1])
				if rnd.Intn(10) == 0 {
					bm.Add(vals[id-1]) // adding twice is idempotent
				}
			}
		})
		tr.Emit(vh.E("RoAdd", "xs", xs, "ok", ok, "msg", msg))
		at += n
		stats["roaring_ops"] += n
		// query a sample of everything
		q := make([]int, 200)
		res := make([]int, 200)
		ok, msg = safely(func() {
			for i := range q {
				q[i] = 1 + rnd.Intn(len(vals))
				res[i] = b2i(bm.Has(vals[q[i]-1]))
			}
		})
		tr.Emit(vh.E("RoHas", "xs", q, "res", res, "ok", ok, "msg", msg))
		stats["roaring_ops"] += 200
	}
	q := make([]int, len(vals))
	res := make([]int, len(vals))
	ok, msg := safely(func() {
		for i := range q {
			q[i] = i + 1
			res[i] = b2i(bm.Has(vals[i]))
		}
	})
	tr.Emit(vh.E("RoHas", "xs", q, "res", res, "ok", ok, "msg", msg))
}

// ------------------------------------------------------------------ shmap

func shmapScenario(nkeys int, hashKind int, nops int) {
	scn("shmap", nkeys, 0, fmt.Sprintf("hash%d", hashKind))
	hash := func(k int) uint64 {
		switch hashKind {
		case 0:
			return uint64(k) * 0x9E3779B97F4A7C15
		case 1:
			return 42 // everything collides
		case 2:
			return uint64(k % 4) // four chains, same control byte within a chain
		default:
			return uint64(k%3) << 7 // same control byte (low 7 bits 0), three probe starts
		}
	}
	eq := func(x, y int) bool { return x == y }
	maps := []*shmap.Map[int, int, shmap.Funcs[int]]{}
	newMap := func() int {
		maps = append(maps, shmap.NewMapFuncs[int, int](hash, eq))
		tr.Emit(vh.E("MNew", "m", len(maps), "ok", 1, "msg", ""))
		return len(maps)
	}
	all := func(mi int) {
		m := maps[mi-1]
		ks, vs := []int{}, []int{}
		size := -1
		ok, msg := safely(func() {
			size = m.Size()
			it := m.Iter()
			for k, v, more := it(); more && len(ks) <= nkeys+2; k, v, more = it() {
				ks, vs = append(ks, k), append(vs, v)
			}
		})
		tr.Emit(vh.E("MAll", "m", mi, "size", size, "ks", ks, "vs", vs, "ok", ok, "msg", msg))
	}
	newMap()
	nextv := 0
	for i := 0; i < nops; i++ {
		mi := 1 + rnd.Intn(len(maps))
		m := maps[mi-1]
		k := 1 + rnd.Intn(nkeys)
		switch x := rnd.Intn(40); {
		case x < 14:
			nextv++
			ok, msg := safely(func() { m.Put(k, nextv) })
			tr.Emit(vh.E("MPut", "m", mi, "k", k, "v", nextv, "ok", ok, "msg", msg))
		case x < 22:
			var v int
			var found bool
			ok, msg := safely(func() { v, found = m.Del(k) })
			tr.Emit(vh.E("MDel", "m", mi, "k", k, "v", v, "found", b2i(found), "ok", ok, "msg", msg))
		case x < 34:
			var v int
			var found, has bool
			ok, msg := safely(func() { v, found = m.Get(k); has = m.Has(k) })
			tr.Emit(vh.E("MGet", "m", mi, "k", k, "v", v, "found", b2i(found), "has", b2i(has), "ok", ok, "msg", msg))
		case x < 36:
			var existed bool
			ok, msg := safely(func() { _, existed = m.GetInit(k) })
			tr.Emit(vh.E("MGetInit", "m", mi, "k", k, "existed", b2i(existed), "ok", ok, "msg", msg))
		case x < 38:
			all(mi)
		case x < 39:
			if len(maps) < 3 {
				var c *shmap.Map[int, int, shmap.Funcs[int]]
				ok, msg := safely(func() { c = m.Copy() })
				maps = append(maps, c)
				tr.Emit(vh.E("MCopy", "from", mi, "m", len(maps), "ok", ok, "msg", msg))
			}
		default:
			if rnd.Intn(4) == 0 {
				ok, msg := safely(func() { m.Clear() })
				tr.Emit(vh.E("MClear", "m", mi, "ok", ok, "msg", msg))
			}
		}
		stats["shmap_ops"]++
	}
	for mi := range maps {
		all(mi + 1)
	}
}

// ------------------------------------------------------------------ cache, lrucache

func f(k int) int { return (k*7 + 3) % 1000 }

func cacheScenario(nkeys int, nops int, conc bool) {
	scn("cache", nkeys, 8, fmt.Sprintf("conc%v", conc))
	called := 0
	getter := func(k int) int { called++; return f(k) }
	var get func(int) int
	if conc {
		get = cache.NewConc(getter).Get
	} else {
		get = cache.New(getter).Get
	}
	for i := 0; i < nops; i++ {
		k := rnd.Intn(nkeys + 1) // includes 0, the zero value of the key type
		if rnd.Intn(3) == 0 {
			k = rnd.Intn(min(nkeys, 4)) // hot keys
		}
		called = 0
		var v int
		ok, msg := safely(func() { v = get(k) })
		tr.Emit(vh.E("CGet", "k", k, "v", v, "called", called, "ok", ok, "msg", msg))
		stats["cache_ops"]++
	}
}

type lkey int

func (k lkey) Hash() uint64 { return uint64(k%5) * 0x9E3779B97F4A7C15 } // few hash values: collisions
func (k lkey) Equal(other any) bool {
	o, ok := other.(lkey)
	return ok && o == k
}

func lruScenario(req int, nkeys int, nops int, direct bool) {
	scn("lru", nkeys, req, fmt.Sprintf("req%d/direct%v", req, direct))
	c := lrucache.New[lkey, int](req)
	nextv := 1000
	for i := 0; i < nops; i++ {
		k := 1 + rnd.Intn(nkeys)
		x := rnd.Intn(20)
		switch {
		case !direct || x < 10:
			called := 0
			var v int
			ok, msg := safely(func() { v = c.GetPut(lkey(k), func(k lkey) int { called++; return f(int(k)) }) })
			tr.Emit(vh.E("LGetPut", "k", k, "v", v, "called", called, "ok", ok, "msg", msg))
		case x < 15:
			var v int
			var found bool
			ok, msg := safely(func() { v, found = c.Get(lkey(k)) })
			tr.Emit(vh.E("LGet", "k", k, "v", v, "found", b2i(found), "ok", ok, "msg", msg))
		case x < 19:
			// a direct Put stores f(k) too, so that GetPut's contract "returns f(key)" stays meaningful
			v := f(k)
			ok, msg := safely(func() { c.Put(lkey(k), v) })
			tr.Emit(vh.E("LPut", "k", k, "v", v, "ok", ok, "msg", msg))
		default:
			ks := []int{}
			ok, msg := safely(func() {
				for k := range c.Entries() {
					ks = append(ks, int(k))
				}
			})
			tr.Emit(vh.E("LEntries", "ks", ks, "ok", ok, "msg", msg))
			if rnd.Intn(6) == 0 {
				ok, msg := safely(func() { c.Reset() })
				tr.Emit(vh.E("LReset", "ok", ok, "msg", msg))
			}
		}
		stats["lru_ops"]++
		_ = nextv
	}
}

// ------------------------------------------------------------------

func main() {
	if len(os.Args) < 3 {
		vh.Fatal("usage: utilsets <trace> <scale>")
	}
	scale, _ := strconv.Atoi(os.Args[2])
	scale = max(scale, 1)
	rnd = rand.New(rand.NewSource(vh.Seed()*15485863 + 12))
	tr = vh.Create(os.Args[1])
	defer tr.Close()
	styles := []nastykeys.Style{nastykeys.Mixed, nastykeys.Alphabet, nastykeys.Numeric, nastykeys.Mixed, nastykeys.LongPfx}
	quick := scale == 1
	for i := 0; i < 5*scale; i++ {
		rangesScenario(4+rnd.Intn(30), styles[rnd.Intn(len(styles))], 50, rnd.Intn(3))
	}
	for i := 0; i < 2*scale; i++ {
		// more than 128 intervals: tree mode, coalescing across leaves, emptied leaves
		if quick {
			rangesScenario(330+rnd.Intn(100), nastykeys.Numeric, 330, i%2)
		} else {
			rangesScenario(500+rnd.Intn(400), nastykeys.Numeric, 700, i%2)
		}
	}
	for i := 0; i < 5*scale; i++ {
		ordsetScenario(4+rnd.Intn(30), styles[rnd.Intn(len(styles))], 25)
	}
	for i := 0; i < 2*scale; i++ {
		if quick {
			ordsetScenario(300+rnd.Intn(100), []nastykeys.Style{nastykeys.Numeric, nastykeys.Alphabet}[i%2], 280)
		} else {
			ordsetScenario(300+rnd.Intn(500), []nastykeys.Style{nastykeys.Numeric, nastykeys.Alphabet}[i%2], 300+rnd.Intn(300))
		}
	}
	// capacity (one order per run in quick, all in thorough)
	orders := []int{int(vh.Seed()) % 3}
	if !quick {
		orders = []int{0, 1, 2}
	}
	for _, o := range orders {
		rangesBulk(o)
		ordsetBulk(o)
	}
	sizes := []int{0, 1, 2, 7, 100}
	big := []int{4095, 4096, 4097, 8192, 9000, 3*4096 + 17}
	for i := 0; i < scale; i++ {
		sizes = append(sizes, big[rnd.Intn(len(big))], 100+rnd.Intn(3000))
	}
	if !quick {
		sizes = append(sizes, big...)
	}
	modes := []string{"sorted", "sorted", "resorted", "unsorted"}
	for i, n := range sizes {
		sortlistScenario(n, []int{3, 50, 2000}[rnd.Intn(3)], modes[i%len(modes)])
	}
	sortlistScenario(4097+rnd.Intn(5000), 50, "sorted")
	sortlistScenario(8192+rnd.Intn(200), 100, "sorted/skew")
	// re-sort (Builder.Sort with another order after Finish) of lists whose last block is exactly
	// full, and their neighbours
	sortlistScenario(4096, 2000, "resorted/unsorted")
	sortlistScenario(4096, 50, "resorted/desc")
	sortlistScenario(8192, 2000, "resorted/desc")
	sortlistScenario(8192, 50, "resorted/unsorted")
	sortlistScenario(4095, 2000, []string{"resorted/unsorted", "resorted/desc"}[rnd.Intn(2)])
	sortlistScenario(4097, 2000, []string{"resorted/unsorted", "resorted/desc"}[rnd.Intn(2)])
	if !quick {
		sortlistScenario(3*4096, 2000, "resorted/unsorted")
		sortlistScenario(3*4096, 50, "resorted/desc")
		sortlistScenario(8191, 50, "resorted/desc")
		sortlistScenario(8193, 2000, "resorted/unsorted")
	}
	for i := 0; i < scale; i++ {
		bloomScenario(20 + rnd.Intn(150))
		roaringScenario([]int{4200, 5000, 100}[(i+int(vh.Seed()))%3])
		shmapScenario(10+rnd.Intn(60), (i+int(vh.Seed()))%4, 220)
		shmapScenario(10+rnd.Intn(60), rnd.Intn(4), 220)
		cacheScenario(5+rnd.Intn(20), 100, i%2 == 1)
		lruScenario([]int{3, 6, 7, 13, 20}[rnd.Intn(5)], 5+rnd.Intn(40), 180, false)
		lruScenario([]int{3, 6, 7, 13, 20}[rnd.Intn(5)], 5+rnd.Intn(40), 180, true)
	}
	kv := []any{"events", tr.N}
	names := make([]string, 0, len(stats))
	for k := range stats {
		names = append(names, k)
	}
	sort.Strings(names)
	for _, k := range names {
		kv = append(kv, k, stats[k])
	}
	vh.Summary(kv...)
}
