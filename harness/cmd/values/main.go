// Driver for C28: instantiates abstract values (spec/Values.tla) in EVERY representation
// constructible in core (SuInt / SuInt64 / SuDnum; SuStr / SuConcat / SuExcept; SuDate /
// SuTimestamp; SuObject / SuRecord / SuSequence, unpacked, copied, read-only, concurrent;
// nested) and records, for ALL ordered pairs, what the real code answers:
// Value.Compare, the OpLt/OpLte/OpGt/OpGte/OpIs operators, Equal, Hash, and member
// lookup (Put under one key, Get under the other) in SuObject and SuRecord containers.
// The trace is validated by spec/trace/TraceValues.tla; this program decides nothing.
//
// Lazily materialised representations (a record backed by its database row, a sequence over
// an iterator, containers holding them) are also taken, as brand new copies, through sequences
// of read-only steps (LzNew / Lz events, see episodes()).
//
// usage: values <trace.ndjson> [-row <id>]    (-row: expand one row into Pair events)
package main

import (
	"fmt"
	"math"
	"math/rand"
	"os"
	"strconv"
	"strings"

	. "github.com/apmckinlay/gsuneido/core"
	"github.com/apmckinlay/gsuneido/util/dnum"

	"verifharness/aval"
	"verifharness/vh"
)

type inst struct {
	id  int
	rep string
	av  *aval.V
	v   Value
	key string // optional known-finding class of the abstract value
	// lazily materialised representations (a record still backed by its database row, a
	// sequence over an iterator) and containers holding one: mk builds a brand new
	// concrete value (nothing read or unpacked yet) and names the lazy leaves inside it
	mk func() (Value, []leaf)
}

// leaf is a lazily materialised value nested in (or identical to) a fresh instance
type leaf struct {
	v  Value
	av *aval.V
}

var insts []*inst
var seen = map[string]bool{}
var misnamed int

// add registers one concrete representation of an abstract value (deduplicated on
// Go type + rep family + display so that the same construction is not repeated)
func add(av *aval.V, rep string, v Value) *inst {
	if v == nil {
		return nil
	}
	k := fmt.Sprintf("%T|%s|%s", v, rep, av.String())
	switch v.(type) {
	case SuBool, SuDnum, SuInt64, SuStr, SuDate, SuTimestamp:
		k = fmt.Sprintf("%T|%#v", v, v) // identical structs are one representation
	}
	if _, ok := SuIntToInt(v); ok {
		k = fmt.Sprintf("%T|%s", v, v)
	}
	if seen[k] {
		return nil
	}
	seen[k] = true
	if av.T != "obj" {
		// harness sanity: the construction recipe must have produced the value it is named
		// after (judged from the representation's own fields); otherwise leave it out
		if back, ok := aval.Of(v); !ok || back.String() != av.String() {
			misnamed++
			return nil
		}
	}
	in := &inst{rep: rep, av: av, v: v}
	insts = append(insts, in)
	return in
}

func try(f func() Value) (v Value) {
	defer func() {
		if e := recover(); e != nil {
			v = nil
		}
	}()
	return f()
}

// ------------------------------------------------------------------ numbers

func numReps(s string) []*inst {
	av := aval.Num(s)
	var out []*inst
	put := func(rep string, v Value) {
		if in := add(av, rep, v); in != nil {
			out = append(out, in)
		}
	}
	if n, ok := av.IsInt(); ok {
		if MinSuInt <= n && n <= MaxSuInt {
			put("SuInt", SuInt(int(n)))
		}
		put("IntVal", IntVal(int(n)))     // SuInt or SuInt64
		put("Int64Val", Int64Val(n))      // SuInt64 at the int16 boundaries
		if n == 0 {
			put("SuInt64{}", SuInt64{})
		}
		if len(av.ND) <= 16 {
			put("SuDnum.FromInt", SuDnum{Dnum: dnum.FromInt(n)})
			// integer produced by decimal arithmetic (F14: 200000 * .5)
			if n%5 == 0 || len(av.ND) <= 15 {
				if n2 := n * 2; n2/2 == n && len(strconv.FormatInt(n2, 10)) <= 17 {
					put("SuDnum.Mul", try(func() Value {
						return OpMul(SuDnum{Dnum: dnum.FromInt(n2)}, SuDnum{Dnum: dnum.FromStr(".5")})
					}))
				}
			}
			put("OpAdd(dnum)", try(func() Value {
				return OpAdd(SuDnum{Dnum: dnum.FromInt(n)}, SuDnum{Dnum: dnum.Zero})
			}))
		}
	}
	if len(av.ND) <= 16 && -120 < av.NX && av.NX < 120 {
		lit := av.NumString()
		put("SuDnum.FromStr", try(func() Value { return SuDnum{Dnum: dnum.FromStr(lit)} }))
		put("NumFromString", try(func() Value { return NumFromString(lit) }))
		if av.NS == 1 || av.NS == -1 {
			// un-normalised constructor input
			coef, _ := strconv.ParseUint(av.Digits(), 10, 64)
			put("dnum.New", SuDnum{Dnum: dnum.New(int8(av.NS), coef, av.NX+16-len(av.ND))})
		}
	}
	switch av.NS {
	case 2:
		put("Inf", Inf)
		put("dnum.Inf", SuDnum{Dnum: dnum.Inf(+1)})
		put("1/0", OpDiv(One, Zero))
	case -2:
		put("NegInf", NegInf)
		put("-1/0", OpDiv(MinusOne, Zero))
	}
	// packed and unpacked again
	for _, in := range append([]*inst{}, out...) {
		v := in.v
		put("Unpack("+in.rep+")", try(func() Value { return Unpack(PackValue(v)) }))
	}
	return out
}

// ------------------------------------------------------------------ strings

func strReps(s string) []*inst {
	av := aval.Str(s)
	var out []*inst
	put := func(rep string, v Value) {
		if in := add(av, rep, v); in != nil {
			out = append(out, in)
		}
	}
	put("SuStr", SuStr(s))
	put("SuConcat", NewSuConcat().Add(s))
	if len(s) >= 2 {
		k := len(s) / 2
		put("SuConcat2", NewSuConcat().Add(s[:k]).Add(s[k:]))
	}
	// shared buffer: a sibling has appended beyond our length
	base := NewSuConcat().Add(s)
	_ = base.Add("zzz")
	put("SuConcat.shared", base)
	put("SuExcept", BuiltinSuExcept(s))
	put("SuExcept2", &SuExcept{SuStr: SuStr(s), Callstack: &SuObject{}})
	if len(s) >= 1 {
		put("OpCat", OpCat(SuStr(s[:1]), SuStr(s[1:])))
		put("OpCat(concat)", OpCat(NewSuConcat().Add(s[:1]), SuStr(s[1:])))
		put("OpCat(except)", OpCat(BuiltinSuExcept(s[:1]), SuStr(s[1:])))
	}
	put("Unpack", try(func() Value { return Unpack(PackValue(SuStr(s))) }))
	return out
}

// ------------------------------------------------------------------ dates

func dateReps(dd, dt, dx int) []*inst {
	av := aval.Date(dd, dt, dx)
	var out []*inst
	put := func(rep string, v Value) {
		if v == nil || v == Value(NilDate) {
			return
		}
		if in := add(av, rep, v); in != nil {
			out = append(out, in)
		}
	}
	lit := av.Lit()
	put("DateFromLiteral", try(func() Value { return DateFromLiteral(lit) }))
	if dx == 0 {
		put("NewDate", NewDate(dd/10000, dd/100%100, dd%100,
			dt/10000000, dt/100000%100, dt/1000%100, dt%1000))
		if dt == 0 {
			put("DateFromLiteral.short", try(func() Value { return DateFromLiteral(lit[:9]) }))
		}
	}
	if len(out) > 0 {
		v := out[0].v
		put("Unpack", try(func() Value { return Unpack(PackValue(v)) }))
	}
	return out
}

// ------------------------------------------------------------------ objects

// objSpec describes an abstract object by indexes of element instances
type member struct{ k, v *inst }

func objReps(rnd *rand.Rand, list []*inst, named []member, alt func(*inst) *inst) []*inst {
	av := aval.Obj(nil, nil)
	for _, e := range list {
		av.L = append(av.L, e.av)
	}
	for _, m := range named {
		av.N = append(av.N, [2]*aval.V{m.k.av, m.v.av})
	}
	var out []*inst
	put := func(rep string, v Value) {
		if in := add(av, rep, v); in != nil {
			out = append(out, in)
		}
	}
	putm := func(rep string, mk func() (Value, []leaf)) {
		v, _ := mk()
		if in := add(av, rep, v); in != nil {
			in.mk = mk
			out = append(out, in)
		}
	}
	// every container gets brand new copies of its lazy members, so that no two instances
	// share materialisation state
	fresh := func(in *inst, leaves *[]leaf) Value {
		if in.mk == nil {
			return in.v
		}
		v, lv := in.mk()
		*leaves = append(*leaves, lv...)
		return v
	}
	buildL := func(c Container, reverse bool, pick func(*inst) *inst) (leaves []leaf) {
		for _, e := range list {
			c.Add(fresh(pick(e), &leaves))
		}
		ms := append([]member{}, named...)
		if reverse {
			for i, j := 0, len(ms)-1; i < j; i, j = i+1, j-1 {
				ms[i], ms[j] = ms[j], ms[i]
			}
		}
		for _, m := range ms {
			c.Put(nil, fresh(pick(m.k), &leaves), fresh(pick(m.v), &leaves))
		}
		return leaves
	}
	build := func(c Container, reverse bool, pick func(*inst) *inst) { buildL(c, reverse, pick) }
	same := func(in *inst) *inst { return in }
	hasLazy := false
	for _, e := range list {
		hasLazy = hasLazy || e.mk != nil
	}
	for _, m := range named {
		hasLazy = hasLazy || m.k.mk != nil || m.v.mk != nil
	}
	mkOb := func() *SuObject { o := &SuObject{}; build(o, false, same); return o }
	o1 := mkOb()
	if hasLazy {
		putm("SuObject", func() (Value, []leaf) { o := &SuObject{}; return o, buildL(o, false, same) })
	} else {
		put("SuObject", o1)
	}
	if len(named) > 1 {
		o2 := &SuObject{}
		build(o2, true, same)
		put("SuObject.revnamed", o2)
	}
	// other representations of the members
	o3 := &SuObject{}
	build(o3, false, alt)
	put("SuObject.altreps", o3)
	// list built out of order (members migrate from named to list) and a deleted extra
	if len(list) > 1 {
		o4 := &SuObject{}
		var lv []leaf
		for i := len(list) - 1; i >= 0; i-- {
			o4.Set(IntVal(i), fresh(list[i], &lv))
		}
		for _, m := range named {
			o4.Set(fresh(m.k, &lv), fresh(m.v, &lv))
		}
		o4.Set(SuStr("__extra"), True)
		o4.Delete(nil, SuStr("__extra"))
		put("SuObject.migrated", o4)
	}
	if hasLazy {
		putm("SuRecord", func() (Value, []leaf) { r := NewSuRecord(); return r, buildL(r, false, same) })
	} else {
		r1 := NewSuRecord()
		build(r1, false, same)
		put("SuRecord", r1)
	}
	o5 := &SuObject{}
	build(o5, true, alt)
	put("SuRecordFromObject", SuRecordFromObject(o5))
	// (packing reads the members: pack separately built values, not the instances above)
	put("Unpack(SuObject)", try(func() Value { return Unpack(PackValue(mkOb())) }))
	put("Unpack(SuRecord)", try(func() Value { r := NewSuRecord(); build(r, false, same); return Unpack(PackValue(r)) }))
	put("Copy", mkOb().Copy())
	o6 := &SuObject{}
	build(o6, false, same)
	o6.SetReadOnly()
	put("SuObject.readonly", o6)
	o7 := &SuObject{}
	build(o7, false, alt)
	o7.SetConcurrent()
	put("SuObject.concurrent", o7)
	if len(named) == 0 {
		// lazy: the members are pulled from the iterator on first use
		putm("SuSequence", func() (Value, []leaf) {
			o8 := &SuObject{}
			lv := buildL(o8, false, same)
			seq := NewSuSequence(o8.Iter())
			return seq, append(lv, leaf{seq, av})
		})
	}
	// a record as a query delivers it: backed by a database row, nothing unpacked yet
	// (core.SuRecordFromRow); fields = the named members
	if cols, ok := rowFields(list, named); ok && packExact(named) {
		for _, variant := range []string{"", ".rev", ".join", ".part"} {
			variant := variant
			if (variant == ".rev" || variant == ".join") && len(cols) < 2 {
				continue
			}
			if try(func() Value { v, _ := rowRecord(cols, named, variant, av, fresh); return v }) == nil {
				continue // a member value that cannot be stored
			}
			putm("SuRecordFromRow"+variant, func() (Value, []leaf) { return rowRecord(cols, named, variant, av, fresh) })
		}
	}
	_ = rnd
	return out
}

// rowFields: can the abstract object be a database row - no list members, named members
// with field names as keys and values that are not the empty string (an empty field is
// not a member of the record)
func rowFields(list []*inst, named []member) ([]string, bool) {
	if len(list) != 0 || len(named) == 0 {
		return nil, false
	}
	var cols []string
	for _, m := range named {
		if m.k.av.T != "str" || m.v.av.T == "str" && len(m.v.av.C) == 0 {
			return nil, false
		}
		f := m.k.av.Bytes()
		if f == "" || strings.HasSuffix(f, "_deps") || strings.Trim(f, "abcdefghijklmnopqrstuvwxyz_0123456789") != "" {
			return nil, false
		}
		cols = append(cols, f)
	}
	return cols, true
}

// packExact: harness sanity - storing the scalar member values must give back the values
// they are named after (judged from the representation's own fields, as in add)
func packExact(named []member) (ok bool) {
	defer func() {
		if e := recover(); e != nil {
			ok = false
		}
	}()
	for _, m := range named {
		if m.v.av.T == "obj" {
			continue
		}
		if back, ok := aval.Of(Unpack(PackValue(m.v.v))); !ok || back.String() != m.v.av.String() {
			return false
		}
	}
	return true
}

// rowRecord builds a new record backed by stored data. variant: "" one stored record,
// ".rev" columns in reverse order, ".join" two stored records with the first field in
// both (as a join on it delivers), ".part" one field already read
func rowRecord(cols []string, named []member, variant string, av *aval.V, fresh func(*inst, *[]leaf) Value) (Value, []leaf) {
	n := len(cols)
	raw := make([]string, n)
	for i, m := range named {
		var ignore []leaf // a packed member is not lazy any more
		raw[i] = PackValue(fresh(m.v, &ignore))
	}
	idx := make([]int, n)
	for i := range idx {
		idx[i] = i
		if variant == ".rev" {
			idx[i] = n - 1 - i
		}
	}
	parts := [][]int{idx}
	if variant == ".join" {
		k := (n + 1) / 2
		parts = [][]int{idx[:k], append([]int{idx[0]}, idx[k:]...)}
	}
	var row Row
	var fields [][]string
	var columns []string
	for _, part := range parts {
		b := RecordBuilder{}
		var fs []string
		for _, i := range part {
			b.AddRaw(raw[i])
			fs = append(fs, cols[i])
		}
		row = append(row, DbRec{Record: b.Build()})
		fields = append(fields, fs)
	}
	for _, i := range idx {
		columns = append(columns, cols[i])
	}
	r := SuRecordFromRow(row, NewHeader(fields, columns), "", nil)
	if variant == ".part" {
		r.Get(nil, SuStr(cols[0]))
	}
	return r, []leaf{{r, av}}
}

// ------------------------------------------------------------------ universe

func universe(rnd *rand.Rand, thorough bool) {
	add(aval.Bool(false), "SuBool", False)
	add(aval.Bool(true), "SuBool", True)

	nums := []string{"0", "1", "-1", "2", "10", "100", "127", "-128", "255", "256",
		"32766", "32767", "32768", "-32767", "-32768", "-32769", "65535", "65536", "100000", "-100000",
		"200000", "2147483647", "2147483648", "-2147483648", "4294967295", "4294967296",
		"1000000000000000", "9999999999999999", "-9999999999999999", "10000000000000000",
		".5", "-.5", "1.5", "-1.5", ".001", "1e-10", "123.456", "32767.5", "100000.5", "1e20", "-1e20", "1e100", "1e-100",
		".1", ".3333333333333333", "inf", "-inf"}
	// beyond 16 significant digits only integers exist (SuInt64)
	nums = append(nums, "12345678901234567", "12345678901234568", "12345678901234570",
		"100000000000000000", "9223372036854775807", "9223372036854775806", "9223372036854776000", "9223372036854775000",
		"-9223372036854775808")
	nrand := 6
	if thorough {
		nrand = 40
	}
	for i := 0; i < nrand; i++ {
		switch rnd.Intn(4) {
		case 0: // around int16 / int32 boundaries
			b := []int64{32767, -32768, 65536, 1 << 31, 1 << 32, 1 << 53}[rnd.Intn(6)]
			nums = append(nums, strconv.FormatInt(b+int64(rnd.Intn(7))-3, 10))
		case 1: // random integer of random magnitude (<= 16 digits)
			n := rnd.Int63n(int64(math.Pow10(1 + rnd.Intn(16))))
			if rnd.Intn(2) == 0 {
				n = -n
			}
			nums = append(nums, strconv.FormatInt(n, 10))
		case 2: // random decimal
			d := strconv.FormatInt(1+rnd.Int63n(int64(math.Pow10(1+rnd.Intn(15)))), 10)
			nums = append(nums, fmt.Sprintf("%s.%se%d", []string{"", "-"}[rnd.Intn(2)], d, rnd.Intn(30)-10))
		case 3: // integer-valued decimal with trailing zeros
			nums = append(nums, fmt.Sprintf("%de%d", 1+rnd.Intn(999), rnd.Intn(14)))
		}
	}
	byAbs := map[string][]*inst{}
	reg := func(is []*inst) {
		for _, in := range is {
			byAbs[in.av.String()] = append(byAbs[in.av.String()], in)
		}
	}
	for _, s := range nums {
		reg(numReps(s))
	}

	long := strings.Repeat("x", 300)
	strs := []string{"", "a", "a\x00", "aa", "ab", "b", "\xff", "1", "abc", "true", "100000",
		"\x00", "a\xffb", long, long + "y", long[:299]}
	for i := 0; i < nrand/2; i++ {
		n := rnd.Intn(5)
		b := make([]byte, n)
		for j := range b {
			b[j] = []byte{0, 1, 'a', 'b', 'z', 0x7f, 0x80, 0xff}[rnd.Intn(8)]
		}
		strs = append(strs, string(b))
	}
	for _, s := range strs {
		reg(strReps(s))
	}

	dates := [][3]int{{20200101, 0, 0}, {20200101, 0, 1}, {20200101, 0, 255}, {20200101, 120000000, 0},
		{20200101, 120000001, 0}, {20200101, 120000000, 7}, {20200102, 0, 0}, {17000101, 0, 0},
		{30000101, 0, 0}, {19991231, 235959999, 0}, {19991231, 235959999, 255}, {20200101, 1, 0}, {20200101, 1, 1}}
	for i := 0; i < nrand/2; i++ {
		dates = append(dates, [3]int{(1900+rnd.Intn(200))*10000 + (1+rnd.Intn(12))*100 + 1 + rnd.Intn(28),
			rnd.Intn(24)*10000000 + rnd.Intn(60)*100000 + rnd.Intn(60)*1000 + rnd.Intn(1000),
			[]int{0, 0, 1, 2, 255}[rnd.Intn(5)]})
	}
	for _, d := range dates {
		reg(dateReps(d[0], d[1], d[2]))
	}

	// pick element instances by abstract value and representation
	g := func(av *aval.V, rep string) *inst {
		is := byAbs[av.String()]
		for _, in := range is {
			if in.rep == rep {
				return in
			}
		}
		if len(is) == 0 {
			vh.Fatal("no instance for %s", av)
		}
		return is[0]
	}
	alt := func(in *inst) *inst { // another representation of the same abstract value
		is := byAbs[in.av.String()]
		for k, x := range is {
			if x == in {
				return is[(k+1+rnd.Intn(len(is)))%len(is)]
			}
		}
		return in
	}
	n := func(s string) *inst {
		if len(byAbs[aval.Num(s).String()]) == 0 {
			reg(numReps(s))
		}
		return g(aval.Num(s), "SuInt")
	}
	nd := func(s string) *inst { n(s); return g(aval.Num(s), "SuDnum.FromStr") }
	s := func(x string) *inst {
		if len(byAbs[aval.Str(x).String()]) == 0 {
			reg(strReps(x))
		}
		return g(aval.Str(x), "SuStr")
	}
	tr, fa := insts[1], insts[0]
	d1 := g(aval.Date(20200101, 0, 0), "DateFromLiteral")
	ts := g(aval.Date(20200101, 0, 1), "DateFromLiteral")
	objs := func(list []*inst, named []member) []*inst {
		is := objReps(rnd, list, named, alt)
		reg(is)
		if len(is) == 0 { // built before
			av := aval.Obj(nil, nil)
			for _, e := range list {
				av.L = append(av.L, e.av)
			}
			for _, m := range named {
				av.N = append(av.N, [2]*aval.V{m.k.av, m.v.av})
			}
			is = byAbs[av.String()]
		}
		return is
	}
	L := func(x ...*inst) []*inst { return x }
	M := func(x ...*inst) []member {
		var ms []member
		for i := 0; i+1 < len(x); i += 2 {
			ms = append(ms, member{x[i], x[i+1]})
		}
		return ms
	}
	e := objs(nil, nil)
	objs(L(n("1")), nil)
	o12 := objs(L(n("1"), n("2")), nil)
	objs(L(n("2")), nil)
	objs(L(n("1"), n("1")), nil)
	objs(L(nd("1.5"), n("2")), nil)
	objs(L(s("a")), nil)
	objs(L(s("")), nil)
	objs(L(tr), nil)
	objs(L(fa, tr), nil)
	objs(L(d1), nil)
	objs(L(ts, d1), nil)
	objs(nil, M(s("a"), n("1")))
	objs(nil, M(s("a"), n("2")))
	objs(L(n("1")), M(s("a"), n("1")))
	objs(nil, M(s("a"), n("1"), s("b"), n("2")))
	objs(nil, M(n("100000"), s("a")))             // F14: integer key beyond int16
	objs(nil, M(nd("1.5"), s("a"), n("-1"), s("b"))) // non-index number keys
	objs(nil, M(d1, n("1"), tr, n("2")))
	objs(nil, M(s("a"), n("1"), s("b"), n("2"), s("c"), n("0"), s("d"), n("1"), s("e"), n("2"))) // > 4 named
	objs(L(n("1"), n("2"), n("10"), s("a"), s("b"), tr, d1, n("0"), n("1"), n("2"), n("255"), s("abc")), nil)
	one := g(aval.Obj([]*aval.V{aval.Num("1")}, nil), "SuObject")
	oner := g(aval.Obj([]*aval.V{aval.Num("1")}, nil), "SuRecord")
	onea := g(aval.Obj([]*aval.V{aval.Num("1")}, [][2]*aval.V{{aval.Str("a"), aval.Num("1")}}), "SuObject")
	objs(L(e[0]), nil)
	objs(L(one), nil)
	objs(L(oner, n("2")), nil)
	objs(L(o12[0]), nil)
	objs(L(onea), nil)
	objs(L(n("1")), M(one, e[0]))
	objs(nil, M(s("k"), onea))
	nest := objs(L(objs(L(objs(L(one), nil)[0]), nil)[0]), nil) // depth 4
	_ = nest
	// lazily materialised records (as queries / cursors / triggers deliver them) on their
	// own and nested where a container's hash looks (first two list members, keys and values
	// of up to 4 named members) and where it does not
	objs(nil, M(s("num"), n("123"), s("str"), s("foobar")))
	objs(nil, M(s("a"), n("1"), s("b"), s("x"), s("c"), one))
	lz := func(ms []member) *inst {
		av := aval.Obj(nil, nil)
		for _, m := range ms {
			av.N = append(av.N, [2]*aval.V{m.k.av, m.v.av})
		}
		in := g(av, "SuRecordFromRow")
		if in.mk == nil {
			vh.Fatal("no lazy record for %s", av)
		}
		return in
	}
	lzA := lz(M(s("a"), n("1")))
	lzAB := lz(M(s("a"), n("1"), s("b"), n("2")))
	lzNS := lz(M(s("num"), n("123"), s("str"), s("foobar")))
	lz5 := lz(M(s("a"), n("1"), s("b"), n("2"), s("c"), n("0"), s("d"), n("1"), s("e"), n("2")))
	seq12 := g(aval.Obj([]*aval.V{aval.Num("1"), aval.Num("2")}, nil), "SuSequence")
	objs(L(lzNS, s("x")), nil)
	objs(L(lzA), nil)
	objs(L(n("1"), lzAB), nil)
	objs(L(n("1"), n("2"), lzA), nil)
	objs(L(lzA, lzAB), M(s("k"), lzA))
	objs(nil, M(s("k"), lzAB))
	objs(nil, M(lzA, n("1")))
	objs(nil, M(s("p"), lz5, s("q"), lzA))
	objs(L(seq12, s("x")), nil)
	objs(L(objs(L(lzAB, n("2")), nil)[0]), nil) // not looked at by the outer hash
	if thorough {
		// random objects over random members
		all := append([]*inst{}, insts...)
		for i := 0; i < 25; i++ {
			var l []*inst
			for j := rnd.Intn(4); j > 0; j-- {
				l = append(l, all[rnd.Intn(len(all))])
			}
			var ms []member
			used := map[string]bool{}
			for j := rnd.Intn(4); j > 0; j-- {
				k := all[rnd.Intn(len(all))]
				if idx, ok := k.av.IsInt(); ok && 0 <= idx && idx < 8 { // would be a list index
					continue
				}
				if used[k.av.String()] || k.av.T == "obj" && len(k.av.L)+len(k.av.N) > 3 {
					continue
				}
				used[k.av.String()] = true
				ms = append(ms, member{k, all[rnd.Intn(len(all))]})
			}
			objs(l, ms)
		}
	}
}

// ------------------------------------------------------------------ observations

func sign(i int) int {
	if i < 0 {
		return -1
	} else if i > 0 {
		return 1
	}
	return 0
}

type obs struct {
	cmp, ops int // sign of Value.Compare; order according to OpLt/OpLte/OpGt/OpGte (-1,0,1; 9 = inconsistent)
	eq, is   bool
	found    bool // SuObject: Put(a) then Get(b)
	rfound   bool // SuRecord: Put(a) then GetIfPresent(b)
	has      bool // SuObject HasKey
	exc      string
}

func observe(a, b *inst) (o obs) {
	defer func() {
		if e := recover(); e != nil {
			o.exc = fmt.Sprint(e)
		}
	}()
	o.cmp = sign(a.v.Compare(b.v))
	lt, lte := OpLt(a.v, b.v) == True, OpLte(a.v, b.v) == True
	gt, gte := OpGt(a.v, b.v) == True, OpGte(a.v, b.v) == True
	switch {
	case lt && lte && !gt && !gte:
		o.ops = -1
	case !lt && lte && !gt && gte:
		o.ops = 0
	case !lt && !lte && gt && gte:
		o.ops = 1
	default:
		o.ops = 9
	}
	o.eq = a.v.Equal(b.v)
	o.is = OpIs(a.v, b.v) == True && OpIsnt(a.v, b.v) == False
	c := &SuObject{}
	c.Put(nil, a.v, SuStr("here"))
	o.found = c.Get(nil, b.v) != nil
	o.has = c.HasKey(b.v)
	r := NewSuRecord()
	r.Put(nil, a.v, SuStr("here"))
	o.rfound = r.GetIfPresent(nil, b.v) != nil
	return o
}

func hashChunks(v Value) []int {
	h := v.Hash()
	return []int{int(h >> 42), int(h >> 21 & 0x1fffff), int(h & 0x1fffff)}
}

func b2i(b bool) int {
	if b {
		return 1
	}
	return 0
}

// lazyCore: a record backed by its row, or a container holding a lazy value (always part
// of the quick universe; the other lazy variants are sampled)
func lazyCore(in *inst) bool {
	return in.mk != nil && (in.rep == "SuRecordFromRow" || in.rep == "SuObject" || in.rep == "SuRecord")
}

func main() {
	out := os.Args[1]
	rowOnly := 0
	if len(os.Args) > 3 && os.Args[2] == "-row" {
		rowOnly, _ = strconv.Atoi(os.Args[3])
	}
	rnd := rand.New(rand.NewSource(vh.Seed()))
	universe(rnd, vh.Thorough())
	// quick tier: every abstract value in its first representation, the representation
	// families that differ in code path for numbers / strings / objects, plus a
	// seed-dependent sample of all the others (thorough: everything)
	if !vh.Thorough() {
		always := func(in *inst) bool {
			switch in.rep {
			case "SuInt", "IntVal", "SuDnum.FromInt", "SuDnum.Mul", "SuStr", "SuConcat", "SuConcat.shared", "SuExcept",
				"SuObject", "SuObject.revnamed", "SuRecord":
				return true
			}
			return false
		}
		first := map[string]bool{}
		var keep []*inst
		for _, in := range insts {
			k := in.av.String()
			if !first[k] || lazyCore(in) || in.mk != nil && rnd.Intn(100) < 25 || always(in) && rnd.Intn(100) < 45 || rnd.Intn(100) < 8 {
				keep = append(keep, in)
			}
			first[k] = true
		}
		insts = keep
	}
	if max := 1000; len(insts) > max {
		// thorough: keep the first representation of every abstract value, sample the rest
		first := map[string]bool{}
		var keep, rest []*inst
		for _, in := range insts {
			if k := in.av.String(); !first[k] || in.mk != nil {
				first[k] = true
				keep = append(keep, in)
			} else {
				rest = append(rest, in)
			}
		}
		rnd.Shuffle(len(rest), func(i, j int) { rest[i], rest[j] = rest[j], rest[i] })
		if n := max - len(keep); n > 0 && n < len(rest) {
			rest = rest[:n]
		}
		insts = append(keep, rest...)
	}
	for i, in := range insts {
		in.id = i + 1
	}
	tr := vh.Create(out)
	defer tr.Close()
	n := len(insts)
	cls := map[string]int{}
	for _, in := range insts {
		k := in.av.String()
		if cls[k] == 0 {
			cls[k] = len(cls) + 1
		}
		tr.Emit(vh.E("Val", "id", in.id, "cls", cls[k], "rep", in.rep, "gotype", fmt.Sprintf("%T", in.v), "a", in.av, "h", hashChunks(in.v)))
	}
	npairs, nexc := 0, 0
	for _, a := range insts {
		if rowOnly != 0 && a.id != rowOnly {
			continue
		}
		cmp, ops, eq, is, found, rfound, has := make([]int, n), make([]int, n), make([]int, n), make([]int, n), make([]int, n), make([]int, n), make([]int, n)
		for j, b := range insts {
			o := observe(a, b)
			npairs++
			if o.exc != "" {
				nexc++
				o.cmp, o.ops = 7, 7 // an exception is not an answer: no value the spec accepts
				fmt.Fprintf(os.Stderr, "exception comparing %s %s with %s %s: %s\n", a.rep, a.av, b.rep, b.av, o.exc)
			}
			cmp[j], ops[j], eq[j], is[j], found[j], rfound[j], has[j] = o.cmp, o.ops, b2i(o.eq), b2i(o.is), b2i(o.found), b2i(o.rfound), b2i(o.has)
			if rowOnly != 0 {
				tr.Emit(vh.E("Pair", "a", a.id, "b", b.id, "cmp", o.cmp, "ops", o.ops, "eq", b2i(o.eq), "is", b2i(o.is),
					"found", b2i(o.found), "rfound", b2i(o.rfound), "has", b2i(o.has)))
			}
		}
		if rowOnly == 0 {
			tr.Emit(vh.E("Row", "a", a.id, "cmp", cmp, "ops", ops, "eq", eq, "is", is, "found", found, "rfound", rfound, "has", has))
		}
	}
	// one shared container per kind: keys put in random order (an equal key overwrites),
	// then every instance is looked up: must return the value of the LAST equal key put
	nmaps := 0
	if rowOnly == 0 {
		for _, kind := range []string{"SuObject", "SuRecord"} {
			for round := 0; round < 3; round++ {
				var c Container
				if kind == "SuObject" {
					c = &SuObject{}
				} else {
					c = NewSuRecord()
				}
				nput := 20 + rnd.Intn(40)
				puts := make([]int, 0, nput)
				for k := 0; k < nput; k++ {
					in := insts[rnd.Intn(n)]
					c.Put(nil, in.v, IntVal(in.id))
					puts = append(puts, in.id)
				}
				gets := make([]int, n)
				for j, b := range insts {
					gets[j] = -1
					if v := c.GetIfPresent(nil, b.v); v != nil {
						gets[j] = ToInt(v)
					}
				}
				tr.Emit(vh.E("Map", "kind", kind, "puts", puts, "gets", gets))
				nmaps++
			}
		}
	}
	nlazy, neps, nlz := 0, 0, 0
	if rowOnly == 0 {
		nlazy, neps, nlz = episodes(tr, rnd, cls)
	}
	vh.Summary("instances", n, "pairs", npairs, "exceptions", nexc, "maps", nmaps, "misnamed_dropped", misnamed,
		"lazy_instances", nlazy, "lazy_episodes", neps, "lazy_steps", nlz, "events", tr.N)
}

// ------------------------------------------------------------------ lazy episodes

// episodes: for every instance that is (or contains) a lazily materialised value, brand new
// copies are taken through sequences of READ-ONLY operations - reading a field of the lazy
// value, displaying it, hashing, comparing, storing a member under it in a container and
// looking that member up under the same key and under equal / other keys - in different
// orders, so that hashes and lookups are observed in every materialisation state.
//   LzNew of, ep, ra (abstract value of the first lazy leaf)
//   Lz    of, op, b (other instance or 0), k (member key of the leaf), r (result), h (hash)
func episodes(tr *vh.Trace, rnd *rand.Rand, cls map[string]int) (nlazy, neps, nsteps int) {
	none := aval.Bool(false)
	byCls := map[int][]*inst{}
	for _, in := range insts {
		c := cls[in.av.String()]
		byCls[c] = append(byCls[c], in)
	}
	scripts := [][]string{
		{"hash", "eq", "hash", "look0", "cmp", "hash"},
		{"put", "look", "get", "look0", "look", "str", "look0", "look", "hash"},
		{"get", "hash", "put", "has", "str", "look0", "look", "cmp", "hash"},
		{"has", "put", "eq", "look0", "look", "hash"},
	}
	nrand := 2
	if vh.Thorough() {
		nrand = 12
	}
	allops := []string{"hash", "eq", "cmp", "put", "look", "look0", "get", "has", "str", "look", "look0", "get"}
	for _, in := range insts {
		if in.mk == nil {
			continue
		}
		nlazy++
		scs := append([][]string{}, scripts...)
		for i := 0; i < nrand; i++ {
			sc := make([]string, 4+rnd.Intn(8))
			for j := range sc {
				sc[j] = allops[rnd.Intn(len(allops))]
			}
			scs = append(scs, sc)
		}
		eqs := byCls[cls[in.av.String()]]
		for ep, sc := range scs {
			x, leaves := in.mk()
			var lf leaf
			ra := aval.Obj(nil, nil)
			if len(leaves) > 0 {
				lf = leaves[rnd.Intn(len(leaves))]
				ra = lf.av
			}
			var c Container = &SuObject{}
			if ep%2 == 1 {
				c = NewSuRecord()
			}
			tr.Emit(vh.E("LzNew", "of", in.id, "ep", ep, "ra", ra))
			neps++
			for _, op := range sc {
				b := eqs[rnd.Intn(len(eqs))] // an equal value in some representation ...
				if rnd.Intn(4) == 0 {
					b = insts[rnd.Intn(len(insts))] // ... or any value
				}
				bid, k, r, h := 0, none, 0, []int{}
				func() {
					defer func() {
						if e := recover(); e != nil {
							r = 7 // an exception is not an answer
							fmt.Fprintf(os.Stderr, "exception in lazy episode %s %s op %s: %v\n", in.rep, in.av, op, e)
						}
					}()
					switch op {
					case "hash":
						h = hashChunks(x)
					case "eq":
						bid, r = b.id, b2i(x.Equal(b.v) && b.v.Equal(x))
					case "cmp":
						bid, r = b.id, sign(x.Compare(b.v))
					case "put":
						c.Put(nil, x, True)
					case "look":
						bid, r = b.id, b2i(c.GetIfPresent(nil, b.v) != nil)
					case "look0":
						r = b2i(c.GetIfPresent(nil, x) != nil && c.HasKey(x))
					case "get", "has":
						rec, ok := lf.v.(*SuRecord)
						if !ok || len(lf.av.N) == 0 {
							op = "str"
							if lf.v != nil {
								_ = lf.v.String()
							}
							return
						}
						k = lf.av.N[rnd.Intn(len(lf.av.N))][0]
						if op == "has" && rnd.Intn(3) == 0 {
							k = aval.Str("zz")
						}
						if op == "get" {
							r = b2i(rec.Get(nil, SuStr(k.Bytes())) != nil)
						} else {
							r = b2i(rec.HasKey(SuStr(k.Bytes())))
						}
					case "str":
						if lf.v != nil {
							_ = lf.v.String()
						} else {
							_ = x.String()
						}
					}
				}()
				tr.Emit(vh.E("Lz", "of", in.id, "op", op, "b", bid, "k", k, "r", r, "h", h))
				nsteps++
			}
		}
	}
	return
}
