// Driver for C28: instantiates abstract values (spec/Values.tla) in EVERY representation
// constructible in core (SuInt / SuInt64 / SuDnum; SuStr / SuConcat / SuExcept; SuDate /
// SuTimestamp; SuObject / SuRecord / SuSequence, unpacked, copied, read-only, concurrent;
// nested) and records, for ALL ordered pairs, what the real code answers:
// Value.Compare, the OpLt/OpLte/OpGt/OpGte/OpIs operators, Equal, Hash, and member
// lookup (Put under one key, Get under the other) in SuObject and SuRecord containers.
// The trace is validated by spec/trace/TraceValues.tla; this program decides nothing.
//
// usage: values <trace.ndjson> [-row <id>]    (-row: expand one row into Pair events)
package main

import (
	"fmt"
	"math"
	"math/rand"
	"os"
	"strconv"
	"strings"

	. "github.com/apmckinlay/gsuneido/core"
	"github.com/apmckinlay/gsuneido/util/dnum"

	"verifharness/aval"
	"verifharness/vh"
)

type inst struct {
	id  int
	rep string
	av  *aval.V
	v   Value
	key string // optional known-finding class of the abstract value
}

var insts []*inst
var seen = map[string]bool{}
var misnamed int

// add registers one concrete representation of an abstract value (deduplicated on
// Go type + rep family + display so that the same construction is not repeated)
func add(av *aval.V, rep string, v Value) *inst {
	if v == nil {
		return nil
	}
	k := fmt.Sprintf("%T|%s|%s", v, rep, av.String())
	switch v.(type) {
	case SuBool, SuDnum, SuInt64, SuStr, SuDate, SuTimestamp:
		k = fmt.Sprintf("%T|%#v", v, v) // identical structs are one representation
	}
	if _, ok := SuIntToInt(v); ok {
		k = fmt.Sprintf("%T|%s", v, v)
	}
	if seen[k] {
		return nil
	}
	seen[k] = true
	if av.T != "obj" {
		// harness sanity: the construction recipe must have produced the value it is named
		// after (judged from the representation's own fields); otherwise leave it out
		if back, ok := aval.Of(v); !ok || back.String() != av.String() {
			misnamed++
			return nil
		}
	}
	in := &inst{rep: rep, av: av, v: v}
	insts = append(insts, in)
	return in
}

func try(f func() Value) (v Value) {
	defer func() {
		if e := recover(); e != nil {
			v = nil
		}
	}()
	return f()
}

// ------------------------------------------------------------------ numbers

func numReps(s string) []*inst {
	av := aval.Num(s)
	var out []*inst
	put := func(rep string, v Value) {
		if in := add(av, rep, v); in != nil {
			out = append(out, in)
		}
	}
	if n, ok := av.IsInt(); ok {
		if MinSuInt <= n && n <= MaxSuInt {
			put("SuInt", SuInt(int(n)))
		}
		put("IntVal", IntVal(int(n)))     // SuInt or SuInt64
		put("Int64Val", Int64Val(n))      // SuInt64 at the int16 boundaries
		if n == 0 {
			put("SuInt64{}", SuInt64{})
		}
		if len(av.ND) <= 16 {
			put("SuDnum.FromInt", SuDnum{Dnum: dnum.FromInt(n)})
			// integer produced by decimal arithmetic (F14: 200000 * .5)
			if n%5 == 0 || len(av.ND) <= 15 {
				if n2 := n * 2; n2/2 == n && len(strconv.FormatInt(n2, 10)) <= 17 {
					put("SuDnum.Mul", try(func() Value {
						return OpMul(SuDnum{Dnum: dnum.FromInt(n2)}, SuDnum{Dnum: dnum.FromStr(".5")})
					}))
				}
			}
			put("OpAdd(dnum)", try(func() Value {
				return OpAdd(SuDnum{Dnum: dnum.FromInt(n)}, SuDnum{Dnum: dnum.Zero})
			}))
		}
	}
	if len(av.ND) <= 16 && -120 < av.NX && av.NX < 120 {
		lit := av.NumString()
		put("SuDnum.FromStr", try(func() Value { return SuDnum{Dnum: dnum.FromStr(lit)} }))
		put("NumFromString", try(func() Value { return NumFromString(lit) }))
		if av.NS == 1 || av.NS == -1 {
			// un-normalised constructor input
			coef, _ := strconv.ParseUint(av.Digits(), 10, 64)
			put("dnum.New", SuDnum{Dnum: dnum.New(int8(av.NS), coef, av.NX+16-len(av.ND))})
		}
	}
	switch av.NS {
	case 2:
		put("Inf", Inf)
		put("dnum.Inf", SuDnum{Dnum: dnum.Inf(+1)})
		put("1/0", OpDiv(One, Zero))
	case -2:
		put("NegInf", NegInf)
		put("-1/0", OpDiv(MinusOne, Zero))
	}
	// packed and unpacked again
	for _, in := range append([]*inst{}, out...) {
		v := in.v
		put("Unpack("+in.rep+")", try(func() Value { return Unpack(PackValue(v)) }))
	}
	return out
}

// ------------------------------------------------------------------ strings

func strReps(s string) []*inst {
	av := aval.Str(s)
	var out []*inst
	put := func(rep string, v Value) {
		if in := add(av, rep, v); in != nil {
			out = append(out, in)
		}
	}
	put("SuStr", SuStr(s))
	put("SuConcat", NewSuConcat().Add(s))
	if len(s) >= 2 {
		k := len(s) / 2
		put("SuConcat2", NewSuConcat().Add(s[:k]).Add(s[k:]))
	}
	// shared buffer: a sibling has appended beyond our length
	base := NewSuConcat().Add(s)
	_ = base.Add("zzz")
	put("SuConcat.shared", base)
	put("SuExcept", BuiltinSuExcept(s))
	put("SuExcept2", &SuExcept{SuStr: SuStr(s), Callstack: &SuObject{}})
	if len(s) >= 1 {
		put("OpCat", OpCat(SuStr(s[:1]), SuStr(s[1:])))
		put("OpCat(concat)", OpCat(NewSuConcat().Add(s[:1]), SuStr(s[1:])))
		put("OpCat(except)", OpCat(BuiltinSuExcept(s[:1]), SuStr(s[1:])))
	}
	put("Unpack", try(func() Value { return Unpack(PackValue(SuStr(s))) }))
	return out
}

// ------------------------------------------------------------------ dates

func dateReps(dd, dt, dx int) []*inst {
	av := aval.Date(dd, dt, dx)
	var out []*inst
	put := func(rep string, v Value) {
		if v == nil || v == Value(NilDate) {
			return
		}
		if in := add(av, rep, v); in != nil {
			out = append(out, in)
		}
	}
	lit := av.Lit()
	put("DateFromLiteral", try(func() Value { return DateFromLiteral(lit) }))
	if dx == 0 {
		put("NewDate", NewDate(dd/10000, dd/100%100, dd%100,
			dt/10000000, dt/100000%100, dt/1000%100, dt%1000))
		if dt == 0 {
			put("DateFromLiteral.short", try(func() Value { return DateFromLiteral(lit[:9]) }))
		}
	}
	if len(out) > 0 {
		v := out[0].v
		put("Unpack", try(func() Value { return Unpack(PackValue(v)) }))
	}
	return out
}

// ------------------------------------------------------------------ objects

// objSpec describes an abstract object by indexes of element instances
type member struct{ k, v *inst }

func objReps(rnd *rand.Rand, list []*inst, named []member, alt func(*inst) *inst) []*inst {
	av := aval.Obj(nil, nil)
	for _, e := range list {
		av.L = append(av.L, e.av)
	}
	for _, m := range named {
		av.N = append(av.N, [2]*aval.V{m.k.av, m.v.av})
	}
	var out []*inst
	put := func(rep string, v Value) {
		if in := add(av, rep, v); in != nil {
			out = append(out, in)
		}
	}
	build := func(c Container, reverse bool, pick func(*inst) *inst) {
		for _, e := range list {
			c.Add(pick(e).v)
		}
		ms := append([]member{}, named...)
		if reverse {
			for i, j := 0, len(ms)-1; i < j; i, j = i+1, j-1 {
				ms[i], ms[j] = ms[j], ms[i]
			}
		}
		for _, m := range ms {
			c.Put(nil, pick(m.k).v, pick(m.v).v)
		}
	}
	same := func(in *inst) *inst { return in }
	o1 := &SuObject{}
	build(o1, false, same)
	put("SuObject", o1)
	if len(named) > 1 {
		o2 := &SuObject{}
		build(o2, true, same)
		put("SuObject.revnamed", o2)
	}
	// other representations of the members
	o3 := &SuObject{}
	build(o3, false, alt)
	put("SuObject.altreps", o3)
	// list built out of order (members migrate from named to list) and a deleted extra
	if len(list) > 1 {
		o4 := &SuObject{}
		for i := len(list) - 1; i >= 0; i-- {
			o4.Set(IntVal(i), list[i].v)
		}
		for _, m := range named {
			o4.Set(m.k.v, m.v.v)
		}
		o4.Set(SuStr("__extra"), True)
		o4.Delete(nil, SuStr("__extra"))
		put("SuObject.migrated", o4)
	}
	r1 := NewSuRecord()
	build(r1, false, same)
	put("SuRecord", r1)
	o5 := &SuObject{}
	build(o5, true, alt)
	put("SuRecordFromObject", SuRecordFromObject(o5))
	put("Unpack(SuObject)", try(func() Value { return Unpack(PackValue(o1)) }))
	put("Unpack(SuRecord)", try(func() Value { return Unpack(PackValue(r1)) }))
	put("Copy", o1.Copy())
	o6 := &SuObject{}
	build(o6, false, same)
	o6.SetReadOnly()
	put("SuObject.readonly", o6)
	o7 := &SuObject{}
	build(o7, false, alt)
	o7.SetConcurrent()
	put("SuObject.concurrent", o7)
	if len(named) == 0 {
		o8 := &SuObject{}
		build(o8, false, same)
		put("SuSequence", NewSuSequence(o8.Iter()))
	}
	_ = rnd
	return out
}

// ------------------------------------------------------------------ universe

func universe(rnd *rand.Rand, thorough bool) {
	add(aval.Bool(false), "SuBool", False)
	add(aval.Bool(true), "SuBool", True)

	nums := []string{"0", "1", "-1", "2", "10", "100", "127", "-128", "255", "256",
		"32766", "32767", "32768", "-32767", "-32768", "-32769", "65535", "65536", "100000", "-100000",
		"200000", "2147483647", "2147483648", "-2147483648", "4294967295", "4294967296",
		"1000000000000000", "9999999999999999", "-9999999999999999", "10000000000000000",
		".5", "-.5", "1.5", "-1.5", ".001", "1e-10", "123.456", "32767.5", "100000.5", "1e20", "-1e20", "1e100", "1e-100",
		".1", ".3333333333333333", "inf", "-inf"}
	// beyond 16 significant digits only integers exist (SuInt64)
	nums = append(nums, "12345678901234567", "12345678901234568", "12345678901234570",
		"100000000000000000", "9223372036854775807", "9223372036854775806", "9223372036854776000", "9223372036854775000",
		"-9223372036854775808")
	nrand := 6
	if thorough {
		nrand = 40
	}
	for i := 0; i < nrand; i++ {
		switch rnd.Intn(4) {
		case 0: // around int16 / int32 boundaries
			b := []int64{32767, -32768, 65536, 1 << 31, 1 << 32, 1 << 53}[rnd.Intn(6)]
			nums = append(nums, strconv.FormatInt(b+int64(rnd.Intn(7))-3, 10))
		case 1: // random integer of random magnitude (<= 16 digits)
			n := rnd.Int63n(int64(math.Pow10(1 + rnd.Intn(16))))
			if rnd.Intn(2) == 0 {
				n = -n
			}
			nums = append(nums, strconv.FormatInt(n, 10))
		case 2: // random decimal
			d := strconv.FormatInt(1+rnd.Int63n(int64(math.Pow10(1+rnd.Intn(15)))), 10)
			nums = append(nums, fmt.Sprintf("%s.%se%d", []string{"", "-"}[rnd.Intn(2)], d, rnd.Intn(30)-10))
		case 3: // integer-valued decimal with trailing zeros
			nums = append(nums, fmt.Sprintf("%de%d", 1+rnd.Intn(999), rnd.Intn(14)))
		}
	}
	byAbs := map[string][]*inst{}
	reg := func(is []*inst) {
		for _, in := range is {
			byAbs[in.av.String()] = append(byAbs[in.av.String()], in)
		}
	}
	for _, s := range nums {
		reg(numReps(s))
	}

	long := strings.Repeat("x", 300)
	strs := []string{"", "a", "a\x00", "aa", "ab", "b", "\xff", "1", "abc", "true", "100000",
		"\x00", "a\xffb", long, long + "y", long[:299]}
	for i := 0; i < nrand/2; i++ {
		n := rnd.Intn(5)
		b := make([]byte, n)
		for j := range b {
			b[j] = []byte{0, 1, 'a', 'b', 'z', 0x7f, 0x80, 0xff}[rnd.Intn(8)]
		}
		strs = append(strs, string(b))
	}
	for _, s := range strs {
		reg(strReps(s))
	}

	dates := [][3]int{{20200101, 0, 0}, {20200101, 0, 1}, {20200101, 0, 255}, {20200101, 120000000, 0},
		{20200101, 120000001, 0}, {20200101, 120000000, 7}, {20200102, 0, 0}, {17000101, 0, 0},
		{30000101, 0, 0}, {19991231, 235959999, 0}, {19991231, 235959999, 255}, {20200101, 1, 0}, {20200101, 1, 1}}
	for i := 0; i < nrand/2; i++ {
		dates = append(dates, [3]int{(1900+rnd.Intn(200))*10000 + (1+rnd.Intn(12))*100 + 1 + rnd.Intn(28),
			rnd.Intn(24)*10000000 + rnd.Intn(60)*100000 + rnd.Intn(60)*1000 + rnd.Intn(1000),
			[]int{0, 0, 1, 2, 255}[rnd.Intn(5)]})
	}
	for _, d := range dates {
		reg(dateReps(d[0], d[1], d[2]))
	}

	// pick element instances by abstract value and representation
	g := func(av *aval.V, rep string) *inst {
		is := byAbs[av.String()]
		for _, in := range is {
			if in.rep == rep {
				return in
			}
		}
		if len(is) == 0 {
			vh.Fatal("no instance for %s", av)
		}
		return is[0]
	}
	alt := func(in *inst) *inst { // another representation of the same abstract value
		is := byAbs[in.av.String()]
		for k, x := range is {
			if x == in {
				return is[(k+1+rnd.Intn(len(is)))%len(is)]
			}
		}
		return in
	}
	n := func(s string) *inst {
		if len(byAbs[aval.Num(s).String()]) == 0 {
			reg(numReps(s))
		}
		return g(aval.Num(s), "SuInt")
	}
	nd := func(s string) *inst { n(s); return g(aval.Num(s), "SuDnum.FromStr") }
	s := func(x string) *inst {
		if len(byAbs[aval.Str(x).String()]) == 0 {
			reg(strReps(x))
		}
		return g(aval.Str(x), "SuStr")
	}
	tr, fa := insts[1], insts[0]
	d1 := g(aval.Date(20200101, 0, 0), "DateFromLiteral")
	ts := g(aval.Date(20200101, 0, 1), "DateFromLiteral")
	objs := func(list []*inst, named []member) []*inst {
		is := objReps(rnd, list, named, alt)
		reg(is)
		if len(is) == 0 { // built before
			av := aval.Obj(nil, nil)
			for _, e := range list {
				av.L = append(av.L, e.av)
			}
			for _, m := range named {
				av.N = append(av.N, [2]*aval.V{m.k.av, m.v.av})
			}
			is = byAbs[av.String()]
		}
		return is
	}
	L := func(x ...*inst) []*inst { return x }
	M := func(x ...*inst) []member {
		var ms []member
		for i := 0; i+1 < len(x); i += 2 {
			ms = append(ms, member{x[i], x[i+1]})
		}
		return ms
	}
	e := objs(nil, nil)
	objs(L(n("1")), nil)
	o12 := objs(L(n("1"), n("2")), nil)
	objs(L(n("2")), nil)
	objs(L(n("1"), n("1")), nil)
	objs(L(nd("1.5"), n("2")), nil)
	objs(L(s("a")), nil)
	objs(L(s("")), nil)
	objs(L(tr), nil)
	objs(L(fa, tr), nil)
	objs(L(d1), nil)
	objs(L(ts, d1), nil)
	objs(nil, M(s("a"), n("1")))
	objs(nil, M(s("a"), n("2")))
	objs(L(n("1")), M(s("a"), n("1")))
	objs(nil, M(s("a"), n("1"), s("b"), n("2")))
	objs(nil, M(n("100000"), s("a")))             // F14: integer key beyond int16
	objs(nil, M(nd("1.5"), s("a"), n("-1"), s("b"))) // non-index number keys
	objs(nil, M(d1, n("1"), tr, n("2")))
	objs(nil, M(s("a"), n("1"), s("b"), n("2"), s("c"), n("0"), s("d"), n("1"), s("e"), n("2"))) // > 4 named
	objs(L(n("1"), n("2"), n("10"), s("a"), s("b"), tr, d1, n("0"), n("1"), n("2"), n("255"), s("abc")), nil)
	one := g(aval.Obj([]*aval.V{aval.Num("1")}, nil), "SuObject")
	oner := g(aval.Obj([]*aval.V{aval.Num("1")}, nil), "SuRecord")
	onea := g(aval.Obj([]*aval.V{aval.Num("1")}, [][2]*aval.V{{aval.Str("a"), aval.Num("1")}}), "SuObject")
	objs(L(e[0]), nil)
	objs(L(one), nil)
	objs(L(oner, n("2")), nil)
	objs(L(o12[0]), nil)
	objs(L(onea), nil)
	objs(L(n("1")), M(one, e[0]))
	objs(nil, M(s("k"), onea))
	nest := objs(L(objs(L(objs(L(one), nil)[0]), nil)[0]), nil) // depth 4
	_ = nest
	if thorough {
		// random objects over random members
		all := append([]*inst{}, insts...)
		for i := 0; i < 25; i++ {
			var l []*inst
			for j := rnd.Intn(4); j > 0; j-- {
				l = append(l, all[rnd.Intn(len(all))])
			}
			var ms []member
			used := map[string]bool{}
			for j := rnd.Intn(4); j > 0; j-- {
				k := all[rnd.Intn(len(all))]
				if idx, ok := k.av.IsInt(); ok && 0 <= idx && idx < 8 { // would be a list index
					continue
				}
				if used[k.av.String()] || k.av.T == "obj" && len(k.av.L)+len(k.av.N) > 3 {
					continue
				}
				used[k.av.String()] = true
				ms = append(ms, member{k, all[rnd.Intn(len(all))]})
			}
			objs(l, ms)
		}
	}
}

// ------------------------------------------------------------------ observations

func sign(i int) int {
	if i < 0 {
		return -1
	} else if i > 0 {
		return 1
	}
	return 0
}

type obs struct {
	cmp, ops int // sign of Value.Compare; order according to OpLt/OpLte/OpGt/OpGte (-1,0,1; 9 = inconsistent)
	eq, is   bool
	found    bool // SuObject: Put(a) then Get(b)
	rfound   bool // SuRecord: Put(a) then GetIfPresent(b)
	has      bool // SuObject HasKey
	exc      string
}

func observe(a, b *inst) (o obs) {
	defer func() {
		if e := recover(); e != nil {
			o.exc = fmt.Sprint(e)
		}
	}()
	o.cmp = sign(a.v.Compare(b.v))
	lt, lte := OpLt(a.v, b.v) == True, OpLte(a.v, b.v) == True
	gt, gte := OpGt(a.v, b.v) == True, OpGte(a.v, b.v) == True
	switch {
	case lt && lte && !gt && !gte:
		o.ops = -1
	case !lt && lte && !gt && gte:
		o.ops = 0
	case !lt && !lte && gt && gte:
		o.ops = 1
	default:
		o.ops = 9
	}
	o.eq = a.v.Equal(b.v)
	o.is = OpIs(a.v, b.v) == True && OpIsnt(a.v, b.v) == False
	c := &SuObject{}
	c.Put(nil, a.v, SuStr("here"))
	o.found = c.Get(nil, b.v) != nil
	o.has = c.HasKey(b.v)
	r := NewSuRecord()
	r.Put(nil, a.v, SuStr("here"))
	o.rfound = r.GetIfPresent(nil, b.v) != nil
	return o
}

func hashChunks(v Value) []int {
	h := v.Hash()
	return []int{int(h >> 42), int(h >> 21 & 0x1fffff), int(h & 0x1fffff)}
}

func b2i(b bool) int {
	if b {
		return 1
	}
	return 0
}

func main() {
	out := os.Args[1]
	rowOnly := 0
	if len(os.Args) > 3 && os.Args[2] == "-row" {
		rowOnly, _ = strconv.Atoi(os.Args[3])
	}
	rnd := rand.New(rand.NewSource(vh.Seed()))
	universe(rnd, vh.Thorough())
	// quick tier: every abstract value in its first representation, the representation
	// families that differ in code path for numbers / strings / objects, plus a
	// seed-dependent sample of all the others (thorough: everything)
	if !vh.Thorough() {
		always := func(in *inst) bool {
			switch in.rep {
			case "SuInt", "IntVal", "SuDnum.FromInt", "SuDnum.Mul", "SuStr", "SuConcat", "SuExcept",
				"SuObject", "SuObject.revnamed", "SuRecord":
				return true
			}
			return false
		}
		first := map[string]bool{}
		var keep []*inst
		for _, in := range insts {
			k := in.av.String()
			if !first[k] || always(in) && rnd.Intn(100) < 45 || rnd.Intn(100) < 8 {
				keep = append(keep, in)
			}
			first[k] = true
		}
		insts = keep
	}
	if max := 1000; len(insts) > max {
		// thorough: keep the first representation of every abstract value, sample the rest
		first := map[string]bool{}
		var keep, rest []*inst
		for _, in := range insts {
			if k := in.av.String(); !first[k] {
				first[k] = true
				keep = append(keep, in)
			} else {
				rest = append(rest, in)
			}
		}
		rnd.Shuffle(len(rest), func(i, j int) { rest[i], rest[j] = rest[j], rest[i] })
		if n := max - len(keep); n > 0 && n < len(rest) {
			rest = rest[:n]
		}
		insts = append(keep, rest...)
	}
	for i, in := range insts {
		in.id = i + 1
	}
	tr := vh.Create(out)
	defer tr.Close()
	n := len(insts)
	cls := map[string]int{}
	for _, in := range insts {
		k := in.av.String()
		if cls[k] == 0 {
			cls[k] = len(cls) + 1
		}
		tr.Emit(vh.E("Val", "id", in.id, "cls", cls[k], "rep", in.rep, "gotype", fmt.Sprintf("%T", in.v), "a", in.av, "h", hashChunks(in.v)))
	}
	npairs, nexc := 0, 0
	for _, a := range insts {
		if rowOnly != 0 && a.id != rowOnly {
			continue
		}
		cmp, ops, eq, is, found, rfound, has := make([]int, n), make([]int, n), make([]int, n), make([]int, n), make([]int, n), make([]int, n), make([]int, n)
		for j, b := range insts {
			o := observe(a, b)
			npairs++
			if o.exc != "" {
				nexc++
				o.cmp, o.ops = 7, 7 // an exception is not an answer: no value the spec accepts
				fmt.Fprintf(os.Stderr, "exception comparing %s %s with %s %s: %s\n", a.rep, a.av, b.rep, b.av, o.exc)
			}
			cmp[j], ops[j], eq[j], is[j], found[j], rfound[j], has[j] = o.cmp, o.ops, b2i(o.eq), b2i(o.is), b2i(o.found), b2i(o.rfound), b2i(o.has)
			if rowOnly != 0 {
				tr.Emit(vh.E("Pair", "a", a.id, "b", b.id, "cmp", o.cmp, "ops", o.ops, "eq", b2i(o.eq), "is", b2i(o.is),
					"found", b2i(o.found), "rfound", b2i(o.rfound), "has", b2i(o.has)))
			}
		}
		if rowOnly == 0 {
			tr.Emit(vh.E("Row", "a", a.id, "cmp", cmp, "ops", ops, "eq", eq, "is", is, "found", found, "rfound", rfound, "has", has))
		}
	}
	// one shared container per kind: keys put in random order (an equal key overwrites),
	// then every instance is looked up: must return the value of the LAST equal key put
	nmaps := 0
	if rowOnly == 0 {
		for _, kind := range []string{"SuObject", "SuRecord"} {
			for round := 0; round < 3; round++ {
				var c Container
				if kind == "SuObject" {
					c = &SuObject{}
				} else {
					c = NewSuRecord()
				}
				nput := 20 + rnd.Intn(40)
				puts := make([]int, 0, nput)
				for k := 0; k < nput; k++ {
					in := insts[rnd.Intn(n)]
					c.Put(nil, in.v, IntVal(in.id))
					puts = append(puts, in.id)
				}
				gets := make([]int, n)
				for j, b := range insts {
					gets[j] = -1
					if v := c.GetIfPresent(nil, b.v); v != nil {
						gets[j] = ToInt(v)
					}
				}
				tr.Emit(vh.E("Map", "kind", kind, "puts", puts, "gets", gets))
				nmaps++
			}
		}
	}
	vh.Summary("instances", n, "pairs", npairs, "exceptions", nexc, "maps", nmaps, "misnamed_dropped", misnamed, "events", tr.N)
}
