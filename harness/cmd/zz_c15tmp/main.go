package main

import (
	"fmt"
	"os"
	"strings"
	"time"

	"github.com/apmckinlay/gsuneido/core"
	"github.com/apmckinlay/gsuneido/db19"
	"github.com/apmckinlay/gsuneido/db19/stor"
	"github.com/apmckinlay/gsuneido/dbms/query"
)

func main() {
	db19.MakeSuTran = func(ut *db19.UpdateTran) *core.SuTran { return core.NewSuTran(nil, true) }
	store := stor.HeapStor(8192)
	db := db19.CreateDb(store)
	db19.StartConcur(db, time.Hour)
	for _, cmd := range os.Args[1:] {
		switch {
		case cmd == "persist":
			st := db.Persist()
			func() {
				defer func() {
					if e := recover(); e != nil {
						fmt.Println("  readstate PANIC:", e)
					}
				}()
				rs := db19.ReadState(store, st.Off)
				fmt.Print("  file:")
				for ts := range rs.Meta.Tables() {
					fmt.Print(" ", ts.Table)
				}
				fmt.Print(" | infos:")
				for ti := range rs.Meta.Infos() {
					fmt.Print(" ", ti.Table, "=", ti.Nrows)
				}
				fmt.Println()
			}()
		case cmd == "reopen":
			db.Close()
			var err error
			db, err = db19.OpenDbStor(store, stor.Update, true)
			if err != nil {
				fmt.Println("  OPEN ERROR:", err)
				return
			}
			db19.StartConcur(db, time.Hour)
		case strings.HasPrefix(cmd, "insert"):
			ut := db.NewUpdateTran()
			query.DoAction(nil, ut, cmd)
			ut.Commit()
		default:
			query.DoAdmin(db, cmd, nil)
		}
		fmt.Print(cmd, " => live:")
		for ts := range db.GetState().Meta.Tables() {
			fmt.Print(" ", ts.Table)
		}
		fmt.Println()
	}
}
