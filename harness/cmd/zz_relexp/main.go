package main

import (
	"fmt"
	"os"
	"strings"
	"time"

	. "github.com/apmckinlay/gsuneido/core"
	"github.com/apmckinlay/gsuneido/db19"
	"github.com/apmckinlay/gsuneido/db19/stor"
	_ "github.com/apmckinlay/gsuneido/dbms"
	qry "github.com/apmckinlay/gsuneido/dbms/query"
)

// usage: relexp 'admin;admin' 'action;action' 'query' ...
func main() {
	db := db19.CreateDb(stor.HeapStor(8192))
	db19.StartConcur(db, 10*time.Second)
	defer db.Close()
	th := &Thread{}
	for _, a := range strings.Split(os.Args[1], ";") {
		qry.DoAdmin(db, a, nil)
	}
	act := func(s string) {
		defer func() {
			if e := recover(); e != nil {
				fmt.Println("PANIC:", s, e)
			}
		}()
		ut := db.NewUpdateTran()
		defer func() {
			if e := recover(); e != nil {
				ut.Abort()
				panic(e)
			}
		}()
		n := qry.DoAction(th, ut, s)
		ut.Commit()
		_ = n
	}
	for _, a := range strings.Split(os.Args[2], ";") {
		act(a)
	}
	for _, src := range os.Args[3:] {
		func() {
			defer func() {
				if e := recover(); e != nil {
					fmt.Println("PANIC:", e)
				}
			}()
			rt := db.NewReadTran()
			q := qry.ParseQuery(src, rt, nil)
			q, _, _ = qry.Setup(q, qry.ReadMode, rt)
			fmt.Println(src, "\n  PLAN:", qry.String(q))
			hdr := q.Header()
			st := qry.MakeSuTran(rt)
			for row := q.Get(th, Next); row != nil; row = q.Get(th, Next) {
				fmt.Print("    ")
				for _, c := range hdr.Columns {
					fmt.Print(c, "=", row.GetVal(hdr, c, th, st), " ")
				}
				fmt.Println()
			}
		}()
	}
}
