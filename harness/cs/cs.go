package cs

import (
	"crypto/tls"
	"fmt"
	"io"
	"net"
	"time"

	"github.com/apmckinlay/gsuneido/core"
	"github.com/apmckinlay/gsuneido/db19"
	"github.com/apmckinlay/gsuneido/db19/stor"
	"github.com/apmckinlay/gsuneido/dbms"
	"github.com/apmckinlay/gsuneido/dbms/query"
	"github.com/apmckinlay/gsuneido/options"
)

// ---------------------------------------------------------------- digests
// Composable content digest usable by TLC (32-bit ints): two polynomial
// hashes modulo small primes:  H(a ++ b) = (H(a) * B^len(b) + H(b)) mod P

const (
	P1 = 32749
	P2 = 32719
	B  = 257
)

type Digest struct {
	N      int
	H1, H2 int
}

func DigestOf(data []byte) Digest {
	h1, h2 := 0, 0
	for _, c := range data {
		h1 = (h1*B + int(c) + 1) % P1
		h2 = (h2*B + int(c) + 1) % P2
	}
	return Digest{N: len(data), H1: h1, H2: h2}
}

func DigestStr(s string) Digest { return DigestOf([]byte(s)) }

func powmod(b, n, p int) int {
	r := 1
	b %= p
	for n > 0 {
		if n&1 == 1 {
			r = r * b % p
		}
		b = b * b % p
		n >>= 1
	}
	return r
}

// Cat is the digest of the concatenation (the same formula is in Mux.tla's trace binding)
func (a Digest) Cat(b Digest) Digest {
	return Digest{N: a.N + b.N,
		H1: (a.H1*powmod(B, b.N, P1) + b.H1) % P1,
		H2: (a.H2*powmod(B, b.N, P2) + b.H2) % P2}
}

// ---------------------------------------------------------------- database

var initDone bool

// Init sets the process-wide options the server code expects
func Init() {
	if initDone {
		return
	}
	initDone = true
	options.BuiltDate = "Dec 29 2020 12:34"
	options.Action = "server" // limit() panics instead of exiting; Kill available
	// update transactions are aborted after MaxAge seconds; a scripted transaction must
	// not die of machine load (16 shared cores), that would look like a difference
	db19.MaxAge = 1000000
	db19.StartTimestamps()
}

// NewDb creates a heap database with the concurrency machinery running and
// applies the admin requests
func NewDb(admin ...string) *db19.Database {
	return NewDbChunk(8192, admin...)
}

// NewDbChunk is NewDb with a given heap chunk size (records must fit in a chunk)
func NewDbChunk(chunk int, admin ...string) *db19.Database {
	Init()
	db := db19.CreateDb(stor.HeapStor(chunk))
	db19.StartConcur(db, time.Minute)
	for _, a := range admin {
		query.DoAdmin(db, a, nil)
	}
	return db
}

// Action runs one insert/update/delete request in its own transaction
func Action(db *db19.Database, action string) {
	ut := db.NewUpdateTran()
	query.DoAction(nil, ut, action)
	ut.Commit()
}

// SetGlobalDbms makes d the process wide dbms (what server side code such as
// AuthUser, Exec and Run sees through Thread.Dbms)
func SetGlobalDbms(d core.IDbms) {
	core.DbmsAuth = true
	core.GetDbms = func() core.IDbms { return d }
}

// ---------------------------------------------------------------- connect

// Serve starts the REAL server side (dbms.newServerConn through the verif entry
// point: hello, TLS upgrade, unauthorised wrapper, mux, command table) on one end
// of a new pipe and returns the client end after hello + TLS handshake,
// together with the raw client end (for closing / statistics).
func Serve(d *dbms.DbmsLocal, clientAddr string, chc, chs Chunking) (net.Conn, *Conn, error) {
	Init()
	cl, sv := Pipe(clientAddr, "10.9.9.9:3147", chc, chs)
	go dbms.VerifServeConn(d, sv)
	// hello: the server sends its 50 byte hello and expects the same back
	var hello [50]byte
	cl.SetReadDeadline(time.Now().Add(5 * time.Second))
	if _, err := io.ReadFull(cl, hello[:]); err != nil {
		return nil, nil, fmt.Errorf("hello: %w", err)
	}
	cl.SetReadDeadline(time.Time{})
	if _, err := cl.Write(hello[:]); err != nil {
		return nil, nil, err
	}
	tc := tls.Client(cl, &tls.Config{InsecureSkipVerify: true})
	if err := tc.Handshake(); err != nil {
		return nil, nil, fmt.Errorf("tls: %w", err)
	}
	return tc, cl, nil
}
