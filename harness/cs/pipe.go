// Package cs is the shared part of the client-server drivers (C40, C41):
// an in-memory duplex net.Conn that re-chunks reads and writes by seed and can
// tap the mux frames on the wire, composable message digests, helpers to set
// up a heap database and to connect to the REAL server code over the pipe.
package cs

import (
	"encoding/binary"
	"io"
	"math/rand"
	"net"
	"os"
	"sync"
	"sync/atomic"
	"time"
)

// half is one direction of the pipe: an unbounded byte queue
type half struct {
	mu     sync.Mutex
	cond   *sync.Cond
	buf    []byte
	closed bool
	gen    int // bumped by deadline changes to wake readers
}

func newHalf() *half {
	h := &half{}
	h.cond = sync.NewCond(&h.mu)
	return h
}

type Addr string

func (a Addr) Network() string { return "mem" }
func (a Addr) String() string  { return string(a) }

// Chunking says how an endpoint cuts its reads and writes
type Chunking struct {
	Seed     int64
	MaxRead  int // a Read returns at most 1..MaxRead bytes (0 = no limit)
	MaxWrite int // a Write is delivered in pieces of 1..MaxWrite bytes (0 = whole)
	Yield    int // 1 in Yield pieces is followed by a short sleep (0 = never)
}

// FrameTap receives every complete mux frame written at this endpoint, in wire
// order, BEFORE its last byte becomes readable at the other end.
type FrameTap func(session uint32, size int, final byte, payload []byte)

// Conn is one endpoint
type Conn struct {
	rd, wr        *half
	local, remote Addr
	rmu           sync.Mutex // protects rrnd
	rrnd          *rand.Rand
	wmu           sync.Mutex // serialises Write (callers already do) and protects wrnd, tap state
	wrnd          *rand.Rand
	ch            Chunking
	deadline      atomic.Int64 // unix nano, 0 = none
	tap           FrameTap
	tapbuf        []byte
	NRead, NWrite atomic.Int64 // counts of read/write pieces (coverage)
	BytesOut      atomic.Int64
}

const hdrSize = 9

// Pipe returns two connected endpoints (a = client side, b = server side)
func Pipe(aAddr, bAddr string, ca, cb Chunking) (*Conn, *Conn) {
	x, y := newHalf(), newHalf()
	a := &Conn{rd: x, wr: y, local: Addr(aAddr), remote: Addr(bAddr), ch: ca,
		rrnd: rand.New(rand.NewSource(ca.Seed)), wrnd: rand.New(rand.NewSource(ca.Seed + 1))}
	b := &Conn{rd: y, wr: x, local: Addr(bAddr), remote: Addr(aAddr), ch: cb,
		rrnd: rand.New(rand.NewSource(cb.Seed + 2)), wrnd: rand.New(rand.NewSource(cb.Seed + 3))}
	return a, b
}

// SetTap installs a frame tap on what this endpoint writes
func (c *Conn) SetTap(t FrameTap) { c.tap = t }

func (c *Conn) Read(p []byte) (int, error) {
	if len(p) == 0 {
		return 0, nil
	}
	n := len(p)
	if c.ch.MaxRead > 0 {
		c.rmu.Lock()
		m := 1 + c.rrnd.Intn(c.ch.MaxRead)
		if c.rrnd.Intn(4) == 0 {
			m = 1 + c.rrnd.Intn(3) // favour very short reads
		}
		c.rmu.Unlock()
		if m < n {
			n = m
		}
	}
	h := c.rd
	h.mu.Lock()
	defer h.mu.Unlock()
	for len(h.buf) == 0 {
		if h.closed {
			return 0, io.EOF
		}
		if d := c.deadline.Load(); d != 0 {
			left := time.Until(time.Unix(0, d))
			if left <= 0 {
				return 0, os.ErrDeadlineExceeded
			}
			gen := h.gen
			t := time.AfterFunc(left, func() {
				h.mu.Lock()
				h.gen++
				h.cond.Broadcast()
				h.mu.Unlock()
			})
			h.cond.Wait()
			t.Stop()
			_ = gen
			continue
		}
		h.cond.Wait()
	}
	if n > len(h.buf) {
		n = len(h.buf)
	}
	copy(p, h.buf[:n])
	h.buf = h.buf[n:]
	c.NRead.Add(1)
	return n, nil
}

func (c *Conn) Write(p []byte) (int, error) {
	c.wmu.Lock()
	defer c.wmu.Unlock()
	if c.tap != nil {
		c.feedTap(p)
	}
	total := len(p)
	for len(p) > 0 {
		n := len(p)
		if c.ch.MaxWrite > 0 {
			m := 1 + c.wrnd.Intn(c.ch.MaxWrite)
			if c.wrnd.Intn(4) == 0 {
				m = 1 + c.wrnd.Intn(3)
			}
			if m < n {
				n = m
			}
		}
		h := c.wr
		h.mu.Lock()
		if h.closed {
			h.mu.Unlock()
			return total - len(p), io.ErrClosedPipe
		}
		h.buf = append(h.buf, p[:n]...)
		h.cond.Broadcast()
		h.mu.Unlock()
		p = p[n:]
		c.NWrite.Add(1)
		if c.ch.Yield > 0 && c.wrnd.Intn(c.ch.Yield) == 0 {
			time.Sleep(time.Duration(c.wrnd.Intn(50)) * time.Microsecond)
		}
	}
	c.BytesOut.Add(int64(total))
	return total, nil
}

// feedTap parses the byte stream into mux frames (size:4, id:4, final:1, data)
func (c *Conn) feedTap(p []byte) {
	c.tapbuf = append(c.tapbuf, p...)
	for len(c.tapbuf) >= hdrSize {
		size := int(binary.BigEndian.Uint32(c.tapbuf))
		if len(c.tapbuf) < hdrSize+size {
			return
		}
		id := binary.BigEndian.Uint32(c.tapbuf[4:])
		c.tap(id, size, c.tapbuf[8], c.tapbuf[hdrSize:hdrSize+size])
		c.tapbuf = c.tapbuf[hdrSize+size:]
		if len(c.tapbuf) == 0 {
			c.tapbuf = nil
		}
	}
}

// Close closes both directions (like net.Conn.Close on a socket)
func (c *Conn) Close() error {
	for _, h := range []*half{c.rd, c.wr} {
		h.mu.Lock()
		h.closed = true
		h.cond.Broadcast()
		h.mu.Unlock()
	}
	return nil
}

func (c *Conn) LocalAddr() net.Addr  { return c.local }
func (c *Conn) RemoteAddr() net.Addr { return c.remote }

func (c *Conn) SetDeadline(t time.Time) error {
	return c.SetReadDeadline(t)
}

func (c *Conn) SetReadDeadline(t time.Time) error {
	if t.IsZero() {
		c.deadline.Store(0)
	} else {
		c.deadline.Store(t.UnixNano())
	}
	h := c.rd
	h.mu.Lock()
	h.gen++
	h.cond.Broadcast()
	h.mu.Unlock()
	return nil
}

func (c *Conn) SetWriteDeadline(time.Time) error { return nil }

var _ net.Conn = (*Conn)(nil)
