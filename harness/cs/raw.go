package cs

import (
	"crypto/sha1"
	"encoding/binary"
	"fmt"
	"hash/crc32"
	"io"
	"log"
	"math/rand"
	"net"
	"os"
	"regexp"
	"runtime"
	"sort"
	"strings"
	"sync/atomic"
	"time"

	"github.com/apmckinlay/gsuneido/core"
	"github.com/apmckinlay/gsuneido/dbms"
)

// RealStderr is the process's stderr; Quiet() points os.Stderr at /dev/null so
// that the server's stack dumps for refused requests do not flood the runner
var RealStderr = os.Stderr

func Quiet() {
	log.SetOutput(logWatch{})
	if os.Getenv("VERIF_DEBUG") != "" {
		return
	}
	if f, err := os.OpenFile(os.DevNull, os.O_WRONLY, 0); err == nil {
		os.Stderr = f
	}
}

// logWatch discards the log but remembers the message of core.Fatal
// (which logs "FATAL: ..." and then calls core.Exit)
type logWatch struct{}

var lastFatal atomic.Value

func (logWatch) Write(p []byte) (int, error) {
	if i := strings.Index(string(p), "FATAL: "); i >= 0 {
		lastFatal.Store(strings.TrimSpace(string(p[i+7:])))
	}
	if os.Getenv("VERIF_DEBUG") != "" {
		RealStderr.Write(p)
	}
	return len(p), nil
}

// ServerFatal receives the messages of core.Fatal calls other than the mux
// client's "lost connection" (i.e. the SERVER process would have exited)
var ServerFatal = make(chan string, 16)

// NClientLost counts "lost connection" fatals of real mux clients
var NClientLost atomic.Int32

// InstallExit replaces core.Exit (process exit after core.Fatal): the calling
// goroutine ends instead; a server-side fatal is reported on ServerFatal.
func InstallExit() {
	core.Exit = func(code int) {
		msg, _ := lastFatal.Load().(string)
		if strings.HasPrefix(msg, "lost connection") {
			NClientLost.Add(1)
		} else {
			select {
			case ServerFatal <- msg:
			default:
			}
		}
		runtime.Goexit()
	}
}

// Fatal reports a harness (infrastructure) error: exit status 2, never a violation
func Fatal(format string, a ...any) {
	fmt.Fprintf(RealStderr, "HARNESS-ERROR: "+format+"\n", a...)
	if os.Getenv("VERIF_DEBUG") != "" {
		buf := make([]byte, 1<<20)
		RealStderr.Write(buf[:runtime.Stack(buf, true)])
	}
	os.Exit(2)
}

// ---------------------------------------------------------------- encoding
// (the wire encoding of dbms/mux/readwrite.go, written independently)

type Enc struct{ B []byte }

func (e *Enc) Byte(b byte) *Enc { e.B = append(e.B, b); return e }
func (e *Enc) Bool(b bool) *Enc {
	if b {
		return e.Byte(1)
	}
	return e.Byte(0)
}
func (e *Enc) Int(i int64) *Enc {
	i = (i << 1) ^ (i >> 63)
	n := uint64(i)
	for n > 0x7f {
		e.B = append(e.B, byte(n|0x80))
		n >>= 7
	}
	e.B = append(e.B, byte(n))
	return e
}
func (e *Enc) Str(s string) *Enc { e.Int(int64(len(s))); e.B = append(e.B, s...); return e }
func (e *Enc) Val(v core.Value) *Enc {
	return e.Str(core.PackValue(v))
}

// Dec decodes a response; errors are reported through ok=false (never panics)
type Dec struct {
	B   []byte
	Bad bool
}

func (d *Dec) Byte() byte {
	if len(d.B) == 0 {
		d.Bad = true
		return 0
	}
	b := d.B[0]
	d.B = d.B[1:]
	return b
}
func (d *Dec) Bool() bool { return d.Byte() == 1 }
func (d *Dec) Int() int64 {
	shift := uint(0)
	n := uint64(0)
	for {
		if len(d.B) == 0 {
			d.Bad = true
			return 0
		}
		b := d.Byte()
		n |= uint64(b&0x7f) << shift
		shift += 7
		if b&0x80 == 0 {
			break
		}
	}
	return int64(n>>1) ^ -int64(n&1)
}
func (d *Dec) Str() string {
	n := int(d.Int())
	if n < 0 || n > len(d.B) {
		d.Bad = true
		return ""
	}
	s := string(d.B[:n])
	d.B = d.B[n:]
	return s
}

// ---------------------------------------------------------------- raw protocol speaker

// Raw is a protocol-level client: it writes mux frames itself, so it can send any
// command code with any bytes, fragmented in any way, and survives closed connections.
type Raw struct {
	C      net.Conn // TLS connection
	Pipe   *Conn
	Addr   string
	Dead   bool
	rnd    *rand.Rand
	parts  map[uint32][]byte
	Frames int
}

func NewRaw(d *dbms.DbmsLocal, addr string, seed int64) *Raw {
	ch := Chunking{Seed: seed, MaxRead: 700, MaxWrite: 900}
	tc, p, err := Serve(d, addr, ch, Chunking{Seed: seed + 7, MaxRead: 1100, MaxWrite: 500})
	if err != nil {
		Fatal("connect: %v", err)
	}
	return &Raw{C: tc, Pipe: p, Addr: addr, rnd: rand.New(rand.NewSource(seed)), parts: map[uint32][]byte{}}
}

func (r *Raw) Close() {
	r.Dead = true
	r.C.Close()
	r.Pipe.Close()
}

// Send writes one message for session sid, cut into 1..3 frames
func (r *Raw) Send(sid uint32, msg []byte) error {
	nfr := 1
	if len(msg) > 1 && r.rnd.Intn(3) == 0 {
		nfr = 2 + r.rnd.Intn(2)
	}
	for i := 0; i < nfr; i++ {
		n := len(msg)
		final := byte(1)
		if i < nfr-1 {
			n = r.rnd.Intn(len(msg) + 1)
			final = 0
		}
		buf := make([]byte, hdrSize, hdrSize+n)
		binary.BigEndian.PutUint32(buf, uint32(n))
		binary.BigEndian.PutUint32(buf[4:], sid)
		buf[8] = final
		buf = append(buf, msg[:n]...)
		msg = msg[n:]
		r.Frames++
		if _, err := r.C.Write(buf); err != nil {
			r.Dead = true
			return err
		}
	}
	return nil
}

// SendFrame writes one hand-made frame: the header may lie about the size
func (r *Raw) SendFrame(sid uint32, payload []byte, final byte, claimSize int) error {
	buf := make([]byte, hdrSize, hdrSize+len(payload))
	binary.BigEndian.PutUint32(buf, uint32(claimSize))
	binary.BigEndian.PutUint32(buf[4:], sid)
	buf[8] = final
	buf = append(buf, payload...)
	r.Frames++
	if _, err := r.C.Write(buf); err != nil {
		r.Dead = true
		return err
	}
	return nil
}

// Recv reads frames until a complete message for sid arrived.
// Returns nil, err when the connection was closed or timed out.
func (r *Raw) Recv(sid uint32, timeout time.Duration) ([]byte, error) {
	r.C.SetReadDeadline(time.Now().Add(timeout))
	defer r.C.SetReadDeadline(time.Time{})
	hdr := make([]byte, hdrSize)
	for {
		if _, err := io.ReadFull(r.C, hdr); err != nil {
			if !os.IsTimeout(err) {
				r.Dead = true
			}
			return nil, err
		}
		size := int(binary.BigEndian.Uint32(hdr))
		id := binary.BigEndian.Uint32(hdr[4:])
		if size > 4<<20 {
			Fatal("raw client: absurd frame size %d", size)
		}
		data := make([]byte, size)
		if _, err := io.ReadFull(r.C, data); err != nil {
			if !os.IsTimeout(err) {
				r.Dead = true
			}
			return nil, err
		}
		r.parts[id] = append(r.parts[id], data...)
		if hdr[8] == 1 {
			msg := r.parts[id]
			delete(r.parts, id)
			if id == sid {
				if msg == nil {
					msg = []byte{}
				}
				return msg, nil
			}
			// a response for another session of this connection: not ours, drop it
			// (the drivers are sequential, so this is itself suspicious)
			return nil, fmt.Errorf("response for session %d while waiting for %d", id, sid)
		}
	}
}

// ---------------------------------------------------------------- observation

// AuthString builds the Auth argument the way a client does
func AuthString(user, passhash, nonce string) string {
	h := sha1.Sum([]byte(nonce + passhash))
	return user + "\x00" + string(h[:])
}

// IntDigest maps a string to a positive 30 bit integer (TLC has 32 bit ints)
func IntDigest(s string) int {
	return int(crc32.ChecksumIEEE([]byte(s)) & 0x3fffffff)
}

var connRx = regexp.MustCompile(`(?s)<li>([^<]*)</li>\r\n<ul>\r\n(.*?)</ul>\r\n`)
var sessRx = regexp.MustCompile(`<li>([^<]*)</li>`)

// ServerConns parses dbms.Conns(): remote address -> sorted session ids
func ServerConns() map[string][]string {
	html := dbms.Conns()
	i := strings.Index(html, "<ul>")
	if i < 0 {
		return nil
	}
	m := map[string][]string{}
	for _, cm := range connRx.FindAllStringSubmatch(html[i+6:], -1) {
		var ss []string
		for _, sm := range sessRx.FindAllStringSubmatch(cm[2], -1) {
			ss = append(ss, sm[1])
		}
		sort.Strings(ss)
		m[cm[1]] = append(m[cm[1]], ss...)
	}
	return m
}

// OthersDigest is a digest of all connections and their sessions except addr
func OthersDigest(m map[string][]string, except string) int {
	var keys []string
	for k := range m {
		if k != except {
			keys = append(keys, k)
		}
	}
	sort.Strings(keys)
	var sb strings.Builder
	for _, k := range keys {
		sb.WriteString(k)
		sb.WriteString("{")
		sb.WriteString(strings.Join(m[k], "|"))
		sb.WriteString("}")
	}
	return IntDigest(sb.String())
}

// DbDigest is a digest of the logical database: every table's schema and rows
func DbDigest(d *dbms.DbmsLocal, th *core.Thread) (dig int, err any) {
	defer func() {
		if e := recover(); e != nil {
			err = e
		}
	}()
	t := d.Transaction(false)
	defer t.Complete()
	q := t.Query("tables", nil)
	hdr := q.Header()
	var names []string
	for {
		row, _ := q.Get(th, core.Next)
		if row == nil {
			break
		}
		names = append(names, core.ToStr(row.GetVal(hdr, "table", th, nil)))
	}
	sort.Strings(names)
	h := crc32.NewIEEE()
	for _, name := range names {
		io.WriteString(h, name)
		io.WriteString(h, d.Schema(name))
		tq := t.Query(name, nil)
		n := 0
		for {
			row, _ := tq.Get(th, core.Next)
			if row == nil {
				break
			}
			for _, r := range row {
				io.WriteString(h, string(r.Record))
				h.Write([]byte{0xfe})
			}
			n++
		}
		fmt.Fprintf(h, "#%d;", n)
	}
	return int(h.Sum32() & 0x3fffffff), nil
}
