module verifharness

go 1.26.5

require github.com/apmckinlay/gsuneido v0.0.0

replace github.com/apmckinlay/gsuneido => /repo
